"""C14 — imports resolve the same everywhere and respect visibility.

proof:   coq/C14/Props.v over the hand model coq/C14/Model.v (three resolvers + spec over an abstract
         finite file system, the four work-list / recursive collectors with explicit fuel, the
         visibility rules of check_with_imports).
tie:     correspondence: directory trees are written under /verif/build/c14-<pid>/, the REAL
         collect_modules / resolve_import_path / ModuleResolver / ModuleCollector / in-process LSP /
         type checker run on them through `vharness run c14`, the model runs inside coqc
         (vm_compute) on the same trees, results are compared file by file.
oracle:  the real resolvers against each other (CLI vs LSP rule vs ModuleResolver) on every import;
         the real type check against the generator's ground truth (is the referenced item `pub`?);
         cycles / missing modules must end with a diagnostic, in bounded time, without a crash."""
import itertools
import json
import os
import re
import resource
import shutil
import subprocess
import time

import vlib

LEVEL = "proof"

NAMES = {"src": 1, "mod": 2, "__init__": 3, "std": 4, "main": 5}
_next = [10]


def code(name):
    if name not in NAMES:
        NAMES[name] = _next[0]
        _next[0] += 1
    return NAMES[name]


def zl(xs):
    return "[" + "; ".join(str(x) for x in xs) + "]"


def cb(b):
    return "true" if b else "false"


# ----------------------------------------------------------------------------- trees on disk

class Tree:
    """A directory tree under <scratch>/<name>. files: relpath -> text. Every source file starts with
    `# F <relpath>`. dirs: extra (possibly empty) directories; cargo: dirs with a Cargo.toml."""

    def __init__(self, scratch, name):
        self.name = name
        self.root = os.path.join(scratch, name)
        self.files = {}
        self.dirs = set()
        self.cargo = set()
        self.imports = {}  # relpath -> list of import records (kind, abs, levels, segs)

    def add(self, relpath, body="", imports_text=()):
        text = "# F %s\n" % relpath
        for t in imports_text:
            text += t + "\n"
        text += body
        self.files[relpath] = text

    def write(self):
        os.makedirs(self.root, exist_ok=True)
        for d in sorted(self.dirs):
            os.makedirs(os.path.join(self.root, d), exist_ok=True)
        for d in sorted(self.cargo):
            os.makedirs(os.path.join(self.root, d), exist_ok=True)
            open(os.path.join(self.root, d, "Cargo.toml"), "w").write("[package]\nname = \"x\"\n")
        for rp, text in self.files.items():
            p = os.path.join(self.root, rp)
            os.makedirs(os.path.dirname(p), exist_ok=True)
            open(p, "w").write(text)

    def replay(self, cmds, skip=None):
        """a self-contained description (same format as a known-finding witness) that re-creates this
        tree (without the entry files of other cases) and re-runs `cmds` on the real code"""
        files = {rp: text.split("\n", 1)[1] for rp, text in self.files.items() if not (skip and skip(rp))}
        for d in self.cargo:
            files[os.path.join(d, "Cargo.toml")] = ""
        for d in self.dirs:
            files[os.path.join(d, ".keep")] = ""
        return {"files": files, "cwd": "", "cmds": [c.replace(self.root, "{root}") for c in cmds]}

    # --- model side
    def absdir(self, reldir):
        """model directory (list of name codes) of <root>/<reldir>; components of the scratch root
        live in their own name space ("/x") so they never collide with generated names"""
        return [code("/" + c) for c in self.root.split("/") if c] + [code(c) for c in reldir.split("/") if c and c != "."]

    def mpath(self, relpath):
        d, f = os.path.split(relpath)
        stem, e = f.rsplit(".", 1)
        return "(P %s %d %s)" % (zl(self.absdir(d)), code(stem), "Incn" if e == "incn" else "Incan")

    def rendered(self, relpath):
        d, f = os.path.split(relpath)
        stem, e = f.rsplit(".", 1)
        return [0 if e == "incn" else 1, code(stem)] + self.absdir(d)

    def fs_term(self):
        ents = ["File %s" % self.mpath(rp) for rp in sorted(self.files)]
        ents += ["Cargo %s" % zl(self.absdir(d)) for d in sorted(self.cargo)]
        ents += ["Dir %s" % zl(self.absdir(d)) for d in sorted(self.dirs)]
        return "[" + "; ".join(ents) + "]"


OTHER_IMPORTS = ["import rust::serde_json", "from rust::std::time import Instant, Duration", "import rust::serde_json::Value as V",
                 'import python "requests" as pyreq']


def imp_term(rec):
    k, ab, lv, segs = rec
    if k == "O":      # rust / python imports: no resolver follows them (the model's `skip` arm)
        return "(I KFrom false 0 [])"
    return "(I %s %s %d %s)" % ("KModule" if k == "M" else "KFrom", cb(ab), lv, zl([code(s) for s in segs]))


def import_text(rng, k, ab, lv, segs, item="zz", alias=None, style=None):
    """One of the equivalent spellings of an import record."""
    if k == "O":
        return OTHER_IMPORTS[lv % len(OTHER_IMPORTS)]
    style = style if style is not None else rng.randrange(4)
    sep = "::" if style & 1 else "."
    pre = ""
    if ab:
        pre = "crate" + sep
    elif lv:
        if k == "F" and lv == 1 and style & 2:
            pre = ".."
        elif k == "F" and lv == 2 and style & 2:
            pre = "..super" + sep  # `..` then `super`: one level each
        else:
            pre = ("super" + sep) * lv
    body = pre + sep.join(segs)
    if not segs:
        body = pre[:-len(sep)] if pre.endswith("super" + sep) or pre.endswith("crate" + sep) else pre    # `import super`, `from .. import x`
    if k == "M":
        return "import " + body + (" as " + alias if alias else "")
    return "from " + body + " import " + item


# ----------------------------------------------------------------------------- harness I/O

def _limits():
    resource.setrlimit(resource.RLIMIT_AS, (4 << 30, 4 << 30))


def run_c14(binary, root, lines, timeout, case_limit_ms=None):
    """Run one batch. Returns (result lines produced so far, status): status 'ok' when every line was
    answered; 'hang' when the harness watchdog stopped at a case that ran longer than the per-case limit
    (last line is HANG); 'timeout' / 'died:<rc>' when the process was killed or crashed (the next
    unanswered line is the culprit)."""
    env = dict(os.environ)
    if case_limit_ms:
        env["C14_CASE_LIMIT_MS"] = str(case_limit_ms)
    try:
        p = subprocess.run([binary, "run", "c14", root], input="\n".join(lines) + "\n", capture_output=True,
                           text=True, timeout=timeout, preexec_fn=_limits, env=env)
        rc, so, se = p.returncode, p.stdout, p.stderr
    except subprocess.TimeoutExpired as e:
        so = e.stdout.decode() if isinstance(e.stdout, bytes) else (e.stdout or "")
        rc, se = "timeout", ""
    out = [l for l in so.split("\n") if l]
    if rc == 0 and len(out) == len(lines):
        return out, "ok"
    if rc == 4 and out and out[-1] == "HANG":
        return out, "hang"
    if rc == "timeout":
        return out, "timeout"
    return out, "died:%s %s" % (rc, se[-300:])


ABNORMAL = ("HANG", "DIED")
SLOW_LIMIT_MS = 300000      # second opinion for a case that hit the 10 s watchdog: alone, 30x the limit


def _confirm(binary, root, line):
    """A case did not answer within the first (tight, load-sensitive) limit. Run it ALONE with a limit 30 times
    larger. Only a case that fails again is a genuine hang/crash of the real code (a C14 violation); a case that
    answers now was merely slow (machine under load) and its answer is used."""
    parts = line.split("\t")
    if parts[0] == "checkcli" and len(parts) >= 4:
        parts[3] = str(SLOW_LIMIT_MS)
        line = "\t".join(parts)
    out, st = run_c14(binary, root, [line], timeout=SLOW_LIMIT_MS / 1000.0 + 120, case_limit_ms=SLOW_LIMIT_MS)
    if st == "ok" and not out[0].startswith(ABNORMAL) and out[0] != "TIMEOUT":
        return out[0], True
    return (out[-1] if out and st == "hang" else ("HANG (process timeout)" if st == "timeout" else "DIED " + st)), False


def run_lines(chk, binary, root, lines):
    """Run all lines. Wall-clock limits are never allowed to decide a verdict on their own: a case that exceeds
    the 10 s watchdog (or the 30 s child-process limit of `checkcli`, or kills the harness) is re-run alone with a
    300 s limit; if it answers, that answer is used (counted in coverage["slow_cases_retried"]); only a case that
    fails twice gets 'HANG' / 'DIED ...' — for C14 a property violation (cycles must not hang), with a replay.
    An LSP drain timeout inside the harness is reported as `ERR LSP-TIMEOUT` and raises vlib.Infra."""
    res = []
    remaining = list(lines)
    genuine = 0
    retried = 0
    t0 = time.time()
    while remaining:
        out, st = run_c14(binary, root, remaining, timeout=900 + len(remaining) * 2.0)
        if st == "ok":
            res += out
            break
        if st == "hang":
            answered = out[:-1]
        else:
            answered = out[:len(remaining) - 1]
        culprit = remaining[len(answered)]
        r, ok = _confirm(binary, root, culprit)
        retried += 1
        if not ok:
            genuine += 1
        res += answered + [r]
        remaining = remaining[len(answered) + 1:]
        if retried > 40:
            raise vlib.Infra("c14 harness: more than 40 cases exceeded the 10 s per-case limit (machine overloaded?); last: %r" % culprit[:200])
        if genuine >= 4:
            # enough failing inputs: do not spend minutes on each further hanging case
            res += ["SKIPPED"] * len(remaining)
            break
    # the child-process limit of `checkcli`
    for i, (l, r) in enumerate(zip(lines, res)):
        if l.startswith("checkcli\t") and r == "TIMEOUT":
            res[i], ok = _confirm(binary, root, l)
            retried += 1
    for r in res:
        if r.startswith("ERR LSP-TIMEOUT"):
            raise vlib.Infra("the in-process language server did not deliver its notifications within 120 s (machine overloaded?)")
    chk.coverage["slow_cases_retried"] = chk.coverage.get("slow_cases_retried", 0) + retried
    vlib.log("[c14] harness: %d lines in %.1fs, %d re-run alone after a limit, %d confirmed abnormal" % (len(lines), time.time() - t0, retried, genuine))
    return res


def parse_path_result(tree, s):
    """`S rel/path.incn` | `N` -> rendered model value."""
    if s == "N":
        return []
    assert s.startswith("S "), s
    rp = s[2:]
    pre = tree.name + "/"
    if not rp.startswith(pre):
        return ["outside", rp]
    return [1] + tree.rendered(rp[len(pre):])


def parse_modules(tree, s):
    """`OK name,seg.seg,id;...` -> (0, [(rendered path, [segs])]) ; `ERR ...` -> ('err', text)"""
    if not s.startswith("OK"):
        return ("err", s)
    mods = []
    body = s[3:]
    for m in [x for x in body.split(";") if x]:
        name, segs, fid = m.split(",")
        segl = [x for x in segs.split(".") if x]
        if name != "_".join(segl):
            return ("err", "module name %r is not the join of %r" % (name, segl))
        mods.append((tree.rendered(fid) if fid in tree.files else ["?", fid], [code(x) for x in segl]))
    return (0, mods)


# ----------------------------------------------------------------------------- part A: single imports

SEGN = ["a", "b", "c"]


def gen_tree_A(rng, scratch, k):
    t = Tree(scratch, "t%d" % k)
    dirs = [""]
    for d1 in SEGN + ["src"]:
        if rng.random() < 0.55:
            dirs.append(d1)
            for d2 in SEGN:
                if rng.random() < 0.4:
                    dirs.append(d1 + "/" + d2)
                    for d3 in SEGN[:2]:
                        if rng.random() < 0.3:
                            dirs.append(d1 + "/" + d2 + "/" + d3)
    for d in dirs:
        for stem in SEGN + ["mod", "__init__", "main", "a_b"]:
            for e in ("incn", "incan"):
                pr = {"mod": 0.3, "__init__": 0.15, "main": 0.1, "a_b": 0.15}.get(stem, 0.3) * (0.5 if e == "incan" else 1.0)
                if rng.random() < pr:
                    t.add(os.path.join(d, stem + "." + e), "pub def zz() -> int:\n    return 1\n")
    for d in dirs:
        if rng.random() < 0.12:
            t.cargo.add(d)
        if rng.random() < 0.25:
            t.dirs.add(d)
    return t, dirs


def gen_import(rng):
    k = rng.choice("MF")
    r = rng.random()
    if r < 0.04:
        return ("O", False, rng.randrange(len(OTHER_IMPORTS)), [])
    ab = r < 0.17
    lv = 0 if ab or r < 0.6 else rng.choice([1, 1, 2, 3, 3, 5, 9, 17])     # 9, 17: above the file-system root
    n = rng.choice([1, 1, 2, 2, 3])
    pool = SEGN + (["mod"] if rng.random() < 0.1 else []) + (["main"] if rng.random() < 0.05 else []) + (["a_b"] if rng.random() < 0.1 else [])
    segs = [rng.choice(pool) for _ in range(n)]
    if rng.random() < 0.03:
        segs[0] = "std"
    if lv and rng.random() < 0.06:
        segs = []                      # `import super` / `from .. import x`: nothing to resolve
    return (k, ab, lv, segs)


def arm(chk, name, n=1):
    h = chk.coverage.setdefault("model_arm_hits", {})
    h[name] = h.get(name, 0) + n


def _arms_resolve(chk, t, c, rec, results, flags):
    """which arm of each modelled resolver this case went through (read off the model's own result)"""
    k, ab, lv, segs = rec
    skip = k == "O" or not segs or segs[0] == "std"
    depth = len(t.absdir(c["idir"]))
    tgt = "skip" if skip else ("target:crate" if ab else "target:levels=0" if lv == 0 else "target:levels<=depth" if lv <= depth else "target:levels>depth(stuck at root)")
    arm(chk, "target_dir/" + tgt)
    arm(chk, "msegs/" + ("from" if k != "M" else "module,1 segment" if len(segs) <= 1 else "module,drop last"))
    for name, r in results.items():
        if skip:
            a = "skip:" + ("other-kind" if k == "O" else "empty" if not segs else "std")
        elif not r:
            a = "none"
        else:
            ext, stem = r[1], r[2]
            last = (segs[:-1] if (k == "M" and len(segs) > 1 and name != "rip") else segs)[-1]
            if stem == code("mod") and last != "mod":
                a = "mod." + ("incn" if ext == 0 else "incan")
            elif stem == code("__init__") and last != "__init__":
                a = "__init__.incn"
            else:
                a = "file." + ("incn" if ext == 0 else "incan")
        arm(chk, name + "/" + a)
    for nm, f in zip(("k_multi", "k_modonly", "k_nested", "k_mr_only"), flags):
        arm(chk, nm + ("/true" if f else "/false"))
    arm(chk, "rl/" + ("absolute entry" if c["ab"] else "relative entry"))


def part_A(chk, binary, scratch, res_broken):
    rng = chk.rng
    n_trees = 24 if chk.tier == "quick" else 80
    per_tree = 40 if chk.tier == "quick" else 50
    trees, cases = [], []
    for k in range(n_trees):
        t, dirs = gen_tree_A(rng, scratch, k)
        trees.append(t)
        module_files = sorted(t.files)
        for j in range(per_tree):
            rec = gen_import(rng)
            edir = rng.choice(dirs)
            nested = None
            if rng.random() < 0.3:
                # the import stands in a file of another directory that the entry imports
                below = [d for d in dirs if d != edir and (edir == "" or d.startswith(edir + "/"))]
                if below:
                    nested = rng.choice(below)
            if module_files and rng.random() < 0.4:
                # aimed at an existing file, from the importing file's or from the entry's directory
                rs = rel_segs(rng.choice([edir, nested if nested is not None else edir]), rng.choice(module_files))
                if rs:
                    kd = rng.choice("FFM")
                    rec = (kd, False, rs[0], rs[1] + (["zz"] if kd == "M" and rng.random() < 0.7 else []))
            stem = "zq%d" % j
            text = import_text(rng, *rec)
            if nested is None:
                t.add(os.path.join(edir, stem + ".incn"), "def main() -> None:\n    pass\n", [text])
                idir = edir
            else:
                nstem = "zn%d" % j
                relsegs = [c for c in nested[len(edir):].split("/") if c] + [nstem]
                t.add(os.path.join(nested, nstem + ".incn"), "pub def zz() -> int:\n    return 1\n", [text])
                t.add(os.path.join(edir, stem + ".incn"), "def main() -> None:\n    pass\n",
                      ["from " + ".".join(relsegs) + " import zz"])
                idir = nested
            # how the entry is spelled on the command line
            comps = [c for c in edir.split("/") if c]
            sp = rng.random()
            if sp < 0.5:
                cwd_rel, ab = None, True
            else:
                cut = rng.randrange(len(comps) + 1)
                cwd_rel, ab = "/".join(comps[:cut]), False
            cases.append({"tree": t, "rec": rec, "text": text, "edir": edir, "idir": idir, "stem": stem,
                          "nested": nested is not None, "cwd_rel": cwd_rel, "ab": ab,
                          "nstem": None if nested is None else "zn%d" % j})
    # marker lattice (added after seed C14-4): the importing file sits three directories deep and every ancestor level carries
    # no marker / Cargo.toml / src/ / both, in all 64 combinations, with a module `m` at every directory a `crate` import could
    # be anchored at.  The random trees above only ever have `src` at the top level, so "nearest marker of either kind" and
    # "nearest Cargo.toml, else nearest src/" could not be told apart.
    levels = ["h", "h/app", "h/app/sub"]
    for ci, combo in enumerate(itertools.product(("none", "cargo", "src", "both"), repeat=3)):
        t = Tree(scratch, "lat%d" % ci)
        for L, mk in zip(levels, combo):
            t.add(L + "/m.incn", "pub def zz() -> int:\n    return 1\n")
            if mk in ("cargo", "both"):
                t.cargo.add(L)
            if mk in ("src", "both"):
                t.add(L + "/src/m.incn", "pub def zz() -> int:\n    return 1\n")
        rec = ("F" if ci % 2 == 0 else "M", True, 0, ["m"] if ci % 2 == 0 else ["m", "zz"])
        text = import_text(rng, *rec)
        t.add(levels[2] + "/zq0.incn", "def main() -> None:\n    pass\n", [text])
        trees.append(t)
        cases.append({"tree": t, "rec": rec, "text": text, "edir": levels[2], "idir": levels[2], "stem": "zq0", "nested": False,
                      "cwd_rel": None if ci % 3 else "h/app", "ab": bool(ci % 3), "nstem": None})
    for t in trees:
        t.write()
    # --- real code
    lines = []
    for c in cases:
        t = c["tree"]
        entry_abs = os.path.join(t.root, c["edir"], c["stem"] + ".incn")
        if c["ab"]:
            cwd, entry = "", entry_abs
        else:
            cwd = os.path.normpath(os.path.join(t.root, c["cwd_rel"]))
            entry = os.path.relpath(entry_abs, cwd)
        c["cwd"], c["entry"] = cwd, entry
        lines.append("imp\t" + c["text"])
        lines.append("rip\t%s\t%s" % (os.path.normpath(os.path.join(t.root, c["idir"])), c["text"]))
        lines.append("cli\t%s\t%s" % (cwd, entry))
        lines.append("mr\t%s\t%s" % (cwd, entry))
    out = run_lines(chk, binary, scratch, lines)
    # --- model
    defs = "\n".join("Definition fs_%s : fsys := %s." % (t.name, t.fs_term()) for t in trees)
    terms = []
    for c in cases:
        t = c["tree"]
        if c["ab"]:
            cwdl, b = [], t.absdir(c["edir"])
        else:
            cwdl = t.absdir(c["cwd_rel"])
            b = [code(x) for x in os.path.dirname(c["entry"]).split("/") if x]
        terms.append("run_resolve fs_%s %s %s %s %s %s" % (t.name, zl(cwdl), cb(c["ab"]), zl(b), zl(t.absdir(c["idir"])), imp_term(c["rec"])))
    req = "From Coq Require Import ZArith List Bool.\nImport ListNotations.\nFrom Verif Require Import C14.Model.\nOpen Scope Z_scope."
    model = vlib.coq_eval(req, "(list Z * list Z * list Z * list Z) * list Z", "fun x => x", terms, tag="c14a", extra_defs=defs, shard=120)
    # --- compare
    fails, corr_bad, known_seen = [], [], {}
    dist = {}
    for n, c in enumerate(cases):
        t = c["tree"]
        o_imp, o_rip, o_cli, o_mr = out[4 * n:4 * n + 4]
        rec = c["rec"]
        want_imp = "K %s %d %d %s" % (rec[0], 1 if rec[1] else 0, rec[2], ".".join(rec[3])) if rec[0] != "O" else "K O 0 0"
        desc = {"tree": t.name, "import": c["text"], "entry_dir": c["edir"], "import_in_dir": c["idir"],
                "cwd": c["cwd"], "entry": c["entry"], "files": sorted(f for f in t.files if not re.search(r"/?z[qn]\d+\.", f)),
                "cargo": sorted(t.cargo), "dirs": sorted(t.dirs)}
        mine = (c["stem"] + ".", (c["nstem"] or c["stem"]) + ".")
        desc["replay"] = t.replay(lines[4 * n:4 * n + 4], skip=lambda rp: re.match(r"z[qn]\d+\.", os.path.basename(rp)) and not os.path.basename(rp).startswith(mine))
        for tag, o in (("rip", o_rip), ("cli", o_cli), ("mr", o_mr), ("imp", o_imp)):
            if o.startswith(("HANG", "DIED", "PANIC")):
                fails.append(dict(desc, why="%s: the real code did not return normally: %s" % (tag, o)))
        if any(o.startswith(("HANG", "DIED", "PANIC", "SKIPPED")) for o in (o_imp, o_rip, o_cli, o_mr)):
            continue
        if o_imp.rstrip() != want_imp.rstrip():
            fails.append(dict(desc, why="spelling parsed to %r, expected %r (equivalent spellings must denote the same import)" % (o_imp, want_imp)))
            continue
        r_rip = parse_path_result(t, o_rip)

        def dep_of(o):
            m = parse_modules(t, o)
            if m[0] != 0:
                return ("err", m[1])
            mods = m[1]
            entry_r = t.rendered(os.path.join(c["edir"], c["stem"] + ".incn"))
            others = [x for x in mods if x[0] != entry_r]
            if c["nested"]:
                nr = t.rendered(os.path.join(c["idir"], c["nstem"] + ".incn"))
                if not any(x[0] == nr for x in others):
                    return ("err", "the nested importer was not loaded: " + o)
                others = [x for x in others if x[0] != nr]
            if len(others) > 1:
                return ("err", "more than one file loaded for one import: " + o)
            return [1] + others[0][0] if others else []
        r_cli, r_mr = dep_of(o_cli), dep_of(o_mr)
        m_cli, m_rip, m_mr, m_spec, flags = model[n]
        m_cli, m_rip, m_mr, m_spec = list(m_cli), list(m_rip), list(m_mr), list(m_spec)
        f_multi, f_modonly, f_nested, f_mronly = [bool(x) for x in flags]
        _arms_resolve(chk, t, c, rec, {"cli_resolve": m_cli, "rip": m_rip, "mr_resolve": m_mr, "spec_resolve": m_spec}, flags)
        key = "%s abs=%d lv=%d n=%d nested=%d rel=%d" % (rec[0], rec[1], rec[2], len(rec[3]), c["nested"], not c["ab"])
        dist[key] = dist.get(key, 0) + 1
        chk.count_case((t.name, c["text"], c["edir"], c["idir"], c["cwd"]), nontrivial=bool(r_rip or (isinstance(r_cli, list) and r_cli)))
        # nested cases: the ModuleResolver/CLI resolve the entry's own import first; when the nested
        # importer cannot be reached by them the case says nothing about the inner import
        for tag, real, mod in (("resolve_import_path", r_rip, m_rip), ("collect_modules", r_cli, m_cli), ("ModuleResolver", r_mr, m_mr)):
            if isinstance(real, tuple):
                if c["nested"] and "nested importer was not loaded" in real[1]:
                    continue
                corr_bad.append(dict(desc, which=tag, impl=real[1], model=mod))
            elif real != mod:
                corr_bad.append(dict(desc, which=tag, impl=real, model=mod))
        if isinstance(r_cli, tuple) or isinstance(r_mr, tuple):
            continue
        # oracle: the real resolvers against each other
        if r_cli != r_rip:
            cls = [n_ for n_, f in (("import-last-segment", f_multi), ("mod-file-cli", f_modonly), ("nested-base", f_nested)) if f]
            lst = [x for x in cls if listed(chk, x)]
            if lst:
                for x in lst:
                    known_seen[x] = known_seen.get(x, 0) + 1
            else:
                fails.append(dict(desc, why="CLI and LSP resolve this import to different files", cli=r_cli, lsp=r_rip, classes=cls))
        if r_mr != r_cli:
            if f_mronly and listed(chk, "module-resolver-candidates"):
                known_seen["module-resolver-candidates"] = known_seen.get("module-resolver-candidates", 0) + 1
            else:
                fails.append(dict(desc, why="ModuleResolver and the CLI resolve this import to different files", cli=r_cli, module_resolver=r_mr))
    chk.coverage["A_distribution"] = dist
    chk.coverage["A_cases"] = len(cases)
    chk.coverage["A_known_class_hits"] = known_seen
    for c in cases[:4]:
        chk.sample("%s | entry dir %r | cwd %r" % (c["text"], c["edir"], c["cwd"]))
    return fails, corr_bad, len(cases) * 3



# ----------------------------------------------------------------------------- part B: collectors

def tbl_term(t):
    rows = []
    for rp in sorted(t.files):
        recs = t.imports.get(rp, [])
        rows.append("(%s, [%s])" % (t.mpath(rp), "; ".join(imp_term(r) for r in recs)))
    return "[" + "; ".join(rows) + "]"


def rel_segs(frm_dir, to_file):
    """import record that reaches to_file from directory frm_dir (both relative to the tree root) under
    the documented rule, or None"""
    fd = [c for c in frm_dir.split("/") if c]
    td, f = os.path.split(to_file)
    tdc = [c for c in td.split("/") if c]
    stem = f.rsplit(".", 1)[0]
    k = 0
    while k < len(fd) and k < len(tdc) and fd[k] == tdc[k]:
        k += 1
    lv = len(fd) - k
    segs = tdc[k:] + ([stem] if stem != "mod" or not tdc[k:] else [])
    if lv > 3 or not segs:
        return None
    return (lv, segs)


def gen_tree_B(rng, scratch, k, plain=False):
    """plain: one directory, `from x import zz` only — no listed class can apply, so CLI, LSP and
    ModuleResolver must load exactly the same files (the complement theorems, on the real code)"""
    t = Tree(scratch, "w%d" % k)
    dirs = [""]
    for d1 in SEGN:
        if not plain and rng.random() < 0.5:
            dirs.append(d1)
            for d2 in SEGN[:2]:
                if rng.random() < 0.4:
                    dirs.append(d1 + "/" + d2)
    if not plain and rng.random() < 0.15:
        dirs.append("src")
    files = []
    for d in dirs:
        for stem in (SEGN + ["mod"] if not plain else SEGN + ["d", "e", "g"]):
            if rng.random() < (0.45 if stem != "mod" else 0.2) + (0.25 if plain else 0):
                e = "incan" if rng.random() < 0.12 and not plain else "incn"
                files.append(os.path.join(d, stem + "." + e))
    edir = rng.choice(dirs)
    entry = os.path.join(edir, "main.incan" if (not plain and rng.random() < 0.1) else "main.incn")
    files = [f for f in files if not f.startswith(os.path.join(edir, "main."))]
    files.append(entry)
    t.entry = entry
    if not plain and rng.random() < 0.1:
        t.cargo.add(rng.choice(dirs))
    for rp in files:
        d = os.path.dirname(rp)
        recs, texts = [], []
        for _ in range(rng.choice([0, 1, 1, 2, 2, 3]) if rp != entry else rng.choice([1, 2, 3, 4])):
            r = rng.random()
            rec = None
            if r < 0.75 and files:
                target = rng.choice(files)
                base = d if rng.random() < 0.5 else edir      # LSP-style or CLI-style base
                rs = rel_segs(base, target)
                if rs:
                    kd = rng.choice("FFM")
                    segs = rs[1] + (["zz"] if kd == "M" and rng.random() < 0.7 else [])
                    rec = (kd, False, rs[0], segs)
            if plain:
                rec = ("F", False, 0, [rng.choice(SEGN + ["d", "e", "g", "h", "main"])])
            if rec is None:
                rec = gen_import(rng)
            recs.append(rec)
            texts.append(import_text(rng, *rec))
        t.imports[rp] = recs
        body = "pub def zz() -> int:\n    return 1\n" if rp != entry else "def main() -> None:\n    pass\n"
        t.add(rp, body, texts)
    return t, edir


SCALE = [0, 1, 2, 16, 17, 63, 64, 65, 255, 256, 1000]
PUBZZ = "pub def zz() -> int:\n    return 1\n"
MAIN0 = "def main() -> None:\n    pass\n"


def special_projects(chk, scratch):
    """deterministic projects that push counts and depths past plausible bounds, plus a missing entry"""
    out = []

    def mk(name, files, edir="", missing_entry=False):
        t = Tree(scratch, name)
        for rp, recs in files.items():
            t.imports[rp] = recs
            if not (missing_entry and rp == os.path.join(edir, "main.incn")):
                t.add(rp, MAIN0 if os.path.basename(rp) == "main.incn" else PUBZZ, [import_text(None, *r, style=0) for r in recs])
        t.entry = os.path.join(edir, "main.incn")
        if missing_entry:
            t.imports.pop(t.entry, None)
        # projects with more than 20 modules: in the quick tier only the real code runs on them (oracle: terminates, CLI = LSP set)
        no_model = chk.tier == "quick" and len(files) > 20
        out.append({"tree": t, "edir": edir, "ab": True, "cwd_rel": None, "plain": not no_model and False, "special": name, "no_model": no_model})

    sizes = SCALE if chk.tier == "thorough" else [n for n in SCALE if n != 255]
    for n in sizes:
        # a chain main -> m0 -> m1 -> ... -> m(n-1); odd lengths close a cycle back to m0
        files = {"main.incn": [("F", False, 0, ["m0"])] if n else []}
        for i in range(n):
            nxt = "m%d" % (i + 1) if i + 1 < n else ("m0" if n % 2 else None)
            files["m%d.incn" % i] = [("F", False, 0, [nxt])] if nxt else []
        mk("xc%d" % n, files)
        # the entry imports n modules, each of which imports its predecessor (diamonds)
        files = {"main.incn": [("F", False, 0, ["f%d" % i]) for i in range(n)]}
        for i in range(n):
            files["f%d.incn" % i] = [("F", False, 0, ["f%d" % (i - 1)])] if i else []
        if n <= 256:
            mk("xf%d" % n, files)
    for depth in (16, 17, 64):
        # a module `depth` directories down; it climbs back with `depth` x super
        chain = ["d"] * depth
        leaf = "/".join(chain) + "/leaf.incn"
        mk("xd%d" % depth, {"main.incn": [("F", False, 0, chain + ["leaf"])], leaf: [("F", False, depth, ["top"])], "top.incn": []})
    mk("xmissing", {"main.incn": [("F", False, 0, ["a"])], "a.incn": []}, missing_entry=True)
    return out


def part_B(chk, binary, scratch, res_broken):
    rng = chk.rng
    n = 90 if chk.tier == "quick" else 400
    projs = []
    for k in range(n):
        plain = rng.random() < 0.4
        t, edir = gen_tree_B(rng, scratch, k, plain)
        t.write()
        comps = [c for c in edir.split("/") if c]
        if plain or rng.random() < 0.6:
            ab, cwd_rel = True, None
        else:
            ab, cwd_rel = False, "/".join(comps[:rng.randrange(len(comps) + 1)])
        projs.append({"tree": t, "edir": edir, "ab": ab, "cwd_rel": cwd_rel, "plain": plain})
    for p in special_projects(chk, scratch):
        p["tree"].write()
        projs.append(p)
    lines = []
    for p in projs:
        t = p["tree"]
        entry_abs = os.path.join(t.root, t.entry)
        if p["ab"]:
            cwd, entry = "", entry_abs
        else:
            cwd = os.path.normpath(os.path.join(t.root, p["cwd_rel"]))
            entry = os.path.relpath(entry_abs, cwd)
        p["cwd"], p["entry"] = cwd, entry
        lines += ["cli\t%s\t%s" % (cwd, entry), "mr\t%s\t%s" % (cwd, entry), "lsp\t%s" % entry_abs,
                  "mc\t\t%s" % entry_abs, "check\t%s\t%s" % (cwd, entry)]
    out = run_lines(chk, binary, scratch, lines)
    defs, terms = [], []
    for p in projs:
        t = p["tree"]
        if p["ab"]:
            cwdl, b = [], t.absdir(p["edir"])
        else:
            cwdl = t.absdir(p["cwd_rel"])
            b = [code(x) for x in os.path.dirname(p["entry"]).split("/") if x]
        if p.get("no_model"):
            terms.append("(run_collect [] [] [] true [] 5 Incn)")
            continue
        terms.append("(run_collect (%s) (%s) %s %s %s %d %s)" % (t.fs_term(), tbl_term(t), zl(cwdl), cb(p["ab"]), zl(b), code("main"),
                                                                 "Incan" if t.entry.endswith(".incan") else "Incn"))
    req = "From Coq Require Import ZArith List Bool.\nImport ListNotations.\nFrom Verif Require Import C14.Model.\nOpen Scope Z_scope."
    ty = "(Z * list (list Z * list Z)) * (Z * list (list Z * list Z)) * (Z * list (list Z)) * (Z * list (list Z)) * bool"
    t0 = time.time()
    model = vlib.coq_eval(req, ty, "fun x => x", terms, tag="c14b", shard=6)
    vlib.log("[c14] part_B model: %d terms in %.1fs" % (len(terms), time.time() - t0))
    fails, corr_bad = [], []
    hits = {}
    dist = {"cli_modules": {}, "cycle_reported_by_ModuleCollector": 0, "cli_lsp_sets_differ": 0}
    for n_, p in enumerate(projs):
        t = p["tree"]
        o_cli, o_mr, o_lsp, o_mc, o_chk = out[5 * n_:5 * n_ + 5]
        desc = {"tree": t.name, "entry": p["entry"], "cwd": p["cwd"],
                "files": {rp: [import_text(None, *r, style=1) for r in t.imports.get(rp, [])] for rp in sorted(t.files)},
                "cargo": sorted(t.cargo)}
        desc["replay"] = t.replay(lines[5 * n_:5 * n_ + 5])
        bad = False
        for tag, o in (("collect_modules", o_cli), ("ModuleResolver", o_mr), ("LSP", o_lsp), ("ModuleCollector", o_mc), ("check", o_chk)):
            if o.startswith(("HANG", "DIED", "PANIC")):
                bad = True
                fails.append(dict(desc, why="%s did not return normally on this project (hang/crash): %s" % (tag, o[:300])))
        if bad or any(o.startswith("SKIPPED") for o in (o_cli, o_mr, o_lsp, o_mc, o_chk)):
            continue
        (mc_code, mc_items), (mm_code, mm_items), (ml_code, ml_paths), (mk_code, mk_paths), m_flag = _unflatten_B(model[n_])
        entry_r = t.rendered(t.entry)
        if p.get("no_model"):
            # oracle only: both front ends terminate and load exactly the n modules of this flat project
            r_cli = parse_modules(t, o_cli)
            ml_ = re.match(r"OK deps=(.*?) self=(\d+) diags=", o_lsp)
            n_cli = len(r_cli[1]) - 1 if r_cli[0] == 0 else -1
            n_lsp = len([x for x in ml_.group(1).split(";") if x]) if ml_ else -2
            chk.count_case((t.name, "collect-oracle"), nontrivial=True)
            want = len(t.files) - 1
            if n_cli != want or n_lsp != want:
                fails.append(dict(desc, why="a %d-module project: CLI loaded %d, LSP %d dependency files" % (want, n_cli, n_lsp)))
            continue
        for nm, cd in (("cli_collect", mc_code), ("mr_collect", mm_code), ("lsp_collect", ml_code), ("mc_collect", mk_code)):
            arm(chk, nm + "/" + {0: "Done", 1: "Failed: cannot read entry", 2: "Failed: circular import", 9: "OutOfFuel"}.get(cd, str(cd)))
        arm(chk, "any_known/" + str(bool(m_flag)).lower())
        if p.get("special") == "xmissing":
            # the entry file does not exist: every collector must report it (model: Failed 1)
            ok = (mc_code == 1 and mm_code == 1 and mk_code == 1 and o_cli.startswith("ERR Cannot access file") and
                  o_mr.startswith("ERR Error reading") and o_mc.startswith("ERR Cannot read"))
            chk.count_case((t.name, "collect"), nontrivial=True)
            if not ok:
                corr_bad.append(dict(desc, which="missing entry", impl=[o_cli[:120], o_mr[:120], o_mc[:120]], model=[mc_code, mm_code, mk_code]))
            continue
        # cli / mr
        for tag, o, mcode, mitems in (("collect_modules", o_cli, mc_code, mc_items), ("ModuleResolver", o_mr, mm_code, mm_items)):
            r = parse_modules(t, o)
            if r[0] != 0:
                corr_bad.append(dict(desc, which=tag, impl=r[1], model=[mcode, mitems]))
                continue
            impl = [[list(a), list(b)] for a, b in r[1]]
            mod = [[list(a), list(b)] for a, b in mitems]
            if mcode != 0 or impl != mod:
                corr_bad.append(dict(desc, which=tag, impl=impl, model=[mcode, mod]))
        r_cli = parse_modules(t, o_cli)
        cli_set = sorted(tuple(a) for a, _ in r_cli[1]) if r_cli[0] == 0 else None
        # lsp
        m = re.match(r"OK deps=(.*?) self=(\d+) diags=(.*)$", o_lsp)
        if not m:
            corr_bad.append(dict(desc, which="LSP", impl=o_lsp, model=[ml_code, ml_paths]))
            lsp_set = None
        else:
            deps = [x for x in m.group(1).split(";") if x]
            lsp_set = sorted(tuple(t.rendered(d[len(t.name) + 1:])) if d.startswith(t.name + "/") else ("outside", d) for d in deps)
            if int(m.group(2)) > 0:
                lsp_set = sorted(lsp_set + [tuple(entry_r)])
            if ml_code != 0 or sorted(tuple(x) for x in ml_paths) != lsp_set:
                corr_bad.append(dict(desc, which="LSP", impl=lsp_set, model=[ml_code, ml_paths]))
        # ModuleCollector
        if o_mc.startswith("OK"):
            ids = [x for x in o_mc[3:].split(";") if x]
            impl = sorted(tuple(t.rendered(i)) for i in ids)
            mod = sorted(tuple(x) for x in mk_paths if list(x) != entry_r)
            if mk_code != 0 or impl != mod:
                corr_bad.append(dict(desc, which="ModuleCollector", impl=impl, model=[mk_code, mk_paths]))
        else:
            mm = re.search(r"Circular import detected: (\S+)", o_mc)
            pth = mm.group(1) if mm else ""
            pre = t.root + "/"
            impl = t.rendered(pth[len(pre):]) if pth.startswith(pre) else ["?", o_mc[:200]]
            dist["cycle_reported_by_ModuleCollector"] += 1
            if mk_code != 2 or [list(x) for x in mk_paths] != [impl]:
                corr_bad.append(dict(desc, which="ModuleCollector", impl=["circular", impl], model=[mk_code, mk_paths]))
        if cli_set is not None:
            kk = str(min(len(cli_set), 8))
            dist["cli_modules"][kk] = dist["cli_modules"].get(kk, 0) + 1
        chk.count_case((t.name, "collect"), nontrivial=bool(cli_set and len(cli_set) > 1))
        # oracle: CLI and LSP load the same dependency files
        if cli_set is not None and lsp_set is not None:
            cli_deps = [x for x in cli_set if list(x) != entry_r]
            lsp_deps = [x for x in lsp_set if list(x) != entry_r]
            if p["plain"]:
                dist["plain_projects"] = dist.get("plain_projects", 0) + 1
                r_mr = parse_modules(t, o_mr)
                if r_mr[0] == 0 and sorted(tuple(a) for a, _ in r_mr[1]) != cli_set:
                    fails.append(dict(desc, why="ModuleResolver and CLI load different files in a flat `from x import y` project"))
            if cli_deps != lsp_deps or (tuple(entry_r) in lsp_set):
                dist["cli_lsp_sets_differ"] += 1
                all_listed = all(listed(chk, x) for x in ("import-last-segment", "mod-file-cli", "nested-base"))
                if m_flag and all_listed and tuple(entry_r) not in lsp_set:
                    hits["collect-sets-differ (explained by a flagged import)"] = hits.get("collect-sets-differ (explained by a flagged import)", 0) + 1
                else:
                    fails.append(dict(desc, why=("the LSP loads the entry file as a dependency of itself" if tuple(entry_r) in lsp_set else
                                                 "CLI and LSP load different dependency files and no import of a loaded file is in a listed class"),
                                      cli=cli_deps, lsp=lsp_deps))
    chk.coverage["B_projects"] = len(projs)
    chk.coverage["B_distribution"] = dist
    chk.coverage["B_known_class_hits"] = hits
    return fails, corr_bad, len(projs) * 4


def _unflatten_B(v):
    # Coq prints ((a,b),(c,d),(e,f),(g,h),flag) left-nested: (a, b, (c, d), (e, f), (g, h), flag)
    a, b, c, d, e, flag = v
    return (a, b), c, d, e, flag



# ----------------------------------------------------------------------------- part C: visibility, cycles, missing modules

KINDS = ["fn", "const", "model", "enum", "newtype", "class", "trait"]


def decl_text(kind, name, pub, variants=()):
    pre = "pub " if pub else ""
    if kind == "fn":
        return "%sdef %s() -> int:\n    return 1\n" % (pre, name)
    if kind == "const":
        return "%sconst %s: int = 3\n" % (pre, name)
    if kind == "model":
        return "%smodel %s:\n    x: int\n" % (pre, name)
    if kind == "class":
        return "%sclass %s:\n    x: int\n" % (pre, name)
    if kind == "enum":
        return "%senum %s:\n    %s\n    %s\n" % (pre, name, variants[0], variants[1])
    if kind == "newtype":
        return "%snewtype %s = int\n" % (pre, name)
    if kind == "trait":
        return "%strait %s:\n    def t%s(self) -> int: ...\n" % (pre, name, name.lower())
    raise ValueError(kind)


def decl_term(kind, name, pub, variants=()):
    dk = {"fn": "DFn", "const": "DConst", "model": "DType", "class": "DType", "newtype": "DType", "trait": "DTrait"}.get(kind)
    if kind == "enum":
        dk = "(DEnum %s)" % zl([code(v) for v in variants])
    return "(D %d %s %s)" % (code(name), cb(pub), dk)


def use_text(kind, name, var):
    """a statement of main() that refers to `name` unqualified"""
    if kind == "fn":
        return "    %s = %s()" % (var, name)
    if kind == "const":
        return "    %s = %s" % (var, name)
    if kind in ("model", "class"):
        return "    %s = %s(x=1)" % (var, name)
    if kind == "newtype":
        return "    %s = %s(3)" % (var, name)
    if kind == "variant":
        return "    %s = %s" % (var, name)
    raise ValueError(kind)


LAYOUTS = {
    # name: (module file, entry dir, import path record (abs, levels, segs))
    "flat": ("m.incn", "", (False, 0, ["m"])),
    "nested": ("pkg/m.incn", "", (False, 0, ["pkg", "m"])),
    "parent": ("m.incn", "sub", (False, 1, ["m"])),
    "crate": ("m.incn", "sub", (True, 0, ["m"])),
    "incan": ("m.incan", "", (False, 0, ["m"])),
}


def diag_canon(msgs):
    out = []
    for m in msgs:
        m = m.strip()
        if not m:
            continue
        a = re.match(r"Cannot import `(\w+)` from `[^`]*`: it is private or not exported", m)
        b = re.match(r"Unknown symbol '(\w+)'", m)
        c = re.match(r"Type '(\w+)' has no field '(\w+)'", m)
        if a:
            out.append([1, code(a.group(1))])
        elif b:
            out.append([2, code(b.group(1))])
        elif c:
            out.append([3, code(c.group(2))])
        else:
            out.append(["other", m[:200]])
    return out


def part_C(chk, binary, scratch, res_broken):
    rng = chk.rng
    cases = []
    trees = []
    k = 0
    layouts = list(LAYOUTS)
    kinds_x = ["fn", "const", "model", "enum", "newtype", "class", "trait"]
    for layout in layouts:
        mfile, edir, (iab, ilv, isegs) = LAYOUTS[layout]
        for kind in kinds_x:
            if chk.tier == "quick" and layout in ("parent", "crate", "incan") and kind != "fn":
                continue
            if chk.tier == "quick" and layout == "nested" and kind not in ("fn", "const", "enum", "model"):
                continue
            for xpub in (False, True):
                for ypub in (False, True):
                    t = Tree(scratch, "v%d" % k)
                    k += 1
                    trees.append(t)
                    if layout == "crate":
                        t.cargo.add("")
                    xname = {"fn": "fx", "const": "CX", "model": "Mx", "enum": "Ex", "newtype": "Nx", "class": "Kx", "trait": "Tx"}[kind]
                    variants = ("Vx", "Wx") if kind == "enum" else ()
                    decls = [(kind, xname, xpub, variants), ("fn", "fy", ypub, ())]
                    # a transitive dependency with one pub and one private item
                    t.add(os.path.join(os.path.dirname(mfile), "n.incn"), decl_text("fn", "fpn", True) + "\n" + decl_text("fn", "fqn", False))
                    ndecls = [("fn", "fpn", True, ()), ("fn", "fqn", False, ())]
                    mimp = (False, 0, ["n"]) if layout != "nested" else (False, 0, ["pkg", "n"])
                    t.add(mfile, '"""module docstring"""\n' + "\n".join(decl_text(*d) for d in decls), [import_text(None, "F", mimp[0], mimp[1], mimp[2], item="fpn", style=0)])
                    t.decls = {mfile: decls, os.path.join(os.path.dirname(mfile), "n.incn"): ndecls}
                    mod_alias = isegs[-1]
                    # (import statements as (rec, items, alias, text), uses as (text, model term), referenced (name, pub))
                    variants_of = []
                    def imp_from(items):
                        rec = ("F", iab, ilv, isegs)
                        txt = import_text(rng, "F", iab, ilv, isegs, item=", ".join(n + (" as " + a if a else "") for n, a in items))
                        return (rec, items, None, txt)
                    def imp_item(name, alias=None):
                        rec = ("M", iab, ilv, isegs + [name])
                        return (rec, [], alias, import_text(rng, "M", iab, ilv, isegs + [name], alias=alias))
                    def imp_mod(alias=None):
                        rec = ("M", iab, ilv, isegs)
                        return (rec, [], alias, import_text(rng, "M", iab, ilv, isegs, alias=alias))
                    # an enum is referred to through its variant Vx (a bare name, visible iff the enum is pub)
                    ukind, uname = (kind, xname) if kind != "enum" else ("variant", "Vx")
                    entries = []
                    if kind != "trait":
                        entries.append(("from-x use-x", [imp_from([(xname, None)])], [("N", uname, use_text(ukind, uname, "u0"))], [(xname, xpub)]))
                        if kind != "enum":
                            entries.append(("from-x-as use-alias", [imp_from([(xname, "zal")])], [("N", "zal", use_text(ukind, "zal", "u0"))], [(xname, xpub)]))
                        entries.append(("from-y use-x", [imp_from([("fy", None)])], [("N", uname, use_text(ukind, uname, "u0"))], [("fy", ypub), (xname, xpub)]))
                        entries.append(("import-m use-x", [imp_mod()], [("N", uname, use_text(ukind, uname, "u0"))], [(xname, xpub)]))
                        entries.append(("import-m::x use-x", [imp_item(xname)], [("N", uname, use_text(ukind, uname, "u0"))], [(xname, xpub)]))
                        if kind in ("fn", "model", "class", "newtype"):
                            call = use_text(ukind, xname, "u0").replace(xname, mod_alias + "." + xname, 1)
                            entries.append(("import-m use-m.x()", [imp_mod()], [("Q", (mod_alias, xname), call)], [(xname, xpub)]))
                            call2 = use_text(ukind, xname, "u0").replace(xname, "mq." + xname, 1)
                            entries.append(("import-m-as use-q.x()", [imp_mod("mq")], [("Q", ("mq", xname), call2)], [(xname, xpub)]))
                            # the module name itself is not bound by a `from` import
                            entries.append(("from-x use-m.x() (m unbound)", [imp_from([(xname, None)])], [("Q", (mod_alias, xname), call)], [(xname, xpub)]))
                        if kind == "const":
                            entries.append(("import-m use-m.X", [imp_mod()], [("F", (mod_alias, xname), "    u0 = %s.%s" % (mod_alias, xname))], [(xname, xpub)]))
                            entries.append(("from-x use-m.X (m unbound)", [imp_from([(xname, None)])], [("F", (mod_alias, xname), "    u0 = %s.%s" % (mod_alias, xname))], [(xname, xpub)]))
                        if kind == "enum":
                            entries.append(("from-variant use-variant", [imp_from([("Vx", None)])], [("N", "Vx", use_text("variant", "Vx", "u0"))], [("Vx", xpub)]))
                            entries.append(("import-m use-variant", [imp_mod()], [("N", "Wx", use_text("variant", "Wx", "u0"))], [("Wx", xpub)]))
                        # items of the transitive dependency n (never imported by the entry)
                        entries.append(("import-m use-transitive-private", [imp_mod()], [("N", "fqn", use_text("fn", "fqn", "u0"))], [("fqn", False)]))
                        entries.append(("import-m use-transitive-pub", [imp_mod()], [("N", "fpn", use_text("fn", "fpn", "u0"))], [("fpn", True)]))
                    else:
                        entries.append(("from-x", [imp_from([(xname, None)])], [], [(xname, xpub)]))
                        entries.append(("from-x,y", [imp_from([(xname, None), ("fy", None)])], [], [(xname, xpub), ("fy", ypub)]))
                    for j, (label, imps, uses, refs) in enumerate(entries):
                        stem = "zq%d" % j
                        body = "def main() -> None:\n" + ("\n".join(u[2] for u in uses) if uses else "    pass") + "\n"
                        t.add(os.path.join(edir, stem + ".incn"), body, [i[3] for i in imps])
                        cases.append({"tree": t, "layout": layout, "kind": kind, "label": label, "imps": imps, "uses": uses, "refs": refs,
                                      "edir": edir, "stem": stem, "xpub": xpub, "ypub": ypub, "mfile": mfile})
    # a private item of m whose NAME is also a real definition somewhere else in the checker's flat namespace:
    # (a) a builtin, (b) a pub item of another directly imported module, (c) a pub item of a module loaded only
    # transitively, (d) a declaration of the importing file itself (before / after the import), (e) an import alias.
    # The import must be rejected with the diagnostic that names the item, in the CLI and in the LSP.
    SHK = {  # kind: (builtin name, ordinary name, decl of the item in m, decl of the partner (same name) elsewhere)
        "fn": ("len", "fx", lambda n, pub: ("fn", n, pub, ()), lambda n: ("fn", n, True, ())),
        "model": ("List", "Mx", lambda n, pub: ("model", n, pub, ()), lambda n: ("model", n, True, ())),
        "enum": ("Option", "Ex", lambda n, pub: ("enum", n, pub, ("Va", "Wa")), lambda n: ("enum", n, True, ("Vb", "Wb"))),
        "variant": ("Ok", "Vx", lambda n, pub: ("enum", "Em", pub, (n, "Wm")), lambda n: ("enum", "Eo", True, (n, "Wo"))),
        "trait": ("Debug", "Tx", lambda n, pub: ("trait", n, pub, ()), lambda n: ("trait", n, True, ())),
        "const": ("range", "cx", lambda n, pub: ("const", n, pub, ()), lambda n: ("fn", n, True, ())),
    }
    for skind, (bname, oname, mk_item, mk_partner) in SHK.items():
        for src in ("a", "b", "c", "d1", "d2", "e1", "e2"):
            for xpub in ((False, True) if src in ("a", "b") else (False,)):
                t = Tree(scratch, "v%d" % k)
                k += 1
                trees.append(t)
                xn = bname if src == "a" else oname
                item = mk_item(xn, xpub)
                mdecls = [item, ("fn", "fy", True, ())]
                partner = mk_partner(xn)
                odecls = [partner, ("fn", "oo", True, ())]
                m_imports = ["from o import oo"] if src == "c" else []
                t.add("m.incn", "\n".join(decl_text(*d) for d in mdecls), m_imports)
                t.decls = {"m.incn": mdecls}
                if src in ("b", "c", "e1", "e2"):
                    t.add("o.incn", "\n".join(decl_text(*d) for d in (odecls if src in ("b", "c") else [("fn", "oo", True, ())])))
                    t.decls["o.incn"] = odecls if src in ("b", "c") else [("fn", "oo", True, ())]
                own_decls = [partner] if src in ("d1", "d2") else []
                pre = {"b": [(("F", False, 0, ["o"]), [("oo", None)], None, "from o import oo")],
                       "e1": [(("F", False, 0, ["o"]), [("oo", xn)], None, "from o import oo as %s" % xn)],
                       "e2": [(("M", False, 0, ["o"]), [], xn, "import o as %s" % xn)]}.get(src, [])
                forms = [("shadow from-x", [(xn, None)]), ("shadow from-x-as", [(xn, "zal")]), ("shadow from-y,x", [("fy", None), (xn, None)])]
                for j, (lab, items) in enumerate(forms):
                    txt = "from m import " + ", ".join(n + (" as " + a if a else "") for n, a in items)
                    imps = pre + [(("F", False, 0, ["m"]), items, None, txt)]
                    stem = "zq%d" % j
                    owntxt = "".join(decl_text(*d) + "\n" for d in own_decls)
                    mainfn = "def main() -> None:\n    pass\n"
                    if src == "d1":      # the file's own declaration stands BEFORE the import statement
                        t.add(stem + ".incn", owntxt + "\n".join(i[3] for i in imps) + "\n" + mainfn)
                    else:
                        t.add(stem + ".incn", owntxt + mainfn, [i[3] for i in imps])
                    cases.append({"tree": t, "layout": "shadow-" + src, "kind": skind, "label": "%s (%s, collides with %s)" % (lab, skind, {
                                      "a": "a builtin", "b": "a pub item of another imported module", "c": "a pub item of a transitively loaded module",
                                      "d1": "a declaration of the importing file (before the import)", "d2": "a declaration of the importing file (after the import)",
                                      "e1": "a `from` import alias", "e2": "an `import .. as` alias"}[src]),
                                  "imps": imps, "uses": [], "refs": [(xn, xpub)], "edir": "", "stem": stem, "xpub": xpub, "ypub": True, "mfile": "m.incn",
                                  "own_decls": own_decls, "must_name": None if xpub else xn})
    # two loaded modules whose names (segments joined by `_`) coincide: `m` and `..m`, `a_b` and `a.b`
    for cname, f1, f2, i1, i2, edir in (("samename", "sub/m.incn", "m.incn", (False, 0, ["m"]), (False, 1, ["m"]), "sub"),
                                        ("underscore", "a_b.incn", "a/b.incn", (False, 0, ["a_b"]), (False, 0, ["a", "b"]), "")):
        for p1 in (False, True):
            for p2 in (False, True):
                t = Tree(scratch, "v%d" % k)
                k += 1
                trees.append(t)
                t.add(f1, decl_text("fn", "fx", p1))
                t.add(f2, decl_text("fn", "fx", p2))
                t.decls = {f1: [("fn", "fx", p1, ())], f2: [("fn", "fx", p2, ())]}
                for j, order in enumerate(((0, 1), (1, 0))):
                    specs = [(i1, None, p1), (i2, "fz", p2)]
                    imps = []
                    for o in order:
                        (iab_, ilv_, isg_), al, _ = specs[o]
                        imps.append((("F", iab_, ilv_, isg_), [("fx", al)], None, import_text(rng, "F", iab_, ilv_, isg_, item="fx" + (" as " + al if al else ""))))
                    stem = "zq%d" % j
                    t.add(os.path.join(edir, stem + ".incn"), "def main() -> None:\n    u0 = fx()\n    u1 = fz()\n", [i[3] for i in imps])
                    cases.append({"tree": t, "layout": "collide-" + cname, "kind": "fn", "label": "collide %s order %d%d" % (cname, order[0], order[1]),
                                  "imps": imps, "uses": [("N", "fx", ""), ("N", "fz", "")], "refs": [("fx@" + f1, p1), ("fx@" + f2, p2)],
                                  "edir": edir, "stem": stem, "xpub": p1, "ypub": p2, "mfile": f1})
    # constructed cycles and missing modules (flat projects: no resolver class applies)
    cyc = []
    for n in (1, 2, 3, 4):
        for through_entry in (False, True):
            t = Tree(scratch, "y%d%d" % (n, through_entry))
            trees.append(t)
            names = ["c%d" % i for i in range(n)]
            for i, nm in enumerate(names):
                nxt = names[(i + 1) % n] if not (through_entry and i == n - 1) else "main"
                t.add(nm + ".incn", "pub def f%s() -> int:\n    return 1\n" % nm, ["from %s import %s" % (nxt, "f" + nxt if nxt != "main" else "main")])
            t.add("main.incn", "pub def main() -> None:\n    pass\n", ["from %s import f%s" % (names[0], names[0])])
            cyc.append({"tree": t, "what": "cycle", "n": n, "through_entry": through_entry})
    for txt in ("from nosuch import zz", "import nosuch", "import nosuch::zz", "from pkg.nosuch import zz", "from ..nosuch import zz", "from crate.nosuch import zz"):
        t = Tree(scratch, "y9%d" % len(cyc))
        trees.append(t)
        t.add("main.incn", "def main() -> None:\n    pass\n", [txt])
        t.add("pkg/other.incn", "pub def zz() -> int:\n    return 1\n")
        cyc.append({"tree": t, "what": "missing", "text": txt})
    for nm, body in (("parse", "def broken(:\n"), ("lex", 'def f() -> str:\n    return "unterminated\n'), ("tabs", "def f() -> int:\n\t  \treturn 1\n     x = 2\n")):
        t = Tree(scratch, "y8%s" % nm)
        trees.append(t)
        t.add("main.incn", "def main() -> None:\n    pass\n", ["from ok import zz", "from bad import zz as z2"])
        t.add("ok.incn", "pub def zz() -> int:\n    return 1\n")
        t.add("bad.incn", body)
        cyc.append({"tree": t, "what": "malformed dependency (%s error)" % nm})
    for t in trees:
        t.write()
    lines = []
    for c in cases:
        t = c["tree"]
        e = os.path.join(t.root, c["edir"], c["stem"] + ".incn")
        c["entry"] = e
        lines += ["check\t\t" + e, "lsp\t" + e]
    for c in cyc:
        e = os.path.join(c["tree"].root, "main.incn")
        c["entry"] = e
        lines += ["check\t\t" + e, "lsp\t" + e, "checkcli\t\t%s\t30000" % e]
    sample_cli = cases[::11]
    for c in sample_cli:
        lines.append("checkcli\t\t%s\t30000" % c["entry"])
    out = run_lines(chk, binary, scratch, lines)
    fails, corr_bad = [], []
    hits = {}
    # --- model terms: deps come from what the real collectors loaded (names as the real code names them)
    terms, tmeta = [], []
    parsed = []
    for n_, c in enumerate(cases):
        t = c["tree"]
        o_chk, o_lsp = out[2 * n_:2 * n_ + 2]
        o_chk, _, o_mods = o_chk.partition(" @@")
        o_cli = "OK " + o_mods
        desc = {"tree": t.name, "layout": c["layout"], "module": {rp: t.files[rp] for rp in t.decls}, "entry_text": t.files[os.path.join(c["edir"], c["stem"] + ".incn")],
                "case": c["label"], "kind": c["kind"]}
        desc["replay"] = t.replay(lines[2 * n_:2 * n_ + 2] + ["checkcli\t\t%s\t30000" % c["entry"]],
                                  skip=lambda rp: re.match(r"zq\d+\.", os.path.basename(rp)) and os.path.basename(rp) != c["stem"] + ".incn")
        c["desc"] = desc
        if any(o.startswith("SKIPPED") for o in (o_chk, o_lsp)):
            parsed.append(None)
            continue
        if any(o.startswith(("HANG", "DIED", "PANIC")) for o in (o_cli, o_chk, o_lsp)):
            fails.append(dict(desc, why="the real code did not return normally", outputs=[o_cli[:200], o_chk[:200], o_lsp[:200]]))
            parsed.append(None)
            continue
        mods = parse_modules(t, o_cli)
        ml = re.match(r"OK deps=(.*?) self=(\d+) diags=(.*)$", o_lsp)
        if mods[0] != 0 or not ml:
            corr_bad.append(dict(desc, which="collect", impl=[o_cli[:300], o_lsp[:300]]))
            parsed.append(None)
            continue
        cli_deps = []
        for mtxt in [x for x in o_mods.split(";") if x][:-1]:
            name, _, fid = mtxt.split(",")
            cli_deps.append((name.split("_"), t.decls.get(fid, [])))
        lsp_deps = []
        for d in [x for x in ml.group(1).split(";") if x]:
            rp = d[len(t.name) + 1:]
            lsp_deps.append((os.path.basename(rp).rsplit(".", 1)[0].split("_"), t.decls.get(rp, [])))

        def atoms(names):
            """the checker's module name is the segments joined by `_`; the model's name is a list: split at `_`"""
            return [code(a) for n in names for a in n.split("_")]

        def deps_term(deps):
            return "[" + "; ".join("(%s, [%s])" % (zl(atoms(n)), "; ".join(decl_term(*d) for d in ds)) for n, ds in deps) + "]"

        def imp_term_c(rec):
            return imp_term(rec) if rec[0] != "F" else "(I KFrom %s %d %s)" % (cb(rec[1]), rec[2], zl(atoms(rec[3])))
        imps_t = "[" + "; ".join("(VI %s [%s] %s)" % (imp_term_c(rec), "; ".join("(%d, %s)" % (code(nm), "Some %d" % code(a) if a else "None") for nm, a in items),
                                                      "(Some %d)" % code(al) if al else "None") for rec, items, al, _ in c["imps"]) + "]"
        uses_t = "[" + "; ".join(("UName %d" % code(u[1])) if u[0] == "N" else ("%s %d %d" % ("UQual" if u[0] == "Q" else "UField", code(u[1][0]), code(u[1][1]))) for u in c["uses"]) + "]"
        own = "[" + "; ".join(["D %d false DFn" % code("main")] + [decl_term(*d)[1:-1] for d in c.get("own_decls", [])]) + "]"
        terms.append("(run_check %s %s %s %s, run_check %s %s %s %s)" % (deps_term(cli_deps), own, imps_t, uses_t, deps_term(lsp_deps), own, imps_t, uses_t))
        tmeta.append(n_)
        real_cli = diag_canon(o_chk[5:].split("||")) if o_chk.startswith("FAIL ") else ([] if o_chk == "PASS" else [["other", o_chk[:200]]])
        c["o_chk"] = o_chk
        real_lsp = diag_canon(ml.group(3).split("||"))
        parsed.append((real_cli, real_lsp))
    req = "From Coq Require Import ZArith List Bool.\nImport ListNotations.\nFrom Verif Require Import C14.Model.\nOpen Scope Z_scope."
    model = vlib.coq_eval(req, "list (Z * Z) * list (Z * Z)", "fun x => x", terms, tag="c14c", shard=60) if terms else []
    dist = {}
    for idx, n_ in enumerate(tmeta):
        c = cases[n_]
        real_cli, real_lsp = parsed[n_]
        m_cli, m_lsp = model[idx]
        m_cli, m_lsp = [list(x) for x in m_cli], [list(x) for x in m_lsp]
        desc = c["desc"]
        chk.count_case((c["tree"].name, c["label"]), nontrivial=True)
        for v_ in c["imps"]:
            rec, items, al, _ = v_
            if rec[0] == "M":
                arm(chk, "validate_import_visibility/import (never validated)")
                arm(chk, "import_binds/module " + ("alias" if al else "last segment"))
            else:
                arm(chk, "import_binds/from " + ("alias" if any(a for _, a in items) else "item name"))
                n1 = sum(1 for d in m_cli if d[0] == 1)
                arm(chk, "validate_import_visibility/from: " + ("some item not exported" if n1 else "all exported or module not loaded"))
        for u_, d_ in ((u, None) for u in c["uses"]):
            kind_ = {"N": "UName", "Q": "UQual", "F": "UField"}[u_[0]]
            nm_ = u_[1] if u_[0] == "N" else u_[1][0]
            unbound = [2, code(nm_)] in m_cli
            arm(chk, "check_entry/%s %s" % (kind_, "unbound -> diag 2" if unbound else ("bound -> diag 3" if kind_ == "UField" else "bound")))
        arm(chk, "exported_names/" + ("DEnum" if c["kind"] == "enum" else "other kinds") + (" pub" if c["xpub"] else " private"))
        arm(chk, "dep_exports/" + ("two modules with one name (last wins)" if c["layout"].startswith("collide") else "unique names"))
        if m_cli != real_cli:
            corr_bad.append(dict(desc, which="check_with_imports (CLI dependencies)", impl=real_cli, model=m_cli))
        if m_lsp != real_lsp:
            corr_bad.append(dict(desc, which="check_with_imports (LSP dependencies)", impl=real_lsp, model=m_lsp))
        # oracle (ground truth of the generator): a reference to a private item must be rejected
        private_ref = any(not pub for _, pub in c["refs"])
        key = "%s/%s/%s" % (c["layout"], c["label"], "private" if private_ref else "public")
        for side, real in (("cli", real_cli), ("lsp", real_lsp)):
            verdict = "reject" if real else "accept"
            dist[key + "/" + side + ":" + verdict] = dist.get(key + "/" + side + ":" + verdict, 0) + 1
            if c.get("must_name") and real and [1, code(c["must_name"])] not in real:
                fails.append(dict(desc, why="%s rejects the program but no diagnostic names the imported non-pub item `%s`" % (side, c["must_name"]), diagnostics=real))
            if private_ref and not real:
                cls = None
                if c["label"].startswith("import-m::x"):
                    cls = "item-import-unchecked"
                elif "use-m.x()" in c["label"] or "use-q.x()" in c["label"]:
                    cls = "qualified-use-unchecked"
                elif side == "lsp" and c["layout"] == "nested" and c["label"].startswith("from-"):
                    cls = "lsp-module-name"
                elif c["layout"].startswith("collide"):
                    cls = "module-name-collision"
                if cls and listed(chk, cls):
                    hits[cls] = hits.get(cls, 0) + 1
                else:
                    fails.append(dict(desc, why="%s accepts a reference to a non-pub item of another module" % side, diagnostics=real, classes=[cls]))
            if not private_ref and real and side == "cli":
                # a program that only refers to pub items is rejected: outside C14's statement, recorded only
                k_ = "(info) pub-only program rejected: " + ("field syntax m.CONST" if any(d[0] == 3 for d in real) else c["label"])
                hits[k_] = hits.get(k_, 0) + 1
        if bool(real_cli) != bool(real_lsp):
            # the two front ends load different files for `import a::b` (k_multi), or name the module differently
            multi = any(rec[0] == "M" and len(rec[3]) > 1 for rec, _, _, _ in c["imps"])
            # m.incn itself contains an import and lies outside the entry's directory: CLI and LSP resolve it
            # against different directories (nested-base), so they load different transitive dependencies
            nested_base = os.path.dirname(c["mfile"]) != c["edir"]
            cls = ("module-name-collision" if c["layout"].startswith("collide") else
                   "import-last-segment" if multi else
                   "lsp-module-name" if c["layout"] == "nested" and c["label"].startswith("from-") else
                   "nested-base" if nested_base else None)
            if cls and listed(chk, cls):
                hits["verdicts differ: " + cls] = hits.get("verdicts differ: " + cls, 0) + 1
            else:
                fails.append(dict(desc, why="CLI and LSP disagree on accepting this program", cli=real_cli, lsp=real_lsp))
    # --- cycles / missing modules: must end with a diagnostic, in time, without crash
    base = 2 * len(cases)
    for n_, c in enumerate(cyc):
        o_chk, o_lsp, o_cc = out[base + 3 * n_: base + 3 * n_ + 3]
        o_chk = o_chk.partition(" @@")[0]
        t = c["tree"]
        desc = {"tree": t.name, "files": t.files, "what": c["what"], "replay": t.replay(lines[base + 3 * n_: base + 3 * n_ + 3])}
        if any(o.startswith("SKIPPED") for o in (o_chk, o_lsp, o_cc)):
            continue
        chk.count_case((t.name, c["what"]), nontrivial=True)
        for tag, o in (("check", o_chk), ("lsp", o_lsp), ("check_file (child process)", o_cc)):
            if o.startswith(("HANG", "DIED", "PANIC", "TIMEOUT", "CRASH")):
                fails.append(dict(desc, why="%s: %s on a project with a %s" % (tag, o[:200], c["what"])))
        if (o_chk == "PASS") != (o_cc == "PASS"):
            corr_bad.append(dict(desc, which="check_file vs harness replica", impl=[o_chk[:200], o_cc[:200]]))
        if c["what"].startswith("malformed") and re.search(r"diags=\s*$", o_lsp):
            fails.append(dict(desc, why="the LSP publishes no diagnostic for an entry whose dependency does not lex/parse", lsp=o_lsp[:200]))
        if o_chk == "PASS":
            fid = {"cycle": "cycle-silent", "missing": "missing-module-silent"}.get(c["what"], "<none>")
            if listed(chk, fid):
                hits[fid] = hits.get(fid, 0) + 1
            else:
                fails.append(dict(desc, why="a project with a %s passes the type check without any diagnostic" % c["what"], result=o_chk))
    base += 3 * len(cyc)
    for n_, c in enumerate(sample_cli):
        o = out[base + n_]
        i = cases.index(c)
        o_chk = out[2 * i].partition(" @@")[0]
        if o.startswith("SKIPPED") or "desc" not in c:
            continue
        if o.startswith(("TIMEOUT", "CRASH")):
            fails.append(dict(c["desc"], why="check_file in a child process: " + o[:200]))
        elif (o == "PASS") != (o_chk == "PASS"):
            corr_bad.append(dict(c["desc"], which="check_file vs harness replica", impl=[o_chk[:200], o[:200]]))
    chk.coverage["C_cases"] = len(cases)
    chk.coverage["C_cycle_missing_projects"] = len(cyc)
    chk.coverage["C_distribution"] = dist
    chk.coverage["C_known_class_hits"] = hits
    return fails, corr_bad, 2 * len(tmeta) + len(sample_cli) + len(cyc)



def replay_witness(binary, scratch, w):
    """Write the witness project of a known finding and run its commands on the real code."""
    root = os.path.join(scratch, "kf")
    shutil.rmtree(root, ignore_errors=True)
    for rp, text in w["files"].items():
        p = os.path.join(root, rp)
        os.makedirs(os.path.dirname(p), exist_ok=True)
        open(p, "w").write("# F %s\n%s" % (rp, text))
    lines = [c.replace("{root}", root) for c in w["cmds"]]
    out, st = run_c14(binary, root, lines, timeout=900, case_limit_ms=SLOW_LIMIT_MS)
    shutil.rmtree(root, ignore_errors=True)
    return [o.replace(root + "/", "") for o in out] if out is not None else [st]


# ----------------------------------------------------------------------------- driver

DOCUMENTED_SPELLINGS = [
    # (text from docs-site language/reference/imports_and_modules.md, expected record)
    ("from models import User, Product, Order", "K F 0 0 models"),
    ("from utils import format_currency as fmt, validate_email as check_email", "K F 0 0 utils"),
    ("import models::User", "K M 0 0 models.User"),
    ("import utils::format_currency as fmt", "K M 0 0 utils.format_currency"),
    ("from db.models import User, Product", "K F 0 0 db.models"),
    ("import db::models::User", "K M 0 0 db.models.User"),
    ("from ..common import Logger", "K F 0 1 common"),
    ("from ...shared.utils import format_date", "K F 0 2 shared.utils"),
    ("import super::common::Logger", "K M 0 1 common.Logger"),
    ("import super::super::shared::utils::format_date", "K M 0 2 shared.utils.format_date"),
    ("from crate.config import Settings", "K F 1 0 config"),
    ("import crate::lib::database::Connection", "K M 1 0 lib.database.Connection"),
]


def part_S(chk, binary, scratch, res_broken):
    """every documented import spelling parses to the import it is documented to mean"""
    out = run_lines(chk, binary, scratch, ["imp\t" + t for t, _ in DOCUMENTED_SPELLINGS])
    fails, hits = [], {}
    for (text, want), got in zip(DOCUMENTED_SPELLINGS, out):
        chk.count_case(("spelling", text), nontrivial=True)
        if got.rstrip() == want:
            continue
        if text.startswith("from ...") and listed(chk, "dots-grandparent-syntax"):
            hits["dots-grandparent-syntax"] = hits.get("dots-grandparent-syntax", 0) + 1
        else:
            fails.append({"import": text, "expected": want, "actual": got, "why": "a documented import spelling does not denote the documented import"})
    chk.coverage["S_known_class_hits"] = hits
    return fails, [], 0


def part_R(chk, binary, scratch, res_broken):
    """the repository's own Incan sources (examples, stdlib, fixtures, benchmarks) as entries: no crash/hang, and
    the CLI and the LSP load the same dependency files unless an import of a loaded file is in a listed class"""
    entries = []
    for top in ("examples", "stdlib", "tests/fixtures", "benchmarks", "tests"):
        for root, _, files in os.walk(os.path.join(vlib.REPO, top)):
            if "/target" in root:
                continue
            for f in sorted(files):
                if f.endswith((".incn", ".incan")):
                    p = os.path.join(root, f)
                    try:
                        txt = open(p).read()
                    except (OSError, UnicodeDecodeError):
                        continue
                    if re.search(r"(?m)^(from|import) ", txt):
                        entries.append(p)
    entries = sorted(set(entries))[:80]
    lines = []
    for e in entries:
        lines += ["cli\t\t" + e, "lsp\t" + e, "mr\t\t" + e]
    out = run_lines(chk, binary, "", lines)
    fails, hits = [], {}

    def import_lines(path):
        try:
            return [l.strip() for l in open(path).read().split("\n") if re.match(r"(from|import) ", l)]
        except OSError:
            return []
    for n_, e in enumerate(entries):
        o_cli, o_lsp, o_mr = out[3 * n_:3 * n_ + 3]
        rel_e = os.path.relpath(e, vlib.REPO)
        chk.count_case(("corpus", rel_e), nontrivial=True)
        for tag, o in (("collect_modules", o_cli), ("LSP", o_lsp), ("ModuleResolver", o_mr)):
            if o.startswith(("HANG", "DIED", "PANIC")):
                fails.append({"entry": rel_e, "why": "%s did not return normally on a repository source file: %s" % (tag, o[:200])})
        m = re.match(r"OK deps=(.*?) self=(\d+) diags=", o_lsp)
        if not o_cli.startswith("OK") or not m:
            hits["entry does not load (syntax the collectors reject)"] = hits.get("entry does not load (syntax the collectors reject)", 0) + 1
            continue
        edir = os.path.dirname(e)
        lsp_deps = sorted(x for x in m.group(1).split(";") if x)
        # the CLI result carries no paths: map it through the LSP's rule-independent listing of the entry directory tree
        n_cli = len([x for x in o_cli[3:].split(";") if x]) - 1
        if n_cli == len(lsp_deps) and int(m.group(2)) == 0:
            hits["same number of dependencies"] = hits.get("same number of dependencies", 0) + 1
            continue
        loaded = [e] + lsp_deps
        imps = [(f, l) for f in loaded for l in import_lines(f)]
        recs = run_lines(chk, binary, "", ["imp\t" + l for _, l in imps]) if imps else []
        multi = any(r.startswith("K M") and "." in r.split(" ")[-1] for r in recs)
        nested = any(os.path.dirname(f) != edir for f, _ in imps)
        if (multi and listed(chk, "import-last-segment")) or (nested and listed(chk, "nested-base")):
            k_ = "dependency sets differ: " + ("import-last-segment" if multi else "nested-base")
            hits[k_] = hits.get(k_, 0) + 1
        else:
            fails.append({"entry": rel_e, "why": "CLI loads %d dependency files, LSP %d, and no import is in a listed class" % (n_cli, len(lsp_deps)),
                          "cli": o_cli[:300], "lsp": o_lsp[:300]})
    chk.coverage["R_corpus_entries"] = len(entries)
    chk.coverage["R_hits"] = hits
    return fails, [], 0


# findings repaired in /repo (fix: commits): never suppress them again, whatever known_findings.json says
REPAIRED = {"relative-entry-underflow", "lsp-entry-not-seen"}


def listed(chk, fid):
    return fid not in REPAIRED and any(f["id"] == fid and f.get("status") == "known" for f in chk.findings)


def load_findings(chk):
    # TEMPORARY (lead: drop after merging build/kf-C14.json into known_findings.json): findings proposed in
    # build/kf-C14.json that known_findings.json does not list yet are honoured, so a new finding does not
    # turn the check red before it is merged
    p = os.path.join(vlib.VERIF, "build", "kf-C14.json")
    if os.path.exists(p) and os.environ.get("VERIF_KF_DEV"):  # development only: proposals not yet merged into known_findings.json
        have = {f["id"] for f in chk.findings}
        chk.findings += [f for f in json.load(open(p)) if f["id"] not in have]


def run(chk):
    load_findings(chk)
    chk.trusted = [
        "Coq 8.16.1 kernel (coqc; vm_compute for closed witnesses and for evaluating the model); no native_compute",
        "hand-written model coq/C14/Model.v of the three resolvers, the four collectors and the visibility rules (tied by correspondence on generated trees only)",
        "file-system abstraction: a finite set of source files / Cargo.toml / directories; no symlinks, no directory named *.incn|*.incan, no file named src, nothing above the case root has Cargo.toml or src, entry paths without . or .. components",
        "vharness c14 adapter (identifies the file the real code opened by the `# F` marker in the returned source; in-process tower-lsp service for the LSP side) and this script's differ",
        "module names (segments joined by `_`) are modelled injectively as segment lists: generated names contain no `_`",
    ]
    chk.assumptions = [
        "theorems are about the model; the real resolvers/collectors/checker are compared with it on generated trees only (nesting <= 3, both extensions, mod/__init__ files, Cargo.toml/src markers, relative and absolute entry spellings)",
        "all generated source files lex and parse (a dependency with a syntax error aborts the CLI and yields a summary diagnostic in the LSP: not modelled)",
        "the LSP is driven with nothing but the entry open (in-memory versions of dependencies are not modelled)",
        "the visibility model covers module-level references by bare name, method-call syntax m.x(..) and field syntax m.x; type annotations, trait adoption, patterns and E.V variant paths through imported names are not modelled",
        "NOT covered: backend/ir/codegen.rs add_module/try_generate_multi_file_nested and backend/project.rs generate_nested (the generated src/ tree is not observed); module-name collisions of the `_` join (a_b vs a/b)",
    ]
    res = chk.proof_stage("C14", allow_axioms=(), rs2v_units=None)
    for b in res["broken"]:
        if b.get("what") == "proof" and not b.get("file"):
            # make was killed / timed out / could not start: says nothing about the proofs
            raise vlib.Infra("coqbuild C14/Props.vo failed without a Coq error (timeout or killed under load?): " + str(b.get("message"))[-400:])
    binary = vlib.build_harness("debug")
    ok, log = vlib.coq_build(["C14/Model.vo"])
    if not ok and "Error" not in log:
        raise vlib.Infra("coqbuild C14/Model.vo failed without a Coq error: " + log[-500:])
    if not ok:
        chk.violation("proof-broken", {"theorem_or_tie": "C14/Model.v does not build", "log": log[-1500:]}, no_input=True)
        return
    scratch = os.path.join(vlib.BUILD, "c14-%d" % os.getpid())
    shutil.rmtree(scratch, ignore_errors=True)
    os.makedirs(scratch)
    for anc in _ancestors(scratch):
        if os.path.exists(os.path.join(anc, "Cargo.toml")) or os.path.exists(os.path.join(anc, "src")):
            raise vlib.Infra("an ancestor of the scratch directory carries Cargo.toml/src: " + anc)
    try:
        fails, corr_bad, validated = [], [], 0
        for part in (part_S, part_R, part_A, part_B, part_C):
            t0 = time.time()
            f, cb_, v = part(chk, binary, scratch, res)
            vlib.log("[c14] %s: %d failing, %d correspondence mismatches, %.1fs" % (part.__name__, len(f), len(cb_), time.time() - t0))
            fails += f
            corr_bad += cb_
            validated += v
        # known findings: replay every witness on the real code; a repaired one must NOT reproduce
        for f in chk.findings:
            if not f.get("witness", {}).get("cmds"):
                continue
            got = replay_witness(binary, scratch, f["witness"])
            repaired = f.get("status") == "fixed" or f["id"] in REPAIRED
            if repaired:
                if got == f["witness"]["actual"]:
                    fails.append({"why": "the repaired defect %s is back" % f["id"], "summary": f["summary"], "actual": got,
                                  "replay": dict(f["witness"], actual=None)})
            elif f.get("status") == "known":
                if got == f["witness"]["actual"]:
                    chk.known(f["id"], "%s: %s" % (f["id"], f["summary"]))
                else:
                    chk.notes.append("known finding %s no longer reproduces: %r" % (f["id"], got))
    finally:
        shutil.rmtree(scratch, ignore_errors=True)
    chk.coverage["rule"] = ("A: seeded random directory trees (nesting <= 3, .incn/.incan, mod/__init__ files, Cargo.toml and src markers, absolute and cwd-relative "
                            "entry spellings) x random imports in every spelling, one import per entry (or per nested importer); non-trivial when some resolver found a file. "
                            "B: random multi-file projects (40% flat `from x import y` only) with cycles and missing modules, whole collectors compared; non-trivial when "
                            "a dependency was loaded. C: module x kind of item x every placement of `pub` on (x, y) x import spelling x use form, plus constructed cycles "
                            "(length 1-4, through the entry or not) and missing modules. distinct by (tree, case)")
    expected_arms = ["%s/%s" % (f, a) for f in ("cli_resolve", "rip", "mr_resolve", "spec_resolve") for a in ("skip:empty", "skip:std", "skip:other-kind", "none", "file.incn")] + [
        "cli_resolve/file.incan", "rip/file.incan", "rip/mod.incn", "rip/mod.incan", "spec_resolve/mod.incn", "mr_resolve/mod.incn", "mr_resolve/__init__.incn",
        "target_dir/target:crate", "target_dir/target:levels=0", "target_dir/target:levels<=depth", "target_dir/target:levels>depth(stuck at root)",
        "msegs/from", "msegs/module,1 segment", "msegs/module,drop last", "rl/absolute entry", "rl/relative entry",
        "k_multi/true", "k_multi/false", "k_modonly/true", "k_modonly/false", "k_nested/true", "k_nested/false", "k_mr_only/true", "k_mr_only/false",
        "cli_collect/Done", "cli_collect/Failed: cannot read entry", "mr_collect/Done", "mr_collect/Failed: cannot read entry", "lsp_collect/Done",
        "mc_collect/Done", "mc_collect/Failed: cannot read entry", "mc_collect/Failed: circular import", "any_known/true", "any_known/false",
        "validate_import_visibility/import (never validated)", "validate_import_visibility/from: some item not exported",
        "validate_import_visibility/from: all exported or module not loaded", "import_binds/module alias", "import_binds/module last segment",
        "import_binds/from alias", "import_binds/from item name", "check_entry/UName bound", "check_entry/UName unbound -> diag 2",
        "check_entry/UQual bound", "check_entry/UQual unbound -> diag 2", "check_entry/UField bound -> diag 3", "check_entry/UField unbound -> diag 2",
        "exported_names/DEnum pub", "exported_names/DEnum private", "exported_names/other kinds pub", "exported_names/other kinds private",
        "dep_exports/two modules with one name (last wins)", "dep_exports/unique names"]
    zero = [a for a in expected_arms if not chk.coverage.get("model_arm_hits", {}).get(a)]
    chk.coverage["model_arms_with_zero_hits"] = zero
    if zero:
        chk.notes.append("generator gap: model arms never reached in this run: %s" % zero)
    chk.coverage["traces_validated_against_impl"] = validated
    chk.coverage["correspondence_mismatches"] = len(corr_bad)
    for f in fails[:20]:
        chk.violation("failing-input", f)
    if not fails:
        if corr_bad:
            chk.violation("correspondence-broken", {"theorem_or_tie": "C14 model/implementation correspondence", "cases": corr_bad[:10]}, no_input=True)
        if not res["proofs_ok"] or not res["tie_ok"]:
            chk.violation("proof-broken", {"theorem_or_tie": res["broken"]}, no_input=True)


def _ancestors(p):
    out = []
    while True:
        out.append(p)
        q = os.path.dirname(p)
        if q == p:
            return out
        p = q


def replay(path):
    """Re-create each recorded project under build/ and run its commands on the real code again."""
    data = json.load(open(path))
    binary = vlib.build_harness("debug")
    scratch = os.path.join(vlib.BUILD, "c14-replay-%d" % os.getpid())
    rc = 0
    try:
        for v in data["violations"]:
            d = v["detail"]
            rp = d.pop("replay", None) if isinstance(d, dict) else None
            print(json.dumps(d, indent=1)[:4000])
            if rp:
                got = replay_witness(binary, scratch, rp)
                for c, g in zip(rp["cmds"], got):
                    print("  real code: %s\n    -> %s" % (c.replace("\t", " "), g))
                rc = 1
    finally:
        shutil.rmtree(scratch, ignore_errors=True)
    return rc
