"""C15 — the generated Cargo project declares exactly what the code needs, pinned.

proof:   coq/C15/Props.v: manifest writer + CLI glue + feature scanners as a traversal parameterised by the
         edge table; declares_needed / declares_only_needed / scanner_complete (+ per-edge refutation) /
         every_dep_pinned (+ refuted) / name lines valid TOML.
tie:     re-derived from /repo on EVERY run: the version table (syn extraction of add_rust_crate), the
         scanners' edge tables (one probe program per (constructor, slot), judged by the real detect_*),
         node triggers (real scanners on the node alone).  Correspondence: model (vm_compute in coqc) vs real
         scanners on generated programs; model manifest text vs real Cargo.toml of real `build_file` runs.
oracle:  real project generation (stub cargo): Cargo.toml vs crate roots referenced by the generated
         src/**/*.rs (token level), wildcard versions, `cargo metadata --no-deps` as TOML/manifest judge."""
import json
import os
import re
import shutil
import subprocess

import vlib

T_SERDE = "json_stringify(1)"
T_ASYNC = "(await g())"

# ---------------------------------------------------------------------------------------------- probes
# one probe per (constructor, slot): the trigger T sits in exactly that slot.  {T} is replaced by the
# serde / async trigger expression.  Everything is placed in `def f()` unless it starts with "@top".
STMT_PROBES = [
    "{T}", "x = {T}", "return {T}", "x += {T}", "a, b = {T}", "x = y = {T}",
    "a.b = {T}", "{T}.b = 1", "a[{T}] = 1", "a[0] = {T}", "{T}[0] = 1",
    "a[0], a[1] = {T}",
    "if {T}:\n    pass", "if c:\n    {T}", "if c:\n    pass\nelif {T}:\n    pass", "if c:\n    pass\nelif d:\n    {T}",
    "if c:\n    pass\nelse:\n    {T}",
    "while {T}:\n    pass", "while c:\n    {T}", "for i in {T}:\n    pass", "for i in xs:\n    {T}",
]
EXPR_PROBES = [
    "{T} + 1", "1 + {T}", "not {T}", "-{T}", "{T}()", "f({T})", "f(a={T})", "sleep_ms({T})",
    "{T}[0]", "a[{T}]", "{T}[1:2]", "a[{T}:2]", "a[1:{T}]", "a[1:2:{T}]", "{T}.x", "{T}.m()", "a.m({T})", "a.m(k={T})",
    "await {T}", "{T}?", "({T}, 1)", "[{T}]", "{{{T}}}", "{{{T}: 1}}", "{{1: {T}}}", "({T})", "Some({T})", "P(x={T})",
    'f"{{{T}}}"', "yield {T}", "{T}..2", "1..{T}",
    "[{T} for i in xs]", "[i for i in {T}]", "[i for i in xs if {T}]",
    "{{{T}: 1 for i in xs}}", "{{1: {T} for i in xs}}", "{{1: 2 for i in {T}}}", "{{1: 2 for i in xs if {T}}}",
    "(x) => {T}",
]
BLOCK_PROBES = [
    "match {T}:\n    case _:\n        pass", "match v:\n    case _ if {T}:\n        pass", "match v:\n    case _:\n        {T}",
    "match v:\n    _ => {T}",
]
TOP_PROBES = [
    "def f(a: str = {T}) -> None:\n    pass\n",
    "model M:\n    x: int\n    def m(self) -> None:\n        {T}\n",
    "model M:\n    x: str = {T}\n",
    "class C:\n    x: int\n    def m(self) -> None:\n        {T}\n",
    "class C:\n    x: str = {T}\n",
    "trait Tr:\n    def m(self) -> None:\n        {T}\n",
    "type N = newtype int:\n    def m(self) -> None:\n        {T}\n",
    "const K: str = {T}\n",
    "model M:\n    x: int\n    def m(self, a: str = {T}) -> None:\n        pass\n",
]


def indent(text, n=4):
    return "".join(" " * n + l + "\n" for l in text.split("\n"))


def probe_sources(trigger):
    out = []
    for p in STMT_PROBES + BLOCK_PROBES:
        out.append("def f() -> None:\n" + indent(p.replace("{T}", trigger)))
    for p in EXPR_PROBES:
        out.append("def f() -> None:\n" + indent("x = " + p.format(T=trigger)))
    for p in TOP_PROBES:
        out.append(p.replace("{T}", trigger))
    return out


# ---------------------------------------------------------------------------------------------- trees
class Ids:
    def __init__(self):
        self.kinds = {"D.RustImport": 90}
        self.slots = {}

    def kind(self, name):
        if name not in self.kinds:
            n = len(self.kinds)
            self.kinds[name] = n if n < 90 else n + 1
        return self.kinds[name]

    def slot(self, name):
        if name not in self.slots:
            self.slots[name] = len(self.slots) + 1
        return self.slots[name]


def zs(text):
    return vlib.zlist([ord(c) for c in text])


def coq_tree(t, ids):
    kind, tag, label, kids = t
    ks = "KNil"
    for sl, c in reversed(kids):
        ks = "(KCons %d %s %s)" % (ids.slot(sl), coq_tree(c, ids), ks)
    return "(Node %d %d %s %s)" % (ids.kind(kind), tag, zs(label), ks)


def trigger_paths(t, bit, path=()):
    """all paths (tuple of (kind, slot) edges) from the root to nodes whose tag has `bit`"""
    kind, tag, label, kids = t
    out = []
    if tag & bit:
        out.append(path)
    for sl, c in kids:
        out.extend(trigger_paths(c, bit, path + ((kind, sl),)))
    return out


def all_edges(t, acc):
    kind, tag, label, kids = t
    for sl, c in kids:
        acc.add((kind, sl))
        all_edges(c, acc)


def scan(binary, sources):
    text = "".join(json.dumps({"src": s}) + "\n" for s in sources)
    out = vlib.run_harness(binary, ["run", "c15", "scan"], text)
    rs = [json.loads(l) for l in out.split("\n") if l.strip()]
    if len(rs) != len(sources):
        raise vlib.Infra("c15 scan returned %d results for %d sources" % (len(rs), len(sources)))
    return rs


def derive_edges(binary, trigger, bit, idx):
    """Edge table of one scanner from probe programs judged by the REAL scanner.
    Returns (present edges, missing edges, probes, unparsed probe sources)."""
    srcs = probe_sources(trigger)
    rs = scan(binary, srcs)
    present, missing, unparsed, probes = set(), set(), [], []
    parsed = []
    for s, r in zip(srcs, rs):
        if not r["ok"]:
            unparsed.append(s)
            continue
        paths = trigger_paths(r["tree"], bit)
        # the probe's own path: the deepest trigger (an outer await/call wrapper may itself be a trigger)
        if not paths:
            unparsed.append(s)
            continue
        parsed.append((s, r, max(paths, key=len), min(paths, key=len)))
    for s, r, deep, shallow in sorted(parsed, key=lambda x: len(x[2])):
        if r["real"][idx]:
            present.update(shallow)
    for s, r, deep, shallow in sorted(parsed, key=lambda x: len(x[2])):
        probes.append({"src": s, "path": deep, "real": r["real"][idx]})
        if not r["real"][idx]:
            cand = [e for e in deep if e not in present]
            if cand:
                missing.add(cand[0])
    # an edge proven present by a detected probe cannot be missing
    missing -= present
    return present, missing, probes, unparsed


# ---------------------------------------------------------------------------------------------- programs
def gen_programs(chk):
    """random nestings of the probe templates (scanner correspondence; need not type-check)"""
    rng = chk.rng
    n = 120 if chk.tier == "quick" else 1500
    progs = []
    for _ in range(n):
        trig = rng.choice([T_SERDE, T_ASYNC, "1"])
        e = trig
        for _ in range(rng.randint(0, 3)):
            e = rng.choice(EXPR_PROBES).format(T=e)
        st = rng.choice(STMT_PROBES + BLOCK_PROBES).replace("{T}", e)
        for _ in range(rng.randint(0, 2)):
            w = rng.choice(["if c:\n{S}", "if c:\n    pass\nelif d:\n{S}", "if c:\n    pass\nelse:\n{S}", "while c:\n{S}", "for i in xs:\n{S}",
                            "match v:\n    case _:\n{S2}"])
            st = w.replace("{S2}", indent(st, 8).rstrip("\n")).replace("{S}", indent(st, 4).rstrip("\n"))
        ctx = rng.random()
        if ctx < 0.6:
            src = "%sdef f() -> None:\n%s" % ("async " if rng.random() < 0.1 else "", indent(st))
        elif ctx < 0.7:
            src = "model M:\n    x: int\n    def m(self) -> None:\n" + indent(st, 8)
        elif ctx < 0.8:
            src = "class C:\n    x: int\n    def m(self) -> None:\n" + indent(st, 8)
        elif ctx < 0.9:
            src = "trait Tr:\n    def m(self) -> None:\n" + indent(st, 8)
        else:
            src = "type N = newtype int:\n    def m(self) -> None:\n" + indent(st, 8)
        if rng.random() < 0.15:
            src = "@derive(%s)\nmodel D:\n    y: int\n\n" % rng.choice(["Serialize", "Deserialize", "Clone", "Serialize, Deserialize"]) + src
        if rng.random() < 0.1:
            src = "import rust::%s\n" % rng.choice(["rand", "regex", "foobarbaz", "std"]) + src
        if rng.random() < 0.05:
            src = "from std.web import App\n" + src
        progs.append(src)
    return progs


def trigger_programs():
    """every spelling that makes a node a trigger (names taken from the source tables), and near misses"""
    out = []
    try:
        text = open(os.path.join(vlib.REPO, "crates/incan_core/src/lang/surface/functions.rs")).read()
        names = re.findall(r'SurfaceFnId::\w+,\s*(?://[^\n]*\n\s*)*"(\w+)"', text)
    except OSError:
        names = []
    for n in sorted(set(names)) + ["sleep", "json_stringify", "json_parse", "println", "sleepy", "Sleep", "spawn_", "my_fn"]:
        out.append("def f() -> None:\n    %s(1)\n" % n)
        out.append("def f() -> None:\n    x = a.%s(1)\n" % n)           # method of that name: not the builtin
        out.append("def f() -> None:\n    if c:\n        pass\n    elif d:\n        y = [%s(1) for i in xs]\n" % n)
    for d in ["Serialize", "Deserialize", "Serialize, Deserialize", "Clone, Debug", "Clone, Serialize", "serialize", "Eq"]:
        out.append("@derive(%s)\nmodel D:\n    y: int\n" % d)
        out.append("@derive(%s)\nclass D:\n    y: int\n" % d)
        out.append("@derive(Clone)\n@derive(%s)\nmodel D:\n    y: int\n" % d)
    out.append("@derive(Serialize)\nenum E:\n    A\n    B\n")
    for imp in ["from web import App", "import web", "import web::App", "from web.sub import x", "from std.web import App", "from webby import App", "import my::web",
                "from ..web import App", "import rust::web", "from rust::axum import Router"]:
        out.append(imp + "\n\ndef f() -> None:\n    pass\n")
    out.append("@route(\"/\")\ndef h() -> None:\n    pass\n")
    out.append("@Route(\"/\")\ndef h() -> None:\n    pass\n")
    out.append("model M:\n    x: int\n    @route(\"/\")\n    def h(self) -> None:\n        pass\n")
    out.append("async def f() -> None:\n    pass\n")
    out.append("model M:\n    x: int\n    async def m(self) -> None:\n        pass\n")
    out.append("trait T:\n    async def m(self) -> None: ...\n")
    out.append("import rust::rand\nimport rust::rand\nfrom rust::std::x import y\nimport rust::std\nimport rust::regex as rx\n")
    out.append("")
    return out


KNOWN = ["rand", "regex", "anyhow", "thiserror", "tracing", "log", "env_logger", "futures", "bytes", "itertools", "uuid", "chrono", "time",
         "clap", "serde", "serde_json", "tokio", "reqwest", "sqlx"]

MAIN_PLAIN = "def main() -> None:\n    println(1)\n"


def build_cases(chk, table=()):
    """well-typed projects for real generation: (name, stem, files, expectations)"""
    rng = chk.rng
    cases = []

    def add(name, files, stem="main", **kw):
        cases.append(dict(name=name, stem=stem, files=files, **kw))

    add("plain", {"main.incn": MAIN_PLAIN})
    add("derive", {"main.incn": "@derive(Serialize)\nmodel P:\n    x: int\n\n" + MAIN_PLAIN})
    add("json", {"main.incn": "def main() -> None:\n    println(json_stringify(1))\n"})
    add("json_if", {"main.incn": "def main() -> None:\n    c = true\n    if c:\n        println(json_stringify(1))\n"})
    add("json_else", {"main.incn": "def main() -> None:\n    c = true\n    if c:\n        println(1)\n    else:\n        println(json_stringify(1))\n"})
    add("json_elif", {"main.incn": "def main() -> None:\n    c = false\n    if c:\n        println(1)\n    elif true:\n        println(json_stringify(1))\n"})
    add("json_cond", {"main.incn": "def main() -> None:\n    if json_stringify(1) == \"1\":\n        println(1)\n"})
    add("json_while", {"main.incn": "def main() -> None:\n    while json_stringify(1) == \"2\":\n        println(1)\n"})
    add("json_method", {"main.incn": "model M:\n    x: int\n    def show(self) -> str:\n        return json_stringify(self.x)\n\n" + MAIN_PLAIN})
    add("json_trait", {"main.incn": "trait Tr:\n    def show(self) -> str:\n        return json_stringify(1)\n\nmodel M with Tr:\n    x: int\n\n" + MAIN_PLAIN})
    add("async_fn", {"main.incn": "async def f() -> int:\n    return 1\n\n" + MAIN_PLAIN})
    add("async_main", {"main.incn": "async def f() -> int:\n    return 1\n\nasync def main() -> None:\n    x = await f()\n    println(x)\n"})
    add("sleep", {"main.incn": "async def main() -> None:\n    await sleep(0.01)\n    println(1)\n"})
    for k in (1, 2, 4):
        cr = rng.sample(KNOWN, k)
        add("crates%d" % k, {"main.incn": "".join("import rust::%s\n" % c for c in cr) + "\n" + MAIN_PLAIN}, crates=cr)
    add("from_rust", {"main.incn": "from rust::regex import Regex\nfrom rust::rand import random\n\n" + MAIN_PLAIN})
    add("builtin_crates", {"main.incn": "import rust::serde_json\nimport rust::tokio\n\n@derive(Serialize)\nmodel P:\n    x: int\n\n" + MAIN_PLAIN})
    add("unknown_crate", {"main.incn": "import rust::foobarbaz\n\n" + MAIN_PLAIN})
    add("std_import", {"main.incn": "from rust::std::collections import HashMap\n\n" + MAIN_PLAIN})
    add("dep_serde", {"main.incn": "from util import show\n\ndef main() -> None:\n    println(show(1))\n",
                      "util.incn": "pub def show(x: int) -> str:\n    return json_stringify(x)\n"})
    add("dep_async", {"main.incn": "from util import one\n\ndef main() -> None:\n    println(one())\n",
                      "util.incn": "pub def one() -> int:\n    return 1\n\npub async def slow() -> int:\n    return 2\n"})
    add("dep_crate", {"main.incn": "from util import one\n\ndef main() -> None:\n    println(one())\n",
                      "util.incn": "from rust::rand import random\n\npub def one() -> int:\n    return 1\n"})
    add("dep_plain", {"main.incn": "from util import one\n\ndef main() -> None:\n    println(one())\n", "util.incn": "pub def one() -> int:\n    return 1\n"})
    # ---- interactions between dependency lines (names that occur inside other crates' names, feature
    #      lists or the fixed feature-driven lines), crossed with the serde / async / web features
    FEATURES = {
        "plain": ("", MAIN_PLAIN),
        "serde": ("@derive(Serialize)\nmodel P:\n    x: int\n\n", MAIN_PLAIN),
        "async": ("async def f() -> int:\n    return 1\n\n", MAIN_PLAIN),
        "serde_async": ("@derive(Serialize)\nmodel P:\n    x: int\n\nasync def f() -> int:\n    return 1\n\n", MAIN_PLAIN),
        "web": ("from web import App, route, Response\n\n@route(\"/\")\nasync def index() -> Response:\n    return Response.html(\"<p>hi</p>\")\n\n",
                "def main() -> None:\n    app = App()\n    app.run(host=\"127.0.0.1\", port=8080)\n"),
    }
    names = [n for n, _ in table]
    fixed_text = {
        "plain": "incan_stdlib incan_derive",
        "serde": 'serde = { version = "1.0", features = ["derive"] } serde_json features = ["json"]',
        "async": 'tokio = { version = "1", features = ["rt-multi-thread", "macros", "time", "sync"] }',
        "web": 'axum tokio = { version = "1", features = ["rt-multi-thread", "macros", "time", "sync", "net"] } serde serde_json features = ["web", "json"]',
    }
    fixed_text["serde_async"] = fixed_text["serde"] + " " + fixed_text["async"]
    k = 0
    for feat, (pre, main) in FEATURES.items():
        # every table crate at once (all pairwise interactions in one manifest)
        add("all_%s" % feat, {"main.incn": "".join("import rust::%s\n" % n for n in names) + "\n" + pre + main}, crates=names)
        # crates whose name occurs in a line this feature writes
        for x in names:
            if x in fixed_text[feat] and x not in ("serde", "serde_json", "tokio", "axum"):
                add("feat_%s_%s" % (feat, x), {"main.incn": "import rust::%s\n\n" % x + pre + main}, crates=[x])
    # feature-managed crate names imported through `rust::` with the corresponding feature ON and OFF (added after seed C15-4:
    # `rust::axum` without any web trigger was written as `axum = "*"`): in every context the crate is pinned or refused
    for feat, (pre, main) in FEATURES.items():
        for x in ("serde", "serde_json", "tokio", "axum"):
            for form in ("import rust::%s\n", "from rust::%s import Thing\n", "import rust::%s::sub::Item\n"):
                add("managed_%s_%s_%d" % (feat, x, len(cases)), {"main.incn": form % x + "\n" + pre + main})
    add("managed_dep_axum", {"main.incn": "from util import one\n\ndef main() -> None:\n    println(one())\n",
                             "util.incn": "from rust::axum import Router\n\npub def one() -> int:\n    return 1\n"})
    for x in names:
        for y, spec in table:
            if x != y and (x in y or x in spec):
                for feat in (("plain",) if chk.tier == "quick" else ("plain", "async", "serde")):
                    pre, main = FEATURES[feat]
                    k += 1
                    add("pair%d_%s" % (k, feat), {"main.incn": "import rust::%s\nimport rust::%s\n\n" % (x, y) + pre + main}, crates=[x, y])
                # the two imports in different modules
                k += 1
                add("pair%d_dep" % k, {"main.incn": "import rust::%s\nfrom util import one\n\ndef main() -> None:\n    println(one())\n" % x,
                                       "util.incn": "import rust::%s\n\npub def one() -> int:\n    return 1\n" % y}, crates=[x, y])
    # ---- ONE trigger per program, in every position of every repeated structure (decorator 1/2/3, decorator
    #      argument 1/2/3, declaration 1/2/3, function vs method, nested statement positions, import 1/2/3)
    others = ["Eq", "Hash", "PartialEq"]
    for kw in ("model", "class"):
        for ser in (("Serialize", "Deserialize") if chk.tier != "quick" or kw == "model" else ("Serialize",)):
            for pos in range(3):
                decs = [o for o in ("PartialEq", "Eq")]
                decs.insert(pos, ser)
                add("pos_dec_%s_%s_%d" % (kw, ser, pos), {"main.incn": "".join("@derive(%s)\n" % d for d in decs) + "%s P:\n    x: int\n\n" % kw + MAIN_PLAIN})
                args = ["PartialEq", "Eq"]
                args.insert(pos, ser)
                add("pos_arg_%s_%s_%d" % (kw, ser, pos), {"main.incn": "@derive(%s)\n%s P:\n    x: int\n\n" % (", ".join(args), kw) + MAIN_PLAIN})
                decls = ["@derive(PartialEq)\n%s M%d:\n    x: int\n\n" % (kw, j) for j in range(3)]
                decls[pos] = "@derive(PartialEq)\n@derive(%s)\n%s M%d:\n    x: int\n\n" % (ser, kw, pos)
                add("pos_decl_%s_%s_%d" % (kw, ser, pos), {"main.incn": "".join(decls) + MAIN_PLAIN})
    J = "json_stringify(1)"
    for pos in range(3):
        fns = ["def f%d() -> str:\n    return \"a\"\n\n" % j for j in range(3)]
        fns[pos] = "def f%d() -> str:\n    return %s\n\n" % (pos, J)
        add("pos_fn_json_%d" % pos, {"main.incn": "".join(fns) + MAIN_PLAIN})
        afn = ["def g%d() -> int:\n    return 1\n\n" % j for j in range(3)]
        afn[pos] = "async def g%d() -> int:\n    return 1\n\n" % pos
        add("pos_fn_async_%d" % pos, {"main.incn": "".join(afn) + MAIN_PLAIN})
        ms = ["    def m%d(self) -> str:\n        return \"a\"\n" % j for j in range(3)]
        ms[pos] = "    def m%d(self) -> str:\n        return %s\n" % (pos, J)
        add("pos_method_json_model_%d" % pos, {"main.incn": "model M:\n    x: int\n" + "".join(ms) + "\n" + MAIN_PLAIN})
        add("pos_method_json_class_%d" % pos, {"main.incn": "class M:\n    x: int\n" + "".join(ms) + "\n" + MAIN_PLAIN})
        ams = ["    def m%d(self) -> int:\n        return 1\n" % j for j in range(3)]
        ams[pos] = "    async def m%d(self) -> int:\n        return 1\n" % pos
        add("pos_method_async_model_%d" % pos, {"main.incn": "model M:\n    x: int\n" + "".join(ams) + "\n" + MAIN_PLAIN})
        add("pos_method_async_class_%d" % pos, {"main.incn": "class M:\n    x: int\n" + "".join(ams) + "\n" + MAIN_PLAIN})
        imps = ["import rust::rand", "from rust::regex import Regex"]
        imps.insert(pos, "from web import App")
        add("pos_import_web_%d" % pos, {"main.incn": "\n".join(imps) + "\n\n" + MAIN_PLAIN})
        hs = ["async def h%d() -> str:\n    return \"ok\"\n\n" % j for j in range(3)]
        hs[pos] = "@route(\"/r%d\")\n" % pos + hs[pos]
        add("pos_route_%d" % pos, {"main.incn": "from rust::rand import random\n\n" + "".join(hs) + MAIN_PLAIN})
    add("pos_trait_json", {"main.incn": "trait Tr:\n    def show(self) -> str:\n        return %s\n\nmodel M with Tr:\n    x: int\n\ndef main() -> None:\n    m = M(x=1)\n    println(m.show())\n" % J})
    add("pos_newtype_json", {"main.incn": "type N = newtype int:\n    def show(self) -> str:\n        return %s\n\n" % J + MAIN_PLAIN})
    nest = {
        "assign": "    s = {T}\n    println(s)\n", "return_fn": "    println(helper())\n", "if_cond": "    if {T} == \"1\":\n        println(1)\n",
        "if_then": "    if c:\n        println({T})\n", "elif_cond": "    if c:\n        println(1)\n    elif {T} == \"1\":\n        println(2)\n",
        "elif_body": "    if c:\n        println(1)\n    elif true:\n        println({T})\n", "else_body": "    if c:\n        println(1)\n    else:\n        println({T})\n",
        "while_cond": "    while {T} == \"2\":\n        println(1)\n", "while_body": "    while c:\n        println({T})\n        break\n",
        "for_body": "    for i in range(2):\n        println({T})\n", "fstring": "    println(f\"v={{{T}}}\")\n", "call_arg": "    println(len({T}))\n",
        "list_item": "    xs = [{T}, \"b\"]\n    println(len(xs))\n", "binary": "    println({T} + \"x\")\n", "paren": "    println(({T}))\n",
        "match_arm": "    match 1:\n        case 1:\n            println({T})\n        case _:\n            println(2)\n",
        "method_recv": "    println({T}.upper())\n", "index": "    println({T}[0])\n", "compound": "    mut s = \"a\"\n    s += {T}\n    println(s)\n",
    }
    for nm, body in nest.items():
        pre = "def helper() -> str:\n    return %s\n\n" % J if nm == "return_fn" else ""
        add("pos_nest_json_%s" % nm, {"main.incn": pre + "def main() -> None:\n    c = false\n" + body.replace("{T}", J)})
    for nm in (("assign", "if_then", "elif_body", "else_body", "while_body", "for_body", "match_arm", "call_arg", "binary") if chk.tier != "quick" else ("assign", "elif_body", "match_arm")):
        body = nest[nm].replace("{T}", "str(await one())") if nm not in ("binary",) else nest[nm].replace("{T}", "str(await one())")
        add("pos_nest_await_%s" % nm, {"main.incn": "async def one() -> int:\n    return 1\n\nasync def main() -> None:\n    c = false\n" + body})
    for n in names:
        add("pos_crate_%s" % n, {"main.incn": "import rust::%s\n\n" % n + MAIN_PLAIN}, crates=[n])
    for i in range(0, len(names) - 2, 3):
        for rot in (range(3) if chk.tier != "quick" else ()):
            tri = names[i:i + 3]
            tri = tri[rot:] + tri[:rot]
            add("pos_crates3_%d_%d" % (i, rot), {"main.incn": "".join("import rust::%s\n" % n for n in tri) + "\n" + MAIN_PLAIN}, crates=tri)
    # ---- lattice: the ENTRY triggers a subset of {serde, async, web, crate}; dependency module k (1st/2nd/3rd, or a
    #      nested one) triggers one (or two) features NOT in that subset
    ENTRY = {"serde": "@derive(Serialize)\nmodel EP:\n    x: int\n\n", "async": "async def ef() -> int:\n    return 1\n\n",
             "web": "", "crate": ""}
    ENTRY_IMP = {"web": "from web import App\n", "crate": "import rust::regex\n", "serde": "", "async": ""}
    DEP = {"serde": ("", "pub def show{j}(x: int) -> str:\n    return json_stringify(x)\n"), "async": ("", "pub async def slow{j}() -> int:\n    return 2\n"),
           "web": ("from web import App\n", ""), "crate": ("from rust::rand import random\n", "")}
    feats = ["serde", "async", "web", "crate"]
    li = 0
    for mask in range(16):
        sub = [f for i, f in enumerate(feats) if mask >> i & 1]
        rest = [f for f in feats if f not in sub]
        combos = [(f,) for f in rest] + [(a, b_) for ai, a in enumerate(rest) for b_ in rest[ai + 1:]]
        for combo in combos:
            for pos in range(4):          # 0..2: flat modules m0..m2, 3: nested module pkg/inner
                li += 1
                if chk.tier == "quick":
                    keep = (len(combo) == 1 and (li % 4 == pos or set(sub) >= {"serde", "async"})) or (len(combo) == 2 and li % 12 == pos)
                    if not keep:
                        continue
                files = {}
                imports, calls = "", ""
                for j in range(3):
                    pre = "".join(DEP[f][0] for f in combo) if j == pos else ""
                    post = "".join(DEP[f][1].format(j=j) for f in combo) if j == pos else ""
                    files["m%d.incn" % j] = pre + "\npub def f%d() -> int:\n    return %d\n" % (j, j) + post
                    imports += "from m%d import f%d\n" % (j, j)
                pre = "".join(DEP[f][0] for f in combo) if pos == 3 else ""
                post = "".join(DEP[f][1].format(j=9) for f in combo) if pos == 3 else ""
                files["pkg/inner.incn"] = pre + "\npub def g() -> int:\n    return 7\n" + post
                imports += "from pkg.inner import g\n"
                # reverse import order for odd cases (the CLI loads imports through a stack)
                if li % 2:
                    imports = "\n".join(reversed(imports.strip().split("\n"))) + "\n"
                files["main.incn"] = "".join(ENTRY_IMP[f] for f in sub) + imports + "\n" + "".join(ENTRY[f] for f in sub) + \
                    "def main() -> None:\n    println(f0() + f1() + f2() + g())\n"
                add("lat_%s__%s_%d" % ("+".join(sub) or "none", "+".join(combo), pos), files)
    # the feature sits in the 1st / 2nd / 3rd of three imported modules (state carried across modules)
    for pos in range(3):
        for feat, body in (("serde", "pub def show(x: int) -> str:\n    return json_stringify(x)\n"), ("async", "pub async def slow() -> int:\n    return 2\n"),
                           ("crate", "from rust::rand import random\n")):
            files = {"main.incn": "from m0 import f0\nfrom m1 import f1\nfrom m2 import f2\n\ndef main() -> None:\n    println(f0() + f1() + f2())\n"}
            for j in range(3):
                files["m%d.incn" % j] = (body if (j == pos and feat == "crate") else "") + "pub def f%d() -> int:\n    return %d\n" % (j, j) + \
                    (body if (j == pos and feat != "crate") else "")
            add("dep3_%s_%d" % (feat, pos), files)
    add("alias_imports", {"main.incn": "import rust::rand as r\nfrom rust::regex import Regex as Rx\nimport rust::uuid::Uuid\nfrom rust::chrono::naive import NaiveDate\n"
                                         "import rust::rand\nfrom rust::rand import random\n\n" + MAIN_PLAIN})
    add("nested_dep", {"main.incn": "from pkg.inner import g\n\ndef main() -> None:\n    println(g())\n",
                       "pkg/inner.incn": "import rust::itertools\n\npub def g() -> str:\n    return json_stringify(1)\n"})
    for i, stem in enumerate(["hello", "my_prog", "a-b", "A9", "_x", "my prog", "1abc", "a.b", 'a"b', "x" * 40, "a", "_", "a-", "-a", "x" * 200,
                              "\u00e9t\u00e9", "\u540d\u524d", "fn", "test", "a\\b", "a'b", "a#b", "9"]):
        add("name_%d" % i, {stem + ".incn": MAIN_PLAIN}, stem=stem)
    return cases


# ---------------------------------------------------------------------------------------------- judging
NOT_CRATES = {"crate", "self", "super", "Self", "std", "core", "alloc", "i8", "i16", "i32", "i64", "i128", "isize", "u8", "u16", "u32", "u64", "u128",
              "usize", "f32", "f64", "str", "bool", "char", "clippy", "rustfmt"}


def external_roots(b):
    return sorted(r for r in b["roots"] if r not in NOT_CRATES and r not in b["mods"] and not r[0].isupper() and len(r) > 1)


def parse_deps(manifest):
    m = re.search(r"\[dependencies\]\n(.*?)\n\n", manifest, re.S)
    deps = []
    for l in (m.group(1).split("\n") if m else []):
        n, _, spec = l.partition(" = ")
        deps.append((n, spec))
    return deps


def legal_name(n):
    """cargo's package-name rule (Unicode letters allowed); the Coq model covers the ASCII part"""
    return bool(n) and (n[0].isalpha() or n[0] == "_") and all(ch.isalnum() or ch in "-_" for ch in n)


def cargo_accepts(out_dir):
    rc, out, err = vlib.sh(["cargo", "metadata", "--no-deps", "--offline", "--format-version", "1"], cwd=out_dir, timeout=120)
    return rc == 0, err.strip().split("\n")[0][:300]


def repo_version():
    m = re.search(r'(?m)^version\s*=\s*"([^"]+)"', open(os.path.join(vlib.REPO, "Cargo.toml")).read())
    return m.group(1) if m else "?"


def run(chk):
    chk.trusted = [
        "Coq 8.16.1 kernel (coqc; vm_compute for closed witnesses)",
        "vharness c15: the AST -> uniform tree converter (exhaustive match over incan_syntax::ast), node triggers = real scanners on the node alone, probe-based derivation of the edge tables, syn extraction of the version table, token-level extraction of path roots from generated Rust",
        "real cargo (`cargo metadata --no-deps --offline`) as the judge of manifest validity; stub `cargo` during `build_file`",
        "C15/Model.v: `uses` = a trigger occurs anywhere in the module (what the emitted Rust refers to) — checked against the generated Rust on the build cases only",
        "the TOML recogniser line_ok of C15/Model.v (a subset grammar written for this check)",
    ]
    chk.assumptions = [
        "theorems quantify over all edge tables / version tables; the tables of the current source are re-derived and evaluated on every run",
        "whole-manifest validity is proved for the name/version lines only (C15_manifest_valid_toml_partial); dependency lines are validated per run (table_wf on the regenerated table, manifest_ok on every built case, real cargo on the name cases)",
        "emitter use-line insertion is not modelled separately: the generated Rust is inspected directly",
    ]
    listed = {f["id"]: f for f in chk.findings if f.get("status") == "known"}
    res = chk.proof_stage("C15", allow_axioms=())
    binary = vlib.build_harness("debug")
    fails, corr_bad, tie_bad = [], [], []
    gen_arms, cli_vals, scan_vals, model_ok = {}, [], [], False

    import time as _t
    _t0 = _t.time()

    def lap(what):
        vlib.log('[c15] %-28s %.1fs' % (what, _t.time() - _t0))
    lap('proofs+harness')
    # ---- tie: version table
    tv = json.loads(vlib.run_harness(binary, ["run", "c15", "table", vlib.REPO], "").strip().split("\n")[-1])
    if "error" in tv:
        tie_bad.append({"what": "version table", "message": tv["error"]})
        table = []
    else:
        table = [(n, sp) for n, sp in tv["table"] if n != "<default>"]
        if not tv["default_none"] or any(sp is None for _, sp in table):
            tie_bad.append({"what": "version table", "message": "add_rust_crate no longer has the shape `name => Some(spec), _ => None`: %s" % tv})
            table = [(n, sp) for n, sp in table if sp is not None]
    chk.coverage["version_table"] = dict(table)

    # ---- tie: edge tables by probing the real scanners
    pS, mS, probesS, unpS = derive_edges(binary, T_SERDE, 1, 0)
    pA, mA, probesA, unpA = derive_edges(binary, T_ASYNC, 2, 1)
    chk.coverage["probes"] = {"serde": len(probesS), "async": len(probesA), "unparsed": len(unpS) + len(unpA)}
    chk.coverage["edges_missing_serde"] = sorted("%s.%s" % e for e in mS)
    chk.coverage["edges_missing_async"] = sorted("%s.%s" % e for e in mA)
    known_serde = set(tuple(x) for x in listed.get("scanner-arms", {}).get("witness", {}).get("missing_serde", []))
    known_async = set(tuple(x) for x in listed.get("scanner-arms", {}).get("witness", {}).get("missing_async", []))

    lap('probes')
    ids = Ids()

    def edge_list(es):
        return "[" + "; ".join("(%d, %d)" % (ids.kind(k), ids.slot(s)) for k, s in sorted(es)) + "]"

    # ---- programs for the scanner correspondence
    progs = probe_sources(T_SERDE) + probe_sources(T_ASYNC) + gen_programs(chk) + trigger_programs()
    scans = scan(binary, progs)
    trees = [(s, r) for s, r in zip(progs, scans) if r["ok"]]
    seen_edges = set()
    for _, r in trees:
        all_edges(r["tree"], seen_edges)
    unprobed = sorted(e for e in seen_edges if e not in pS | mS or e not in pA | mA)
    web_edges = {("Program", "decl.import"), ("Program", "decl.function"), ("Program", "decl.rust_import")}

    def tables_term():
        # missing = edges the probes found unscanned; every other edge is followed
        return "(mkTables (full_except %s) (full_except %s) (edges_of %s) %s)" % (
            edge_list(mS), edge_list(mA), edge_list(web_edges),
            "[" + "; ".join("(%s, %s)" % (zs(n), zs(sp)) for n, sp in table) + "]")

    build = build_cases(chk, table)
    scratch = os.path.join(vlib.BUILD, "c15-%d" % os.getpid())
    shutil.rmtree(scratch, ignore_errors=True)
    os.makedirs(os.path.join(scratch, "stubbin"))
    with open(os.path.join(scratch, "stubbin", "cargo"), "w") as f:
        f.write("#!/bin/sh\nexit 0\n")
    os.chmod(os.path.join(scratch, "stubbin", "cargo"), 0o755)
    try:
        # ---- real project generation
        lines = []
        for c in build:
            d = os.path.join(scratch, "src", c["name"])
            for rel, text in c["files"].items():
                os.makedirs(os.path.dirname(os.path.join(d, rel)) or d, exist_ok=True)
                open(os.path.join(d, rel), "w").write(text)
            c["out"] = os.path.join(scratch, "out", c["name"])
            lines.append(json.dumps({"entry": os.path.join(d, c["stem"] + ".incn"), "out": c["out"]}))
        env = dict(os.environ)
        env["PATH"] = os.path.join(scratch, "stubbin") + ":" + env.get("PATH", "")
        p = subprocess.run([binary, "run", "c15", "build"], input="\n".join(lines) + "\n", capture_output=True, text=True, env=env, timeout=900)
        if p.returncode != 0:
            raise vlib.Infra("c15 build failed: " + p.stderr[-1500:])
        outs = [json.loads(l[6:]) for l in p.stdout.split("\n") if l.startswith("@@C15 ")]
        if len(outs) != len(build):
            raise vlib.Infra("c15 build returned %d results for %d cases" % (len(outs), len(build)))
        main_scans = scan(binary, [c["files"][c["stem"] + ".incn"] for c in build])
        dep_scans = [scan(binary, [t for rel, t in sorted(c["files"].items()) if rel != c["stem"] + ".incn"]) for c in build]

        lap('build+scan')
        # ---- model evaluation (one coqc run): scanners on all programs, CLI on the build cases
        model_ok = vlib.coq_build(["C15/Model.vo"])[0]
        req = ("From Coq Require Import ZArith List String.\nImport ListNotations.\nFrom Verif Require Import C15.Model.\nOpen Scope Z_scope.")
        scan_vals, cli_vals, table_flags = [], [], [1, 1]
        if model_ok:
            terms = ["(([] : str), render_scan T %s %s %s, ([] : list Z))" % (edge_list(known_serde), edge_list(known_async), coq_tree(r["tree"], ids)) for _, r in trees]
            root = os.path.realpath(vlib.REPO)
            ver = repo_version()
            for c, b, ms, ds in zip(build, outs, main_scans, dep_scans):
                if not ms["ok"] or not all(d["ok"] for d in ds) or not c["stem"].isascii():
                    continue
                c["modelled"] = True
                terms.append("(render_cli T %s %s %s %s %s)" % (zs(c["stem"]), zs(root), zs(ver), coq_tree(ms["tree"], ids),
                                                                 "[" + "; ".join(coq_tree(d["tree"], ids) for d in ds) + "]"))
            terms.append("(([] : str), [(if table_ok (t_versions T) then 1 else 0); (if table_wf (t_versions T) then 1 else 0)], ([] : list Z))")
            extra = "Definition T : tables := %s.\n" % tables_term()
            vals = vlib.coq_eval(req, "str * list Z * list Z", "fun x => x", terms, tag="c15", shard=24, extra_defs=extra)
            scan_vals = vals[:len(trees)]
            cli_vals = vals[len(trees):-1]
            table_flags = vals[-1][1]
        else:
            res["tie_ok"] = False
            res["broken"].append({"what": "model", "message": "C15/Model.v does not build"})

        lap('coq_eval main')
        # ---- version table: every entry pinned and a valid TOML line (evaluated in Coq on the regenerated table)
        if table_flags[0] != 1:
            bad = [n for n, sp in table if not re.match(r'^("\d|\{ version = "\d|\{ path = ")', sp)]
            for n in bad[:3]:
                fails.append({"case": "import rust::%s" % n, "why": "the known-good table gives `%s` no explicit version: %s" % (n, dict(table)[n])})
        if table_flags[1] != 1:
            tie_bad.append({"what": "version table", "message": "an entry of add_rust_crate does not form a valid TOML dependency line (table_wf = false)"})

        # ---- scanner correspondence + scanner-level oracle
        dist = {}
        for (src, r), v in zip(trees, scan_vals):
            m = v[1]
            real = [int(x) for x in r["real"]]
            chk.count_case(src, nontrivial=any(m[3:6]))
            key = "uses=%s detect=%s" % (m[3:6], m[0:3])
            dist[key] = dist.get(key, 0) + 1
            if m[0:3] != real:
                corr_bad.append({"case": src, "what": "scanner verdicts [serde, async, web]", "model": m[0:3], "impl": real})
            for i, (nm, kcls) in enumerate((("serde", m[6]), ("async", m[7]))):
                if m[3 + i] == 1 and real[i] == 0:
                    if kcls == 1 and "scanner-arms" in listed:
                        continue
                    fails.append({"case": src, "why": "the program uses %s (trigger present) but detect_%s_usage returns false, and the use is not hidden behind a listed unscanned edge" % (nm, nm),
                                  "expected": True, "actual": False})
                if m[3 + i] == 0 and real[i] == 1:
                    fails.append({"case": src, "why": "detect_%s_usage reports a feature the program does not use" % nm, "expected": False, "actual": True})
        chk.coverage["distribution"] = dist
        chk.coverage["traces_validated_against_impl"] = len(scan_vals) + len(cli_vals)
        if unprobed:
            chk.notes.append("edges seen in generated programs but not probed (treated as followed): %s" % unprobed[:10])

        import concurrent.futures
        need_cargo = [c for c, b in zip(build, outs) if (c["name"].startswith("name_") or c["name"] in ("plain", "derive")) and b["ok"] and b["manifest"]]
        with concurrent.futures.ThreadPoolExecutor(max_workers=8) as ex:
            cargo_verdict = dict(zip([c["name"] for c in need_cargo], ex.map(lambda c: cargo_accepts(c["out"]), need_cargo)))
        # ---- build-level oracle: the property itself on the generated project
        ci = 0
        for c, b, ms, ds in zip(build, outs, main_scans, dep_scans):
            chk.count_case(("build", c["name"], c["files"]), nontrivial=bool(b["ok"]))
            stem_ok = legal_name(c["stem"])
            v = None
            if c.get("modelled") and ci < len(cli_vals):
                v = cli_vals[ci]
                ci += 1
            if not b["ok"] or not b["manifest"]:
                refused = "unknown Rust crate" in b["err"] or "Cargo package name" in b["err"]
                if v is not None and refused and v[2][0] != 0:
                    corr_bad.append({"case": c["name"], "what": "`incan build` refuses, the model writes a project", "impl": b["err"][:300]})
                if v is not None and not refused and v[2][0] == 0:
                    corr_bad.append({"case": c["name"], "what": "the model refuses (unknown crate / illegal name), `incan build` failed for another reason", "impl": b["err"][:300]})
                if not refused:
                    chk.notes.append("build case %s did not generate a project: %s" % (c["name"], b["err"][:200]))
                continue
            deps = parse_deps(b["manifest"])
            declared = [n for n, _ in deps]
            ext = external_roots(b)
            # (1) declares what the generated Rust refers to
            undeclared = [r for r in ext if r not in declared]
            if undeclared:
                dep_srcs = [s for s in ds if s["ok"]]
                in_main = {"serde": ms["ok"] and bool(trigger_paths(ms["tree"], 1)), "tokio": ms["ok"] and bool(trigger_paths(ms["tree"], 2))}
                for r in undeclared:
                    feat = {"serde": "serde", "serde_json": "serde", "tokio": "tokio", "axum": "web"}.get(r)
                    only_dep = (feat in ("serde", "tokio") and not in_main[feat] and any(trigger_paths(s["tree"], 1 if feat == "serde" else 2) for s in dep_srcs)) or \
                               (feat is None and r not in ms.get("crates", []) and any(r in s["crates"] for s in dep_srcs))
                    hidden = feat in ("serde", "tokio") and in_main[feat] and ms["ok"] and all(
                        any(e in (known_serde if feat == "serde" else known_async) for e in path) for path in trigger_paths(ms["tree"], 1 if feat == "serde" else 2))
                    if only_dep and "dep-module-features" in listed:
                        continue
                    if hidden and "scanner-arms" in listed:
                        continue
                    fails.append({"case": c["name"], "files": c["files"], "why": "generated Rust refers to crate `%s` but Cargo.toml does not declare it" % r,
                                  "expected": "dependency on " + r, "actual": declared})
            # (1a) feature-gated incan_stdlib modules referenced by the generated Rust need the feature
            std_spec = dict(deps).get("incan_stdlib", "")
            for mod_, feat_ in (("web", '"web"'), ("json", '"json"')):
                if mod_ in b.get("stdlib_mods", []) and feat_ not in std_spec:
                    fails.append({"case": c["name"], "files": c["files"], "why": "generated Rust refers to incan_stdlib::%s but Cargo.toml declares incan_stdlib without feature %s" % (mod_, feat_),
                                  "expected": "incan_stdlib features containing " + feat_, "actual": std_spec})
            # (1b) every `rust::` import of every module is declared, exactly once
            for m in [ms] + list(ds):
                if not m["ok"]:
                    continue
                for cr in m["crates"]:
                    if declared.count(cr) != 1:
                        fails.append({"case": c["name"], "files": c["files"], "why": "`rust::%s` is imported but Cargo.toml declares it %d times" % (cr, declared.count(cr)),
                                      "expected": "one dependency on " + cr, "actual": declared})
            # (2) declares only what is needed
            mods_ok = [m for m in [ms] + list(ds) if m["ok"]]
            needed = {"incan_stdlib", "incan_derive"}
            for m in mods_ok:
                needed |= set(m.get("crates", []))
                if trigger_paths(m["tree"], 1) or trigger_paths(m["tree"], 4):
                    needed |= {"serde", "serde_json"}
                if trigger_paths(m["tree"], 2) or trigger_paths(m["tree"], 4):
                    needed |= {"tokio"}
                if trigger_paths(m["tree"], 4):
                    needed |= {"axum"}
            for n in declared:
                if n not in needed:
                    fails.append({"case": c["name"], "files": c["files"], "why": "Cargo.toml declares `%s`, which nothing in the program needs" % n,
                                  "expected": sorted(needed), "actual": declared})
            if len(set(declared)) != len(declared):
                fails.append({"case": c["name"], "files": c["files"], "why": "duplicate dependency keys", "actual": declared})
            # (3) pinned
            for n, spec in deps:
                if not re.match(r'^("\d|\{ version = "\d|\{ path = ")', spec):
                    if spec == '"*"' and n not in dict(table) and "wildcard-dep" in listed:
                        continue
                    fails.append({"case": c["name"], "files": c["files"], "why": "dependency `%s = %s` has no explicit version or path" % (n, spec),
                                  "expected": "refusal (UnknownCrateError) or a pinned version", "actual": spec})
            # (4) valid manifest naming package and binary (judged by cargo for the name cases)
            if c["name"].startswith("name_") or c["name"] in ("plain", "derive"):
                ok, msg = cargo_verdict.get(c["name"], (False, "not run"))
                names_ok = ('[package]\nname = "%s"\n' % c["stem"]) in b["manifest"] and ('[[bin]]\nname = "%s"\n' % c["stem"]) in b["manifest"]
                if stem_ok and not (ok and names_ok):
                    fails.append({"case": c["name"], "files": c["files"], "why": "legal project name but cargo rejects the manifest or the names are wrong: " + msg})
                if not stem_ok and not ok and "project-name-unvalidated" not in listed:
                    fails.append({"case": c["name"], "files": c["files"], "why": "file stem `%s` is not a legal package name; incan generates a manifest cargo rejects: %s" % (c["stem"], msg)})
            # (5) correspondence: model manifest text + booleans
            if v is not None:
                text = "".join(chr(x) for x in v[0])
                built_m, pinned_m, tomlok_m, legal_m = v[2]
                if built_m != 1:
                    corr_bad.append({"case": c["name"], "what": "`incan build` writes a project, the model refuses", "model": v[2]})
                elif text != b["manifest"]:
                    corr_bad.append({"case": c["name"], "what": "Cargo.toml text", "model": text, "impl": b["manifest"]})
                elif tomlok_m != 1 or (legal_m == 1) != stem_ok:
                    corr_bad.append({"case": c["name"], "what": "manifest_ok / legal_name disagree with the implementation", "model": v[2]})

        lap('oracle (incl. cargo metadata)')
        # ---- the manifest writer alone (library call), every flag combination x crate sets x bin/lib
        tdict = dict(table)
        crate_sets = [[], [("rand", None)], [("zeta", '"9.9"'), ("alpha", '{ version = "1", features = ["x", "y"] }')],
                      [("serde", None), ("tokio", None), ("axum", '"0.1"'), ("serde_json", None)], [("time", None), ("log", None), ("env_logger", None)],
                      [("nosuchcrate", None), ("uuid", None)], [(n, None) for n in sorted(tdict)]]
        gcases = []
        for bits in range(16):
            for ci_, cs in enumerate(crate_sets):
                if chk.tier == "quick" and (bits * 7 + ci_) % 3 != 0 and ci_ not in (0, 3):
                    continue
                gcases.append({"name": "lib_name-%d" % bits, "bin": bool(bits & 1), "serde": bool(bits & 2), "tokio": bool(bits & 4), "axum": bool(bits & 8),
                               "crates": [[n, sp] for n, sp in cs], "out": os.path.join(scratch, "gen", "g%d_%d" % (bits, ci_))})
        p = subprocess.run([binary, "run", "c15", "gen"], input="\n".join(json.dumps(g) for g in gcases) + "\n", capture_output=True, text=True, timeout=600)
        if p.returncode != 0:
            raise vlib.Infra("c15 gen failed: " + p.stderr[-1500:])
        gouts = [json.loads(l[6:]) for l in p.stdout.split("\n") if l.startswith("@@C15 ")]
        if len(gouts) != len(gcases):
            raise vlib.Infra("c15 gen returned %d results for %d cases" % (len(gouts), len(gcases)))
        if model_ok:
            gterms = []
            for g in gcases:
                cr = [(n, sp if sp is not None else tdict.get(n)) for n, sp in g["crates"] if sp is not None or n in tdict]
                g["model_crates"] = cr
                gterms.append("(render_gen (mkGen %s %s %s %s %s %s %s %s))" % (
                    zs(g["name"]), *["true" if g[k] else "false" for k in ("bin", "serde", "tokio", "axum")],
                    "[" + "; ".join("(%s, Some %s)" % (zs(n), zs(sp)) for n, sp in reversed(cr)) + "]", zs(os.path.realpath(vlib.REPO)), zs(repo_version())))
            gvals = vlib.coq_eval(req, "str * list Z * list Z", "fun x => x", gterms, tag="c15g", shard=30)
            for g, o, v in zip(gcases, gouts, gvals):
                chk.count_case(("gen", json.dumps(g, sort_keys=True)), nontrivial=True)
                text = "".join(chr(x) for x in v[0])
                refused_want = sorted(n for n, sp in g["crates"] if sp is None and n not in tdict)
                if not o.get("ok") or o.get("manifest") != text or sorted(o.get("refused", [])) != refused_want:
                    corr_bad.append({"case": g, "what": "ProjectGenerator::generate vs generate_cargo_toml model", "model": text, "impl": o})
                    continue
                want_file = "src/main.rs" if g["bin"] else "src/lib.rs"
                if o.get("files") != [want_file]:
                    fails.append({"case": json.dumps(g), "why": "writer produced %s, expected only %s" % (o.get("files"), want_file)})
                deps = parse_deps(text)
                if len({n for n, _ in deps}) != len(deps):
                    fails.append({"case": json.dumps(g), "why": "duplicate dependency keys in the manifest: %s" % [n for n, _ in deps]})
                if v[2][1] != 1:
                    corr_bad.append({"case": g, "what": "manifest_ok rejects a writer manifest", "model": v[2]})
                for a in ("bin" if g["bin"] else "lib", "serde" if g["serde"] else "no-serde", "axum+tokio_net" if g["axum"] else ("tokio" if g["tokio"] else "no-tokio"),
                          "stdlib_feats=" + "+".join((["web"] if g["axum"] else []) + (["json"] if g["serde"] else [])),
                          "rust_deps=%d" % min(2, len([n for n, _ in g["model_crates"] if n not in [d for d, _ in deps[:6]] or True]))):
                    gen_arms["writer." + a] = gen_arms.get("writer." + a, 0) + 1
                skipped = [n for n, _ in g["model_crates"] if [d for d, _ in deps].count(n) == 1 and n in ("serde", "serde_json", "tokio", "axum")
                           and ((n in ("serde", "serde_json") and g["serde"]) or (n == "tokio" and (g["tokio"] or g["axum"])) or (n == "axum" and g["axum"]))]
                gen_arms["writer.skip_already_added"] = gen_arms.get("writer.skip_already_added", 0) + len(skipped)
        chk.coverage["traces_validated_against_impl"] += len(gcases)

        lap('writer-direct')
        # ---- known findings: re-run witnesses
        by = {c["name"]: (c, b) for c, b in zip(build, outs)}
        if "wildcard-dep" in listed and by["unknown_crate"][1]["manifest"] and 'foobarbaz = "*"' in by["unknown_crate"][1]["manifest"]:
            chk.known("wildcard-dep", "wildcard-dep: " + listed["wildcard-dep"]["summary"])
        if "scanner-arms" in listed:
            b = by["json_elif"][1]
            if b["manifest"] and "serde_json" in external_roots(b) and "serde_json" not in [n for n, _ in parse_deps(b["manifest"])]:
                chk.known("scanner-arms", "scanner-arms: " + listed["scanner-arms"]["summary"])
        if "dep-module-features" in listed:
            b = by["dep_serde"][1]
            if b["manifest"] and "serde_json" in external_roots(b) and "serde_json" not in [n for n, _ in parse_deps(b["manifest"])]:
                chk.known("dep-module-features", "dep-module-features: " + listed["dep-module-features"]["summary"])
        if "project-name-unvalidated" in listed:
            bad = [cc for cc in build if cc["name"].startswith("name_") and not legal_name(cc["stem"])]
            if any(by[cc["name"]][1]["manifest"] and not cargo_accepts(cc["out"])[0] for cc in bad[:2]):
                chk.known("project-name-unvalidated", "project-name-unvalidated: " + listed["project-name-unvalidated"]["summary"])
        # a newly unscanned edge that is not listed
        for nm, miss, kn in (("serde", mS, known_serde), ("async", mA, known_async)):
            new = sorted(e for e in miss if e not in kn)
            if new and "scanner-arms" in listed:
                chk.notes.append("unscanned %s edges not in the listed class: %s" % (nm, new))
    finally:
        shutil.rmtree(scratch, ignore_errors=True)

    arms = {"cli_build.built": 0, "cli_build.refused_illegal_name": 0, "cli_build.refused_unknown_crate": 0, "lookup.hit": 0, "lookup.miss": 0,
            "modules.main_only": 0, "modules.with_deps": 0}
    for nm in ("serde", "async", "web"):
        for a in ("detect.%s.true", "detect.%s.false_no_use", "trigger_at_root_decl.%s", "trigger_nested.%s"):
            if a % nm != "trigger_nested.web":   # web triggers exist at declaration level only
                arms[a % nm] = 0
    for (src, r), v in zip(trees, scan_vals):
        m = v[1]
        for i, nm in enumerate(("serde", "async", "web")):
            arms["detect.%s.%s" % (nm, "true" if m[i] else "false_no_use")] += 1
            for pth in trigger_paths(r["tree"], 1 << i):
                a = ("trigger_at_root_decl.%s" if len(pth) <= 1 else "trigger_nested.%s") % nm
                arms[a] = arms.get(a, 0) + 1
    mi = 0
    for c, b, ms, ds in zip(build, outs, main_scans, dep_scans):
        if not c.get("modelled") or mi >= len(cli_vals):
            continue
        v = cli_vals[mi]
        mi += 1
        arms["modules.with_deps" if ds else "modules.main_only"] += 1
        if v[2][0] == 1:
            arms["cli_build.built"] += 1
        elif v[2][3] == 0:
            arms["cli_build.refused_illegal_name"] += 1
        else:
            arms["cli_build.refused_unknown_crate"] += 1
        for m in [ms] + list(ds):
            for cr in m.get("crates", []):
                arms["lookup.hit" if cr in dict(table) else "lookup.miss"] += 1
    arms.update(gen_arms)
    for a in ("writer.bin", "writer.lib", "writer.serde", "writer.no-serde", "writer.axum+tokio_net", "writer.tokio", "writer.no-tokio", "writer.stdlib_feats=",
              "writer.stdlib_feats=web", "writer.stdlib_feats=json", "writer.stdlib_feats=web+json", "writer.skip_already_added"):
        arms.setdefault(a, 0)
    chk.coverage["model_arm_hits"] = arms
    zero = sorted(a for a, n in arms.items() if n == 0)
    if zero and model_ok:
        chk.notes.append("GENERATOR BUG: model arms never reached: %s" % zero)
    chk.coverage["rule"] = ("scanner cases: one probe per (constructor, slot) for two triggers + seeded random nestings, non-trivial when a trigger is present; "
                            "build cases: fixed well-typed projects (features, crates, dependency modules, project names) generated by the real build_file")
    chk.coverage["correspondence_mismatches"] = len(corr_bad)
    for s in progs[:3] + [build[5]["files"]["main.incn"]]:
        chk.sample(s[:160].replace("\n", "\\n"))
    seen = set()
    for f in fails:
        k = f["why"][:80] + str(f.get("case"))[:60]
        if k in seen:
            continue
        seen.add(k)
        chk.violation("failing-input", f)
        if len(seen) >= 20:
            break
    if not fails:
        if corr_bad:
            chk.violation("correspondence-broken", {"theorem_or_tie": "C15 model vs real scanners / manifest writer", "cases": corr_bad[:10]}, no_input=True)
        if tie_bad:
            chk.violation("tie-broken", {"theorem_or_tie": "C15 tables re-derived from source", "problems": tie_bad}, no_input=True)
        if not res["proofs_ok"] or not res["tie_ok"]:
            chk.violation("proof-broken", {"theorem_or_tie": res["broken"]}, no_input=True)


def replay(path):
    data = json.load(open(path))
    binary = vlib.build_harness("debug")
    scratch = os.path.join(vlib.BUILD, "c15-replay-%d" % os.getpid())
    os.makedirs(os.path.join(scratch, "stubbin"), exist_ok=True)
    with open(os.path.join(scratch, "stubbin", "cargo"), "w") as f:
        f.write("#!/bin/sh\nexit 0\n")
    os.chmod(os.path.join(scratch, "stubbin", "cargo"), 0o755)
    env = dict(os.environ)
    env["PATH"] = os.path.join(scratch, "stubbin") + ":" + env.get("PATH", "")
    try:
        for v in data["violations"]:
            d = v["detail"]
            print("why:", d.get("why", d.get("theorem_or_tie")))
            if "files" in d:
                src = os.path.join(scratch, "src")
                shutil.rmtree(src, ignore_errors=True)
                for rel, text in d["files"].items():
                    os.makedirs(os.path.dirname(os.path.join(src, rel)) or src, exist_ok=True)
                    open(os.path.join(src, rel), "w").write(text)
                entry = next((k for k in d["files"] if k.startswith("main.")), sorted(d["files"])[0])
                p = subprocess.run([binary, "run", "c15", "build"], input=json.dumps({"entry": os.path.join(src, entry), "out": os.path.join(scratch, "out")}) + "\n",
                                   capture_output=True, text=True, env=env)
                for l in p.stdout.split("\n"):
                    if l.startswith("@@C15 "):
                        b = json.loads(l[6:])
                        print("implementation: ok=%s err=%s\nCargo.toml:\n%s\nexternal crate roots in generated Rust: %s" % (
                            b["ok"], b["err"][:300], b["manifest"], external_roots(b)))
            elif isinstance(d.get("case"), str) and "\n" in d["case"]:
                r = scan(binary, [d["case"]])[0]
                print("source:\n" + d["case"])
                print("real scanners [serde, async, web]:", r.get("real"), " expected:", d.get("expected"))
            else:
                print(json.dumps(d, indent=1)[:3000])
    finally:
        shutil.rmtree(scratch, ignore_errors=True)
    return 0
