"""C16 — `incan test` reports the truth.

proof:   coq/C16/Props.v (23 theorems over all test lists / file trees / raw-verdict functions).
tie:     hand model C16/Model.v vs the REAL runner driven end to end: vharness re-executes itself as
         the `incan` binary (clap parsing -> cli::execute -> test_runner::run_tests ->
         run_single_test -> `cargo test`) on generated trees of test files with a stub `cargo`
         first on PATH whose exit status is scripted per (file, test) and which logs each call;
         verdict lines, counts, executed trace, fixtures listing and exit status are compared with
         the model evaluated inside coqc (vm_compute).  The public discover_* API is compared too.
oracle:  (a) the documented rules re-implemented directly in Python on the generator's own
         structures (substring -k, @slow/--slow, @skip never reaches cargo, @xfail inversion, counts
         = verdict lines, exit table, -x prefix); (b) harness truth: the same runner with the REAL
         cargo on tests whose bodies pass / fail an assertion / panic — a test may be PASSED only
         if its body ran to completion."""
import json
import os
import re

import vlib

KF_FALLBACK = os.path.join(vlib.VERIF, "build", "kf-C16.json")
FINDING_ID = "test-with-params-not-executed"   # what remains after the repair of test-body-never-run
FIXED_ID = "test-body-never-run"

# ------------------------------------------------------------------------------------------------
# generator structures


class Fn:
    # return-type shapes a test function can be declared with (an annotation is mandatory in Incan: `def f():` does
    # not parse): (annotation, statement that ends the body, does a #[test] harness of that type build?)
    SHAPES = {"None": ("None", None, True), "Unit": ("Unit", None, True), "int": ("int", "return 1", False),
              "bool": ("bool", "return true", False), "Option[int]": ("Option[int]", "return Some(1)", False),
              "Result[None, str]": ("Result[None, str]", "return Ok(c16_done())", True)}

    def __init__(self, name, decs=(), params=(), body="pass", is_async=False, ret="None", pub=False, doc=None):
        self.name, self.decs, self.params, self.body, self.is_async, self.ret = name, list(decs), list(params), body, is_async, ret
        self.pub, self.doc = pub, doc

    def builds(self):
        """does the Cargo project generated for THIS function (it alone gets #[test]) build? `fn() -> i64` etc. are
        rejected by rustc (`i64: Termination` is not satisfied), so such a test can only be FAILED."""
        return Fn.SHAPES.get(self.ret, (None, None, True))[2]

    def src(self):
        out = []
        for (dn, spec) in self.decs:
            if spec is None:
                out.append("@%s" % dn)
            elif spec[0] == "pos":
                out.append('@%s("%s")' % (dn, spec[1]))
            elif spec[0] == "named":
                out.append('@%s(%s="%s")' % (dn, spec[1], spec[2]))
            elif spec[0] == "int":
                out.append("@%s(%d)" % (dn, spec[1]))
            elif spec[0] == "empty":
                out.append("@%s()" % dn)
            elif spec[0] == "raw":
                out.append("@%s(%s)" % (dn, spec[1]))
        ps = ", ".join("%s: int" % p for p in self.params)
        out.append("%s%sdef %s(%s) -> %s:" % ("pub " if self.pub else "", "async " if self.is_async else "", self.name, ps, self.ret))
        if self.doc is not None:
            out.append('    """%s"""' % self.doc)
        for l in self.body.split("\n"):
            out.append("    " + l)
        tail = Fn.SHAPES.get(self.ret, (None, None, True))[1]
        if tail and not self.body.rstrip().split("\n")[-1].lstrip().startswith("return"):
            out.append("    " + tail)
        return "\n".join(out) + "\n"

    def first_pos_arg(self, spec):
        return spec[1] if spec is not None and spec[0] == "pos" else None


class Other:
    def __init__(self, text):
        self.text = text

    def src(self):
        return self.text


class TFile:
    """A file of the generated tree."""

    def __init__(self, name, marker, decls=None, broken=None, typeerr=False, imports="", rust_broken=False):
        self.name, self.marker, self.decls, self.broken, self.typeerr, self.imports = name, marker, decls or [], broken, typeerr, imports
        self.rust_broken = rust_broken   # type-checks, but the generated Cargo project does not build (real-cargo runs only)

    def text(self):
        if self.broken == "syntax":
            return "def test_broken( -> None:\n    pass\n"
        if self.broken == "lex":
            return 'def test_broken() -> None:\n    x = "unterminated\n'
        parts = [self.imports] if self.imports else []
        for d in self.all_decls():
            parts.append(d.src())
        return "\n".join(parts)

    def all_decls(self):
        ds = [Fn("c16_file_marker_%d" % self.marker, ret="int", body="return %d" % self.marker), Fn("c16_done")] + list(self.decls)
        if self.typeerr:
            ds.append(Fn("c16_type_error", body='x: int = "not an int"'))
        return ds

    def compiles(self):
        return self.broken is None and not self.typeerr and not self.rust_broken


class TDir:
    def __init__(self, name, children):
        self.name, self.children = name, children


# ------------------------------------------------------------------------------------------------
# Gallina rendering


def cstr(s):
    """Gallina term of type str (list of code points). ASCII strings go through the Coq string
    notation (`zs`, defined in COQ_DEFS: one token instead of a long list literal)."""
    if s and all(32 <= ord(c) < 127 and c not in '"\\' for c in s):
        return '(zs "%s")' % s
    return "[" + "; ".join(str(ord(c)) for c in s) + "]"


COQ_REQ = ("From Coq Require Import String Ascii ZArith List Bool.\nFrom Verif Require Import C16.Model.\n"
           "Import ListNotations.\nOpen Scope Z_scope.")
COQ_DEFS = ("Definition zs (s : string) : str := List.map (fun a => Z.of_N (N_of_ascii a)) (list_ascii_of_string s).\n"
            "Arguments zs s%string.")


def coq_fn(f):
    decs = "; ".join("{| d_name := %s; d_arg := %s |}" % (cstr(dn), ("Some " + cstr(f.first_pos_arg(sp))) if f.first_pos_arg(sp) is not None else "None")
                     for (dn, sp) in f.decs)
    return "DFun {| f_name := %s; f_decs := [%s]; f_params := [%s]; f_async := %s |}" % (
        cstr(f.name), decs, "; ".join(cstr(p) for p in f.params), "true" if f.is_async else "false")


def coq_node(n):
    if isinstance(n, TDir):
        return "Dir %s [%s]" % (cstr(n.name), "; ".join(coq_node(c) for c in n.children))
    if n.broken:
        return "File %s Unparsable" % cstr(n.name)
    ds = "; ".join(coq_fn(d) if isinstance(d, Fn) else "DOther" for d in n.all_decls())
    return "File %s (Parsed [%s])" % (cstr(n.name), ds)


def coq_opts(o):
    return "{| o_stop := %s; o_slow := %s; o_filter := %s; o_fail_on_empty := %s |}" % (
        "true" if o["stop"] else "false", "true" if o["slow"] else "false",
        "None" if o["filter"] is None else "Some " + cstr(o["filter"]), "true" if o["fail_on_empty"] else "false")


def pystr(zs):
    return "".join(chr(z) for z in zs)


# ------------------------------------------------------------------------------------------------
# case generation

DIR_NAMES = ["tests", "sub", "a", "a_b", "a-b", "unit", "Target", "targets", "target", "node_modules", ".hidden", ".git", "node_module", "x.y", "test_dir"]
REASONS = ["not now", "known", "bug 123", "wip", "caf\u00e9", "a", "later \u2713", "x y z", ""]
WORDS = ["add", "sub", "addition", "parse", "slow", "skip", "io", "a", "b", "ab", "ba", "test", "x1", "net_io", "add_sub"]
BODIES = ["pass", "assert_eq(1, 1)", "assert_eq(1, 2)", "assert_true(false)", "x = 1 // 1\nassert_eq(x, 1)", 'fail("boom")']


def gen_fn(rng, used):
    k = rng.random()
    w = rng.choice(WORDS)
    if rng.random() < 0.4:
        w += "_" + rng.choice(WORDS)
    if k < 0.72:
        name = "test_" + w
    elif k < 0.78:
        name = "test_"
    elif k < 0.84:
        name = rng.choice(["tes_", "Test_", "_test_", "testx_", "helper_", "check_"]) + w
    elif k < 0.9:
        name = w + "_test"
    else:
        name = "test" + w
    if name in used and rng.random() < 0.9:
        name += "_%d" % len(used)
    used.add(name)
    decs = []
    nd = rng.choice([0, 0, 0, 1, 1, 1, 2, 2, 3])
    for _ in range(nd):
        dk = rng.random()
        if dk < 0.3:
            dn = "skip"
        elif dk < 0.6:
            dn = "xfail"
        elif dk < 0.85:
            dn = "slow"
        elif dk < 0.9:
            dn = "parametrize"
        elif dk < 0.95:
            dn = "fixture"
        else:
            dn = rng.choice(["banana", "skipif", "Skip", "slowly", "xfails"])
        if dn in ("skip", "xfail"):
            sk = rng.random()
            if sk < 0.55:
                spec = ("pos", rng.choice(REASONS))
            elif sk < 0.75:
                spec = None
            elif sk < 0.85:
                spec = ("named", "reason", rng.choice(REASONS[:4]))
            elif sk < 0.92:
                spec = ("int", rng.randint(0, 9))
            else:
                spec = ("empty",)
        elif dn == "slow":
            spec = None if rng.random() < 0.85 else ("empty",)
        elif dn == "parametrize":
            spec = ("raw", '"v", [1, 2]')
        elif dn == "fixture":
            spec = rng.choice([None, None, ("raw", 'scope="module"'), ("raw", "autouse=true"), ("raw", 'scope="session", autouse=true')])
        else:
            spec = rng.choice([None, ("pos", "zzz")])
        decs.append((dn, spec))
    params = []
    if any(d == "parametrize" for d, _ in decs):
        params.append("v")
    body = rng.choice(BODIES)
    ret = "None" if rng.random() < 0.6 else rng.choice(["Unit", "int", "bool", "Option[int]", "Result[None, str]", "Result[None, str]"])
    if ret in ("None", "Unit") and rng.random() < 0.1:
        body = "early = 1\nif early == 2:\n    return\n" + body
    return Fn(name, decs, params, body, is_async=(rng.random() < 0.04), ret=ret, pub=(rng.random() < 0.08),
              doc=("Docstring first." if rng.random() < 0.12 else None))


def gen_file(rng, idx, forced_name=None):
    nk = rng.random()
    stem = rng.choice(WORDS) + str(idx)
    if forced_name:
        name = forced_name
    elif nk < 0.5:
        name = "test_%s.incn" % stem
    elif nk < 0.7:
        name = "%s_test.incn" % stem
    elif nk < 0.75:
        name = "test_%s_test.incn" % stem
    else:
        name = rng.choice(["%s.incn", "test%s.incn", "%s_tests.incn", "test_%s.txt", "test_%s.incn.bak", "%s_test.inc", "Test_%s.incn",
                           "%stest.incn", "test_%s.INCN", "xtest_%s.incn", "%s_test.incn.txt", "test_%sincn"]) % stem
    bk = rng.random()
    if bk < 0.06:
        return TFile(name, idx, broken=rng.choice(["syntax", "lex"]))
    used = set()
    decls = []
    fixtures = []
    for _ in range(rng.choice([0, 1, 2, 2, 3, 3, 4, 5, 7])):
        ok = rng.random()
        if ok < 0.08:
            decls.append(Other(rng.choice([
                "const K%d: int = 3\n" % len(decls),
                "class Box%d:\n    v: int\n\n    def test_method(self) -> int:\n        return self.v\n" % len(decls),
                "model Rec%d:\n    test_field: int\n" % len(decls)])))
            continue
        f = gen_fn(rng, used)
        if any(d == "fixture" for d, _ in f.decs):
            f.ret, f.body, f.params = "int", "return 1", []
            fixtures.append(f.name)
        elif fixtures and rng.random() < 0.3:
            f.params = f.params + [rng.choice(fixtures)]
        if f.params and rng.random() < 0.2:
            f.params.append("extra")
        decls.append(f)
    if rng.random() < 0.1:
        decls.insert(rng.randrange(len(decls) + 1), Fn("main", body='println("hi")'))
    return TFile(name, idx, decls, typeerr=(rng.random() < 0.07),
                 imports="from testing import assert_eq, assert_true, fail\n")


def gen_tree(rng, counter, depth=0):
    children = []
    names = set()
    nfiles = rng.choice([0, 1, 1, 2, 2, 3, 4]) if depth else rng.choice([0, 1, 2, 2, 3, 4])
    for _ in range(nfiles):
        counter[0] += 1
        f = gen_file(rng, counter[0])
        if f.name not in names:
            names.add(f.name)
            children.append(f)
    if depth < 3:
        for _ in range(rng.choice([0, 0, 1, 1, 2, 3]) if depth else rng.choice([0, 1, 2, 3])):
            dn = rng.choice(DIR_NAMES)
            if dn in names:
                continue
            names.add(dn)
            children.append(TDir(dn, gen_tree(rng, counter, depth + 1)))
    rng.shuffle(children)
    return children


def tree_files(children, pre=""):
    """(relpath, TFile) for every file; (relpath) for every dir."""
    files, dirs = [], []
    for c in children:
        if isinstance(c, TDir):
            dirs.append(pre + c.name)
            f2, d2 = tree_files(c.children, pre + c.name + "/")
            files += f2
            dirs += d2
        else:
            files.append((pre + c.name, c))
    return files, dirs


def resolve(root, rel):
    if rel in (".", None):
        return root
    cur = root
    for comp in rel.split("/"):
        if not isinstance(cur, TDir):
            return None
        nxt = [c for c in cur.children if c.name == comp]
        if not nxt:
            return None
        cur = nxt[0]
    return cur


def gen_case(rng, cid):
    counter = [0]
    root = TDir(".", gen_tree(rng, counter))
    files, dirs = tree_files(root.children)
    # path argument
    pk = rng.random()
    path = "."
    if pk < 0.12 and dirs:
        path = rng.choice(dirs)
    elif pk < 0.2 and files:
        path = rng.choice(files)[0]
    elif pk < 0.23:
        path = "does_not_exist"
    elif pk < 0.3:
        path = None  # no PATH argument: default "."
    all_fn_names = [d.name for _, f in files if not f.broken for d in f.decls if isinstance(d, Fn)]
    filt = None
    fk = rng.random()
    if fk < 0.45 and all_fn_names:
        n = rng.choice(all_fn_names)
        i = rng.randrange(len(n))
        j = rng.randrange(i, len(n) + 1)
        filt = n[i:j]
        if filt.startswith("-"):
            filt = None
    elif fk < 0.55:
        filt = rng.choice(WORDS + ["", "zzz", "test_", "_"])
    opts = {"stop": rng.random() < 0.35, "slow": rng.random() < 0.4, "filter": filt,
            "fail_on_empty": rng.random() < 0.25, "verbose": rng.random() < 0.3}
    default_pass = rng.random() < 0.6
    script = {}
    for rel, f in files:
        if f.broken:
            continue
        for d in f.decls:
            if isinstance(d, Fn) and rng.random() < 0.5:
                ok = rng.random() < 0.5
                script["%d:%s" % (f.marker, d.name)] = [0 if ok else rng.choice([101, 1, 2, 255]),
                                                          rng.choice(["plain", "assertion", "panic", "silent"])]
    return {"id": cid, "root": root, "path": path, "opts": opts, "script": script,
            "default": [0 if default_pass else 101, "plain" if default_pass else rng.choice(["assertion", "panic", "silent"])]}


def case_args(c):
    a = ["test"]
    if c["path"] is not None:
        a.append(c["path"])
    o = c["opts"]
    if o["verbose"]:
        a.append("-v")
    if o["stop"]:
        a.append("-x")
    if o["slow"]:
        a.append("--slow")
    if o["filter"] is not None:
        a += ["-k", o["filter"]]
    if o["fail_on_empty"]:
        a.append("--fail-on-empty")
    return a


def case_json(c, keep_main=False):
    files, dirs = tree_files(c["root"].children)
    d = {"id": c["id"], "files": {rel: f.text() for rel, f in files}, "dirs": dirs, "args": case_args(c),
         "script": c["script"], "default": c["default"]}
    if c["path"] not in (None, "."):
        d["path"] = c["path"]
    if keep_main:
        d["keep_main_rs"] = True
    return json.dumps(d)


def raw_pass(c, f, fn_name):
    """scripted raw verdict of run_single_test for function fn_name of file f (stub cargo)."""
    if not f.compiles():
        return False
    e = c["script"].get("%d:%s" % (f.marker, fn_name), c["default"])
    return e[0] == 0


def coq_case(c):
    target = resolve(c["root"], c["path"])
    files, _ = tree_files(c["root"].children)
    tbl = []
    for rel, f in files:
        if f.broken:
            continue
        for d in f.decls:
            if isinstance(d, Fn):
                key = "%d:%s" % (f.marker, d.name)
                if key in c["script"] or not f.compiles():
                    tbl.append("(%s, %s, %s)" % (cstr(f.name), cstr(d.name), "true" if raw_pass(c, f, d.name) else "false"))
    return "(%s, %s, [%s], %s)" % ("None" if target is None else "Some (%s)" % coq_node(target), coq_opts(c["opts"]),
                                   "; ".join(tbl), "true" if c["default"][0] == 0 else "false")


# ------------------------------------------------------------------------------------------------
# reading the real runner's output

LINE = re.compile(r"^(\S+)::(\S+) (PASSED|FAILED|SKIPPED|XFAIL|XPASS)(?: \((.*)\))?$")
CODE = {"PASSED": 0, "FAILED": 1, "SKIPPED": 2, "XFAIL": 3, "XPASS": 4}
KIND = {"passed": 0, "failed": 1, "skipped": 2, "xfailed": 3, "xpassed": 4}


def parse_run(out):
    """canonical view of one `incan test` run: dict(kind, exit, collected, lines, counts, parts, fixtures)."""
    so, se = out.get("stdout", ""), out.get("stderr", "")
    r = {"exit": out.get("exit"), "collected": 0, "lines": [], "counts": [0] * 5, "parts": [], "fixtures": [], "odd": []}
    if "No test files found" in se:
        r["kind"] = 0
    elif "No tests collected" in se:
        r["kind"] = 1
    else:
        r["kind"] = 2
    body = so.split("=================== FAILURES ===================")[0]
    for l in body.split("\n"):
        m = LINE.match(l)
        if m:
            st = m.group(3)
            reason = m.group(4) or ""
            if st in ("PASSED", "FAILED"):
                if reason and not re.match(r"^\d+ms$", reason):
                    r["odd"].append(l)
                reason = ""
            r["lines"].append((m.group(1), m.group(2), CODE[st], reason))
            continue
        m = re.match(r"^collected (\d+) item\(s\)$", l)
        if m:
            r["collected"] = int(m.group(1))
            continue
        m = re.match(r"^  - (\S+): scope=", l)
        if m:
            r["fixtures"].append(m.group(1))
    m = re.search(r"^=+ (.*) in \d+\.\d+s =+$", so, re.M)
    if m:
        for part in m.group(1).split(", "):
            pm = re.match(r"^(\d+) (passed|failed|skipped|xfailed|xpassed)$", part)
            if pm:
                r["counts"][KIND[pm.group(2)]] = int(pm.group(1))
                r["parts"].append((int(pm.group(1)), KIND[pm.group(2)]))
            else:
                r["odd"].append("summary part %r" % part)
    m = re.search(r"^Discovered (\d+) fixture\(s\):$", so, re.M)
    r["fixture_header"] = int(m.group(1)) if m else None
    # FAILURES section: names listed
    r["failure_names"] = re.findall(r"^_{11} (\S+) _{11}$", so, re.M)
    return r


def cargo_argv_view(argv):
    """('test', [positional filters], exact?) of a logged `cargo <argv>` — a positional argument before or after `--`
    is a libtest name filter (substring match unless --exact)."""
    toks = argv.split()
    sub = toks[0] if toks else ""
    rest = [t for t in toks[1:] if t != "--"]
    return (sub, [t for t in rest if not t.startswith("-")], "--exact" in rest)


def model_view(mv):
    """parsed Coq value of run_case -> same canonical view."""
    (kind, exit_, collected, st, fixtures) = mv      # Coq prints left-nested pairs flat
    (results, counts, executed, parts) = st
    lines = [(pystr(fn), pystr(tn), rr[0], pystr(rr[1])) for (fn, tn, rr) in results]
    return {"kind": kind, "exit": exit_, "collected": collected, "lines": lines, "counts": list(counts),
            "executed": [(pystr(a), pystr(b)) for (a, b, _, _) in executed],
            # per executed test: names carrying #[test] in its generated harness, libtest filter the runner passes
            "executed_harness": [(pystr(a), pystr(b), sorted(pystr(x) for x in mk), (([pystr(flt[1])] if flt[0] else []), bool(flt[2])))
                                 for (a, b, mk, flt) in executed],
            "parts": [tuple(p) for p in parts],
            "fixtures": sorted(pystr(f) for f in fixtures)}


# ------------------------------------------------------------------------------------------------
# independent oracle: the documented rules on the generator's own structures


def py_is_test_file(name):
    return (name.startswith("test_") or name.endswith("_test.incn")) and name.endswith(".incn")


def py_discover(node, top=True):
    """documented discovery: list of TFile in path order."""
    out = []

    def walk(n, comps, top):
        if isinstance(n, TDir):
            if not top and (n.name.startswith(".") or n.name in ("target", "node_modules")):
                return
            for ch in n.children:
                walk(ch, comps + [n.name], False)
        elif py_is_test_file(n.name):
            out.append((comps + [n.name], n))
    if node is not None:
        walk(node, [], top)
    out.sort(key=lambda e: [c.encode("utf-8") for c in e[0]])
    return [f for _, f in out]


def py_markers(fn):
    ms = []
    for (dn, spec) in fn.decs:
        if dn in ("skip", "xfail"):
            ms.append((dn, fn.first_pos_arg(spec) or ""))
        elif dn in ("slow", "parametrize"):
            ms.append((dn, ""))
    return ms


def py_expected(c):
    """expected canonical view according to the documentation (docs/tooling/how-to/testing.md,
    cli_reference.md exit codes, RFC 019 `-k <substr>`), computed without the Coq model."""
    o = c["opts"]
    files = py_discover(resolve(c["root"], c["path"]))
    if not files:
        return {"kind": 0, "exit": 1, "lines": [], "log": [], "collected": 0}
    tests = []
    for f in files:
        if f.broken:
            continue
        for d in f.decls:
            if isinstance(d, Fn) and d.name.startswith("test_") and not any(dn == "fixture" for dn, _ in d.decs):
                tests.append((f, d))
    sel = [(f, d) for (f, d) in tests
           if (o["filter"] is None or o["filter"] in d.name) and (o["slow"] or not any(m == "slow" for m, _ in py_markers(d)))]
    if not sel:
        return {"kind": 1, "exit": 1 if o["fail_on_empty"] else 0, "lines": [], "log": [], "collected": 0}
    lines, log = [], []
    for (f, d) in sel:
        ms = py_markers(d)
        skips = [r for m, r in ms if m == "skip"]
        xf = [r for m, r in ms if m == "xfail"]
        if skips:
            lines.append((f.name, d.name, 2, skips[0]))
            continue
        ok = raw_pass(c, f, d.name)
        if f.compiles():
            log.append("%d:%s" % (f.marker, d.name))
        if xf:
            lines.append((f.name, d.name, 4 if ok else 3, "" if ok else xf[0]))
        else:
            lines.append((f.name, d.name, 0 if ok else 1, ""))
        if o["stop"] and lines[-1][2] == 1:
            break
    bad = any(l[2] in (1, 4) for l in lines)
    return {"kind": 2, "exit": 1 if bad else 0, "lines": lines, "log": log, "collected": len(sel)}


def self_consistency(r, log, stop):
    """properties of the real output that need no expectation at all."""
    errs = []
    if r["kind"] == 2:
        cnt = [0] * 5
        for l in r["lines"]:
            cnt[l[2]] += 1
        if cnt != r["counts"]:
            errs.append("printed counts %r do not match the verdict lines %r" % (r["counts"], cnt))
        bad = any(l[2] in (1, 4) for l in r["lines"])
        if (r["exit"] == 1) != bad or r["exit"] not in (0, 1):
            errs.append("exit status %r but failed/xpassed verdict present = %r" % (r["exit"], bad))
        if not stop and r["collected"] != len(r["lines"]):
            errs.append("collected %d but %d verdict lines" % (r["collected"], len(r["lines"])))
        if stop:
            for l in r["lines"][:-1]:
                if l[2] == 1:
                    errs.append("-x: a verdict follows a FAILED one")
        skipped = {l[1] for l in r["lines"] if l[2] == 2}
        ran = [e.split(" ")[0].split(":", 1)[1] for e in log]
        for n in ran:
            if n in skipped and all(l[2] == 2 for l in r["lines"] if l[1] == n):
                errs.append("@skip test %s reached cargo" % n)
        fails = [l[1] for l in r["lines"] if l[2] in (1, 4)]
        if fails != r["failure_names"]:
            errs.append("FAILURES section lists %r, verdict lines say %r" % (r["failure_names"], fails))
    elif r["lines"]:
        errs.append("verdict lines printed although nothing was collected")
    return errs


# ------------------------------------------------------------------------------------------------
# harness truth with the real cargo

TRUTH_IMPORT = "from testing import assert_eq, assert_true, fail\n"
# cargo-level failures that say nothing about the property (registry/network/disk), as opposed to
# compile errors of the generated code, which ARE the runner's business
INFRA_PATTERNS = ["could not resolve host", "failed to download", "failed to get `", "no matching package named",
                  "failed to load source for dependency", "no space left on device", "failed to query replaced source",
                  "failed to open:", "Failed to run test:"]


def truth_files(tier):
    """(file, {fn: (body_ok, compiles)}) — bodies whose outcome is known by construction."""
    trio = TFile("test_truth.incn", 1, [
        Fn("test_body_passes", body="assert_eq(1 + 1, 2)"),
        Fn("test_body_fails_assert", body="assert_eq(1, 2)"),
        Fn("test_body_panics", body='fail("boom")'),
    ], imports=TRUTH_IMPORT)
    truth = {"test_body_passes": True, "test_body_fails_assert": False, "test_body_panics": False}
    # what the repaired harness still does not execute: tests with parameters (fixtures)
    fp = TFile("test_truth_params.incn", 4, [
        Fn("db", decs=[("fixture", None)], ret="int", body="return 1"),
        Fn("test_fixture_param_body_fails", params=["db"], body="assert_eq(db, 2)"),
        Fn("test_fixture_param_body_passes", params=["db"], body="assert_eq(db, 1)"),
    ], imports=TRUTH_IMPORT)
    tp = {"test_fixture_param_body_fails": False, "test_fixture_param_body_passes": True}
    # names that contain one another (a libtest positional argument is a SUBSTRING filter): the verdict of
    # test_add must not depend on test_add_big / test_add_big_overflow, whatever their markers and bodies
    fn_ = TFile("test_truth_names.incn", 7, [
        Fn("test_add", body="assert_eq(1 + 1, 2)"),
        Fn("test_add_big", decs=[("skip", ("pos", "too big"))], body="assert_eq(1, 2)"),
        Fn("test_add_big_overflow", body="assert_eq(1, 2)"),
        Fn("test_sub", decs=[("xfail", ("pos", "known"))], body="assert_eq(2 - 1, 1)"),
        Fn("test_sub_neg", body='fail("boom")'),
        Fn("test_mul", body="assert_eq(2 * 2, 4)"),
        Fn("test_mul_slow", decs=[("slow", None)], body="assert_eq(2 * 2, 5)"),
    ], imports=TRUTH_IMPORT)
    tn = {"test_add": True, "test_add_big": False, "test_add_big_overflow": False, "test_sub": True, "test_sub_neg": False,
          "test_mul": True, "test_mul_slow": False}
    # every signature shape a test can have; the Result-returning (`?` style) ones fail by returning Err
    helpers = [
        Fn("parse_positive", params=["n"], ret="Result[int, str]", body='if n < 0:\n    return Err("negative")\nreturn Ok(n)'),
        Fn("helper_inner", params=["x"], ret="int", body="assert_eq(x, 1)\nreturn x"),
        Fn("helper_outer", params=["x"], ret="int", body="return helper_inner(x) + 1"),
    ]
    R = "Result[None, str]"
    shapes_quick = [
        Fn("test_result_ok", ret=R, body="v = parse_positive(3)?\nassert_eq(v, 3)"),
        Fn("test_result_assert_fails", ret=R, body="v = parse_positive(3)?\nassert_eq(v, 4)"),
        Fn("test_result_q_err", ret=R, body="v = parse_positive(-1)?\nassert_eq(v, 0)"),
        Fn("test_int_body_passes", ret="int", body="assert_eq(1, 1)"),
    ]
    tq = {"test_result_ok": True, "test_result_assert_fails": False, "test_result_q_err": False, "test_int_body_passes": True}
    fs = TFile("test_truth_shapes.incn", 8, helpers + shapes_quick, imports=TRUTH_IMPORT)
    sets = [(fn_, tn, []), (fp, tp, []), (fs, tq, [])]
    if tier == "thorough":
        sets.append((trio, truth, []))
        shapes_all = [
            Fn("main", body='println("a test file may have a main")'),
            Fn("test_result_returns_err", ret=R, body='return Err("explicit")'),
            Fn("test_result_xfail_err", ret=R, decs=[("xfail", ("pos", "r"))], body='return Err("explicit")'),
            Fn("test_int_body_fails", ret="int", body="assert_eq(1, 2)"),
            Fn("test_bool_body_passes", ret="bool", body="assert_eq(1, 1)"),
            Fn("test_option_body_passes", ret="Option[int]", body="assert_eq(1, 1)"),
            Fn("test_unit_alias_passes", ret="Unit", body="assert_eq(1, 1)"),
            Fn("test_unit_alias_fails", ret="Unit", body="assert_eq(1, 2)"),
            Fn("test_doc_passes", doc="Docstring first.", body="assert_eq(2, 2)"),
            Fn("test_doc_fails", doc="Docstring first.", body="assert_eq(2, 3)"),
            Fn("test_pub_passes", pub=True, body="assert_eq(2, 2)"),
            Fn("test_pub_fails", pub=True, body="assert_eq(2, 3)"),
            Fn("test_nested_passes", body="assert_eq(helper_outer(1), 2)"),
            Fn("test_nested_fails", body="assert_eq(helper_outer(5), 6)"),
            Fn("test_early_return_passes", body="x = 1\nif x == 1:\n    return\nassert_eq(1, 2)"),
            Fn("test_early_return_fails", body="x = 1\nif x == 2:\n    return\nassert_eq(1, 2)"),
            Fn("test_dec_xfail_slow_fails", decs=[("xfail", ("pos", "a")), ("slow", None)], body="assert_eq(1, 2)"),
            Fn("test_dec_slow_xfail_passes", decs=[("slow", None), ("xfail", ("pos", "b"))], body="assert_eq(1, 1)"),
            Fn("test_dec_skip_xfail_fails", decs=[("skip", ("pos", "s")), ("xfail", ("pos", "b"))], body="assert_eq(1, 2)"),
            Fn("test_dec_xfail_skip_fails", decs=[("xfail", ("pos", "b")), ("skip", ("pos", "s"))], body="assert_eq(1, 2)"),
        ]
        ta = {"test_result_returns_err": False, "test_result_xfail_err": False, "test_int_body_fails": False, "test_bool_body_passes": True,
              "test_option_body_passes": True, "test_unit_alias_passes": True, "test_unit_alias_fails": False, "test_doc_passes": True,
              "test_doc_fails": False, "test_pub_passes": True, "test_pub_fails": False, "test_nested_passes": True, "test_nested_fails": False,
              "test_early_return_passes": True, "test_early_return_fails": False, "test_dec_xfail_slow_fails": False,
              "test_dec_slow_xfail_passes": True, "test_dec_skip_xfail_fails": False, "test_dec_xfail_skip_fails": False}
        sets.append((TFile("test_truth_shapes_all.incn", 9, helpers + shapes_all, imports=TRUTH_IMPORT), ta, ["--slow"]))
        # every combination base x longer-named sibling: base in {pass, fail, xfail-pass, xfail-fail},
        # sibling marker in {none, skip, xfail, slow}, sibling body in {pass, fail}; run with --slow
        k = 0
        for bi, (bdecs, bok) in enumerate([([], True), ([], False), ([("xfail", ("pos", "b"))], True), ([("xfail", ("pos", "b"))], False)]):
            decls, tr = [], {}
            for sdecs in ([], [("skip", ("pos", "s"))], [("xfail", ("pos", "x"))], [("slow", None)]):
                for sok in (True, False):
                    tag = "f" + chr(97 + k // 26) + chr(97 + k % 26)
                    k += 1
                    base, sib = "test_%s" % tag, "test_%s_long" % tag
                    decls.append(Fn(base, decs=list(bdecs), body="assert_eq(1, 1)" if bok else "assert_eq(1, 2)"))
                    decls.append(Fn(sib, decs=list(sdecs), body="assert_true(true)" if sok else 'fail("sibling")'))
                    tr[base], tr[sib] = bok, sok
            sets.append((TFile("test_truth_family%d.incn" % bi, 10 + bi, decls, imports=TRUTH_IMPORT), tr, ["--slow"]))
        fz = TFile("test_truth_parametrize.incn", 5, [
            Fn("test_parametrized_body_fails", decs=[("parametrize", ("raw", '"v", [1, 2]'))], params=["v"], body="assert_eq(v, 0)"),
            Fn("test_plain_next_to_it_fails", body="assert_eq(1, 2)"),
            Fn("test_plain_next_to_it_passes", body="assert_eq(2, 2)"),
        ], imports=TRUTH_IMPORT)
        sets.append((fz, {"test_parametrized_body_fails": False, "test_plain_next_to_it_fails": False, "test_plain_next_to_it_passes": True}, []))
        # a file with an async function: the test project generated by run_single_test lacks the tokio
        # dependency its `use tokio::...` lines need, so nothing in the file builds and every test is FAILED
        # (loud, hence truthful; the async test is outside the known class because compiles = false)
        fa = TFile("test_truth_async.incn", 6, [
            Fn("test_async_body_fails", body="assert_eq(1, 2)", is_async=True),
            Fn("test_plain_in_async_file_passes", body="assert_eq(1, 1)"),
        ], imports=TRUTH_IMPORT, rust_broken=True)
        sets.append((fa, {"test_async_body_fails": False, "test_plain_in_async_file_passes": True}, []))
        f2 = TFile("test_truth2.incn", 2, [
            Fn("test_xfail_body_fails", decs=[("xfail", ("pos", "known"))], body="assert_true(false)"),
            Fn("test_xfail_body_passes", decs=[("xfail", ("pos", "known"))], body="assert_true(true)"),
            Fn("test_skipped_failing", decs=[("skip", ("pos", "never"))], body="assert_eq(1, 2)"),
            Fn("helper_fails", body="assert_eq(3, 4)"),
            Fn("test_calls_failing_helper", body="helper_fails()"),
            Fn("test_div_by_zero", body="d = 0\nx = 1 // d\nassert_eq(x, x)"),
            Fn("test_index_oob", body="xs = [1, 2, 3]\ny = xs[7]\nassert_eq(y, y)"),
            Fn("test_slow_passes", decs=[("slow", None)], body="assert_eq(2, 2)"),
            Fn("test_slow_fails", decs=[("slow", None)], body="assert_eq(2, 3)"),
        ], imports=TRUTH_IMPORT)
        t2 = {"test_xfail_body_fails": False, "test_xfail_body_passes": True, "test_skipped_failing": False,
              "test_calls_failing_helper": False, "test_div_by_zero": False, "test_index_oob": False,
              "test_slow_passes": True, "test_slow_fails": False}
        sets.append((f2, t2, ["--slow"]))
        f3 = TFile("test_truth3.incn", 3, [Fn("test_in_broken_file", body="assert_eq(1, 1)")], typeerr=True, imports=TRUTH_IMPORT)
        sets.append((f3, {"test_in_broken_file": True}, []))
    return sets


def truth_expected(f, truth, extra=()):
    """verdict lines a truthful runner prints."""
    lines = []
    for d in f.decls:
        if not isinstance(d, Fn) or not d.name.startswith("test_") or any(dn == "fixture" for dn, _ in d.decs):
            continue
        ms = py_markers(d)
        if "--slow" not in extra and any(m == "slow" for m, _ in ms):
            continue
        skips = [r for m, r in ms if m == "skip"]
        xf = [r for m, r in ms if m == "xfail"]
        ok = f.compiles() and d.builds() and truth[d.name]
        if skips:
            lines.append((f.name, d.name, 2, skips[0]))
        elif xf:
            lines.append((f.name, d.name, 4 if ok else 3, "" if ok else xf[0]))
        else:
            lines.append((f.name, d.name, 0 if ok else 1, ""))
    return lines


def model_runs_body(d):
    """Python mirror of Model.harness_runs_body (cross-checked against Coq in run())."""
    return not d.params and not d.is_async


def run_truth(chk, binary, res):
    """Runs the real runner with the real cargo on tests whose body outcome is known by construction.
    Returns (fails, known_cases, evidence, sets, parsed runs, corr)."""
    sets = truth_files(chk.tier)
    lines_in = []
    for i, (f, truth, extra) in enumerate(sets):
        lines_in.append(json.dumps({"id": i, "files": {f.name: f.text()}, "args": ["test", "."] + extra,
                                    "real_cargo": True, "keep_main_rs": True}))
    # one worker: the cargo invocations share /verif/build/gen-target
    os.environ["C16_WORKERS"] = "1"
    try:
        out = vlib.run_harness(binary, ["run", "c16"], "\n".join(lines_in) + "\n", timeout=6000)
    finally:
        os.environ.pop("C16_WORKERS", None)
    outs = [json.loads(l) for l in out.split("\n") if l.strip()]
    fails, known_cases, ev, runs, corr = [], [], [], [], []
    for (f, truth, extra), o in zip(sets, outs):
        if "infra" in o:
            raise vlib.Infra("c16 real-cargo run: " + o["infra"])
        r = parse_run(o)
        runs.append(r)
        blob = o.get("stdout", "") + o.get("stderr", "")
        for pat in INFRA_PATTERNS:
            if pat.lower() in blob.lower():
                raise vlib.Infra("real cargo could not build the generated test project (%s):\n%s" % (pat, blob[-1500:]))
        want = truth_expected(f, truth, extra)
        got = r["lines"]
        if len(got) != len(want):
            fails.append({"oracle": "harness-truth (real cargo)", "why": "reported tests %r, selected tests %r" % ([l[1] for l in got], [l[1] for l in want]),
                          "file": f.name, "source": f.text(), "args": ["test", "."] + extra, "stdout": o.get("stdout", "")[-3000:]})
        want_exit = 1 if any(l[2] in (1, 4) for l in want) else 0
        h = o.get("harness", {})
        rb = {n: bool(v.get("selected_is_test") or v.get("calls_selected")) for n, v in h.items()}
        decl = {d.name: d for d in f.decls if isinstance(d, Fn)}
        # tie: the generated harness marks exactly what Model.gen_current says (the selected function or nothing)
        for n, v in h.items():
            want_marked = [n] if (n in decl and model_runs_body(decl[n])) else []
            if n in decl and sorted(set(v.get("marked", []))) != want_marked:
                corr.append({"file": f.name, "source": f.text(),
                             "model_vs_impl": [("functions carrying #[test] in the harness generated for %s" % n, want_marked, v.get("marked"))]})
        for n, v in rb.items():
            if n in decl and v != model_runs_body(decl[n]):
                corr.append({"file": f.name, "source": f.text(),
                             "model_vs_impl": [("generated harness executes %s" % n, model_runs_body(decl[n]),
                                                {k: h[n].get(k) for k in ("test_attrs", "selected_is_test", "has_main", "calls_selected")})]})
        ev.append({"file": f.name, "args": ["test", "."] + extra, "verdicts": [(l[1], l[2]) for l in got], "exit": r["exit"],
                   "truthful_verdicts": [(l[1], l[2]) for l in want], "truthful_exit": want_exit,
                   "harness": {n: {k: v[k] for k in ("test_attrs", "selected_is_test", "has_main", "calls_selected")} for n, v in h.items()}})
        wrong = []
        gd = {l[1]: l for l in got}
        for w in want:
            g = gd.get(w[1])
            if g != w:
                wrong.append({"test": w[1], "truthful": w, "reported": g})
        if r["exit"] != want_exit and not wrong:
            wrong.append({"test": None, "truthful_exit": want_exit, "reported_exit": r["exit"]})
        for w in wrong:
            n = w["test"]
            d = decl.get(n)
            # class Known_C16_body_not_executed, decided on what the GENERATED code does (measured), for a test
            # the model says the harness cannot execute (parameters / async); anything else is a new failing input
            in_class = (d is not None and f.compiles() and d.builds() and truth.get(n) is False and not rb.get(n, False)
                        and h.get(n, {}).get("test_attrs", 0) == 0 and not model_runs_body(d)
                        and not any(m == "skip" for m, _ in py_markers(d)))
            if in_class:
                known_cases.append({"file": f.name, "source": f.text(), **w})
            else:
                why = "the verdict reported for %s is not the truthful verdict of its own body (its markers applied to: body ran to completion = %s)" % (n, truth.get(n))
                if d is not None and model_runs_body(d) and not rb.get(n, False):
                    why = ("defect test-body-never-run is back: the generated main.rs does not execute the selected "
                           "parameterless, non-async test (no #[test] on it), so its failing body is not reported")
                fails.append({"oracle": "harness-truth (real cargo)", "why": why, "file": f.name, "source": f.text(), "args": ["test", "."] + extra,
                              "stdout": o.get("stdout", "")[-3000:], "generated_main_rs": h.get(n or "", {}).get("main_rs", ""), **w})
    return fails, known_cases, ev, sets, runs, corr


def coq_truth_term(f, truth, extra):
    """model of a real-cargo run: loop over the discovered+selected tests with raw_of_harness harness_runs_body."""
    ok_names = "[" + "; ".join(cstr(n) for n, v in truth.items() if v) + "]"
    nobuild = "[" + "; ".join(cstr(d.name) for d in f.decls if isinstance(d, Fn) and not d.builds()) + "]"
    return "(%s, %s, %s, %s, %s)" % (coq_node(f), "true" if "--slow" in extra else "false", "true" if f.compiles() else "false", ok_names, nobuild)


TRUTH_RUN = ("fun c => let '(n, slow, comp0, oks, nobuild) := c in "
             "let comp := fun t : test => comp0 && negb (mem_str (t_name t) nobuild) in "
             "let ts := select None slow (all_tests (discover_files (Some n))) in "
             "let s := loop false (raw_of_harness gen_current comp (fun t => mem_str (t_name t) oks)) ts st0 in "
             "(map (fun tr => (t_name (fst tr), fst (render_result (snd tr)))) (results s), exit_code s, "
             " map (fun t => (t_name t, known_body_not_executedb gen_current comp (fun t => mem_str (t_name t) oks) t, harness_runs_body t)) ts)")


# ------------------------------------------------------------------------------------------------


def fixed_cases():
    """hand-written boundary cases that always run first."""
    cs = []

    def mk(children, path=".", **o):
        opts = {"stop": False, "slow": False, "filter": None, "fail_on_empty": False, "verbose": False}
        script = o.pop("script", {})
        default = o.pop("default", [0, "plain"])
        opts.update(o)
        cs.append({"id": len(cs), "root": TDir(".", children), "path": path, "opts": opts, "script": script, "default": default})

    imp = "from testing import assert_eq, assert_true, fail\n"
    basic = lambda: TFile("test_basic.incn", 1, [
        Fn("test_pass"), Fn("test_fail"), Fn("test_skipped", decs=[("skip", ("pos", "not now"))]),
        Fn("test_xf", decs=[("xfail", ("pos", "known"))]), Fn("test_xp", decs=[("xfail", None)]),
        Fn("test_slow_one", decs=[("slow", None)]), Fn("helper")], imports=imp)
    sc = {"1:test_fail": [101, "assertion"], "1:test_xf": [101, "panic"]}
    mk([basic()], script=sc)
    mk([basic()], script=sc, slow=True)
    mk([basic()], script=sc, stop=True)
    mk([basic()], script=sc, stop=True, verbose=True, slow=True)
    mk([basic()], script=sc, filter="s")
    mk([basic()], script=sc, filter="test_pass")
    mk([basic()], script=sc, filter="nomatch")
    mk([basic()], script=sc, filter="nomatch", fail_on_empty=True)
    mk([basic()], script=sc, filter="slow")
    mk([basic()], script=sc, filter="slow", fail_on_empty=True)
    mk([basic()], script=sc, filter="")
    mk([])                                           # empty directory
    mk([], fail_on_empty=True)
    mk([TFile("helpers.incn", 1, [Fn("test_x")])])  # not a test file
    mk([TFile("test_only_broken.incn", 1, broken="syntax")])
    mk([TFile("test_only_broken.incn", 1, broken="lex")], fail_on_empty=True)
    mk([TFile("test_broken.incn", 1, broken="syntax"), TFile("test_ok.incn", 2, [Fn("test_a")])])
    mk([TFile("test_te.incn", 1, [Fn("test_a"), Fn("test_b", decs=[("xfail", ("pos", "r"))]), Fn("test_c", decs=[("skip", None)])], typeerr=True)])
    mk([TDir("target", [TFile("test_t.incn", 1, [Fn("test_a")])]), TDir(".h", [TFile("test_h.incn", 2, [Fn("test_a")])]),
        TDir("node_modules", [TFile("test_n.incn", 3, [Fn("test_a")])]), TDir("ok", [TFile("test_o.incn", 4, [Fn("test_a")])])])
    mk([TDir("target", [TFile("test_t.incn", 1, [Fn("test_a")])])], path="target")
    mk([TDir(".h", [TDir("target", [TFile("test_t.incn", 1, [Fn("test_a")])]), TFile("test_h.incn", 2, [Fn("test_b")])])], path=".h")
    mk([TDir("d", [TFile("x_test.incn", 1, [Fn("test_a")]), TFile("helpers.incn", 2, [Fn("test_b")])])], path="d/helpers.incn")
    mk([TDir("d", [TFile("x_test.incn", 1, [Fn("test_a")]), TFile("helpers.incn", 2, [Fn("test_b")])])], path="d/x_test.incn")
    mk([TFile("test_.incn", 1, [Fn("test_")]), TFile("_test.incn", 2, [Fn("test_a")]), TFile("test_x.incn.bak", 3, [Fn("test_b")])])
    # sort order: component-wise, not byte-wise on the joined path
    mk([TDir("a-b", [TFile("test_1.incn", 1, [Fn("test_p")])]), TDir("a", [TFile("test_2.incn", 2, [Fn("test_q")])]),
        TFile("a_test.incn", 3, [Fn("test_r")]), TDir("a_b", [TFile("test_4.incn", 4, [Fn("test_s")])])])
    # same function name in two files, different scripted outcomes
    mk([TFile("test_one.incn", 1, [Fn("test_same")]), TFile("test_two.incn", 2, [Fn("test_same")])], script={"2:test_same": [101, "plain"]})
    # fixtures: a @fixture named test_* is not a test; fixture parameters
    mk([TFile("test_fx.incn", 1, [Fn("test_db", decs=[("fixture", None)], ret="int", body="return 1"),
                                   Fn("conn", decs=[("fixture", ("raw", 'scope="module", autouse=true'))], ret="int", body="return 2"),
                                   Fn("test_uses", params=["test_db", "other"]), Fn("test_plain")])], verbose=True)
    # marker order and duplicates
    mk([TFile("test_m.incn", 1, [Fn("test_a", decs=[("xfail", ("pos", "x1")), ("skip", ("pos", "s1")), ("skip", ("pos", "s2"))]),
                                  Fn("test_b", decs=[("xfail", None), ("xfail", ("pos", "second"))]),
                                  Fn("test_c", decs=[("slow", None), ("xfail", ("named", "reason", "nm"))]),
                                  Fn("test_d", decs=[("skip", ("named", "reason", "nm"))]),
                                  Fn("test_e", decs=[("skip", ("int", 3))])])], slow=True, default=[101, "silent"])
    # duplicate function names in one file (accepted by the type checker): emit_function marks EVERY declaration
    # of the selected name that is parameterless and not async — parameterised + parameterless, both orders, and async
    mk([TFile("test_dup_a.incn", 1, [Fn("test_a", decs=[("parametrize", ("raw", '"v", [1, 2]'))], params=["v", "extra"]),
                                      Fn("test_a", decs=[("slow", None)], pub=True), Fn("test_b")]),
        TFile("test_dup_b.incn", 2, [Fn("test_c"), Fn("test_c", params=["v"]), Fn("test_d", is_async=True), Fn("test_d")]),
        TFile("test_dup_c.incn", 3, [Fn("test_e", params=["v"]), Fn("test_e", params=["w"])])], script={"2:test_c": [101, "plain"]})
    mk([TFile("test_dup_a.incn", 1, [Fn("test_a", decs=[("parametrize", ("raw", '"v", [1, 2]'))], params=["v", "extra"]),
                                      Fn("test_a", decs=[("slow", None)], pub=True), Fn("test_b")])], slow=True)
    # -x stops at FAILED but not at XPASS
    mk([TFile("test_x.incn", 1, [Fn("test_a", decs=[("xfail", None)]), Fn("test_b"), Fn("test_c"), Fn("test_d")])],
       stop=True, script={"1:test_c": [1, "plain"]})
    return cs


def run(chk):
    chk.trusted = [
        "Coq 8.16.1 kernel (coqc; vm_compute for closed witnesses and for evaluating the model in the correspondence run)",
        "hand-written C16/Model.v for discover_test_files / discover_tests_and_fixtures / the filter, verdict loop, summary and exit code of run_tests (tied by correspondence, not generated)",
        "vharness c16 adapter: re-executes itself with argv[0]=incan and a .init_array constructor that calls the real incan::cli::run(); the stub `cargo` shell script; this script's output parser and differ",
        "cargo/rustc/libtest (real-cargo truth runs): `cargo test` exits 0 iff the project builds and every #[test] passes",
        "clap (argument parsing is exercised, not modelled), the file system (std::fs::read_dir; model: a finite tree with distinct names per directory)",
    ]
    chk.assumptions = [
        "run_single_test is modelled as an explicit argument run : test -> raw; for the stub it is the scripted exit status (and `false` when the file does not type-check), for the real cargo it is raw_of_harness with runs_body measured from the generated main.rs",
        "harness truth (Passed only if the body ran to completion) is proved relative to raw_of_harness gen_current, the model of the generated project: which functions carry #[test] and which libtest filter the runner passes (tied on every run: the set of #[test] functions is read off every generated main.rs and the `cargo test` argv is read off the stub's log; libtest's semantics — a positional argument is a substring filter unless --exact — is an assumption, exercised by the real-cargo runs on tests whose names contain one another); it holds for parameterless non-async tests (C16_truthful_for_plain_tests) and is refuted for tests with parameters/fixtures and async tests, which the generated harness does not execute (known finding test-with-params-not-executed; files with an async function do not build in the generated test project, so async tests are FAILED, outside the class)",
        "exit status 1 for 'no test files found' and for --fail-on-empty is the documented table (C16_exit_documented); C16_exit_nonzero_iff covers runs that collected at least one test",
        "test files that do not lex/parse are dropped with a message on stderr and do not affect the exit status (modelled as observed; the property statement does not cover them)",
        "@parametrize is not expanded and fixtures are never injected by the runner (modelled as observed: one verdict per function)",
    ]
    res = chk.proof_stage("C16", allow_axioms=())
    binary = vlib.build_harness("debug")

    n_rand = 120 if chk.tier == "quick" else 1500
    if os.environ.get("C16_NRAND", "").isdigit():      # debugging aid: smaller/larger PRNG stream
        n_rand = int(os.environ["C16_NRAND"])
    cases = fixed_cases()
    for _ in range(n_rand):
        cases.append(gen_case(chk.rng, len(cases)))
    for i, c in enumerate(cases):
        c["id"] = i

    # ---- real runner, stub cargo
    import time
    t0 = time.time()
    os.environ["C16_WORKERS"] = "16"
    out = vlib.run_harness(binary, ["run", "c16"], "\n".join(case_json(c) for c in cases) + "\n", timeout=6000)
    outs = [json.loads(l) for l in out.split("\n") if l.strip()]
    if len(outs) != len(cases):
        raise vlib.Infra("harness returned %d lines for %d cases" % (len(outs), len(cases)))
    for o in outs:
        if "infra" in o:
            raise vlib.Infra("c16 harness: " + str(o["infra"]))
    vlib.log("[c16] %d cases through the real runner (stub cargo) in %.1fs" % (len(cases), time.time() - t0))
    t0 = time.time()
    # ---- public discovery API
    dout = vlib.run_harness(binary, ["run", "c16", "discover"], "\n".join(case_json(c) for c in cases) + "\n", timeout=3000)
    douts = [json.loads(l) for l in dout.split("\n") if l.strip()]
    if len(douts) != len(cases):
        raise vlib.Infra("harness (discover) returned %d lines for %d cases" % (len(douts), len(cases)))

    vlib.log("[c16] discovery API in %.1fs" % (time.time() - t0))
    t0 = time.time()
    # ---- model inside Coq
    model_ok = vlib.coq_build(["C16/Model.vo"])[0]
    req = COQ_REQ
    models, dmodels = None, None
    if model_ok:
        ty = "option node * opts * list (str * str * bool) * bool"
        mv = vlib.coq_eval(req, ty, "fun c => let '(t, o, tb, d) := c in (run_case t o tb d, render_discovery t)",
                           [coq_case(c) for c in cases], shard=12, tag="c16", extra_defs=COQ_DEFS)
        models = [model_view(m[:5]) for m in mv]       # Coq prints left-nested pairs flat: 5 + 1 components
        dmodels = [m[5] for m in mv]
    else:
        res["tie_ok"] = False
        res["broken"].append({"what": "model", "message": "C16/Model.v does not build"})

    vlib.log("[c16] model evaluated in Coq in %.1fs" % (time.time() - t0))
    corr_bad, fails = [], []
    dist = {"outcome_kind": {}, "verdicts": [0] * 5, "flags": {}, "harness_test_attrs": {}, "tests_per_case": {}}
    runs_body_stub = set()
    for i, c in enumerate(cases):
        o = outs[i]
        r = parse_run(o)
        log = o.get("log", [])
        logkeys = [e.split(" ")[0] for e in log]
        for e in log:
            shape = e.split(" ", 1)[1] if " " in e else ""
            dist.setdefault("cargo_argv", {})
            dist["cargo_argv"][shape] = dist["cargo_argv"].get(shape, 0) + 1
        exp = py_expected(c)
        dist["outcome_kind"][str(r["kind"])] = dist["outcome_kind"].get(str(r["kind"]), 0) + 1
        for l in r["lines"]:
            dist["verdicts"][l[2]] += 1
        for k in ("stop", "slow", "fail_on_empty", "verbose"):
            if c["opts"][k]:
                dist["flags"][k] = dist["flags"].get(k, 0) + 1
        if c["opts"]["filter"] is not None:
            dist["flags"]["-k"] = dist["flags"].get("-k", 0) + 1
        b = str(min(len(r["lines"]), 10))
        dist["tests_per_case"][b] = dist["tests_per_case"].get(b, 0) + 1
        for n, h in o.get("harness", {}).items():
            k = "test_attrs=%d selected_is_test=%s calls_selected=%s" % (h["test_attrs"], h["selected_is_test"], h["calls_selected"])
            dist["harness_test_attrs"][k] = dist["harness_test_attrs"].get(k, 0) + 1
            runs_body_stub.add(bool(h["selected_is_test"] or h["calls_selected"]))
        chk.count_case((case_args(c), case_json(c)), nontrivial=(r["kind"] == 2))
        detail = {"case_id": i, "args": case_args(c), "files": json.loads(case_json(c))["files"], "script": c["script"], "default": c["default"],
                  "model_term": coq_case(c)}
        # (1) oracle: documented rules + self-consistency of the printed report
        why = self_consistency(r, log, c["opts"]["stop"])
        if r["odd"]:
            why.append("unexpected output: %r" % r["odd"][:3])
        if r["kind"] != exp["kind"] or r["exit"] != exp["exit"]:
            why.append("outcome kind/exit: documented (%d, %d), got (%d, %r)" % (exp["kind"], exp["exit"], r["kind"], r["exit"]))
        if r["lines"] != exp["lines"]:
            why.append("verdict lines differ from the documented rules: expected %r got %r" % (exp["lines"], r["lines"]))
        if exp["kind"] == 2 and r["collected"] != exp["collected"]:
            why.append("collected %d, documented selection has %d" % (r["collected"], exp["collected"]))
        if logkeys != exp["log"]:
            why.append("cargo was invoked for %r, expected %r" % (logkeys, exp["log"]))
        if why:
            fails.append({**detail, "why": why, "expected": exp, "actual": {k: r[k] for k in ("kind", "exit", "collected", "lines", "counts")},
                          "stdout": o.get("stdout", "")[-2500:], "stderr": o.get("stderr", "")[-800:]})
        # (2) correspondence with the Coq model
        if models is not None:
            m = models[i]
            diffs = []
            for k in ("kind", "exit", "lines", "counts"):
                if m[k] != r[k]:
                    diffs.append((k, m[k], r[k]))
            if r["kind"] == 2 and (m["collected"] != r["collected"] or m["parts"] != r["parts"]):
                diffs.append(("collected/summary", (m["collected"], m["parts"]), (r["collected"], r["parts"])))
            files = {f.name: f for _, f in tree_files(c["root"].children)[0]}
            mlog = ["%d:%s" % (files[fn].marker, tn) for (fn, tn) in m["executed"] if files[fn].compiles()]
            if mlog != logkeys:
                diffs.append(("executed", mlog, logkeys))
            if c["opts"]["verbose"] and r["kind"] in (1, 2):
                if r["fixtures"] != m["fixtures"] or (r["fixture_header"] or 0) != len(m["fixtures"]):
                    diffs.append(("fixtures (listed sorted by name)", m["fixtures"], (r["fixture_header"], r["fixtures"])))
            # the generated harness, both halves: (a) the SET of functions carrying #[test] in the generated
            # main.rs is the model's h_marked (exactly the selected function, or nothing), (b) the libtest
            # arguments of every `cargo test` call are the model's h_filter (no positional filter)
            hz = o.get("harness", {})
            compiled = [e for e in m["executed_harness"] if files[e[0]].compiles()]
            last = {}
            for (fn, tn, marked, flt) in compiled:
                same = [d for d in files[fn].decls if isinstance(d, Fn) and d.name == tn]
                if len(same) > 1:
                    # Model.gen_current describes the harness under the hypothesis that function names are unique in
                    # the file (C16_emitter_unique_names; Rust itself rejects two `fn` items of one name, so with the
                    # real cargo such a file never builds). For a duplicated name the Coq term is not used: the
                    # expectation is emit_function's per-declaration rule (Model.gen_emit), mirrored here.
                    marked = [tn] if any(model_runs_body(d) for d in same) else []
                    dist["dup_name_tie"] = dist.get("dup_name_tie", 0) + 1
                last[tn] = marked
            for tn, marked in last.items():
                if tn in hz and sorted(set(hz[tn].get("marked", []))) != marked:
                    diffs.append(("functions carrying #[test] in the harness generated for %s" % tn, marked, hz[tn].get("marked")))
                if tn in hz and hz[tn].get("calls_selected") and not hz[tn].get("selected_is_test"):
                    diffs.append(("generated harness calls %s from other code" % tn, marked, hz[tn]))
            if len(compiled) == len(log):
                for (fn, tn, marked, flt), e in zip(compiled, log):
                    got_argv = cargo_argv_view(e.split(" ", 1)[1] if " " in e else "")
                    want_argv = ("test", flt[0], flt[1])
                    if got_argv != want_argv:
                        diffs.append(("cargo argv for %s (subcommand, positional libtest filters, --exact)" % tn, want_argv, (got_argv, e)))
            if diffs:
                corr_bad.append({**detail, "model_vs_impl": diffs})
        # (3) discovery API vs model
        if dmodels is not None and i < len(douts):
            d = douts[i]
            if "panic" in d or "infra" in d:
                fails.append({**detail, "why": ["discover_* panicked or failed: %r" % d]})
            else:
                tgt = c["path"] if c["path"] not in (None,) else "."
                got = []
                for fe in d["files"]:
                    nm = fe["path"].split("/")[-1]
                    if fe["ok"]:
                        got.append((nm, True, [(t["name"], [(["skip", "xfail", "slow", "parametrize"].index(mk[0]), mk[1] if mk[0] in ("skip", "xfail") else "") for mk in t["markers"]],
                                                list(t["fixtures"])) for t in fe["tests"]], [x["name"] for x in fe["fixtures"]]))
                    else:
                        got.append((nm, False, [], []))
                want = []
                for (p, ok, tests, fxs) in dmodels[i]:
                    want.append((pystr(p[-1]), bool(ok), [(pystr(tn), [(mk[0], pystr(mk[1])) for mk in ms], [pystr(x) for x in fx]) for (tn, ms, fx, _rb) in tests],
                                 [pystr(x) for x in fxs]))
                if got != want:
                    corr_bad.append({**detail, "model_vs_impl": [("discover_* API", want, got)]})
                # documented file rule, directly
                pyf = [f.name for f in py_discover(resolve(c["root"], c["path"]))]
                if [g[0] for g in got] != pyf:
                    fails.append({**detail, "why": ["discover_test_files returned %r, documented rule gives %r" % ([g[0] for g in got], pyf)]})
    chk.coverage["rule"] = ("hand-written boundary trees + PRNG trees (seeded): directories incl. excluded names, test/non-test file names, unparsable and ill-typed files, "
                            "functions with marker/fixture decorators in all argument shapes, -k/--slow/-x/-v/--fail-on-empty/path variants, scripted cargo exit codes; "
                            "non-trivial = the run collected at least one test; distinct by (argv, tree)")
    chk.coverage["distribution"] = dist
    chk.coverage["traces_validated_against_impl"] = len(cases) if models is not None else 0
    chk.coverage["correspondence_mismatches"] = len(corr_bad)
    for c in cases[:2] + cases[-2:]:
        chk.sample({"args": case_args(c), "files": sorted(json.loads(case_json(c))["files"])})

    # ---- harness truth with the real cargo
    t0 = time.time()
    tfails, known_cases, tev, tsets, truns, tcorr = run_truth(chk, binary, res)
    vlib.log("[c16] real-cargo truth runs in %.1fs" % (time.time() - t0))
    chk.coverage["harness_truth_runs"] = tev
    corr_bad += tcorr
    for (f, truth, extra) in tsets:
        chk.count_case(("real-cargo", f.name, tuple(extra)), nontrivial=True)
    if model_ok:
        ty = "node * bool * bool * list str * list str"
        tm = vlib.coq_eval(req, ty, TRUTH_RUN, [coq_truth_term(f, t, e) for (f, t, e) in tsets], tag="c16t", extra_defs=COQ_DEFS)
        for (f, truth, extra), r, m in zip(tsets, truns, tm):
            mres = [(pystr(n), code) for (n, code) in m[0]]
            ires = [(l[1], l[2]) for l in r["lines"]]
            if mres != ires or m[1] != r["exit"]:
                corr_bad.append({"file": f.name, "source": f.text(), "args": ["test", "."] + extra,
                                 "model_vs_impl": [("real cargo vs raw_of_harness gen_current", (mres, m[1]), (ires, r["exit"]))]})
            # the Python class decision and runs_body mirror must coincide with the Coq definitions
            decl = {d.name: d for d in f.decls if isinstance(d, Fn)}
            coq_known = {pystr(n) for (n, k, _) in m[2] if k}
            skipped = {d.name for d in f.decls if isinstance(d, Fn) and any(mk == "skip" for mk, _ in py_markers(d))}
            py_class = {n for n, d in decl.items() if n.startswith("test_") and f.compiles() and d.builds() and truth.get(n) is False and not model_runs_body(d)}
            if py_class != coq_known:
                corr_bad.append({"file": f.name, "model_vs_impl": [("known-class membership (Python mirror vs Coq predicate)", sorted(coq_known), sorted(py_class))]})
            for (n, _, rbm) in m[2]:
                if model_runs_body(decl[pystr(n)]) != bool(rbm):
                    corr_bad.append({"file": f.name, "model_vs_impl": [("harness_runs_body mirror", pystr(n), bool(rbm))]})
            # every member of the class that was run must have been observed misreported (else the class is too wide)
            seen = {k["test"] for k in known_cases if k["file"] == f.name}
            if (coq_known - skipped) != seen and not [x for x in tfails if x.get("file") == f.name]:
                corr_bad.append({"file": f.name, "model_vs_impl": [("members of the known class observed misreported", sorted(coq_known - skipped), sorted(seen))]})

    listed = [f for f in chk.findings if f.get("status") == "known" and
              (f.get("id") == FINDING_ID or str(f.get("class", "")).startswith("Known_C16_body_not_executed"))]
    if known_cases:
        if listed:
            chk.known(listed[0].get("id", FINDING_ID), "%s: %s" % (listed[0].get("id", FINDING_ID), listed[0].get("summary", "a test with parameters whose body fails is reported PASSED")))
            chk.coverage["known_finding_witness_replayed"] = known_cases[:6]
        else:
            for k in known_cases[:5]:
                tfails.append({"oracle": "harness-truth (real cargo)", "why": "a test with parameters / async test whose body fails is not reported truthfully (class Known_C16_body_not_executed, not listed as known)", **k})
    fails += tfails

    for f in fails[:20]:
        chk.violation("failing-input", f)
    if not fails:
        if corr_bad:
            chk.violation("correspondence-broken", {"theorem_or_tie": "C16 model/implementation correspondence", "cases": corr_bad[:8]}, no_input=True)
        if not res["proofs_ok"] or not res["tie_ok"]:
            chk.violation("proof-broken", {"theorem_or_tie": res["broken"]}, no_input=True)


def replay(path):
    data = json.load(open(path))
    binary = vlib.build_harness("debug")
    for v in data["violations"]:
        d = v["detail"]
        if "files" in d and "args" in d:
            line = json.dumps({"id": 0, "files": d["files"], "args": d["args"], "script": d.get("script", {}), "default": d.get("default", [0, "plain"])})
            o = json.loads(vlib.run_harness(binary, ["run", "c16"], line + "\n").strip())
            print("argv: incan", " ".join(d["args"]))
            print("implementation: exit", o.get("exit"))
            print(o.get("stdout", ""))
            print(o.get("stderr", ""))
            print("cargo log:", o.get("log"))
            r = parse_run(o)
            print("implementation (canonical):", json.dumps({k: r[k] for k in ("kind", "exit", "collected", "lines", "counts")}, default=str))
            if d.get("model_term") and vlib.coq_build(["C16/Model.vo"])[0]:
                ty = "option node * opts * list (str * str * bool) * bool"
                mv = vlib.coq_eval(COQ_REQ, ty, "fun c => let '(t, o, tb, d) := c in run_case t o tb d", [d["model_term"]], tag="c16replay", extra_defs=COQ_DEFS)
                m = model_view(mv[0])
                print("model (C16/Model.v run_case):", json.dumps({k: m[k] for k in ("kind", "exit", "collected", "lines", "counts", "executed")}, default=str))
            print("expected (documented rules / model):", json.dumps(d.get("expected") or d.get("model_vs_impl"), indent=1, default=str))
            print("why:", d.get("why"))
        elif "source" in d:
            line = json.dumps({"id": 0, "files": {d["file"]: d["source"]}, "args": d.get("args", ["test", ".", "--slow"]), "real_cargo": True})
            o = json.loads(vlib.run_harness(binary, ["run", "c16"], line + "\n", timeout=3000).strip())
            print("real cargo run of", d["file"], ": exit", o.get("exit"))
            print(o.get("stdout", ""))
            print("truthful:", d.get("truthful"), "reported:", d.get("reported"))
        else:
            print(json.dumps(d, indent=1, default=str))
    return 0
