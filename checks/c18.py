"""C18 — the language server converges to the latest document text.

proof:   coq/C18/Props.v — handler/schedule machine (Model.v) of the ticket-guarded store; `converged`
         proved for ALL histories whose last text per document parses and ALL fair schedules of the code
         as it is (T1), for all histories of the variant that also stores unparsable texts (T2); refuted
         inside the one remaining class (T3); regression witnesses for the two repaired findings (T4-T6).
tie:     a REAL IncanLanguageServer is driven through tower_lsp::LspService (harness/src/c18.rs) along
         model schedules; with the gate hook in /repo (src/lsp/verif_gate.rs, cfg incan_verif) every
         step executes one atomic segment, and after EVERY step stored documents (cfg accessor), RwLock
         state and the publishDiagnostics stream are compared with `render Faithful` evaluated in coqc.
         Without the hook only sequential schedules are realisable (plus one natural-suspension replay).
oracle:  independent of the model: at quiescence the stored (version, text), the hover answer and the
         last publishDiagnostics of every document are judged against the history's last notification."""
import json
import os
import re
import shutil
import time

import vlib

# Documents (index = position in the harness `docs` list; URIS = their uri in the Coq model):
#   0 a.incn, 1 b.incn: files the client opens; 2 c.incn (parse error), 3 d.incn (lex error), 4 n.incn (imports b):
#   files that exist only on disk; 5 untitled:Untitled-1: a document without a file path (model uri 100)
URIS = [0, 1, 2, 3, 4, 100]
UNTITLED = 5
WATCH = [0, 1, UNTITLED]  # documents whose stored state is compared after every step (the others are never opened)
# Text kinds:  G plain | I imports b | J imports c, d, n, a missing module and n again (visit order n, b, d, c) |
#   R imports a (document 1 only) | K a const declaration | B parse error | L lex error |
#   M didChange with TWO content changes (the last one counts) | E didChange with NO content change | C close
DOC_KINDS = {0: "GIJKBLMEC", 1: "GRBLMEC", UNTITLED: "GBC"}
PARSES = "GIJRKM"
IMPORTS = {"I": [1], "J": [4, 1, 3, 2], "R": [0]}
HOVER = [1, 4]
# C18_VARIANT=Repaired: experiment mode — compare the server with `render Repaired` and suppress nothing
# (used to validate a candidate fix of backend.rs in a scratch worktree against theorem T2).
VARIANT = os.environ.get("C18_VARIANT", "Faithful")
if VARIANT not in ("Faithful", "Repaired"):
    VARIANT = "Faithful"
GATES_CFG = ["--cfg", "incan_verif", "--check-cfg=cfg(incan_verif)", "--cfg", "incan_verif_gates",
             "--check-cfg=cfg(incan_verif_gates)", "-Awarnings"]
DISK = {"a": ("G", 91), "b": ("G", 90), "c": ("B", 92), "d": ("L", 93), "n": ("I", 94)}
ARMS = {0: "start", 1: "DepsRead keeps guard", 2: "DepsRead drops guard", 3: "DepsPublish publishes, keeps guard",
        4: "DepsPublish publishes, drops guard", 5: "DepsPublish skips open document, keeps guard",
        6: "DepsPublish skips open document, drops guard", 7: "Store passes", 8: "Store stale ticket",
        9: "Guard passes", 10: "Guard stale ticket", 11: "Publish", 12: "CloseRemove passes", 13: "CloseRemove stale ticket",
        14: "ClosePublish", 20: "refused: DepsRead under a writer", 21: "refused: store/guard/remove under a writer",
        22: "refused: store/guard/remove under readers", 23: "refused: start with 4 in flight",
        24: "refused: start out of order / beyond history", 25: "refused: finished handler"}


# ----------------------------------------------------------------------------- texts

def text_src(kind, k):
    if kind == "B":
        return "# t\ndef f%d(%s-> int:\n    return 1\n" % (k, " " * (k % 40 + 1))
    if kind == "L":
        return '# t\ndef f%d() -> int:\n    return "abc%d\n' % (k, k)
    if kind == "K":
        return "# t\nconst K%d: int = %d\n" % (k, k)
    head = {"I": "import b\n", "R": "import a\n"}.get(kind, "# t\n")
    tail = "import c\nimport d\nimport n\nimport nosuch\nimport n\n" if kind == "J" else ""
    if k % 3 == 0:  # a clean text: its analysis must publish an EMPTY list (clearing older diagnostics)
        return head + "def f%d() -> int:\n    return %d\n" % (k, k) + tail
    return head + "def f%d() -> int:\n    return undefined_%d\n" % (k, k) + tail


def hover_of(kind, k):
    if kind in "BL":
        return None
    if kind == "K":
        return "```incan\nconst K%d: int\n```\n\n*const*" % k
    return "```incan\ndef f%d() -> int\n```\n\n*function*" % k


def answers_of(kind, k):
    """[definition start line, completion labels that are document symbols]"""
    if kind in "BL":
        return [None, None]
    return [1, ["K%d" % k if kind == "K" else "f%d" % k]]


def coq_text(kind, k):
    return "(mkText %d %s [%s])" % (k, "true" if kind in PARSES else "false", "; ".join(str(URIS[i]) for i in IMPORTS.get(kind, [])))


class Case:
    """history: list of (kind, doc index, version); text id of note i is i+1 unless `ids` says otherwise
    (an M note sends the texts 500+id and id, in that order). `opens[i]`: send didOpen (else didChange)."""

    def __init__(self, hist, sched, tag, ids=None, opens=None):
        self.hist = hist
        self.sched = sched
        self.tag = tag
        self.ids = ids or [i + 1 for i in range(len(hist))]
        if opens is None:
            opens, opened = [], set()
            for (kind, u, _) in hist:
                opens.append(kind not in "CEM" and u not in opened)
                if kind == "C":
                    opened.discard(u)
                elif kind not in "EM":
                    opened.add(u)
        self.opens = opens
        # the model does not see E notes (no ticket, no segment: nothing happens): indices are remapped
        self.live = [i for i, h in enumerate(hist) if h[0] != "E"]

    def kind_of(self, tid):
        k = self.hist[self.ids.index(tid)][0]
        return "G" if k == "M" else k

    def notes_json(self):
        out = []
        for i, (kind, u, v) in enumerate(self.hist):
            if kind == "C":
                out.append(["close", u])
            elif kind == "E":
                out.append(["change", u, v, []])
            elif kind == "M":
                out.append(["change", u, v, [text_src("G", 500 + self.ids[i]), text_src("G", self.ids[i])]])
            else:
                out.append(["open" if self.opens[i] else "change", u, v, text_src(kind, self.ids[i])])
        return out

    def model_sched(self):
        pos = {i: j for j, i in enumerate(self.live)}
        return [pos[k] if k in pos else (len(self.live) + k if k >= len(self.hist) else None) for k in self.sched]

    def coq(self):
        ns = []
        for i in self.live:
            kind, u, v = self.hist[i]
            if kind == "C":
                ns.append("Close %d" % URIS[u])
            else:
                ns.append("Doc %s %d %s %s" % ("true" if self.opens[i] else "false", URIS[u], vlib.zlit(v),
                                               coq_text("G" if kind == "M" else kind, self.ids[i])))
        return "([%s], [%s]%%nat)" % ("; ".join(ns), "; ".join(str(k) for k in self.model_sched() if k is not None))

    def line(self, docs, natural=False):
        d = {"docs": docs, "history": self.notes_json(), "schedule": self.sched, "hover": HOVER}
        if natural:
            d["natural"] = True
        return json.dumps(d)

    def key(self):
        return "%s|%s" % (" ".join("%s%s%d.%d" % (k, "" if o or k in "CEM" else "~", u, v) for (k, u, v), o in zip(self.hist, self.opens)),
                          ",".join(map(str, self.sched)))


# ----------------------------------------------------------------------------- schedule enumeration
# A small mirror of the model's enabledness, used ONLY to enumerate/sample schedules (the comparison
# is between coqc's evaluation of Model.v and the real server; a wrong mirror shows up as `legal`
# disagreeing on both sides at once, which is reported).

def segs_of(kind, u):
    if kind == "C":
        return ["CR", "CP"]
    if kind == "E":
        return []
    if kind in "BL":
        return ["GD", "PB"] if VARIANT == "Faithful" else ["ST", "PB"]  # GD: ticket test under the guard, nothing stored
    deps = [] if u == UNTITLED else ["DR"] + ["DP"] * len(IMPORTS.get(kind, []))
    return deps + ["ST", "PB"]


class Sim:
    def __init__(self, hist):
        self.hist = hist
        self.started = 0
        self.segs = {}
        self.readers = set()
        self.writer = None
        self.ticket = {}
        self.e_overlap = False  # an E note started while a handler for the same document was in flight

    def copy(self):
        s = Sim(self.hist)
        s.started, s.segs, s.readers, s.writer = self.started, {k: list(v) for k, v in self.segs.items()}, set(self.readers), self.writer
        s.ticket = dict(self.ticket)
        s.e_overlap = self.e_overlap
        return s

    def inflight(self):
        return [k for k, v in self.segs.items() if v]

    def enabled(self, k):
        if k == self.started:
            return k < len(self.hist) and len(self.inflight()) < 4
        if k > self.started or not self.segs.get(k):
            return False
        s = self.segs[k][0]
        if s == "DR":
            return self.writer is None
        if s in ("ST", "GD", "CR"):
            return self.writer is None and not self.readers
        return True

    def step(self, k):
        if k == self.started:
            kind, u = self.hist[k][0], self.hist[k][1]
            self.segs[k] = segs_of(kind, u)
            self.started += 1
            if kind == "E":
                if any(self.hist[j][1] == u for j in self.inflight()):
                    self.e_overlap = True
            else:
                self.ticket[u] = k
            return
        s = self.segs[k].pop(0)
        nxt = self.segs[k][0] if self.segs[k] else None
        if s == "DR" and nxt == "DP":
            self.readers.add(k)
        elif s == "DP" and nxt != "DP":
            self.readers.discard(k)
        elif s in ("CR", "ST", "GD"):
            if self.ticket.get(self.hist[k][1]) == k:
                self.writer = k
            else:
                self.segs[k] = []  # a newer notification for this document has arrived: the handler ends
        elif s in ("CP", "PB"):
            self.writer = None

    def moves(self):
        return [k for k in list(self.inflight()) + [self.started] if self.enabled(k)]

    def blocked(self):
        return [k for k in self.inflight() if not self.enabled(k)]

    def done(self):
        return self.started == len(self.hist) and not self.inflight()


def replay_sim(hist, sched):
    sim = Sim(hist)
    for k in sched:
        if k < 0 or not sim.enabled(k):
            break
        sim.step(k)
    return sim


def all_schedules(hist, cap):
    out = []

    def go(sim, pref):
        if len(out) >= cap:
            return
        if sim.done():
            out.append(pref)
            return
        for k in sim.moves():
            s2 = sim.copy()
            s2.step(k)
            go(s2, pref + [k])
    go(Sim(hist), [])
    return out


def count_schedules(hist, limit):
    memo = {}

    def go(sim):
        key = (sim.started, tuple(sorted((k, len(v)) for k, v in sim.segs.items() if v)), sim.writer, tuple(sorted(sim.ticket.items())))
        if key in memo:
            return memo[key]
        if sim.done():
            return 1
        n = 0
        for k in sim.moves():
            s2 = sim.copy()
            s2.step(k)
            n += go(s2)
            if n > limit:
                break
        memo[key] = n
        return n
    return go(Sim(hist))


def random_schedule(hist, rng, illegal=False, eager=0.35):
    sim, pref = Sim(hist), []
    while not sim.done():
        if illegal and sim.blocked() and rng.random() < 0.5:
            return pref + [rng.choice(sim.blocked())]
        if illegal and sim.started < len(hist) and len(sim.inflight()) >= 4 and hist[sim.started][0] != "E" and rng.random() < 0.5:
            return pref + [sim.started]  # a fifth handler cannot start
        mv = sim.moves()
        if not mv:
            return pref
        # bias towards starting handlers early so that they overlap
        if sim.started in mv and rng.random() < eager:
            k = sim.started
        else:
            k = rng.choice(mv)
        sim.step(k)
        pref.append(k)
    if illegal:  # a step of a finished or not startable handler (never an E note: the model does not see those)
        cand = [k for k in range(len(hist) + 2) if k >= len(hist) or hist[k][0] != "E"]
        return pref + [rng.choice(cand)]
    return pref


def natural_schedule(hist, rng):
    """gate-free run: polls and drains in random order, then enough rounds to let everything finish."""
    n, sched, started = len(hist), [], 0
    while started < n:
        r = rng.random()
        if r < 0.55:
            sched.append(started)
            started += 1
        elif r < 0.8 and started:
            sched.append(rng.randrange(started))
        else:
            sched.append(-1)
    for _ in range(n + 3):
        sched.append(-1)
        sched.extend(range(n))
    return sched


def sequential(hist):
    out = []
    for i, (kind, u, _) in enumerate(hist):
        out += [i] * (1 + len(segs_of(kind, u)))
    return out


VERSION_POLICIES = ["up", "up", "up", "same", "down", "wild"]


def make_history(seq, rng=None, policy="up"):
    """seq: list of (kind, doc). Versions: increasing per document (editors), all equal, decreasing (reopen
    with a lower number), or wild (0, negative, i32::MAX) — the server must not depend on them."""
    ver, hist = {}, []
    for (k, u) in seq:
        if k == "C":
            hist.append((k, u, 0))
            continue
        if policy == "up":
            ver[u] = ver.get(u, 0) + 1
        elif policy == "same":
            ver[u] = 1
        elif policy == "down":
            ver[u] = ver.get(u, 10) - 1
        else:
            ver[u] = rng.choice([0, -7, 1, 2, 2**31 - 1, -2**31, 7])  # not -1: the model's rendering uses it for `no version`
        hist.append((k, u, ver[u]))
    return hist


def slots(docs, kinds=None):
    return [(k, u) for u in docs for k in DOC_KINDS[u] if kinds is None or k in kinds]


def ok_combination(seq):
    """the dependency steps of a handler must not depend on what is stored: when document 1 imports a,
    document 0 imports nothing but b (whose only import, a, is then the entry itself)."""
    return not (any(k == "R" for k, _ in seq) and any(k == "J" for k, _ in seq))


def histories(n, docs, rng=None, count=None, kinds=None, policy="up"):
    """all (or `count` random) histories of n notifications over the given documents."""
    sl, out = slots(docs, kinds), []
    if count is None:
        def go(pref):
            if len(pref) == n:
                if ok_combination(pref):
                    out.append(make_history(pref, rng, policy))
                return
            for s in sl:
                go(pref + [s])
        go([])
    else:
        while len(out) < count:
            seq = [rng.choice(sl) for _ in range(n)]
            if ok_combination(seq):
                out.append(make_history(seq, rng, rng.choice(VERSION_POLICIES) if policy == "mixed" else policy))
    return out


def flip_opens(case, rng, p=0.2):
    """didChange for a document that is not open / didOpen for one that already is: same analysis."""
    for i, (kind, _, _) in enumerate(case.hist):
        if kind not in "CEM" and rng.random() < p:
            case.opens[i] = not case.opens[i]
    return case


FIXED = [  # (tag, history, schedule) — the Coq witnesses of Props.v and friends, and one case per model arm
    ("syntax", [("G", 0, 1), ("B", 0, 2)], [0, 0, 0, 0, 1, 1, 1]),
    ("lex-error", [("G", 0, 1), ("L", 0, 2)], [0, 0, 0, 0, 1, 1, 1]),
    # regression witnesses of the repaired findings (must converge; never suppressed)
    ("regress-stale", [("G", 0, 1), ("G", 0, 2)], [0, 1, 0, 1, 1, 1, 0]),
    ("regress-stale-old-schedule", [("G", 0, 1), ("G", 0, 2)], [0, 1, 0, 1, 1, 1, 0, 0]),
    ("regress-reopen", [("G", 0, 1), ("C", 0, 0), ("G", 0, 1)], [0, 0, 1, 1, 1, 2, 2, 2, 2, 0]),
    ("regress-late-close", [("G", 0, 1), ("C", 0, 0), ("G", 0, 1)], [0, 0, 0, 0, 1, 2, 2, 2, 2, 1]),
    ("regress-dep", [("G", 1, 1), ("I", 0, 1)], [0, 0, 0, 0, 1, 1, 1, 1, 1]),
    ("guard-stale", [("B", 0, 1), ("G", 0, 2)], [0, 1, 1, 1, 1, 0]),
    ("empty-change-alone", [("G", 0, 1), ("E", 0, 2)], [0, 0, 0, 0, 1]),
    ("empty-change-overlap", [("G", 0, 1), ("E", 0, 2)], [0, 1, 0, 0, 0]),
    ("multi-change", [("G", 0, 1), ("M", 0, 2)], [0, 0, 0, 0, 1, 1, 1, 1]),
    ("untitled", [("G", UNTITLED, 1), ("B", UNTITLED, 2), ("C", UNTITLED, 0)], [0, 0, 0, 1, 1, 1, 2, 2, 2]),
    ("disk-deps", [("J", 0, 1)], [0] * 8),
    ("disk-deps-b-open", [("G", 1, 1), ("J", 0, 1)], [0, 0, 0, 0] + [1] * 8),
    ("both-directions", [("I", 0, 1), ("R", 1, 1), ("I", 0, 2)], [0] * 5 + [1] * 5 + [2] * 5),
    ("close-never-opened", [("C", 1, 0), ("C", UNTITLED, 0)], [0, 0, 0, 1, 1, 1]),
    ("reopen-lower-version", [("G", 0, 7), ("C", 0, 0), ("G", 0, 3)], [0, 1, 2, 0, 1, 2, 0, 1, 2, 2, 0]),
    ("refused-20", [("G", 0, 1), ("G", 0, 2)], [0, 0, 0, 1, 1]),
    ("refused-21", [("G", 0, 1), ("G", 1, 1)], [0, 1, 0, 1, 0, 1]),
    ("store-blocked-by-close", [("G", 0, 1), ("C", 0, 0)], [0, 0, 1, 1, 0]),
    ("store-blocked-by-reader", [("I", 0, 1), ("G", 0, 2)], [0, 0, 1, 1, 1]),
    ("refused-23", [("G", 0, 1), ("G", 1, 1), ("G", 0, 2), ("G", 1, 2), ("G", 0, 3)], [0, 1, 2, 3, 4]),
    ("refused-24", [("G", 0, 1)], [1]),
    ("refused-25", [("G", 0, 1)], [0, 0, 0, 0, 0]),
    ("nonvacuous", [("G", 0, 1), ("G", 1, 1), ("G", 0, 2)], [0, 1, 2, 0, 1, 2, 0, 1, 1, 2, 2]),
]
# the interleaving that produced a stale store on the un-repaired server WITHOUT gates (natural suspension
# at tower-lsp's flush + the RwLock queue); -1 drains the client socket. Must converge now.
NATURAL_STALE = ([("G", 1, 1), ("I", 0, 1), ("G", 0, 2)], [0, 1, 2, -1, 1, 2, -1, 1, 2, -1, 1, 2])
CLASSIC = "GIBC"


def gen_cases(chk, gates):
    rng = chk.rng
    thorough = chk.tier == "thorough"
    cases = [Case(h, s, "fixed:" + t) for (t, h, s) in FIXED if gates or s == sequential(h)]
    if not gates:
        for n in (1, 2):
            for h in histories(n, [0, 1, UNTITLED]):
                cases.append(Case(h, sequential(h), "seq%d" % n))
        for h in histories(4, [0, 1, UNTITLED], rng, 600 if not thorough else 4000, policy="mixed"):
            cases.append(flip_opens(Case(h, sequential(h), "seq-long"), rng))
        return cases
    budget = {"two": 30, "two_classic": 140, "three": 2, "three_key": 150, "multidoc": 350, "illegal": 150, "long": 60, "burst": 50}
    if thorough:
        budget = {"two": 400, "two_classic": 10**6, "three": 20, "three_key": 1500, "multidoc": 3000, "illegal": 1500, "long": 800, "burst": 600}
    for h in histories(1, [0, 1, UNTITLED]):
        cases.append(Case(h, sequential(h), "one"))
    # two notifications on one document: every kind pair, all schedules (capped)
    for h in histories(2, [0]):
        classic = all(k in CLASSIC for k, _, _ in h)
        for s in all_schedules(h, budget["two_classic" if classic else "two"]):
            cases.append(Case(h, s, "two-all"))
    key3 = {("G", "G", "G"), ("G", "C", "G"), ("G", "G", "C"), ("G", "B", "G"), ("I", "G", "G"), ("G", "E", "G"), ("G", "M", "C")}
    for h in histories(3, [0], kinds="GIBLCEM"):
        kinds = tuple(k for (k, _, _) in h)
        if kinds in key3:
            if count_schedules(h, budget["three_key"]) <= budget["three_key"]:
                for s in all_schedules(h, budget["three_key"]):
                    cases.append(Case(h, s, "three-all"))
            else:
                for _ in range(budget["three_key"]):
                    cases.append(Case(h, random_schedule(h, rng), "three-sampled"))
        else:
            for _ in range(budget["three"]):
                cases.append(Case(h, random_schedule(h, rng), "three-sampled"))
    # several documents (both files, the untitled one, imports in both directions, disk dependencies),
    # version policies, open/change flips
    for h in histories(3 if not thorough else 4, [0, 1, UNTITLED], rng, budget["multidoc"], policy="mixed"):
        cases.append(flip_opens(Case(h, random_schedule(h, rng), "multidoc-sampled"), rng))
    for h in histories(3, [0, 1, UNTITLED], rng, budget["illegal"], policy="mixed"):
        cases.append(Case(h, random_schedule(h, rng, illegal=True), "illegal-or-partial"))
    for _ in range(budget["long"]):
        h = histories(rng.randint(5, 7 if not thorough else 9), [0, 1, UNTITLED], rng, 1, policy="mixed")[0]
        cases.append(flip_opens(Case(h, random_schedule(h, rng, eager=0.6), "long"), rng))
    # bursts of 5-8 notifications: everything that can start starts at once (4 in flight, the rest waits)
    for i in range(budget["burst"]):
        h = histories(rng.randint(5, 8), [0, 1] if i % 2 else [0], rng, 1, kinds="GIBCEMR", policy="mixed")[0]
        cases.append(Case(h, random_schedule(h, rng, illegal=(i % 4 == 0), eager=1.0), "burst"))
    seen, out = set(), []
    for c in cases:
        if c.key() not in seen:
            seen.add(c.key())
            out.append(c)
    return out


def gen_natural(chk):
    rng, out = chk.rng, [Case(NATURAL_STALE[0], NATURAL_STALE[1], "natural-stale")]
    for _ in range(120 if chk.tier == "quick" else 1200):
        h = histories(rng.randint(2, 7), [0, 1, UNTITLED], rng, 1, kinds="GIJRKBLMC", policy="mixed")[0]
        out.append(Case(h, natural_schedule(h, rng), "natural-random"))
    return out


# ----------------------------------------------------------------------------- oracle

def last_pub_for(pubs, u):
    for p in reversed(pubs):
        if p[0] == u:
            return p
    return None


def latest_notes(case):
    latest = {}
    for i, (kind, u, v) in enumerate(case.hist):
        if kind != "E":
            latest[u] = ("G" if kind == "M" else kind, v, case.ids[i])
    return latest


def py_known_syntax(case):
    return any(kind in "BL" for (kind, _, _) in latest_notes(case).values())


def oracle(case, r, ref):
    """Judge the real server's quiescent state against the property, from the history alone."""
    fails = []
    final = next((t for t in reversed(r["trace"]) if "docs" in t), None)
    stored = final.get("docs") if final and isinstance(final.get("docs"), list) else None
    for u, (kind, v, k) in sorted(latest_notes(case).items()):
        hv = r["hover"][u] if r.get("hover") else None
        an = r["answers"][u] if r.get("answers") else None
        if kind == "C":
            if stored is not None and stored[u] is not None:
                fails.append("document %d: closed, but version %s is still stored" % (u, stored[u][0]))
            if hv is not None:
                fails.append("document %d: closed, but hover still answers %r" % (u, hv))
            if an is not None and an != [None, None]:
                fails.append("document %d: closed, but definition/completion still answer %r" % (u, an))
            continue
        want_src = text_src(kind, k)
        if stored is not None and stored[u] != [v, want_src]:
            got = "nothing" if stored[u] is None else "version %s" % stored[u][0]
            fails.append("document %d: latest sent is version %d (text %d) but %s is stored" % (u, v, k, got))
        if hv != hover_of(kind, k):
            fails.append("document %d: hover answers %r, latest text %d would give %r" % (u, hv, k, hover_of(kind, k)))
        if an is not None and kind not in "BL" and an != answers_of(kind, k):
            fails.append("document %d: definition/completion answer %r, latest text %d would give %r" % (u, an, k, answers_of(kind, k)))
        lp = last_pub_for(r["pubs"], u)
        want = [u, v, ref[(kind, k)]]
        if lp != want:
            fails.append("document %d: last publishDiagnostics is %r, expected %r" % (u, lp, want))
    return fails


def model_pubs_payload(case, mp, ref):
    """model publications -> payloads as the client sees them."""
    out = []
    for (mu, v, (srck, i)) in mp:
        u = URIS.index(mu)
        ver = None if v == -1 else v
        if srck == 0:
            out.append([u, ver, ref[(case.kind_of(i), i)]])
        elif srck == 1 and i == -1:
            out.append([u, ver, ref[("disk", u)]])  # syntax-only view of the file on disk
        else:
            out.append([u, ver, []])  # clear
    return out


def compare(case, r, m, gates):
    """model (legal, quiescent, trace, pubs) vs real result; returns list of differences."""
    legal, quiescent, mtrace, mpubs = m
    diffs = []
    if bool(legal) != bool(r["legal"]):
        return ["legal: model %s, server %s (blocked_at %s)" % (bool(legal), r["legal"], r.get("blocked_at"))]
    if bool(quiescent) != bool(r["quiescent"]):
        diffs.append("quiescent: model %s, server %s" % (bool(quiescent), r["quiescent"]))
    # the model does not see E notes: drop their (single) step from the server's trace
    rtrace = [t for t, k in zip(r["trace"], case.sched) if not (k < len(case.hist) and case.hist[k][0] == "E")]
    rsched = [k for t, k in zip(r["trace"], case.sched) if not (k < len(case.hist) and case.hist[k][0] == "E")]
    if len(mtrace) != len(rtrace):
        return diffs + ["steps executed: model %d, server %d" % (len(mtrace), len(rtrace))]
    last = {}
    for i, k in enumerate(rsched):
        last[k] = i
    for i, ((mdocs, mlock, mn, _arm), t) in enumerate(zip(mtrace, rtrace)):
        if not gates and i not in last.values():
            continue  # without gates only handler-completion points are comparable
        if t["npubs"] != mn:
            diffs.append("step %d: #publications model %d, server %d" % (i, mn, t["npubs"]))
        if gates:
            if t["lock"] != mlock:
                diffs.append("step %d: lock model %d, server %s" % (i, mlock, t["lock"]))
            for u, (mv, mt) in zip(WATCH, mdocs):
                kind = None if mv == -1 and mt == -1 else case.kind_of(mt)
                if isinstance(t["docs"], list):
                    want = None if kind is None else [mv, text_src(kind, mt)]
                    if t["docs"][u] != want:
                        diffs.append("step %d: document %d model %r, server %r" % (i, u, (mv, mt), t["docs"][u] and t["docs"][u][0]))
                # requests answered between notifications come from the document stored at that moment
                if "hover" in t:
                    want = None if kind is None else hover_of(kind, mt)
                    if t["hover"][u] != want:
                        diffs.append("step %d: hover(document %d) model %r, server %r" % (i, u, want, t["hover"][u]))
                    want = [None, None] if kind is None else answers_of(kind, mt)
                    if t["answers"][u] != want:
                        diffs.append("step %d: definition/completion(document %d) model %r, server %r" % (i, u, want, t["answers"][u]))
        else:
            for u, (mv, mt) in zip(WATCH, mdocs):
                want = None if mv == -1 and mt == -1 else hover_of(case.kind_of(mt), mt)
                if t.get("hover") and t["hover"][u] != want:
                    diffs.append("step %d: document %d hover model %r, server %r" % (i, u, want, t["hover"][u]))
    return diffs


# ----------------------------------------------------------------------------- driver

def scratch_dir():
    d = os.path.join(vlib.BUILD, "c18-scratch", str(os.getpid()))
    shutil.rmtree(d, ignore_errors=True)
    os.makedirs(d)
    for name, (kind, k) in DISK.items():
        with open(os.path.join(d, name + ".incn"), "w") as f:
            f.write(text_src(kind, k))
    d = os.path.realpath(d)
    return d, ["file://%s/%s.incn" % (d, n) for n in "abcdn"] + ["untitled:Untitled-1"]


def hook_present():
    return os.path.exists(os.path.join(vlib.REPO, "src", "lsp", "verif_gate.rs"))


def build(gates):
    if gates and not getattr(vlib, "C18_GATES_IN_RUSTFLAGS", False):
        # the hook is in the repository but vlib.build_harness does not pass --cfg incan_verif_gates:
        # CARGO_ENCODED_RUSTFLAGS takes precedence over the RUSTFLAGS vlib sets
        os.environ["CARGO_ENCODED_RUSTFLAGS"] = "\x1f".join(GATES_CFG)
    try:
        return vlib.build_harness("debug")
    finally:
        os.environ.pop("CARGO_ENCODED_RUSTFLAGS", None)


def run_real(binary, lines):
    out = vlib.run_harness(binary, ["run", "c18"], "\n".join(lines) + "\n", timeout=3000)
    res = [json.loads(l) for l in out.split("\n") if l]
    if len(res) != len(lines):
        raise vlib.Infra("harness returned %d results for %d cases" % (len(res), len(lines)))
    if VARIANT == "Repaired":
        # a repaired server stores unparsable texts, so an importer's diagnostics may carry the
        # dependency summary line; the model abstracts diagnostics as a function of the text alone
        for r in res:
            for p in r.get("pubs", []):
                p[2] = [m for m in p[2] if "Failed to parse dependency" not in m and "Failed to lex dependency" not in m]
    return res


def needed_texts(cases):
    need = set()
    for c in cases:
        for i, (kind, _, _) in enumerate(c.hist):
            if kind == "M":
                need.add(("G", c.ids[i]))
            elif kind not in "CE":
                need.add((kind, c.ids[i]))
    return sorted(need)


def references(binary, docs, cases):
    """diagnostics of every text analysed alone on a fresh server — the meaning of `computed from
    that text` — checked against what the text must yield by construction; plus the syntax-only
    diagnostics of the files on disk."""
    need = needed_texts(cases)
    lines = []
    for (kind, k) in need:
        u = 1 if kind == "R" else 0
        lines.append(json.dumps({"docs": docs, "history": [["open", u, 1, text_src(kind, k)]],
                                 "schedule": [0] * (1 + len(segs_of(kind, u))), "hover": HOVER}))
    ref, problems = {}, []
    for (kind, k), r in zip(need, run_real(binary, lines)):
        u = 1 if kind == "R" else 0
        hist = [["open", u, 1, text_src(kind, k)]]
        clean = kind == "K" or (kind in PARSES and k % 3 == 0)
        lp = last_pub_for(r.get("pubs", []), u) if not r.get("error") else None
        msgs = lp[2] if lp else []
        summary = [m for m in msgs if "dependency" in m]
        own = [m for m in msgs if "dependency" not in m]
        if kind in "BL":
            ok, want_desc = len(msgs) > 0 and (kind == "B" or any("Unterminated" in m for m in msgs)), "a syntax diagnostic"
        elif clean:
            ok, want_desc = own == [], "no diagnostic of its own"
        else:
            ok, want_desc = any("undefined_%d'" % k in m for m in own), "a diagnostic naming undefined_%d" % k
        if kind == "J":
            ok = ok and len(summary) == 2
        elif kind not in "BL":
            ok = ok and summary == []
        ok = ok and lp is not None and lp[1] == 1 and r.get("quiescent") and \
            (r["hover"][u] == hover_of(kind, k)) and (kind in "BL" or r["answers"][u] == answers_of(kind, k))
        if not ok:
            problems.append({"case": "single open of text %s%d" % (kind, k), "history": hist, "schedule": [0] * (1 + len(segs_of(kind, u))),
                             "why": ["opening this text alone must publish %s for version 1 and answer hover/definition/completion from it; "
                                     "the server published %r, hover %r, answers %r" % (want_desc, lp, r.get("hover"), r.get("answers"))],
                             "class": [], "server": {"pubs": r.get("pubs"), "error": r.get("error")}})
        ref[(kind, k)] = msgs if lp is not None else ["<nothing published>"]
        if kind == "J" and ("disk", 2) not in ref:
            for du in (1, 2, 3, 4):
                dp = last_pub_for(r.get("pubs", []), du)
                ref[("disk", du)] = dp[2] if dp else ["<nothing published>"]
    ref.setdefault(("disk", 0), [])
    ref.setdefault(("disk", 1), [])
    for du, want_nonempty in ((2, True), (3, True), (4, False)):
        if ("disk", du) in ref and bool(ref[("disk", du)]) != want_nonempty:
            problems.append({"case": "disk dependency %d" % du, "why": ["unexpected syntax diagnostics for the file on disk: %r" % ref[("disk", du)]], "class": []})
    return ref, problems


def run(chk):
    chk.trusted = [
        "Coq 8.16.1 kernel (coqc; vm_compute for the closed witness runs); no axioms",
        "tokio::sync::RwLock (exclusion only is modelled; its FIFO fairness only removes schedules), tower-lsp 0.17 dispatch "
        "(handlers start in arrival order, <= 4 in flight) and its client channel — outside the model",
        "hand-written C18/Model.v (segments = code between the awaits of analyze_document / finish_analysis / collect_dependency_modules / did_close), "
        "tied by the per-step correspondence run",
        "gate hook src/lsp/verif_gate.rs (cfg incan_verif): parks a driven handler immediately before each modelled await",
        "vharness c18 driver (LspService in process, current-thread runtime) + this script's differ and schedule enumerator",
    ]
    chk.assumptions = [
        "an await is modelled as a suspension BEFORE its effect; tower-lsp's publish really suspends after enqueueing (flush) — "
        "the model over-approximates that (the harness drains the client socket so the flush never parks); gate-free natural runs are judged by the oracle only",
        "dependency model: the visit order of a text's imports is an attribute of the text (static); generated histories keep it static "
        "(document 1 imports only a; no J text together with an R text)",
        "a didChange without content changes is invisible to the model (it must have no effect at all); one with several changes counts as its last text",
        "uri aliasing (percent-encoding, symlinks) is outside the model: documents and tickets use the same Url key, but the dependency lookup uses the canonical path",
    ]
    t0 = time.time()
    res = chk.proof_stage("C18", allow_axioms=())
    vlib.log("[c18] proof stage in %.1fs" % (time.time() - t0))
    gates = hook_present()
    binary = build(gates)
    d, docs = scratch_dir()
    try:
        _run(chk, res, gates, binary, docs)
    finally:
        shutil.rmtree(d, ignore_errors=True)


def py_classes(case):
    """FORMER classes (repaired by 7b7e4c7 / d1bbfb0): reported with a failing case for orientation, they
    suppress nothing. The model agrees with the code: a didChange without content changes is invisible
    (no ticket, no segment), one with several changes is its last text."""
    out = []
    if any(k == "M" for k, _, _ in case.hist):
        out.append("lsp-multi-change-first")
    if any(k == "E" for k, _, _ in case.hist) and replay_sim(case.hist, case.sched).e_overlap:
        out.append("lsp-empty-change-cancels")
    return out


def _run(chk, res, gates, binary, docs):
    known = {f["id"] for f in chk.findings if f.get("status") == "known"}
    if VARIANT == "Repaired":
        known = set()
        chk.findings = []
        chk.notes.append("C18_VARIANT=Repaired: server compared with the repaired model, no finding suppressed")
    t0 = time.time()
    cases = gen_cases(chk, gates)
    naturals = gen_natural(chk)
    vlib.log('[c18] %d cases (+%d natural) generated in %.1fs' % (len(cases), len(naturals), time.time() - t0))
    t0 = time.time()
    ref, ref_problems = references(binary, docs, cases + naturals)
    real = run_real(binary, [c.line(docs) for c in cases])
    nreal = run_real(binary, [c.line(docs, natural=True) for c in naturals])
    vlib.log('[c18] real server runs in %.1fs' % (time.time() - t0))
    t0 = time.time()
    if real[0].get("gates") != gates:
        raise vlib.Infra("harness built with gates=%s but the hook detection says %s" % (real[0].get("gates"), gates))
    # the model, inside Coq
    model_ok = vlib.coq_build(["C18/Model.vo"])[0]
    model = None
    if model_ok:
        req = "From Coq Require Import ZArith List Bool.\nFrom Verif Require Import C18.Model.\nImport ListNotations.\nOpen Scope Z_scope."
        ty = "list note * list nat"
        fn = ("fun c => (render " + VARIANT + " [%s] (fst c) (snd c), " % "; ".join(str(URIS[u]) for u in WATCH) +
              "(known_syntax (fst c), former_dep (fst c), former_overlap (fst c) (snd c)))")
        model = vlib.coq_eval(req, ty, fn, [c.coq() for c in cases], shard=150, tag="c18")
    else:
        res["tie_ok"] = False
        res["broken"].append({"what": "model", "message": "C18/Model.v does not build"})
    vlib.log('[c18] model evaluated in coqc in %.1fs' % (time.time() - t0))
    dist, corr_bad, fails, suppressed, arms = {}, [], list(ref_problems), {}, {a: 0 for a in ARMS}
    for i, c in enumerate(cases):
        r = real[i]
        if r.get("error"):
            fails.append({"case": c.key(), "tag": c.tag, "why": ["server/harness error: %s" % r["error"]], "class": []})
            continue
        dist[c.tag] = dist.get(c.tag, 0) + 1
        chk.count_case(c.key(), nontrivial=r["legal"] and len(c.hist) > 1)
        cls, dd, former = [], [], []
        if model is not None:
            mv = model[i]
            m, bad_arm, (ksyn, kdep, kov) = list(mv[:4]), mv[4], mv[5]
            for (_d, _l, _n, a) in m[2]:
                arms[a] = arms.get(a, 0) + 1
            if bad_arm != -1:
                arms[bad_arm] = arms.get(bad_arm, 0) + 1
            # only lsp-error-keeps-old is a model class; the two repaired ones are reported for orientation only
            cls = ["lsp-error-keeps-old"] if ksyn else []
            former = [n for n, b in (("lsp-dep-republish", kdep), ("lsp-stale-store", kov)) if b]
            m[3] = model_pubs_payload(c, m[3], ref)
            dd = compare(c, r, m, gates)
            if r["pubs"] != m[3] and (r["legal"] and m[0]):
                dd.append("publishDiagnostics stream: model %r, server %r" % (m[3], r["pubs"]))
            if dd:
                corr_bad.append({"case": c.key(), "tag": c.tag, "differences": dd[:6]})
        if r["quiescent"]:
            why = oracle(c, r, ref)
            if why:
                # suppressed only if the case lies in the LISTED class and the server did exactly what the
                # model predicts for it
                listed = [x for x in cls if x in known and x == "lsp-error-keeps-old"]
                if listed and not dd and model is not None:
                    for x in listed:
                        suppressed[x] = suppressed.get(x, 0) + 1
                else:
                    fails.append({"case": c.key(), "tag": c.tag, "history": c.notes_json(), "schedule": c.sched,
                                  "why": why, "class": cls, "would_have_been_in_repaired_class": former + py_classes(c),
                                  "server": {"pubs": r["pubs"], "hover": r["hover"]}})
    # gate-free natural runs: oracle only (the model over-approximates them)
    nat_ok = 0
    for c, r in zip(naturals, nreal):
        chk.count_case("natural|" + c.key())
        dist[c.tag] = dist.get(c.tag, 0) + 1
        why = ["server/harness error: %s" % r["error"]] if r.get("error") else \
              (["natural run did not reach quiescence (stopped at %r)" % r.get("blocked_at")] if not r.get("quiescent") else oracle(c, r, ref))
        if not why:
            nat_ok += 1
        elif py_known_syntax(c) and "lsp-error-keeps-old" in known and r.get("quiescent"):
            suppressed["lsp-error-keeps-old"] = suppressed.get("lsp-error-keeps-old", 0) + 1
        else:
            fails.append({"case": c.key(), "tag": c.tag + " (no gates)", "history": c.notes_json(), "schedule": c.sched, "natural": True,
                          "why": why, "class": [], "server": {"pubs": r.get("pubs"), "hover": r.get("hover")}})
    chk.coverage["rule"] = ("a case = (history, schedule); histories over 10 notification kinds (plain / importing an open document / importing disk modules "
                            "with and without errors, nested and duplicate imports / importing back / const / parse error / lex error / several content changes / "
                            "no content change / close) x 3 documents (two files, one untitled) x version policies (increasing, equal, decreasing, wild) x "
                            "open/change flips; schedules enumerated exhaustively (tags *-all) or sampled by seeded random walks over the enabled moves, bursts "
                            "with everything started at once, refused steps; plus gate-free natural runs judged by the oracle; non-trivial = legal schedule with >= 2 "
                            "notifications; distinct by (history, schedule)")
    chk.coverage["gates"] = gates
    chk.coverage["distribution"] = dist
    chk.coverage["suppressed_by_known_class"] = suppressed
    chk.coverage["traces_validated_against_impl"] = len(cases) if model is not None else 0
    chk.coverage["correspondence_mismatches"] = len(corr_bad)
    if corr_bad:
        chk.coverage["correspondence_samples"] = corr_bad[:5]
    chk.coverage["natural_runs_converged"] = nat_ok
    chk.coverage["model_arm_hits"] = {"%d %s" % (a, ARMS.get(a, "?")): n for a, n in sorted(arms.items())}
    if model is not None and gates:
        zero = [a for a in ARMS if not arms.get(a)]
        if zero:
            res["tie_ok"] = False
            res["broken"].append({"what": "generator", "message": "model arms never reached by the correspondence stream: %s" % [ARMS[a] for a in zero]})
    for c in cases[:4] + cases[-4:]:
        chk.sample(c.key())
    if not gates:
        chk.notes.append("gate hook not found in the repository: only sequential schedules were driven")
    # known findings: replay each witness on the real server; a FIXED finding whose witness fails again
    # is a regression and is never suppressed
    for f in chk.findings:
        w = f.get("witness") or {}
        if "history" not in w:
            continue
        hist = [tuple(x) for x in w["history"]]
        if not (gates or w["schedule"] == sequential(hist)):
            continue
        c = Case(hist, w["schedule"], "witness")
        r = run_real(binary, [c.line(docs)])[0]
        bad = r.get("quiescent") and oracle(c, r, ref_for(binary, docs, c, ref))
        if f.get("status") == "known" and bad:
            chk.known(f["id"], "%s: %s" % (f["id"], f["summary"]))
        elif f.get("status") == "fixed" and (bad or not r.get("quiescent")):
            fails.append({"case": c.key(), "tag": "regression of fixed finding " + f["id"], "history": c.notes_json(), "schedule": c.sched,
                          "why": bad or ["witness schedule of the fixed finding is no longer a complete run"], "class": [],
                          "server": {"pubs": r.get("pubs"), "hover": r.get("hover")}})
    fails.sort(key=lambda f: (bool(f.get('class')), len(f.get('history', [])), len(f.get('schedule', []))))
    for f in fails[:20]:
        chk.violation("failing-input", f)
    if not fails:
        if corr_bad:
            chk.violation("correspondence-broken", {"theorem_or_tie": "C18 model/server correspondence (per-step trace, answers between notifications, publishDiagnostics stream)",
                                                    "cases": corr_bad[:10]}, no_input=True)
        if not res["proofs_ok"] or not res["tie_ok"]:
            chk.violation("proof-broken", {"theorem_or_tie": res["broken"]}, no_input=True)


def ref_for(binary, docs, case, ref):
    missing = [x for x in needed_texts([case]) if x not in ref]
    if missing:
        ref = dict(ref)
        ref.update(references(binary, docs, [case])[0])
    return ref


def replay(path):
    data = json.load(open(path))
    gates = hook_present()
    binary = build(gates)
    d, docs = scratch_dir()
    try:
        for v in data["violations"]:
            det = v["detail"]
            if "history" in det and "schedule" in det:
                line = json.dumps({"docs": docs, "history": det["history"], "schedule": det["schedule"], "hover": HOVER,
                                   "natural": bool(det.get("natural"))})
                r = run_real(binary, [line])[0]
                print("case     ", det.get("case"))
                print("why      ", det.get("why"))
                print("server   ", json.dumps({"legal": r.get("legal"), "quiescent": r.get("quiescent"), "pubs": r.get("pubs"), "hover": r.get("hover"),
                                                "answers": r.get("answers"), "final": next((t for t in reversed(r.get("trace", [])) if "docs" in t), None)}))
            else:
                print(json.dumps(det, indent=1))
    finally:
        shutil.rmtree(d, ignore_errors=True)
    return 0
