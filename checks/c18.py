"""C18 — the language server converges to the latest document text.

proof:   coq/C18/Props.v — handler/schedule machine (Model.v) of the ticket-guarded store; `converged`
         proved for ALL histories whose last text per document parses and ALL fair schedules of the code
         as it is (T1), for all histories of the variant that also stores unparsable texts (T2); refuted
         inside the one remaining class (T3); regression witnesses for the two repaired findings (T4-T6).
tie:     a REAL IncanLanguageServer is driven through tower_lsp::LspService (harness/src/c18.rs) along
         model schedules; with the gate hook in /repo (src/lsp/verif_gate.rs, cfg incan_verif) every
         step executes one atomic segment, and after EVERY step stored documents (cfg accessor), RwLock
         state and the publishDiagnostics stream are compared with `render Faithful` evaluated in coqc.
         Without the hook only sequential schedules are realisable (plus one natural-suspension replay).
oracle:  independent of the model: at quiescence the stored (version, text), the hover answer and the
         last publishDiagnostics of every document are judged against the history's last notification."""
import json
import os
import re
import shutil
import time

import vlib

KINDS = "GIBC"  # good text, good text importing document 1 (document 0 only), text with a syntax error, close
HOVER = [1, 4]
# C18_VARIANT=Repaired: experiment mode — compare the server with `render Repaired` and suppress nothing
# (used to validate a candidate fix of backend.rs in a scratch worktree against theorem T1).
VARIANT = os.environ.get("C18_VARIANT", "Faithful")
if VARIANT not in ("Faithful", "Repaired"):
    VARIANT = "Faithful"
GATES_CFG = ["--cfg", "incan_verif", "--check-cfg=cfg(incan_verif)", "--cfg", "incan_verif_gates",
             "--check-cfg=cfg(incan_verif_gates)", "-Awarnings"]


# ----------------------------------------------------------------------------- texts

def text_src(kind, k):
    if kind == "B":
        return "# t\ndef f%d(%s-> int:\n    return 1\n" % (k, " " * k)
    head = "import b\n" if kind == "I" else "# t\n"
    if k % 3 == 0:  # a clean text: its analysis must publish an EMPTY list (clearing older diagnostics)
        return head + "def f%d() -> int:\n    return %d\n" % (k, k)
    return head + "def f%d() -> int:\n    return undefined_%d\n" % (k, k)


def hover_of(kind, k):
    return None if kind == "B" else "```incan\ndef f%d() -> int\n```\n\n*function*" % k


def coq_text(kind, k):
    return "(mkText %d %s %s)" % (k, "false" if kind == "B" else "true", "[1]" if kind == "I" else "[]")


class Case:
    """history: list of (kind, uri, version) ; text id of note i is i+1 unless `ids` says otherwise."""

    def __init__(self, hist, sched, tag, ids=None):
        self.hist = hist
        self.sched = sched
        self.tag = tag
        self.ids = ids or [i + 1 for i in range(len(hist))]

    def kind_of(self, tid):
        return self.hist[self.ids.index(tid)][0]

    def notes_json(self):
        out, opened = [], set()
        for i, (kind, u, v) in enumerate(self.hist):
            if kind == "C":
                out.append(["close", u])
                opened.discard(u)
            else:
                out.append(["open" if u not in opened else "change", u, v, text_src(kind, self.ids[i])])
                opened.add(u)
        return out

    def coq(self):
        ns, opened = [], set()
        for i, (kind, u, v) in enumerate(self.hist):
            if kind == "C":
                ns.append("Close %d" % u)
                opened.discard(u)
            else:
                ns.append("Doc %s %d %d %s" % ("true" if u not in opened else "false", u, v, coq_text(kind, self.ids[i])))
                opened.add(u)
        return "([%s], [%s]%%nat)" % ("; ".join(ns), "; ".join(str(k) for k in self.sched))

    def line(self, docs, natural=False):
        d = {"docs": docs, "history": self.notes_json(), "schedule": self.sched, "hover": HOVER}
        if natural:
            d["natural"] = True
        return json.dumps(d)

    def key(self):
        return "%s|%s" % (" ".join("%s%d.%d" % h for h in self.hist), ",".join(map(str, self.sched)))


# ----------------------------------------------------------------------------- schedule enumeration
# A small mirror of the model's enabledness, used ONLY to enumerate/sample schedules (the comparison
# is between coqc's evaluation of Model.v and the real server; a wrong mirror shows up as `legal`
# disagreeing on both sides at once, which is reported).

def segs_of(kind, u):
    if kind == "C":
        return ["CR", "CP"]
    if kind == "B":
        return ["GD", "PB"] if VARIANT == "Faithful" else ["ST", "PB"]  # GD: ticket test under the guard, nothing stored
    return ["DR"] + (["DP"] if kind == "I" else []) + ["ST", "PB"]


class Sim:
    def __init__(self, hist):
        self.hist = hist
        self.started = 0
        self.segs = {}
        self.readers = set()
        self.writer = None
        self.ticket = {}

    def copy(self):
        s = Sim(self.hist)
        s.started, s.segs, s.readers, s.writer = self.started, {k: list(v) for k, v in self.segs.items()}, set(self.readers), self.writer
        s.ticket = dict(self.ticket)
        return s

    def inflight(self):
        return [k for k, v in self.segs.items() if v]

    def enabled(self, k):
        if k == self.started:
            return k < len(self.hist) and len(self.inflight()) < 4
        if k > self.started or not self.segs.get(k):
            return False
        s = self.segs[k][0]
        if s == "DR":
            return self.writer is None
        if s in ("ST", "GD", "CR"):
            return self.writer is None and not self.readers
        return True

    def step(self, k):
        if k == self.started:
            self.segs[k] = segs_of(self.hist[k][0], self.hist[k][1])
            self.started += 1
            self.ticket[self.hist[k][1]] = k
            return
        s = self.segs[k].pop(0)
        nxt = self.segs[k][0] if self.segs[k] else None
        if s == "DR" and nxt == "DP":
            self.readers.add(k)
        elif s == "DP" and nxt != "DP":
            self.readers.discard(k)
        elif s in ("CR", "ST", "GD"):
            if self.ticket.get(self.hist[k][1]) == k:
                self.writer = k
            else:
                self.segs[k] = []  # a newer notification for this document has arrived: the handler ends
        elif s in ("CP", "PB"):
            self.writer = None

    def moves(self):
        return [k for k in list(self.inflight()) + [self.started] if self.enabled(k)]

    def blocked(self):
        return [k for k in self.inflight() if not self.enabled(k)]

    def done(self):
        return self.started == len(self.hist) and not self.inflight()


def all_schedules(hist, cap):
    out = []

    def go(sim, pref):
        if len(out) >= cap:
            return
        if sim.done():
            out.append(pref)
            return
        for k in sim.moves():
            s2 = sim.copy()
            s2.step(k)
            go(s2, pref + [k])
    go(Sim(hist), [])
    return out


def count_schedules(hist, limit):
    memo = {}

    def go(sim):
        key = (sim.started, tuple(sorted((k, len(v)) for k, v in sim.segs.items() if v)), sim.writer, tuple(sorted(sim.ticket.items())))
        if key in memo:
            return memo[key]
        if sim.done():
            return 1
        n = 0
        for k in sim.moves():
            s2 = sim.copy()
            s2.step(k)
            n += go(s2)
            if n > limit:
                break
        memo[key] = n
        return n
    return go(Sim(hist))


def random_schedule(hist, rng, illegal=False, eager=0.35):
    sim, pref = Sim(hist), []
    while not sim.done():
        if illegal and sim.blocked() and rng.random() < 0.5:
            return pref + [rng.choice(sim.blocked())]
        mv = sim.moves()
        if not mv:
            return pref
        # bias towards starting handlers early so that they overlap
        if sim.started in mv and rng.random() < eager:
            k = sim.started
        else:
            k = rng.choice(mv)
        sim.step(k)
        pref.append(k)
    if illegal:  # a step of a finished or not startable handler
        return pref + [rng.randrange(0, len(hist) + 1)]
    return pref


def sequential(hist):
    out = []
    for i, (kind, u, _) in enumerate(hist):
        out += [i] * (1 + len(segs_of(kind, u)))
    return out


def histories(n, docs, rng=None, count=None):
    """all (or `count` random) histories of n notifications over the given documents."""
    slots = [(k, u) for u in docs for k in KINDS if not (k == "I" and u != 0)]
    out = []

    def versions(seq):
        ver, hist = {}, []
        for (k, u) in seq:
            if k == "C":
                hist.append((k, u, 0))
                ver[u] = ver.get(u, 0)  # clients usually keep counting; reopen-at-1 is exercised by the fixed witnesses
            else:
                ver[u] = ver.get(u, 0) + 1
                hist.append((k, u, ver[u]))
        return hist
    if count is None:
        def go(pref):
            if len(pref) == n:
                out.append(versions(pref))
                return
            for s in slots:
                go(pref + [s])
        go([])
    else:
        for _ in range(count):
            out.append(versions([rng.choice(slots) for _ in range(n)]))
    return out


FIXED = [  # (tag, history, schedule) — the Coq witnesses of Props.v and friends, always run first
    ("syntax", [("G", 0, 1), ("B", 0, 2)], [0, 0, 0, 0, 1, 1, 1]),
    # regression witnesses of the repaired findings (must converge; never suppressed)
    ("regress-stale", [("G", 0, 1), ("G", 0, 2)], [0, 1, 0, 1, 1, 1, 0]),
    ("regress-stale-old-schedule", [("G", 0, 1), ("G", 0, 2)], [0, 1, 0, 1, 1, 1, 0, 0]),
    ("regress-reopen", [("G", 0, 1), ("C", 0, 0), ("G", 0, 1)], [0, 0, 1, 1, 1, 2, 2, 2, 2, 0]),
    ("regress-late-close", [("G", 0, 1), ("C", 0, 0), ("G", 0, 1)], [0, 0, 0, 0, 1, 2, 2, 2, 2, 1]),
    ("regress-dep", [("G", 1, 1), ("I", 0, 1)], [0, 0, 0, 0, 1, 1, 1, 1, 1]),
    ("store-blocked-by-close", [("G", 0, 1), ("C", 0, 0)], [0, 0, 1, 1, 0]),
    ("store-blocked-by-reader", [("I", 0, 1), ("G", 0, 2)], [0, 0, 1, 1, 1]),
    ("nonvacuous", [("G", 0, 1), ("G", 1, 1), ("G", 0, 2)], [0, 1, 2, 0, 1, 2, 0, 1, 1, 2, 2]),
]
# the interleaving that produced a stale store on the un-repaired server WITHOUT gates (natural suspension
# at tower-lsp's flush + the RwLock queue); -1 drains the client socket. Must converge now.
NATURAL_STALE = ([("G", 1, 1), ("I", 0, 1), ("G", 0, 2)], [0, 1, 2, -1, 1, 2, -1, 1, 2, -1, 1, 2])


def gen_cases(chk, gates):
    rng = chk.rng
    thorough = chk.tier == "thorough"
    cases = [Case(h, s, "fixed:" + t) for (t, h, s) in FIXED if gates or s == sequential(h)]
    if not gates:
        for n in (1, 2, 3):
            for h in histories(n, [0, 1]):
                cases.append(Case(h, sequential(h), "seq%d" % n))
        for h in histories(4 if not thorough else 5, [0, 1], rng, 400 if not thorough else 3000):
            cases.append(Case(h, sequential(h), "seq-long"))
        return cases
    budget = {"two": 140, "three": 6, "three_key": 250, "twodoc": 300, "illegal": 150, "long": 60}
    if thorough:
        budget = {"two": 10**6, "three": 60, "three_key": 2000, "twodoc": 2500, "illegal": 1000, "long": 800}
    for h in histories(1, [0, 1]):
        cases.append(Case(h, sequential(h), "one"))
    for h in histories(2, [0]):
        for s in all_schedules(h, budget["two"]):
            cases.append(Case(h, s, "two-all"))
    key3 = {("G", "G", "G"), ("G", "C", "G"), ("G", "G", "C"), ("G", "B", "G"), ("I", "G", "G")}
    for h in histories(3, [0]):
        kinds = tuple(k for (k, _, _) in h)
        if kinds in key3:
            tot = count_schedules(h, budget["three_key"])
            if tot <= budget["three_key"]:
                for s in all_schedules(h, budget["three_key"]):
                    cases.append(Case(h, s, "three-all"))
            else:
                for _ in range(budget["three_key"]):
                    cases.append(Case(h, random_schedule(h, rng), "three-sampled"))
        else:
            for _ in range(budget["three"]):
                cases.append(Case(h, random_schedule(h, rng), "three-sampled"))
    n2 = 3 if not thorough else 4
    for h in histories(n2, [0, 1], rng, budget["twodoc"]):
        if thorough and count_schedules(h, 60) <= 60:
            for s in all_schedules(h, 60):
                cases.append(Case(h, s, "twodoc-all"))
        else:
            cases.append(Case(h, random_schedule(h, rng), "twodoc-sampled"))
    for h in histories(3, [0, 1], rng, budget["illegal"]):
        cases.append(Case(h, random_schedule(h, rng, illegal=True), "illegal-or-partial"))
    for _ in range(budget["long"]):
        h = histories(rng.randint(5, 7 if not thorough else 9), [0, 1], rng, 1)[0]
        cases.append(Case(h, random_schedule(h, rng, eager=0.6), "long"))
    seen, out = set(), []
    for c in cases:
        if c.key() not in seen:
            seen.add(c.key())
            out.append(c)
    return out


# ----------------------------------------------------------------------------- oracle

def last_pub_for(pubs, u):
    for p in reversed(pubs):
        if p[0] == u:
            return p
    return None


def oracle(case, r, ref):
    """Judge the real server's quiescent state against the property, from the history alone."""
    fails = []
    latest = {}
    for i, (kind, u, v) in enumerate(case.hist):
        latest[u] = (kind, v, case.ids[i])
    final = r["trace"][-1] if r["trace"] else None
    stored = final.get("docs") if final and isinstance(final.get("docs"), list) else None
    for u, (kind, v, k) in sorted(latest.items()):
        hv = r["hover"][u] if r.get("hover") else None
        if kind == "C":
            if stored is not None and stored[u] is not None:
                fails.append("document %d: closed, but version %s is still stored" % (u, stored[u][0]))
            if hv is not None:
                fails.append("document %d: closed, but hover still answers %r" % (u, hv))
            continue
        want_src = text_src(kind, k)
        if stored is not None and stored[u] != [v, want_src]:
            got = "nothing" if stored[u] is None else "version %s" % stored[u][0]
            fails.append("document %d: latest sent is version %d (text %d) but %s is stored" % (u, v, k, got))
        if hv != hover_of(kind, k):
            fails.append("document %d: hover answers %r, latest text %d would give %r" % (u, hv, k, hover_of(kind, k)))
        lp = last_pub_for(r["pubs"], u)
        want = [u, v, ref[(kind, k)]]
        if lp != want:
            fails.append("document %d: last publishDiagnostics is %r, expected %r" % (u, lp, want))
    return fails


def model_pubs_payload(case, mp, ref):
    """model publications -> payloads as the client sees them."""
    out = []
    for (u, v, (srck, i)) in mp:
        ver = None if v == -1 else v
        if srck == 0:
            kind = case.kind_of(i)
            out.append([u, ver, ref[(kind, i)]])
        else:
            out.append([u, ver, []])  # syntax-only view of a parsing text / of the disk file; clear
    return out


def compare(case, r, m, gates):
    """model (legal, quiescent, trace, pubs) vs real result; returns list of differences."""
    legal, quiescent, mtrace, mpubs = m
    diffs = []
    if bool(legal) != bool(r["legal"]):
        return ["legal: model %s, server %s (blocked_at %s)" % (bool(legal), r["legal"], r.get("blocked_at"))]
    if bool(quiescent) != bool(r["quiescent"]):
        diffs.append("quiescent: model %s, server %s" % (bool(quiescent), r["quiescent"]))
    if len(mtrace) != len(r["trace"]):
        return diffs + ["steps executed: model %d, server %d" % (len(mtrace), len(r["trace"]))]
    last = {}
    for i, k in enumerate(case.sched[:len(mtrace)]):
        last[k] = i
    for i, ((mdocs, mlock, mn), t) in enumerate(zip(mtrace, r["trace"])):
        if not gates and i not in last.values():
            continue  # without gates only handler-completion points are comparable
        if t["npubs"] != mn:
            diffs.append("step %d: #publications model %d, server %d" % (i, mn, t["npubs"]))
        if gates:
            if t["lock"] != mlock:
                diffs.append("step %d: lock model %d, server %s" % (i, mlock, t["lock"]))
            if isinstance(t["docs"], list):
                for u, (mv, mt) in enumerate(mdocs):
                    want = None if mv == -1 else [mv, text_src(case.kind_of(mt), mt)]
                    if t["docs"][u] != want:
                        diffs.append("step %d: document %d model %r, server %r" % (i, u, (mv, mt), t["docs"][u] and t["docs"][u][0]))
        else:
            for u, (mv, mt) in enumerate(mdocs):
                want = None if mv == -1 else hover_of(case.kind_of(mt), mt)
                if t.get("hover") and t["hover"][u] != want:
                    diffs.append("step %d: document %d hover model %r, server %r" % (i, u, want, t["hover"][u]))
    return diffs


# ----------------------------------------------------------------------------- driver

def scratch_dir():
    d = os.path.join(vlib.BUILD, "c18-scratch", str(os.getpid()))
    shutil.rmtree(d, ignore_errors=True)
    os.makedirs(d)
    for name, k in (("a", 91), ("b", 90)):
        with open(os.path.join(d, name + ".incn"), "w") as f:
            f.write(text_src("G", k))
    d = os.path.realpath(d)
    return d, ["file://%s/a.incn" % d, "file://%s/b.incn" % d]


def hook_present():
    return os.path.exists(os.path.join(vlib.REPO, "src", "lsp", "verif_gate.rs"))


def build(gates):
    if gates and not getattr(vlib, "C18_GATES_IN_RUSTFLAGS", False):
        # the hook is in the repository but vlib.build_harness does not pass --cfg incan_verif_gates:
        # CARGO_ENCODED_RUSTFLAGS takes precedence over the RUSTFLAGS vlib sets
        os.environ["CARGO_ENCODED_RUSTFLAGS"] = "\x1f".join(GATES_CFG)
    try:
        return vlib.build_harness("debug")
    finally:
        os.environ.pop("CARGO_ENCODED_RUSTFLAGS", None)


def run_real(binary, lines):
    out = vlib.run_harness(binary, ["run", "c18"], "\n".join(lines) + "\n", timeout=3000)
    res = [json.loads(l) for l in out.split("\n") if l]
    if VARIANT == "Repaired":
        # a repaired server stores unparsable texts, so an importer's diagnostics may carry the
        # dependency summary line; the model abstracts diagnostics as a function of the text alone
        for r in res:
            for p in r.get("pubs", []):
                p[2] = [m for m in p[2] if "Failed to parse dependency" not in m and "Failed to lex dependency" not in m]
    if len(res) != len(lines):
        raise vlib.Infra("harness returned %d results for %d cases" % (len(res), len(lines)))
    return res


def references(binary, docs, cases):
    """diagnostics of every text analysed alone on a fresh server (document 0) — the meaning of
    `computed from that text`."""
    need = sorted({(kind, c.ids[i]) for c in cases for i, (kind, _, _) in enumerate(c.hist) if kind != "C"})
    lines = [json.dumps({"docs": docs, "history": [["open", 0, 1, text_src(kind, k)]], "schedule": [0] * (1 + len(segs_of(kind, 0))),
                         "hover": HOVER}) for (kind, k) in need]
    ref = {}
    problems = []
    for (kind, k), r in zip(need, run_real(binary, lines)):
        hist = [["open", 0, 1, text_src(kind, k)]]
        clean = kind != "B" and k % 3 == 0
        lp = last_pub_for(r.get("pubs", []), 0) if not r.get("error") else None
        want_desc = "an empty list" if clean else ("a diagnostic naming undefined_%d" % k if kind != "B" else "a syntax diagnostic")
        ok = lp is not None and lp[1] == 1 and (
            (clean and lp[2] == []) or
            (not clean and kind != "B" and any("undefined_%d'" % k in m for m in lp[2])) or
            (kind == "B" and len(lp[2]) > 0))
        if not ok or not r.get("quiescent"):
            problems.append({"case": "single open of text %s%d" % (kind, k), "history": hist, "schedule": [0] * (1 + len(segs_of(kind, 0))),
                             "why": ["opening this text alone must publish %s for version 1; the server published %r" % (want_desc, lp)],
                             "class": [], "server": {"pubs": r.get("pubs"), "error": r.get("error")}})
        # the expected payload: by definition [] for a clean text, otherwise what the text's own analysis reports
        ref[(kind, k)] = [] if clean else (lp[2] if lp is not None else ["<nothing published>"])
    return ref, problems


def run(chk):
    chk.trusted = [
        "Coq 8.16.1 kernel (coqc; vm_compute for the closed witness runs); no axioms",
        "tokio::sync::RwLock (exclusion only is modelled; its FIFO fairness only removes schedules), tower-lsp 0.17 dispatch "
        "(handlers start in arrival order, <= 4 in flight) and its client channel — outside the model",
        "hand-written C18/Model.v (segments = code between the awaits of analyze_document / collect_dependency_modules / did_close), "
        "tied by the per-step correspondence run",
        "gate hook src/lsp/verif_gate.rs (cfg incan_verif): parks a driven handler immediately before each modelled await",
        "vharness c18 driver (LspService in process, current-thread runtime) + this script's differ and schedule enumerator",
    ]
    chk.assumptions = [
        "an await is modelled as a suspension BEFORE its effect; tower-lsp's publish really suspends after enqueueing (flush) — "
        "the model over-approximates that (the harness drains the client socket so the flush never parks)",
        "dependency model: direct imports of document 0 on document 1 only; nested imports, unreadable files not modelled",
        "didChange with an empty change list (a no-op in the server) is not generated",
        "Repaired variant is a design, not code in /repo (fix described in the report, not applied)",
    ]
    t0 = time.time()
    res = chk.proof_stage("C18", allow_axioms=())
    vlib.log("[c18] proof stage in %.1fs" % (time.time() - t0))
    gates = hook_present()
    binary = build(gates)
    d, docs = scratch_dir()
    try:
        _run(chk, res, gates, binary, docs)
    finally:
        shutil.rmtree(d, ignore_errors=True)


def _run(chk, res, gates, binary, docs):
    known = {f["id"] for f in chk.findings if f.get("status") == "known"}
    if VARIANT == "Repaired":
        known = set()
        chk.findings = []
        chk.notes.append("C18_VARIANT=Repaired: server compared with the repaired model, no finding suppressed")
    t0 = time.time()
    cases = gen_cases(chk, gates)
    vlib.log('[c18] %d cases generated in %.1fs' % (len(cases), time.time() - t0))
    t0 = time.time()
    ref, ref_problems = references(binary, docs, cases)
    real = run_real(binary, [c.line(docs) for c in cases])
    vlib.log('[c18] real server runs in %.1fs' % (time.time() - t0))
    t0 = time.time()
    probe = real[0]
    if probe.get("gates") != gates:
        raise vlib.Infra("harness built with gates=%s but the hook detection says %s" % (probe.get("gates"), gates))
    # the model, inside Coq
    model_ok = vlib.coq_build(["C18/Model.vo"])[0]
    model = None
    if model_ok:
        req = "From Coq Require Import ZArith List Bool.\nFrom Verif Require Import C18.Model.\nImport ListNotations.\nOpen Scope Z_scope."
        ty = "list note * list nat"
        fn = ("fun c => (render " + VARIANT + " [0;1] (fst c) (snd c), "
              "(known_syntax (fst c), former_dep (fst c), former_overlap (fst c) (snd c)))")
        model = vlib.coq_eval(req, ty, fn, [c.coq() for c in cases], shard=150, tag="c18")
    else:
        res["tie_ok"] = False
        res["broken"].append({"what": "model", "message": "C18/Model.v does not build"})
    vlib.log('[c18] model evaluated in coqc in %.1fs' % (time.time() - t0))
    dist, corr_bad, fails, suppressed = {}, [], list(ref_problems), {}
    for i, c in enumerate(cases):
        r = real[i]
        if r.get("error"):
            fails.append({"case": c.key(), "tag": c.tag, "why": ["server/harness error: %s" % r["error"]], "class": []})
            continue
        dist[c.tag] = dist.get(c.tag, 0) + 1
        chk.count_case(c.key(), nontrivial=r["legal"] and len(c.hist) > 1)
        cls, dd, former = [], [], []
        if model is not None:
            mv = model[i]
            m, (ksyn, kdep, kov) = list(mv[:4]), mv[4]
            # only lsp-error-keeps-old is a class; the two repaired ones are reported for orientation only
            cls = ["lsp-error-keeps-old"] if ksyn else []
            former = [n for n, b in (("lsp-dep-republish", kdep), ("lsp-stale-store", kov)) if b]
            m[3] = model_pubs_payload(c, m[3], ref)
            dd = compare(c, r, m, gates)
            if r["pubs"] != m[3] and (r["legal"] and m[0]):
                dd.append("publishDiagnostics stream: model %r, server %r" % (m[3], r["pubs"]))
            if dd:
                corr_bad.append({"case": c.key(), "tag": c.tag, "differences": dd[:6]})
        if r["quiescent"]:
            why = oracle(c, r, ref)
            if why:
                # suppressed only if the case lies in a LISTED class and the server did exactly what the
                # faithful model (whose refutations are the listed findings) predicts for it
                listed = [x for x in cls if x in known and x == "lsp-error-keeps-old"]
                if listed and not dd and model is not None:
                    for x in listed:
                        suppressed[x] = suppressed.get(x, 0) + 1
                else:
                    fails.append({"case": c.key(), "tag": c.tag, "history": c.notes_json(), "schedule": c.sched,
                                  "why": why, "class": cls, "would_have_been_in_repaired_class": former,
                                  "server": {"pubs": r["pubs"], "hover": r["hover"]}})
    chk.coverage["rule"] = ("a case = (history, schedule); histories over {open/change good, good importing document 1, syntax error, close} "
                            "x 2 documents; schedules enumerated exhaustively (tags *-all) or sampled by seeded random walks over the "
                            "enabled moves; non-trivial = legal schedule with >= 2 notifications; distinct by (history, schedule)")
    chk.coverage["gates"] = gates
    chk.coverage["distribution"] = dist
    chk.coverage["suppressed_by_known_class"] = suppressed
    chk.coverage["traces_validated_against_impl"] = len(cases) if model is not None else 0
    chk.coverage["correspondence_mismatches"] = len(corr_bad)
    for c in cases[:4] + cases[-4:]:
        chk.sample(c.key())
    if not gates:
        chk.notes.append("gate hook not found in the repository: only sequential schedules were driven "
                         "(apply hooks/c18_lsp_gate.patch to /repo to enable await-level schedules)")
    # known findings: replay each witness on the real server; a FIXED finding whose witness fails again
    # is a regression and is never suppressed
    for f in chk.findings:
        w = f.get("witness") or {}
        if "history" not in w:
            continue
        hist = [tuple(x) for x in w["history"]]
        if not (gates or w["schedule"] == sequential(hist)):
            continue
        c = Case(hist, w["schedule"], "witness")
        r = run_real(binary, [c.line(docs)])[0]
        bad = r.get("quiescent") and oracle(c, r, ref_for(binary, docs, c, ref))
        if f.get("status") == "known" and bad:
            chk.known(f["id"], "%s: %s" % (f["id"], f["summary"]))
        elif f.get("status") == "fixed" and (bad or not r.get("quiescent")):
            fails.append({"case": c.key(), "tag": "regression of fixed finding " + f["id"], "history": c.notes_json(), "schedule": c.sched,
                          "why": bad or ["witness schedule of the fixed finding is no longer a complete run"], "class": [],
                          "server": {"pubs": r.get("pubs"), "hover": r.get("hover")}})
    # the natural (gate-free) interleaving that used to produce the stale store
    c = Case(NATURAL_STALE[0], NATURAL_STALE[1], "natural-stale")
    r = run_real(binary, [c.line(docs, natural=True)])[0]
    bad = ["natural run did not reach quiescence: %r" % r.get("blocked_at")] if not r.get("quiescent") else oracle(c, r, ref_for(binary, docs, c, ref))
    chk.count_case("natural|" + c.key())
    if bad:
        fails.append({"case": c.key(), "tag": "natural-stale (no gates)", "history": c.notes_json(), "schedule": c.sched, "natural": True,
                      "why": bad, "class": [], "server": {"pubs": r.get("pubs"), "hover": r.get("hover")}})
    fails.sort(key=lambda f: (bool(f.get('class')), len(f.get('history', [])), len(f.get('schedule', []))))
    for f in fails[:20]:
        chk.violation("failing-input", f)
    if not fails:
        if corr_bad:
            chk.violation("correspondence-broken", {"theorem_or_tie": "C18 model/server correspondence (per-step trace, publishDiagnostics stream)",
                                                    "cases": corr_bad[:10]}, no_input=True)
        if not res["proofs_ok"] or not res["tie_ok"]:
            chk.violation("proof-broken", {"theorem_or_tie": res["broken"]}, no_input=True)


def ref_for(binary, docs, case, ref):
    missing = [(kind, case.ids[i]) for i, (kind, _, _) in enumerate(case.hist) if kind != "C" and (kind, case.ids[i]) not in ref]
    if missing:
        ref = dict(ref)
        ref.update(references(binary, docs, [case])[0])
    return ref


def replay(path):
    data = json.load(open(path))
    gates = hook_present()
    binary = build(gates)
    d, docs = scratch_dir()
    try:
        for v in data["violations"]:
            det = v["detail"]
            if "history" in det:
                hist, ids = [], []
                for i, n in enumerate(det["history"]):
                    if n[0] == "close":
                        hist.append(("C", n[1], 0))
                        ids.append(1000 + i)
                        continue
                    m = re.search(r"def f(\d+)\(", n[3])
                    tid = int(m.group(1)) if m else i + 1
                    kind = "I" if n[3].startswith("import") else ("B" if text_src("B", tid) == n[3] else "G")
                    hist.append((kind, n[1], n[2]))
                    ids.append(tid)
                c = Case(hist, det["schedule"], "replay", ids)
                ref = references(binary, docs, [c])[0]
                r = run_real(binary, [c.line(docs)])[0]
                print("case     ", c.key())
                print("server   ", json.dumps({"pubs": r["pubs"], "hover": r["hover"], "final": r["trace"][-1] if r["trace"] else None}))
                if vlib.coq_build(["C18/Model.vo"])[0]:
                    req = "From Coq Require Import ZArith List Bool.\nFrom Verif Require Import C18.Model.\nImport ListNotations.\nOpen Scope Z_scope."
                    m = vlib.coq_eval(req, "list note * list nat", "fun c => render Faithful [0;1] (fst c) (snd c)", [c.coq()], tag="c18r")[0]
                    print("model    ", m)
                print("oracle   ", oracle(c, r, ref) if r["quiescent"] else "not quiescent")
            else:
                print(json.dumps(det, indent=1))
    finally:
        shutil.rmtree(d, ignore_errors=True)
    return 0
