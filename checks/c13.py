"""C13 — any legal Incan name is safe to use.

generator: on EVERY run `vharness run c13 sites <repo>` (syn) re-extracts RUST_KEYWORDS, Incan's KEYWORDS,
         the lexer's identifier classes, `escape_keyword` and the identifier site table of
         src/backend/ir/emit/** and this script writes them as coq/Gen/C13Sites.v (gitignored).
proof:   coq/C13/Props.v over that generated file (site_safe for ALL legal names at escaped/prefixed sites,
         injectivity, fixed-name collisions, refutation at every unescaped site x every Rust keyword Incan does
         not reserve, finite parts by forallb + vm_compute lifted with forallb_forall).
tie:     the generated file itself + correspondence: the model's emit_ident (vm_compute inside coqc) predicts the
         token stream of the real pipeline's output for every (binding position, name) from the output for a
         neutral name.
oracle:  renaming must not change whether the program compiles: real pipeline parse -> typecheck -> lower ->
         IrEmitter, output re-parsed by syn (both tiers) and compiled by rustc in one cargo batch
         (CARGO_TARGET_DIR=build/gen-target), each name against a neutral name of the same case class."""
import hashlib
import json
import os
import re
import shutil
import subprocess

import vlib

NEUTRAL = {"lower": "zqn", "upper": "Zqn", "const": "ZQN", "under": "_zqn"}

# ------------------------------------------------------------------------------------------- site table

# Binding position served by each identifier site, keyed by the site id file:function:expression.
# A site that is not listed gets position "unknown"; if it is unescaped it is a NEW finding (violation).
POSITIONS = {
    "decls.rs:emit_decl:name": "type-alias-name",
    "decls.rs:emit_decl:name#2": "const-name",
    "decls.rs:emit_decl:s": "import-path-segment",
    "decls.rs:emit_decl:alias_name": "import-alias",
    "decls.rs:emit_decl:& item . name": "imported-item-name",
    "decls.rs:emit_decl:alias": "from-import-alias",
    "decls.rs:emit_trait:& trait_decl . name": "trait-name",
    "decls.rs:emit_trait_method:& func . name": "trait-method-name",
    "decls.rs:emit_trait_method:& p . name": "trait-method-parameter",
    "decls.rs:emit_impl:& impl_block . target_type": "impl-target-type",
    "decls.rs:emit_impl:fname": "field-name-in-derived-impl",
    "decls.rs:emit_impl:trait_name": "trait-name-in-impl",
    "decls.rs:emit_impl:trait_name#2": "trait-name-in-impl",
    "decls.rs:emit_method:& func . name": "method-name",
    "decls.rs:emit_method:& p . name": "method-parameter",
    "decls.rs:emit_function:& func . name": "function-name",
    "decls.rs:emit_function:Self :: escape_keyword ( & p . name )": "function-parameter",
    "decls.rs:emit_struct:Self :: escape_keyword ( & s . name )": "struct-name",
    "decls.rs:emit_struct:d": "derive-name",
    "decls.rs:emit_struct:& f . name": "field-name",
    "decls.rs:emit_struct:& f . name#2": "field-name",
    "decls.rs:emit_struct:& f . name#3": "field-name",
    "decls.rs:emit_enum:& e . name": "enum-name",
    "decls.rs:emit_enum:& v . name": "enum-variant",
    "decls.rs:emit_enum:& f . name": "enum-variant-field",
    "decls.rs:emit_enum:d": "derive-name",
    "decls.rs:emit_enum:& v . name#2": "enum-variant",
    "expressions/comprehensions.rs:emit_list_comp:variable": "comprehension-variable",
    "expressions/comprehensions.rs:emit_dict_comp:variable": "comprehension-variable",
    "expressions/indexing.rs:emit_field_expr:name": "type-name-in-path",
    "expressions/indexing.rs:emit_field_expr:field": "enum-variant-or-assoc-in-path",
    "expressions/indexing.rs:emit_field_expr:field#2": "field-access",
    "expressions/lvalue.rs:emit_lvalue_expr:Self :: escape_keyword ( name )": "variable",
    "expressions/lvalue.rs:emit_lvalue_expr:field": "field-access",
    "expressions/lvalue.rs:emit_assign_target:Self :: escape_keyword ( name )": "variable",
    "expressions/lvalue.rs:emit_assign_target:field": "field-assign",
    "expressions/methods.rs:emit_method_call_expr:name": "type-name-in-path",
    "expressions/methods.rs:emit_method_call_expr:method": "associated-function-call",
    "expressions/methods.rs:emit_method_call_expr:method#2": "method-call",
    "expressions/methods.rs:emit_enum_variant_call:type_name": "type-name-in-path",
    "expressions/methods.rs:emit_enum_variant_call:variant": "enum-variant",
    "expressions/mod.rs:emit_expr:Self :: escape_keyword ( name )": "variable",
    "expressions/mod.rs:emit_expr:Self :: escape_keyword ( pname )": "closure-parameter",
    "expressions/mod.rs:emit_expr:type_name": "type-name-in-path",
    "expressions/structs_enums.rs:emit_struct_expr:Self :: escape_keyword ( name )": "struct-name",
    "expressions/structs_enums.rs:emit_struct_expr:fname": "field-init",
    "expressions/structs_enums.rs:emit_struct_expr:fname#2": "field-init",
    "program.rs:emit_web_route_wrappers:__incan_web_{}<-r . handler_name": "web-wrapper-name",
    "program.rs:emit_web_route_wrappers:Self :: escape_keyword ( & r . handler_name )": "function-name",
    "program.rs:emit_web_route_wrappers:Self :: escape_keyword ( & p . name )": "function-parameter",
    "program.rs:emit_web_route_wrappers:Self :: escape_keyword ( & params [ 0 ] . name )": "function-parameter",
    "program.rs:emit_web_router_fn:__incan_web_{}<-r . handler_name": "web-wrapper-name",
    "statements.rs:emit_stmt:Self :: escape_keyword ( name )": "variable",
    "types.rs:emit_type:Self :: escape_keyword ( name )": "type-name",
    "types.rs:emit_type:Self :: escape_keyword ( name )#2": "type-name",
    "types.rs:emit_type:name": "generic-type-parameter",
    "types.rs:emit_pattern:Self :: escape_keyword ( name )": "pattern-binding",
    "types.rs:emit_pattern:name": "struct-pattern-type",
    "types.rs:emit_pattern:fname": "struct-pattern-field",
    "types.rs:emit_pattern:s": "enum-pattern-path-segment",
    "types.rs:emit_pattern:variant": "enum-variant",
}


def coq_str(s):
    return '"' + s.replace('"', '""') + '"'


def coq_name(s):
    if any(ord(c) > 126 or ord(c) < 32 for c in s):
        return "[" + "; ".join(str(ord(c)) for c in s) + "]%Z"
    return "(str %s)" % coq_str(s)


def coq_name_list(xs, indent="  "):
    lines, cur = [], ""
    for i, x in enumerate(xs):
        piece = coq_name(x) + ("; " if i + 1 < len(xs) else "")
        if len(cur) + len(piece) > 100:
            lines.append(cur.rstrip())
            cur = ""
        cur += piece
    lines.append(cur.rstrip())
    return "[" + ("\n" + indent + " ").join(lines) + "]"


CLASS_ATOM = {"alpha": "is_alpha c", "alnum": "is_alnum c", "digit": "is_digit c", "lower": "is_lower c", "upper": "is_upper c"}


def coq_class(atoms):
    parts = []
    for a in atoms:
        if a in CLASS_ATOM:
            parts.append(CLASS_ATOM[a])
        elif a.startswith("ch:"):
            parts.append("(c =? %d)%%Z" % int(a[3:]))
        else:
            raise vlib.Infra("unknown character class atom %r" % a)
    return " || ".join(parts) if parts else "false"


def coq_escape(rules):
    out = []
    for r in rules:
        pre, suf = r["result"]
        val = "n"
        if pre:
            val = "%s ++ %s" % (coq_name(pre), val)
        if suf:
            val = "%s ++ %s" % (val, coq_name(suf))
        if pre or suf:
            val = "(%s)%%list" % val
        c = r["cond"]
        if c.get("always"):
            out.append("  " + val)
            break
        if "in" in c:
            out.append("  if mem n %s then %s else" % (coq_name_list(c["in"]), val))
        elif c.get("rust_keyword"):
            out.append("  if gen_is_rust_keyword n then %s else" % val)
        else:
            raise vlib.Infra("unknown escape_keyword condition %r" % c)
    return "\n".join(out)


def gen_coq(tab):
    """The generated Coq file. Everything in it comes from the CURRENT source text (plus POSITIONS labels)."""
    ik = []
    for k in tab["incan_keywords"]:
        ik.append(k["canonical"])
    for k in tab["incan_keywords"]:
        ik.extend(k["aliases"])
    L = []
    L.append("(* GENERATED on every run by checks/c13.py from `vharness run c13 sites` — do not edit.")
    L.append("   sources: crates/incan_core/src/lang/{rust_keywords,keywords}.rs, crates/incan_syntax/src/lexer/{mod,tokens}.rs,")
    L.append("            src/backend/ir/emit/**/*.rs *)")
    L.append("From Coq Require Import ZArith List Bool String.")
    L.append("From Verif Require Import C13.Defs.")
    L.append("Import ListNotations.")
    L.append("Local Open Scope string_scope.")
    L.append("")
    L.append("(* rust_keywords.rs: RUST_KEYWORDS *)")
    L.append("Definition RUST_KEYWORDS : list name :=\n  %s." % coq_name_list(tab["rust_keywords"]))
    L.append("(* rust_keywords.rs: is_keyword = `%s` *)" % tab["is_keyword_body"])
    L.append("Definition gen_is_rust_keyword (n : name) : bool := mem n RUST_KEYWORDS.")
    L.append("")
    L.append("(* keywords.rs: KEYWORDS canonical spellings, then aliases *)")
    L.append("Definition INCAN_KEYWORDS : list name :=\n  %s." % coq_name_list(ik))
    L.append("(* keywords.rs: from_str = canonical or alias; lexer keyword_id = from_str *)")
    L.append("Definition gen_keyword_id_is_some (n : name) : bool := mem n INCAN_KEYWORDS.")
    L.append("")
    L.append("(* lexer/mod.rs: is_ident_start, is_ident_continue *)")
    L.append("Definition gen_ident_start (c : Z) : bool := %s." % coq_class(tab["ident_start"]))
    L.append("Definition gen_ident_continue (c : Z) : bool := %s." % coq_class(tab["ident_continue"]))
    L.append("")
    L.append("(* emit/mod.rs: escape_keyword = `%s` *)" % tab["escape_src"].replace("*)", "* )"))
    L.append("Definition gen_escape_keyword (n : name) : name :=\n%s." % coq_escape(tab["escape_rules"]))
    L.append("")
    L.append("(* every format_ident!/Ident::new under src/backend/ir/emit: id, binding position, prefix, suffix, escaped *)")
    rows = []
    for s in tab["sites"]:
        rows.append("  mk_site %s %s %s %s %s" % (coq_str(s["id"]), coq_str(POSITIONS.get(s["id"], "unknown")),
                                                 coq_name(s["prefix"]), coq_name(s["suffix"]), "true" if s["escaped"] else "false"))
    L.append("Definition SITES : list site := [\n%s\n]." % ";\n".join(rows))
    L.append("")
    L.append("(* `__`-prefixed identifiers written literally inside quote! bodies of the emitter *)")
    L.append("Definition FIXED_TEMPORARIES : list name :=\n  %s." % coq_name_list(tab["fixed_temporaries"]))
    return "\n".join(L) + "\n"


def extract_tables(binary):
    out = vlib.run_harness(binary, ["run", "c13", "sites", vlib.REPO], "")
    return json.loads(out)


def write_generated(tab):
    d = os.path.join(vlib.COQ, "Gen")
    os.makedirs(d, exist_ok=True)
    p = os.path.join(d, "C13Sites.v")
    text = gen_coq(tab)
    old = open(p).read() if os.path.exists(p) else None
    if old != text:
        with open(p + ".tmp", "w") as f:
            f.write(text)
        os.replace(p + ".tmp", p)
    return hashlib.sha1(text.encode()).hexdigest()[:16], old is not None and old != text
