"""C13 — any legal Incan name is safe to use.

generator: on EVERY run `vharness run c13 sites <repo>` (syn) re-extracts RUST_KEYWORDS, Incan's KEYWORDS,
         the lexer's identifier classes, `escape_keyword` and the identifier site table of
         src/backend/ir/emit/** and this script writes them as coq/Gen/C13Sites.v (gitignored).
proof:   coq/C13/Props.v over that generated file (site_safe for ALL legal names at escaped/prefixed sites,
         injectivity, fixed-name collisions, refutation at every unescaped site x every Rust keyword Incan does
         not reserve, finite parts by forallb + vm_compute lifted with forallb_forall).
tie:     the generated file itself + correspondence: the model's emit_ident (vm_compute inside coqc) predicts the
         token stream of the real pipeline's output for every (binding position, name) from the output for a
         neutral name.
oracle:  renaming must not change whether the program compiles: real pipeline parse -> typecheck -> lower ->
         IrEmitter, output re-parsed by syn (both tiers) and compiled by rustc in one cargo batch
         (CARGO_TARGET_DIR=build/gen-target), each name against a neutral name of the same case class."""
import hashlib
import json
import os
import re
import shutil
import subprocess
import time

import vlib

NEUTRAL = {"lower": "zqn", "upper": "Zqn", "const": "ZQN", "under": "_zqn"}

# ------------------------------------------------------------------------------------------- site table

# Binding position served by each identifier site, keyed by the site id file:function:expression.
# A site that is not listed gets position "unknown"; if it is unescaped it is a NEW finding (violation).
POSITIONS = {
    "decls.rs:emit_decl:name": "type-alias-name",
    "decls.rs:emit_decl:name#2": "const-name",
    "decls.rs:emit_decl:s": "import-path-segment",
    "decls.rs:emit_decl:alias_name": "import-alias",
    "decls.rs:emit_decl:& item . name": "imported-item-name",
    "decls.rs:emit_decl:alias": "from-import-alias",
    "decls.rs:emit_trait:& trait_decl . name": "trait-name",
    "decls.rs:emit_trait_method:& func . name": "trait-method-name",
    "decls.rs:emit_trait_method:& p . name": "trait-method-parameter",
    "decls.rs:emit_impl:& impl_block . target_type": "impl-target-type",
    "decls.rs:emit_impl:fname": "field-name-in-derived-impl",
    "decls.rs:emit_impl:trait_name": "trait-name-in-impl",
    "decls.rs:emit_impl:trait_name#2": "trait-name-in-impl",
    "decls.rs:emit_method:& func . name": "method-name",
    "decls.rs:emit_method:& p . name": "method-parameter",
    "decls.rs:emit_function:& func . name": "function-name",
    "decls.rs:emit_function:Self :: escape_keyword ( & p . name )": "function-parameter",
    "decls.rs:emit_struct:Self :: escape_keyword ( & s . name )": "struct-name",
    "decls.rs:emit_struct:d": "derive-name",
    "decls.rs:emit_struct:& f . name": "field-name",
    "decls.rs:emit_struct:& f . name#2": "field-name",
    "decls.rs:emit_struct:& f . name#3": "field-name",
    "decls.rs:emit_enum:& e . name": "enum-name",
    "decls.rs:emit_enum:& v . name": "enum-variant",
    "decls.rs:emit_enum:& f . name": "enum-variant-field",
    "decls.rs:emit_enum:d": "derive-name",
    "decls.rs:emit_enum:& v . name#2": "enum-variant",
    "expressions/comprehensions.rs:emit_list_comp:variable": "comprehension-variable",
    "expressions/comprehensions.rs:emit_dict_comp:variable": "comprehension-variable",
    "expressions/indexing.rs:emit_field_expr:name": "type-name-in-path",
    "expressions/indexing.rs:emit_field_expr:field": "enum-variant-or-assoc-in-path",
    "expressions/indexing.rs:emit_field_expr:field#2": "field-access",
    "expressions/lvalue.rs:emit_lvalue_expr:Self :: escape_keyword ( name )": "variable",
    "expressions/lvalue.rs:emit_lvalue_expr:field": "field-access",
    "expressions/lvalue.rs:emit_assign_target:Self :: escape_keyword ( name )": "variable",
    "expressions/lvalue.rs:emit_assign_target:field": "field-assign",
    "expressions/methods.rs:emit_method_call_expr:name": "type-name-in-path",
    "expressions/methods.rs:emit_method_call_expr:method": "associated-function-call",
    "expressions/methods.rs:emit_method_call_expr:method#2": "method-call",
    "expressions/methods.rs:emit_enum_variant_call:type_name": "type-name-in-path",
    "expressions/methods.rs:emit_enum_variant_call:variant": "enum-variant",
    "expressions/mod.rs:emit_expr:Self :: escape_keyword ( name )": "variable",
    "expressions/mod.rs:emit_expr:Self :: escape_keyword ( pname )": "closure-parameter",
    "expressions/mod.rs:emit_expr:type_name": "type-name-in-path",
    "expressions/structs_enums.rs:emit_struct_expr:Self :: escape_keyword ( name )": "struct-name",
    "expressions/structs_enums.rs:emit_struct_expr:fname": "field-init",
    "expressions/structs_enums.rs:emit_struct_expr:fname#2": "field-init",
    "program.rs:emit_web_route_wrappers:__incan_web_{}<-r . handler_name": "web-wrapper-name",
    "program.rs:emit_web_route_wrappers:Self :: escape_keyword ( & r . handler_name )": "function-name",
    "program.rs:emit_web_route_wrappers:Self :: escape_keyword ( & p . name )": "function-parameter",
    "program.rs:emit_web_route_wrappers:Self :: escape_keyword ( & params [ 0 ] . name )": "function-parameter",
    "program.rs:emit_web_router_fn:__incan_web_{}<-r . handler_name": "web-wrapper-name",
    "statements.rs:emit_stmt:Self :: escape_keyword ( name )": "variable",
    "types.rs:emit_type:Self :: escape_keyword ( name )": "type-name",
    "types.rs:emit_type:Self :: escape_keyword ( name )#2": "type-name",
    "types.rs:emit_type:name": "generic-type-parameter",
    "types.rs:emit_pattern:Self :: escape_keyword ( name )": "pattern-binding",
    "types.rs:emit_pattern:name": "struct-pattern-type",
    "types.rs:emit_pattern:fname": "struct-pattern-field",
    "types.rs:emit_pattern:s": "enum-pattern-path-segment",
    "types.rs:emit_pattern:variant": "enum-variant",
    "expressions/indexing.rs:emit_member:Self :: escape_keyword ( field )": "field-access",   # shared helper: field read / assignment target / struct-literal field
    "decls.rs:emit_impl:Self :: escape_keyword ( & p . name )": "method-parameter",   # `__eq__` right-hand operand (after the eq-param-name fix)
    # --- the same 45 sites as spelled after the `fix:` commits (fed expression now goes through escape_keyword)
    "decls.rs:emit_decl:Self :: escape_keyword ( name )": "type-alias-name",
    "decls.rs:emit_decl:Self :: escape_keyword ( name )#2": "const-name",
    "decls.rs:emit_decl:Self :: escape_keyword ( s )": "import-path-segment",
    "decls.rs:emit_decl:Self :: escape_keyword ( alias_name )": "import-alias",
    "decls.rs:emit_decl:Self :: escape_keyword ( & item . name )": "imported-item-name",
    "decls.rs:emit_decl:Self :: escape_keyword ( alias )": "from-import-alias",
    "decls.rs:emit_trait:Self :: escape_keyword ( & trait_decl . name )": "trait-name",
    "decls.rs:emit_trait_method:Self :: escape_keyword ( & func . name )": "trait-method-name",
    "decls.rs:emit_trait_method:Self :: escape_keyword ( & p . name )": "trait-method-parameter",
    "decls.rs:emit_impl:Self :: escape_keyword ( & impl_block . target_type )": "impl-target-type",
    "decls.rs:emit_impl:Self :: escape_keyword ( & fname )": "field-name-in-derived-impl",
    "decls.rs:emit_impl:Self :: escape_keyword ( trait_name )": "trait-name-in-impl",
    "decls.rs:emit_impl:Self :: escape_keyword ( trait_name )#2": "trait-name-in-impl",
    "decls.rs:emit_method:Self :: escape_keyword ( & func . name )": "method-name",
    "decls.rs:emit_method:Self :: escape_keyword ( & p . name )": "method-parameter",
    "decls.rs:emit_function:Self :: escape_keyword ( & func . name )": "function-name",
    "decls.rs:emit_struct:Self :: escape_keyword ( d )": "derive-name",
    "decls.rs:emit_struct:Self :: escape_keyword ( & f . name )": "field-name",
    "decls.rs:emit_struct:Self :: escape_keyword ( & f . name )#2": "field-name",
    "decls.rs:emit_struct:Self :: escape_keyword ( & f . name )#3": "field-name",
    "decls.rs:emit_enum:Self :: escape_keyword ( & e . name )": "enum-name",
    "decls.rs:emit_enum:Self :: escape_keyword ( & v . name )": "enum-variant",
    "decls.rs:emit_enum:Self :: escape_keyword ( & f . name )": "enum-variant-field",
    "decls.rs:emit_enum:Self :: escape_keyword ( d )": "derive-name",
    "decls.rs:emit_enum:Self :: escape_keyword ( & v . name )#2": "enum-variant",
    "expressions/comprehensions.rs:emit_list_comp:Self :: escape_keyword ( variable )": "comprehension-variable",
    "expressions/comprehensions.rs:emit_dict_comp:Self :: escape_keyword ( variable )": "comprehension-variable",
    "expressions/indexing.rs:emit_field_expr:Self :: escape_keyword ( name )": "type-name-in-path",
    "expressions/indexing.rs:emit_field_expr:Self :: escape_keyword ( field )": "enum-variant-or-assoc-in-path",
    "expressions/indexing.rs:emit_field_expr:Self :: escape_keyword ( field )#2": "field-access",
    "expressions/lvalue.rs:emit_lvalue_expr:Self :: escape_keyword ( field )": "field-access",
    "expressions/lvalue.rs:emit_assign_target:Self :: escape_keyword ( field )": "field-assign",
    "expressions/methods.rs:emit_method_call_expr:Self :: escape_keyword ( name )": "type-name-in-path",
    "expressions/methods.rs:emit_method_call_expr:Self :: escape_keyword ( method )": "associated-function-call",
    "expressions/methods.rs:emit_method_call_expr:Self :: escape_keyword ( method )#2": "method-call",
    "expressions/methods.rs:emit_enum_variant_call:Self :: escape_keyword ( type_name )": "type-name-in-path",
    "expressions/methods.rs:emit_enum_variant_call:Self :: escape_keyword ( variant )": "enum-variant",
    "expressions/mod.rs:emit_expr:Self :: escape_keyword ( type_name )": "type-name-in-path",
    "expressions/structs_enums.rs:emit_struct_expr:Self :: escape_keyword ( fname )": "field-init",
    "expressions/structs_enums.rs:emit_struct_expr:Self :: escape_keyword ( fname )#2": "field-init",
    "types.rs:emit_type:Self :: escape_keyword ( name )#3": "generic-type-parameter",
    "types.rs:emit_pattern:Self :: escape_keyword ( name )#2": "struct-pattern-type",
    "types.rs:emit_pattern:Self :: escape_keyword ( fname )": "struct-pattern-field",
    "types.rs:emit_pattern:Self :: escape_keyword ( s )": "enum-pattern-path-segment",
    "types.rs:emit_pattern:Self :: escape_keyword ( variant )": "enum-variant",
}


# Spelling-dependent decisions found in emit/** and lower/** (regenerated table SPELLING_SITES) and why a consistent,
# case-class-preserving renaming of user identifiers cannot change their outcome. Anything not listed is unaudited
# (obligation C13_spelling_decisions_audited breaks).
AUDITED_SPELLING = {
    "emit/decls.rs:emit_struct:f.name.chars()": "all-digits test = tuple struct (newtype field `0`); identifiers never start with a digit",
    "emit/expressions/indexing.rs:emit_field_expr:field.chars()": "all-digits test = tuple index `.0`; identifiers never start with a digit",
    "emit/expressions/indexing.rs:emit_member:field.chars()": "the same all-digits test after it moved into the shared helper emit_member (field read, assignment target, struct literal): "
                                                               "a non-empty all-digit name is a tuple index; an identifier never starts with a digit, so no renaming of identifiers changes the branch",
    "emit/program.rs:emit_program:formatted.contains(\"]\\nuse \")": "looks for the end of the inner-attribute block in the formatted text, not at a name",
    "emit/program.rs:emit_program:formatted.contains(\"]\\n\\nuse \")": "same as above",
    "emit/program.rs:to_axum_path:path.chars()": "route path string literal, not an identifier",
    "emit/types.rs:emit_pattern:variant.contains(\"::\")": "`::` cannot occur inside an identifier; distinguishes qualified variant paths built by lowering",
    "emit/types.rs:emit_pattern:variant.split(\"::\")": "same as above",
    "lower/expr.rs:lower_expr:name.chars()": "first character's case decides constructor-vs-call: the capitalised-function finding; renamings keep the case class",
    "lower/expr.rs:lower_expr:c.is_uppercase()": "same as above",
    "lower/mod.rs:select_newtype_checked_ctor:md.name.starts_with(\"from_\")": "`from_*` constructor convention of newtypes (vocabulary: conventions); the renamer never renames `from_*` methods",
}


def coq_str(s):
    return '"' + s.replace('"', '""') + '"'


def coq_name(s):
    if any(ord(c) > 126 or ord(c) < 32 for c in s):
        return "[" + "; ".join(str(ord(c)) for c in s) + "]%Z"
    return "(str %s)" % coq_str(s)


def coq_name_list(xs, indent="  "):
    lines, cur = [], ""
    for i, x in enumerate(xs):
        piece = coq_name(x) + ("; " if i + 1 < len(xs) else "")
        if len(cur) + len(piece) > 100:
            lines.append(cur.rstrip())
            cur = ""
        cur += piece
    lines.append(cur.rstrip())
    return "[" + ("\n" + indent + " ").join(lines) + "]"


CLASS_ATOM = {"alpha": "is_alpha c", "alnum": "is_alnum c", "digit": "is_digit c", "lower": "is_lower c", "upper": "is_upper c"}


def coq_class(atoms):
    parts = []
    for a in atoms:
        if a in CLASS_ATOM:
            parts.append(CLASS_ATOM[a])
        elif a.startswith("ch:"):
            parts.append("(c =? %d)%%Z" % int(a[3:]))
        else:
            raise vlib.Infra("unknown character class atom %r" % a)
    return " || ".join(parts) if parts else "false"


def coq_escape(rules):
    out = []
    for r in rules:
        pre, suf = r["result"]
        val = "n"
        if pre:
            val = "%s ++ %s" % (coq_name(pre), val)
        if suf:
            val = "%s ++ %s" % (val, coq_name(suf))
        if pre or suf:
            val = "(%s)%%list" % val
        c = r["cond"]
        if c.get("always"):
            out.append("  " + val)
            break
        if "in" in c:
            out.append("  if mem n %s then %s else" % (coq_name_list(c["in"]), val))
        elif c.get("rust_keyword"):
            out.append("  if gen_is_rust_keyword n then %s else" % val)
        else:
            raise vlib.Infra("unknown escape_keyword condition %r" % c)
    return "\n".join(out)


def gen_coq(tab):
    """The generated Coq file. Everything in it comes from the CURRENT source text (plus POSITIONS labels)."""
    ik = []
    for k in tab["incan_keywords"]:
        ik.append(k["canonical"])
    for k in tab["incan_keywords"]:
        ik.extend(k["aliases"])
    L = []
    L.append("(* GENERATED on every run by checks/c13.py from `vharness run c13 sites` — do not edit.")
    L.append("   sources: crates/incan_core/src/lang/{rust_keywords,keywords}.rs, crates/incan_syntax/src/lexer/{mod,tokens}.rs,")
    L.append("            src/backend/ir/emit/**/*.rs *)")
    L.append("From Coq Require Import ZArith List Bool String.")
    L.append("From Verif Require Import C13.Defs.")
    L.append("Import ListNotations.")
    L.append("Local Open Scope string_scope.")
    L.append("")
    L.append("(* rust_keywords.rs: RUST_KEYWORDS *)")
    L.append("Definition RUST_KEYWORDS : list name := Eval vm_compute in\n  %s." % coq_name_list(tab["rust_keywords"]))
    L.append("(* rust_keywords.rs: is_keyword = `%s` *)" % tab["is_keyword_body"])
    L.append("Definition gen_is_rust_keyword (n : name) : bool := mem n RUST_KEYWORDS.")
    L.append("")
    L.append("(* keywords.rs: KEYWORDS canonical spellings, then aliases *)")
    L.append("Definition INCAN_KEYWORDS : list name := Eval vm_compute in\n  %s." % coq_name_list(ik))
    L.append("(* keywords.rs: from_str = canonical or alias; lexer keyword_id = from_str *)")
    L.append("Definition gen_keyword_id_is_some (n : name) : bool := mem n INCAN_KEYWORDS.")
    L.append("")
    L.append("(* lexer/mod.rs: is_ident_start, is_ident_continue *)")
    L.append("Definition gen_ident_start (c : Z) : bool := %s." % coq_class(tab["ident_start"]))
    L.append("Definition gen_ident_continue (c : Z) : bool := %s." % coq_class(tab["ident_continue"]))
    L.append("")
    L.append("(* emit/mod.rs: escape_keyword = `%s` *)" % tab["escape_src"].replace("*)", "* )"))
    L.append("Definition gen_escape_keyword (n : name) : name :=\n%s." % coq_escape(tab["escape_rules"]))
    L.append("")
    L.append("(* every format_ident!/Ident::new under src/backend/ir/emit: id, binding position, prefix, suffix, escaped *)")
    rows = []
    for s in tab["sites"]:
        rows.append("  mk_site %s %s %s %s %s" % (coq_str(s["id"]), coq_str(POSITIONS.get(s["id"], "unknown")),
                                                 coq_name(s["prefix"]), coq_name(s["suffix"]), "true" if s["escaped"] else "false"))
    L.append("Definition SITES : list site := [\n%s\n]." % ";\n".join(rows))
    L.append("")
    L.append("(* every name-keyed lookup `<table>.get/contains/contains_key/get_mut(key)` in emit/** and lower/**: id, table, key derived from escape_keyword? *)")
    lrows = ["  mk_lookup %s %s %s" % (coq_str(l["id"]), coq_str(l["table"]), "true" if l["escaped"] else "false") for l in tab.get("lookups", [])]
    L.append("Definition LOOKUPS : list lookup := [\n%s\n]." % ";\n".join(lrows))
    L.append("")
    L.append("(* every spelling-dependent decision (sort/cmp/prefix/suffix/case/chars/split on a name, ordered maps) outside quote! bodies *)")
    srows = ["  mk_spell %s %s" % (coq_str(x), "true" if x in AUDITED_SPELLING else "false") for x in tab.get("spelling_sites", [])]
    L.append("Definition SPELLING_SITES : list spell := [\n%s\n]." % ";\n".join(srows))
    L.append("")
    L.append("(* `__`-prefixed identifiers written literally inside quote! bodies of the emitter *)")
    L.append("Definition FIXED_TEMPORARIES : list name := Eval vm_compute in\n  %s." % coq_name_list(tab["fixed_temporaries"]))
    return "\n".join(L) + "\n"


def extract_tables(binary):
    out = vlib.run_harness(binary, ["run", "c13", "sites", vlib.REPO], "")
    return json.loads(out)


# the shape of escape_keyword the theorems were proved about; used ONLY to keep the model building when the extractor
# cannot translate the current escape_keyword (the extractor's error then breaks the tie: VIOLATION ... no-failing-input-found
# unless the renaming oracle below finds a failing program)
NOMINAL_ESCAPE_RULES = [{"cond": {"in": ["self", "Self", "crate", "super"]}, "result": ["", ""]},
                        {"cond": {"rust_keyword": True}, "result": ["r#", ""]}, {"cond": {"always": True}, "result": ["", ""]}]


def write_generated(tab):
    if tab.get("escape_rules") is None:
        tab["escape_rules"] = NOMINAL_ESCAPE_RULES
        if not any("escape_keyword" in e for e in tab.get("errors", [])):
            tab.setdefault("errors", []).append("escape_keyword: the extractor could not translate the current function body")
    d = os.path.join(vlib.COQ, "Gen")
    os.makedirs(d, exist_ok=True)
    p = os.path.join(d, "C13Sites.v")
    text = gen_coq(tab)
    old = open(p).read() if os.path.exists(p) else None
    if old != text:
        with open(p + ".tmp", "w") as f:
            f.write(text)
        os.replace(p + ".tmp", p)
    return hashlib.sha1(text.encode()).hexdigest()[:16], old is not None and old != text


# ------------------------------------------------------------------------------------------- programs

# One small program per binding position. @N@ is the name under test. `labels`: the POSITIONS labels of the
# emitter sites the name passes through in that program (the model predicts "Rust accepts the output" iff every
# site carrying one of these labels yields a valid identifier). `ns`: "value" | "type" (Rust namespace of the
# binding), `item`: the binding is a module-level item (clashes with the template's own `main`).
TEMPLATES = {
    "variable": dict(src="def main() -> None:\n    @N@ = 1\n    println(@N@ + 1)\n", labels=["variable"]),
    "mut_variable": dict(src="def main() -> None:\n    mut @N@ = 1\n    @N@ = @N@ + 1\n    println(@N@)\n", labels=["variable"]),
    "typed_variable": dict(src="def main() -> None:\n    @N@: int = 1\n    println(@N@)\n", labels=["variable"]),
    "fstring_variable": dict(src="def main() -> None:\n    @N@ = 1\n    println(f\"v={@N@}\")\n", labels=["variable"]),
    "sorted_variable": dict(src="def main() -> None:\n    @N@ = [3, 1, 2]\n    ys = sorted(@N@)\n    println(len(ys))\n", labels=["variable"]),
    "parameter": dict(src="def f(@N@: int) -> int:\n    return @N@ + 1\n\ndef main() -> None:\n    println(f(1))\n",
                      labels=["function-parameter", "variable"]),
    "kwarg_call": dict(src="def f(@N@: int) -> int:\n    return @N@\n\ndef main() -> None:\n    println(f(@N@=1))\n",
                       labels=["function-parameter", "variable"]),
    "function": dict(src="def @N@() -> int:\n    return 1\n\ndef main() -> None:\n    println(@N@())\n",
                     labels=["function-name", "variable"], item=True, call0=True),
    "function_with_arg": dict(src="def @N@(a: int) -> int:\n    return a\n\ndef main() -> None:\n    println(@N@(2))\n",
                              labels=["function-name", "variable"], item=True),
    "field": dict(src="class P:\n    @N@: int\n\ndef main() -> None:\n    p = P(@N@=1)\n    println(p.@N@)\n",
                  labels=["field-name", "field-init", "field-access"]),
    "model_field": dict(src="model P:\n    @N@: int\n\ndef main() -> None:\n    p = P(@N@=1)\n    println(p.@N@)\n",
                        labels=["field-name", "field-init", "field-access"]),
    "field_assign": dict(src="class P:\n    @N@: int\n\ndef main() -> None:\n    mut p = P(@N@=1)\n    p.@N@ = 2\n    println(p.@N@)\n",
                         labels=["field-name", "field-init", "field-access", "field-assign"]),
    "method": dict(src="class P:\n    v: int\n\n    def @N@(self) -> int:\n        return self.v\n\ndef main() -> None:\n    p = P(v=1)\n    println(p.@N@())\n",
                   labels=["method-name", "method-call"]),
    "method_param": dict(src="class P:\n    v: int\n\n    def get(self, @N@: int) -> int:\n        return self.v + @N@\n\ndef main() -> None:\n    p = P(v=1)\n    println(p.get(2))\n",
                         labels=["method-parameter", "variable"]),
    "static_method": dict(src="class P:\n    v: int\n\n    def @N@() -> int:\n        return 7\n\ndef main() -> None:\n    println(P.@N@())\n",
                          labels=["method-name", "associated-function-call"]),
    "class_name": dict(src="class @N@:\n    v: int\n\ndef main() -> None:\n    p = @N@(v=1)\n    println(p.v)\n",
                       labels=["struct-name"], item=True, ns="type"),
    "model_name": dict(src="model @N@:\n    v: int\n\ndef main() -> None:\n    p = @N@(v=1)\n    println(p.v)\n",
                       labels=["struct-name"], item=True, ns="type"),
    "class_with_method_name": dict(src="class @N@:\n    v: int\n\n    def value_of(self) -> int:\n        return self.v\n\ndef main() -> None:\n    p = @N@(v=1)\n    for i in range(2):\n        println(p.value_of() + i)\n",
                                   labels=["struct-name", "impl-target-type"], item=True, ns="type"),
    "param_type_name": dict(src="class @N@:\n    v: int\n\ndef f(p: @N@) -> int:\n    return p.v\n\ndef main() -> None:\n    println(f(@N@(v=1)))\n",
                            labels=["struct-name", "type-name"], item=True, ns="type"),
    "newtype_name": dict(src="type @N@ = newtype int\n\ndef main() -> None:\n    u = @N@(3)\n    println(u.0)\n",
                         labels=["struct-name"], item=True, ns="type"),
    # `type N = int` is lowered to a newtype struct (IrDeclKind::TypeAlias is not produced for it)
    "type_alias": dict(src="type @N@ = int\n\ndef main() -> None:\n    println(1)\n", labels=["struct-name"], item=True, ns="type"),
    "enum_name": dict(src="enum @N@:\n    A\n    B\n\ndef main() -> None:\n    e = @N@.A\n    match e:\n        case @N@.A:\n            println(1)\n        case @N@.B:\n            println(2)\n",
                      labels=["enum-name", "type-name-in-path", "enum-pattern-path-segment"], item=True, ns="type"),
    "enum_variant": dict(src="enum E:\n    @N@\n    Other\n\ndef main() -> None:\n    e = E.@N@\n    match e:\n        case E.@N@:\n            println(1)\n        case E.Other:\n            println(2)\n",
                         labels=["enum-variant", "enum-variant-or-assoc-in-path"]),
    "enum_variant_payload": dict(src="enum E:\n    @N@(int)\n    Other\n\ndef main() -> None:\n    e = E.@N@(3)\n    match e:\n        case E.@N@(v):\n            println(v)\n        case E.Other:\n            println(2)\n",
                                 labels=["enum-variant"]),
    "const": dict(src="const @N@: int = 5\n\ndef main() -> None:\n    println(@N@)\n", labels=["const-name", "variable"], item=True),
    "loop_variable": dict(src="def main() -> None:\n    for @N@ in range(3):\n        println(@N@)\n", labels=["pattern-binding", "variable"]),
    "match_binding": dict(src="def main() -> None:\n    o: Option[int] = Some(1)\n    match o:\n        case Some(@N@):\n            println(@N@)\n        case None:\n            println(0)\n",
                          labels=["pattern-binding", "variable"]),
    "import_alias": dict(src="import rust::std::collections::HashMap as @N@\n\ndef main() -> None:\n    println(1)\n", labels=["import-alias"], item=True, ns="type"),
    "from_import_alias": dict(src="from rust::std::collections import HashMap as @N@\n\ndef main() -> None:\n    println(1)\n",
                              labels=["from-import-alias"], item=True, ns="type"),
    "list_comp_variable": dict(src="def main() -> None:\n    xs = [1, 2, 3]\n    ys = [@N@ * 2 for @N@ in xs]\n    println(len(ys))\n",
                               labels=["comprehension-variable", "variable"]),
    "dict_comp_variable": dict(src="def main() -> None:\n    xs = [1, 2, 3]\n    ys = {@N@: @N@ * 2 for @N@ in xs}\n    println(len(ys))\n",
                               labels=["comprehension-variable", "variable"]),
    "closure_param": dict(src="def main() -> None:\n    f = (@N@) => @N@ + 1\n    println(f(1))\n", labels=["closure-parameter", "variable"]),
    "trait_name": dict(src="trait @N@:\n    def area(self) -> int\n\nclass S with @N@:\n    v: int\n\n    def area(self) -> int:\n        return self.v\n\ndef main() -> None:\n    s = S(v=1)\n    println(s.area())\n",
                       labels=["trait-name", "trait-name-in-impl"], item=True, ns="type"),
    "trait_method": dict(src="trait T:\n    def @N@(self) -> int\n\nclass S with T:\n    v: int\n\n    def @N@(self) -> int:\n        return self.v\n\ndef main() -> None:\n    s = S(v=1)\n    println(s.@N@())\n",
                         labels=["trait-method-name", "method-name", "method-call"]),
    "trait_method_param": dict(src="trait T:\n    def area(self, @N@: int) -> int\n\nclass S with T:\n    v: int\n\n    def area(self, @N@: int) -> int:\n        return self.v + @N@\n\ndef main() -> None:\n    s = S(v=1)\n    println(s.area(2))\n",
                               labels=["trait-method-parameter", "method-parameter", "variable"]),
    "module_name": dict(src="from @N@ import helper\n\ndef main() -> None:\n    println(helper())\n",
                        modules=[["@N@", "pub def helper() -> int:\n    return 1\n"]], labels=["import-path-segment"], item=True, ns="type", norustc=True),
    "imported_function": dict(src="from zqmod import @N@\n\ndef main() -> None:\n    println(@N@())\n",
                              modules=[["zqmod", "pub def @N@() -> int:\n    return 1\n"]], labels=["imported-item-name", "variable"],
                              item=True, norustc=True, call0=True),
    # ---- call shapes whose emission depends on a NAME-KEYED lookup of the callee's signature (function registry,
    # external-function set): keyword arguments out of declaration order, mixed positional+keyword, defaults,
    # `mut` list/model parameters (need `&mut`), str parameters (owned conversion), nested calls, calls from another
    # function and from a method. Lower-case names only (an upper-case callee is the capitalised-function class).
    "function_kwargs": dict(src="def @N@(lo: int, hi: int) -> int:\n    return hi - lo\n\ndef twice(a: int) -> int:\n    return @N@(hi=a, lo=1) + @N@(1, hi=a)\n\nclass P:\n    v: int\n\n    def use_it(self) -> int:\n        return @N@(hi=self.v, lo=2)\n\ndef main() -> None:\n    println(@N@(1, 10))\n    println(@N@(lo=1, hi=10))\n    println(@N@(hi=10, lo=1))\n    println(@N@(@N@(hi=5, lo=1), hi=20))\n    println(twice(7))\n    p = P(v=9)\n    println(p.use_it())\n",
                            labels=["function-name", "variable"], item=True, lower_only=True),
    "function_mut_param": dict(src="def @N@(mut xs: List[int], v: int) -> None:\n    xs.append(v)\n\ndef main() -> None:\n    mut ys: List[int] = [1]\n    @N@(ys, 2)\n    @N@(v=3, xs=ys)\n    println(len(ys))\n",
                               labels=["function-name", "variable"], item=True, lower_only=True),
    "function_str_param": dict(src="def @N@(s: str, n: int) -> str:\n    return s\n\ndef main() -> None:\n    t = \"abc\"\n    println(@N@(\"lit\", 1))\n    println(@N@(t, 2))\n    println(@N@(n=3, s=t))\n",
                               labels=["function-name", "variable"], item=True, lower_only=True),
    "function_default_arg": dict(src="def @N@(a: int, b: int = 5) -> int:\n    return a - b\n\ndef main() -> None:\n    println(@N@(10))\n    println(@N@(10, 2))\n    println(@N@(b=1, a=10))\n",
                                 labels=["function-name", "variable"], item=True, lower_only=True, norustc=True),  # defaults are not filled in by the emitter (rustc E0061 for every name)
    "function_model_param": dict(src="class P:\n    v: int\n\ndef @N@(mut p: P, d: int) -> None:\n    p.v = p.v + d\n\ndef main() -> None:\n    mut q = P(v=1)\n    @N@(q, 2)\n    @N@(d=3, p=q)\n    println(q.v)\n",
                                 labels=["function-name", "variable"], item=True, lower_only=True),
    "method_kwargs": dict(src="class P:\n    v: int\n\n    def @N@(self, lo: int, hi: int) -> int:\n        return hi - lo + self.v\n\ndef main() -> None:\n    p = P(v=1)\n    println(p.@N@(1, 10))\n    println(p.@N@(hi=10, lo=1))\n    println(p.@N@(1, hi=10))\n",
                          labels=["method-name", "method-call"], lower_only=True),
    "static_method_kwargs": dict(src="class P:\n    v: int\n\n    def @N@(lo: int, hi: int) -> int:\n        return hi - lo\n\ndef main() -> None:\n    println(P.@N@(1, 10))\n    println(P.@N@(hi=10, lo=1))\n",
                                 labels=["method-name", "associated-function-call"], lower_only=True),
    "imported_function_kwargs": dict(src="from zqmod import @N@\n\ndef main() -> None:\n    println(@N@(1, 10))\n    println(@N@(hi=10, lo=1))\n    println(@N@(1, hi=10))\n",
                                     modules=[["zqmod", "pub def @N@(lo: int, hi: int) -> int:\n    return hi - lo\n"]],
                                     labels=["imported-item-name", "variable"], item=True, norustc=True, lower_only=True),
}


def neutral_for(n, pos=None):
    if pos is not None and TEMPLATES[pos].get("call0") and n[0].isupper():
        return NEUTRAL["lower"]   # a callable: the honest comparison is with a lower-case function name
    if n.startswith("_"):
        return NEUTRAL["under"]
    if n[0].isupper():
        return NEUTRAL["const"] if (len(n) > 1 and n.upper() == n) else NEUTRAL["upper"]
    return NEUTRAL["lower"]


def instantiate(pos, n):
    t = TEMPLATES[pos]
    c = {"id": [pos, n], "src": t["src"].replace("@N@", n)}
    if t.get("modules"):
        c["modules"] = [[a.replace("@N@", n), b.replace("@N@", n)] for a, b in t["modules"]]
    return c


def run_emit(binary, cases, jobs=8):
    import concurrent.futures
    chunks = [cases[i::jobs] for i in range(jobs)] if len(cases) >= 4 * jobs else [cases]
    chunks = [c for c in chunks if c]

    def one(chunk):
        text = "\n".join(json.dumps(c) for c in chunk) + "\n"
        return vlib.run_harness(binary, ["run", "c13", "emit"], text, timeout=1200)

    res = {}
    with concurrent.futures.ThreadPoolExecutor(max_workers=jobs) as ex:
        for out in ex.map(one, chunks):
            for line in out.split("\n"):
                if line:
                    r = json.loads(line)
                    res[tuple(r["id"])] = r
    if len(res) != len(cases):
        raise vlib.Infra("c13 emit returned %d results for %d cases" % (len(res), len(cases)))
    return res


def subst_tokens(tokens, neutral, emitted, plain):
    """The neutral program's token stream with the neutral identifier replaced by the model's emitted
    identifier (and by the plain spelling inside string literals, e.g. derived Display/variant names)."""
    out = []
    for t in tokens:
        if t == neutral:
            out.append(emitted)
        elif t.startswith('"') and neutral in t:
            out.append(t.replace(neutral, plain))
        else:
            out.append(t)
    return out


def first_diff(a, b):
    for i, (x, y) in enumerate(zip(a, b)):
        if x != y:
            return " ".join(a[max(0, i - 5):i + 6]) + "   <>   " + " ".join(b[max(0, i - 5):i + 6])
    if len(a) != len(b):
        return "length %d <> %d" % (len(a), len(b))
    return ""


# ------------------------------------------------------------------------------------------- rustc batch

def rustc_batch(programs, tag):
    """programs: dict id(str) -> rust source. ONE cargo package whose main.rs declares one module per program
    (each generated file keeps its own inner attributes, imports and `fn main`), `cargo check` in the shared
    target dir; errors are attributed to programs by file name; because rustc stops at the first failing phase,
    failing modules are removed and the check repeated until the rest is clean. Returns id -> (ok, first error)."""
    if not programs:
        return {}
    d = os.path.join(vlib.BUILD, "c13-rustc-%s-%d" % (tag, os.getpid()))
    shutil.rmtree(d, ignore_errors=True)
    os.makedirs(os.path.join(d, "src"))
    repo = os.path.realpath(vlib.REPO)
    ids = sorted(programs)
    names = {}
    for k, i in enumerate(ids):
        b = "c%04d" % k
        names[b] = i
        with open(os.path.join(d, "src", b + ".rs"), "w") as f:
            f.write(programs[i])
    with open(os.path.join(d, "Cargo.toml"), "w") as f:
        f.write('[package]\nname = "c13batch"\nversion = "0.1.0"\nedition = "2021"\n\n[workspace]\n\n[dependencies]\n'
                'incan_stdlib = { path = "%s/crates/incan_stdlib" }\nincan_derive = { path = "%s/crates/incan_derive" }\n' % (repo, repo))
    target = os.path.join(vlib.BUILD, "gen-target" if repo == "/repo" else "gen-target-alt")
    res = {i: (True, "") for i in ids}
    live = sorted(names)
    try:
        for _round in range(12):
            with open(os.path.join(d, "src", "main.rs"), "w") as f:
                f.write("#![allow(warnings)]\n" + "".join("mod %s;\n" % b for b in live) + "fn main() {}\n")
            with vlib.Lock("c13-gen-target"):
                rc, out, err = vlib.sh(["cargo", "check", "--offline", "--message-format=json", "-q"],
                                       cwd=d, env={"CARGO_TARGET_DIR": target}, timeout=3000)
            failed = set()
            for line in out.split("\n"):
                if not line.startswith("{"):
                    continue
                try:
                    m = json.loads(line)
                except ValueError:
                    continue
                if m.get("reason") != "compiler-message" or m["message"].get("level") != "error":
                    continue
                tname = m.get("target", {}).get("name")
                if tname != "c13batch":
                    raise vlib.Infra("rustc batch: dependency %s does not compile: %s" % (tname, m["message"].get("message")))
                files = [sp.get("file_name", "") for sp in m["message"].get("spans", [])]
                mods = [os.path.basename(fn)[:-3] for fn in files if os.path.basename(fn)[:-3] in names]
                for b in mods[:1]:
                    failed.add(b)
                    i = names[b]
                    if res[i][0]:
                        code = (m["message"].get("code") or {}).get("code") or ""
                        res[i] = (False, (code + " " + m["message"].get("message", ""))[:200])
            if rc == 0:
                return res
            if not failed:
                raise vlib.Infra("rustc batch failed without an attributable error: " + (err or out)[-1500:])
            live = [b for b in live if b not in failed]
        raise vlib.Infra("rustc batch did not converge")
    finally:
        shutil.rmtree(d, ignore_errors=True)


# ------------------------------------------------------------------------------------------- model evaluation

REQ = ("From Coq Require Import ZArith List Bool String.\nFrom Verif Require Import C13.Defs Gen.C13Sites C13.Model.\n"
       "Import ListNotations.\nOpen Scope Z_scope.")


def zs(s):
    return "[" + "; ".join(str(ord(c)) for c in s) + "]"


def unz(l):
    return "".join(chr(c) for c in l)


def model_names(names):
    """render_name for every name: dict name -> {legal, esc, valid, rk, ik}."""
    terms = ["render_name %s" % zs(n) for n in names]
    out = vlib.coq_eval(REQ, "Z * list Z * Z * Z * Z", "fun x => x", terms, tag="c13n")
    res = {}
    for n, r in zip(names, out):
        legal, esc, valid, rk, ik = r
        res[n] = {"legal": bool(legal), "esc": unz(esc), "valid": bool(valid), "rk": bool(rk), "ik": bool(ik)}
    return res


def model_sites(n_sites, names):
    """valid_rust_ident (emit_ident s n) and emit_ident for every site x name: dict (k, name) -> (emitted, valid)."""
    terms = ["(map (fun k => render_site k %s) (seq 0 %d))" % (zs(n), n_sites) for n in names]
    out = vlib.coq_eval(REQ, "list (list Z * Z)", "fun x => x", terms, tag="c13s", shard=40)
    res = {}
    for n, row in zip(names, out):
        for k, (e, v) in enumerate(row):
            res[(k, n)] = (unz(e), bool(v))
    return res


def model_tables():
    terms = ["UNRESERVED_RUST_KEYWORDS", "NOT_RAWABLE_LEGAL", "FIXED_NAMES"]
    out = vlib.coq_eval(REQ, "list name", "fun x => x", terms, tag="c13t")
    return [[unz(x) for x in l] for l in out]


# ------------------------------------------------------------------------------------------- known findings

ITEM_LABEL_POSITIONS = None


def finding_sites(findings):
    s = {}
    for f in findings:
        if f.get("status") == "known":
            for sid in f.get("sites", []):
                s[sid] = f["id"]
    return s


def random_ident(rng):
    first = "abcdefghijklmnopqrstuvwxyzABCDEFGHIJKLMNOPQRSTUVWXYZ_"
    rest = first + "0123456789"
    k = rng.choice([1, 2, 3, 5, 8, 13, 30])
    return rng.choice(first) + "".join(rng.choice(rest) for _ in range(k - 1))


def run(chk):
    chk.trusted = [
        "Coq 8.16.1 kernel (coqc; vm_compute only on closed finite checks over the generated tables)",
        "the syn-based extractor `vharness run c13 sites` + the table printer in checks/c13.py (recognises fixed shapes of "
        "RUST_KEYWORDS/is_keyword, KEYWORDS/from_str, is_ident_start/continue, scan_identifier, escape_keyword, format_ident!/Ident::new; "
        "anything else is reported as tie-broken)",
        "coq/C13/Model.v: hand-written spec of a valid Rust identifier (Rust Reference keywords 2021, raw identifiers) and the "
        "hand model emit_ident = prefix ++ (escape_keyword n | n) ++ suffix; POSITIONS labels in checks/c13.py",
        "vharness c13 emit adapter (IrCodegen::try_generate + syn::parse_file + token flattening), proc-macro2/syn/quote, rustc/cargo for the batch",
    ]
    chk.assumptions = [
        "generated projects are edition 2021 (`gen` not reserved); identifiers are ASCII (the lexer rejects anything else)",
        "FIXED_PRELUDE (names the generated code relies on besides the extracted `__` temporaries) is a hand list",
        "the semantic half of C13 ('what it does') is covered through token-stream equality modulo the renaming (whole corpus, 4 bijections) and, in the thorough tier, by running two feature programs; not by running the whole corpus",
    ]
    known = [f for f in chk.findings if f.get("status") == "known"]
    known_ids = {f["id"] for f in known}
    known_site = finding_sites(chk.findings)

    t_b = time.time()
    binary = vlib.build_harness("debug")
    tab = extract_tables(binary)
    vlib.log("[c13] harness + table extraction in %.1fs" % (time.time() - t_b))
    gen_hash, gen_changed = write_generated(tab)
    chk.coverage["generated_table"] = {"file": "coq/Gen/C13Sites.v", "sha1": gen_hash, "changed_since_last_run": gen_changed,
                                       "rust_keywords": len(tab["rust_keywords"]), "incan_keywords": len(tab["incan_keywords"]),
                                       "sites": len(tab["sites"]), "escaped": sum(1 for s in tab["sites"] if s["escaped"]),
                                       "prefixed": sum(1 for s in tab["sites"] if s["prefix"]),
                                       "fixed_temporaries": tab["fixed_temporaries"]}
    t_p = time.time()
    res = chk.proof_stage("C13", allow_axioms=(), rs2v_units=None)
    vlib.log("[c13] proof stage in %.1fs (proofs_ok=%s)" % (time.time() - t_p, res["proofs_ok"]))
    if tab["errors"]:
        res["tie_ok"] = False
        res["broken"].append({"what": "extractor", "message": tab["errors"][:10]})

    escaped_lookups = [l["id"] for l in tab.get("lookups", []) if l["escaped"]]
    chk.coverage["lookups"] = {"total": len(tab.get("lookups", [])), "keyed_by_escaped_name": escaped_lookups}
    sites = tab["sites"]
    label_sites = {}
    for k, s in enumerate(sites):
        label_sites.setdefault(POSITIONS.get(s["id"], "unknown"), []).append(k)
    unescaped_now = [s["id"] for s in sites if not s["escaped"] and not s["prefix"] and not s["suffix"]]

    fails = []        # failing inputs not covered by a listed finding
    corr_bad = []     # model <> implementation without a property failure

    # ---- site table vs listed findings: a new unescaped site is a new violation
    new_sites = [sid for sid in unescaped_now if sid not in known_site]
    chk.coverage["unescaped_sites"] = {"now": len(unescaped_now), "listed": len(known_site),
                                       "listed_but_gone": sorted(set(known_site) - set(unescaped_now))}

    # ---- names
    t_b = time.time()
    model_ok = vlib.coq_build(["C13/Model.vo"])[0]
    vlib.log("[c13] model build/check in %.1fs" % (time.time() - t_b))
    if not model_ok:
        res["tie_ok"] = False
        res["broken"].append({"what": "model", "message": "C13/Model.v no longer builds against the regenerated tables"})
    rk_py = [k for k in tab["rust_keywords"]]
    ik_py = set(k["canonical"] for k in tab["incan_keywords"]) | set(a for k in tab["incan_keywords"] for a in k["aliases"])
    if model_ok:
        unreserved, not_rawable, fixed_names = model_tables()
    else:
        unreserved = [k for k in rk_py if k not in ik_py]
        not_rawable, fixed_names = ["Self", "_"], list(tab["fixed_temporaries"])
    spec_kw = ("as break const continue crate else enum extern false fn for if impl in let loop match mod move mut pub ref return self Self "
               "static struct super trait true type unsafe use where while async await dyn abstract become box do final macro override priv "
               "typeof unsized virtual yield try").split()
    kw_names = sorted(set(unreserved) | set(k for k in spec_kw if k not in ik_py and k not in ("Self",)))
    case_names = ["Zqn2", "zqn2", "ZQN2", "_zqn2", "zQn", "z", "Z", "__zqn", "zqn_", "Zqn_Two", "r", "r_loop", "loop_", "Loop", "LOOP", "selfish", "Selfie", "crate_", "gen", "union", "macro_rules", "auto", "default", "dyn_", "raw", "safe"]
    template_idents = set(re.findall(r"[A-Za-z_][A-Za-z0-9_]*", " ".join(t["src"] + " ".join(b for _, b in t.get("modules", [])) for t in TEMPLATES.values())))
    rnd = []
    while len(rnd) < (12 if chk.tier == "quick" else 60):
        n = random_ident(chk.rng)
        if n not in rnd and n not in ik_py and n not in rk_py and n != "_" and "zqn" not in n.lower() and n not in template_idents:
            rnd.append(n)
    case_names = [n for n in case_names if n not in template_idents]
    illegal = sorted(ik_py)[:6] + ["match", "def", "None", "True"] if chk.tier == "quick" else sorted(ik_py)
    illegal = sorted(set(illegal))
    fixed_probe = [n for n in fixed_names if n not in ik_py]
    all_names = []
    for n in kw_names + not_rawable + fixed_probe + case_names + rnd + illegal + list(NEUTRAL.values()):
        if n not in all_names:
            all_names.append(n)

    # real vocabulary / keyword verdicts for every name (+ a larger random stream for the keyword predicates)
    stream = list(all_names)
    extra = []
    for _ in range(300 if chk.tier == "quick" else 3000):
        extra.append(random_ident(chk.rng))
    for k in rk_py + sorted(ik_py):
        extra += [k, k + "_", k.capitalize(), k.upper(), "_" + k, k[:-1]]
    extra = [e for e in dict.fromkeys(extra) if e and e not in stream and re.match(r"^[A-Za-z_][A-Za-z0-9_]*$", e)]
    vocab_out = vlib.run_harness(binary, ["run", "c13", "vocab"], "\n".join(stream + extra) + "\n")
    vocab = {}
    for line in vocab_out.split("\n"):
        if line:
            r = json.loads(line)
            vocab[r["name"]] = r
    t_m = time.time()
    mnames = model_names(stream + extra) if model_ok else {}
    # correspondence 1: the generated keyword predicates and escape_keyword's decision vs the real functions
    for n in stream + extra:
        chk.count_case(("name", n), nontrivial=vocab[n]["rust_keyword"] or vocab[n]["incan_keyword"])
        if not model_ok:
            continue
        m = mnames[n]
        if m["rk"] != vocab[n]["rust_keyword"] or m["ik"] != vocab[n]["incan_keyword"]:
            corr_bad.append({"name": n, "model": {"rust_keyword": m["rk"], "incan_keyword": m["ik"]},
                             "impl": {"rust_keyword": vocab[n]["rust_keyword"], "incan_keyword": vocab[n]["incan_keyword"]}})
    t_m = time.time()
    msites = model_sites(len(sites), all_names) if model_ok else {}
    vlib.log("[c13] model: %d names + %d site rows evaluated in coqc in %.1fs" % (len(stream) + len(extra), len(all_names), time.time() - t_m))

    def name_class(n):
        if model_ok and not mnames[n]["legal"]:
            return "illegal"
        if not model_ok and n in ik_py:
            return "illegal"
        if n in not_rawable:
            return "not_rawable"
        if n in unreserved:
            return "rust_keyword"
        if vocab[n]["vocab"]:
            return "incan_vocabulary"
        if n in fixed_names:
            return "fixed"
        return "plain"

    # ---- cases: every position x every name, plus the neutral program of each case class
    positions = sorted(TEMPLATES)
    core_positions = ["variable", "fstring_variable", "sorted_variable", "parameter", "function", "field", "method", "class_name",
                      "class_with_method_name", "enum_variant", "const", "match_binding", "import_alias",
                      "function_kwargs", "function_mut_param", "method_kwargs"]
    full = set(kw_names) | set(not_rawable) | set(NEUTRAL.values()) | set(rnd[:4])
    t_emit = time.time()

    def wanted(pos, n):
        if TEMPLATES[pos].get("lower_only") and not (n[0].islower() or n in NEUTRAL.values()):
            return False
        return chk.tier == "thorough" or n in full or pos in core_positions

    cases = []
    for pos in positions:
        for n in all_names:
            if wanted(pos, n):
                cases.append(instantiate(pos, n))
    results = run_emit(binary, cases)
    vlib.log("[c13] pipeline: %d programs in %.1fs" % (len(cases), time.time() - t_emit))

    dist = {}
    rust_programs = {}
    judged = []
    for pos in positions:
        t = TEMPLATES[pos]
        for n in all_names:
            if n in NEUTRAL.values() or not wanted(pos, n):
                continue
            cls = name_class(n)
            r = results[(pos, n)]
            nb = neutral_for(n, pos)
            b = results[(pos, nb)]
            key = "%s/%s/%s" % (cls, r["stage"], "syn-ok" if r["syn_ok"] else "syn-fail")
            dist[key] = dist.get(key, 0) + 1
            chk.count_case((pos, n), nontrivial=(r["stage"] == "ok"))
            if not (b["stage"] == "ok" and b["syn_ok"]):
                raise vlib.Infra("neutral program for position %s / %s does not compile: %s %s" % (pos, nb, b["stage"], b["msg"]))
            if n == "main" and t.get("item"):
                dist["skipped-clash-with-template-main"] = dist.get("skipped-clash-with-template-main", 0) + 1
                continue
            same_verdict = (r["stage"], r["syn_ok"]) == (b["stage"], b["syn_ok"])
            labels = t["labels"]
            lsites = [k for l in labels for k in label_sites.get(l, [])]
            pred_ok = all(msites[(k, n)][1] for k in lsites) if model_ok else None
            bad_sites = [sites[k]["id"] for k in lsites if model_ok and not msites[(k, n)][1]]
            emitted = mnames[n]["esc"] if model_ok else n
            info = {"position": pos, "name": n, "class": cls, "neutral": nb, "source": cases[0]["src"] if False else instantiate(pos, n)["src"],
                    "expected": "same verdict as the neutral program (%s, syn ok) and the same tokens modulo the renaming" % b["stage"],
                    "actual": {"stage": r["stage"], "msg": r["msg"][:300], "syn_ok": r["syn_ok"]}}
            if cls == "illegal":
                # malformed stream: an Incan keyword is not a name; the front end must say so
                # (keyword literals are fine in literal positions and `None` is accepted as a variant name: counted, not judged)
                if r["stage"] not in ("lex", "parse", "dep-lex", "dep-parse"):
                    dist["incan-keyword-accepted-in-position"] = dist.get("incan-keyword-accepted-in-position", 0) + 1
                continue
            if cls == "incan_vocabulary":
                continue  # clashes with Incan's own vocabulary (builtins/types/constructors): outside the property's quantifier
            if cls == "not_rawable":
                # model: no site can emit these; syn accepts `Self`/`_` in some pattern positions, rustc decides (batch below)
                judged.append((pos, n, cls, same_verdict, None, info))
                if r["stage"] == "ok" and not t.get("norustc"):
                    rust_programs["%s|%s" % (pos, n)] = r["rust"]
                    rust_programs["%s|%s" % (pos, nb)] = b["rust"]
                continue
            tok_ok = None
            if same_verdict and len(n) > 12:
                tok_ok = True   # prettyplease re-wraps long lines (trailing commas, braces): verdict and rustc only
                dist["verdict-only(long name)"] = dist.get("verdict-only(long name)", 0) + 1
            elif same_verdict:
                want = subst_tokens(b["tokens"], nb, emitted, n)
                tok_ok = (want == r["tokens"])
                if not tok_ok:
                    info["token_diff"] = first_diff(want, r["tokens"])
            judged.append((pos, n, cls, same_verdict, tok_ok, info))
            # correspondence 2: the model's prediction of the verdict from the site table
            if model_ok and pred_ok is not None:
                impl_ok = r["stage"] == "ok" and r["syn_ok"]
                if pred_ok != impl_ok:
                    info2 = dict(info)
                    info2["model_predicts"] = "valid" if pred_ok else "invalid at sites %s" % bad_sites
                    if same_verdict and tok_ok and not pred_ok:
                        corr_bad.append({"what": "model predicts an invalid identifier but the implementation's output is fine", **info2})
                    elif not same_verdict and pred_ok:
                        info["model_predicts"] = "valid (every site serving this position escapes)"
            if same_verdict and tok_ok:
                if r["stage"] == "ok" and not t.get("norustc") and (chk.tier == "thorough" or cls == "fixed" or
                                                                    (cls == "rust_keyword" and n in kw_names[:4]) or
                                                                    n in case_names[:10] or n in rnd[:3]):
                    rust_programs["%s|%s" % (pos, n)] = r["rust"]
                    rust_programs["%s|%s" % (pos, nb)] = b["rust"]
                continue
            # ---- the renamed program behaves differently: classify
            suppressed = None
            if cls == "rust_keyword" and bad_sites and ((not same_verdict and r["stage"] in ("emit", "panic")) or
                                                        (same_verdict and tok_ok is False)):
                # in class: the keyword reached an unescaped site (syn rejects it, or accepts it verbatim as in `use m::try`)
                unlisted = [sid for sid in bad_sites if sid not in known_site]
                if not unlisted:
                    suppressed = sorted({known_site[sid] for sid in bad_sites})
                else:
                    info["unlisted_unescaped_sites"] = unlisted
            elif same_verdict and tok_ok is False and t.get("call0") and n[0].isupper() and "capitalised-function" in known_ids:
                want = subst_tokens(b["tokens"], nb, emitted, n)
                # the only difference allowed in this class: `N ( )` became `N { }`
                fixed_up = []
                i = 0
                toks = r["tokens"]
                while i < len(toks):
                    if toks[i] == emitted and toks[i + 1:i + 3] == ["{", "}"]:
                        fixed_up += [emitted, "(", ")"]
                        i += 3
                    else:
                        fixed_up.append(toks[i])
                        i += 1
                if fixed_up == want:
                    suppressed = ["capitalised-function"]
            if (not suppressed and pos == "enum_variant_payload" and n == "main" and r["stage"] == "typecheck"
                    and "Unknown symbol" in r["msg"] and "variant-function-clash" in known_ids):
                # oracle-only class: a payload variant spelled like a top-level function of the same program (here the
                # template's own `main`); the checker resolves the pattern head to the function and binds nothing
                suppressed = ["variant-function-clash"]
            if suppressed:
                for fid in suppressed:
                    dist["known:" + fid] = dist.get("known:" + fid, 0) + 1
                continue
            fails.append(info)

    # ---- rustc batch (quick: fixed names, a few keywords and case variants; thorough: everything that reached syn)
    t_rc = time.time()
    rust_res = rustc_batch(rust_programs, chk.tier)
    vlib.log("[c13] rustc batch: %d programs in %.1fs" % (len(rust_programs), time.time() - t_rc))
    rustc_diff = 0
    for key, (ok, msg) in sorted(rust_res.items()):
        pos, n = key.split("|")
        if n in NEUTRAL.values():
            if not ok:
                raise vlib.Infra("neutral program %s does not pass rustc: %s" % (key, msg))
            continue
        nb = neutral_for(n, pos)
        chk.count_case(("rustc", pos, n), nontrivial=True)
        cls = name_class(n)
        dk = "rustc/%s/%s" % (cls, "ok" if ok else "error")
        dist[dk] = dist.get(dk, 0) + 1
        if ok:
            continue
        rustc_diff += 1
        info = {"position": pos, "name": n, "class": cls, "neutral": nb, "source": instantiate(pos, n)["src"],
                "expected": "rustc accepts the generated program as it accepts the one for the neutral name %s" % nb,
                "actual": {"stage": "rustc", "msg": msg}}
        if cls == "not_rawable" and "not-rawable-names" in known_ids:
            dist["known:not-rawable-names"] = dist.get("known:not-rawable-names", 0) + 1
            continue
        if cls == "fixed" and "fixed-name-collision" in known_ids:
            dist["known:fixed-name-collision"] = dist.get("known:fixed-name-collision", 0) + 1
            continue
        if TEMPLATES[pos].get("call0") and n[0].isupper() and "capitalised-function" in known_ids:
            dist["known:capitalised-function"] = dist.get("known:capitalised-function", 0) + 1
            continue
        fails.append(info)
    # not-rawable names at syn level: a failure is in-class; nothing else to judge there
    for pos, n, cls, same_verdict, tok_ok, info in judged:
        if cls == "not_rawable" and not same_verdict:
            if "not-rawable-names" in known_ids:
                dist["known:not-rawable-names"] = dist.get("known:not-rawable-names", 0) + 1
            else:
                fails.append(info)

    # ---- whole-program metamorphic renaming over the corpus
    t_mm = time.time()
    mfails, mstats = metamorphic(chk, binary, ik_py, unreserved, known_ids, rustc=True)
    vlib.log("[c13] metamorphic renaming: %d programs, %d renamed variants, %d differences in %.1fs" %
             (mstats["programs"], mstats["renamed_programs"], len(mfails), time.time() - t_mm))
    chk.coverage["metamorphic"] = mstats
    fails.extend(mfails)
    t_cc = time.time()
    cfails, cstats = collision_oracle(chk, binary, known_ids)
    vlib.log("[c13] collision renaming: %d variants over %d programs, %d differences in %.1fs" %
             (cstats["variants"], cstats["programs_with_variants"], len(cfails), time.time() - t_cc))
    chk.coverage["collision_renaming"] = cstats
    fails.extend(cfails)
    unaudited = [x for x in tab.get("spelling_sites", []) if x not in AUDITED_SPELLING]
    chk.coverage["spelling_sites"] = {"total": len(tab.get("spelling_sites", [])), "unaudited": unaudited}

    # ---- new unescaped sites: try to show a failing input through the position's programs
    for sid in new_sites:
        label = POSITIONS.get(sid, "unknown")
        witness = None
        for pos in positions:
            if label in TEMPLATES[pos]["labels"] and kw_names:
                r = results.get((pos, kw_names[0]))
                if r and not (r["stage"] == "ok" and r["syn_ok"]):
                    witness = {"position": pos, "name": kw_names[0], "source": instantiate(pos, kw_names[0])["src"],
                               "actual": {"stage": r["stage"], "msg": r["msg"][:300]}}
                    break
        d = {"what": "identifier site bypasses escape_keyword and is not a listed finding", "site": sid, "binding_position": label,
             "expected": "format_ident!(\"{}\", Self::escape_keyword(..)) or a listed known finding", "witness": witness}
        if witness:
            if not any(f.get("position") == witness["position"] and f.get("name") == witness["name"] for f in fails):
                fails.append({**witness, "class": "rust_keyword", "site": sid,
                              "expected": "same verdict as the neutral program", "unlisted_unescaped_sites": [sid]})
        else:
            chk.violation("tie-broken", {"theorem_or_tie": "site table: new unescaped site", **d}, no_input=True)

    # ---- known findings: re-run each witness
    for f in known:
        w = f.get("witness") or {}
        if w.get("program") in FEATURE_PROGRAMS and w.get("renaming"):
            rsrc = rename_source(FEATURE_PROGRAMS[w["program"]], w["renaming"])
            rr = run_emit(binary, [{"id": ["kf", f["id"]], "src": rsrc}])[("kf", f["id"])]
            still = rr["stage"] != "ok" or not rustc_batch({"w": rr["rust"]}, "kf")["w"][0]
            if still:
                chk.known(f["id"], "%s: %s" % (f["id"], f["summary"]))
            continue
        if "position" in w and w["position"] in TEMPLATES:
            c = instantiate(w["position"], w["name"])
            rr = run_emit(binary, [c])[tuple(c["id"])]
            nbr = results[(w["position"], neutral_for(w["name"], w["position"]))]
            still = False
            if w.get("level") == "rustc":
                rb = rustc_batch({"w": rr["rust"]}, "kf") if rr["stage"] == "ok" else {"w": (False, rr["msg"])}
                still = not rb["w"][0]
            elif w.get("level") == "tokens":
                want = subst_tokens(nbr["tokens"], neutral_for(w["name"], w["position"]), w["name"], w["name"])
                still = rr["stage"] == "ok" and want != rr["tokens"]
            else:
                still = not (rr["stage"] == "ok" and rr["syn_ok"])
            if still:
                extra_txt = ""
                if f.get("sites"):
                    live = [s for s in f["sites"] if s in unescaped_now]
                    extra_txt = " [%d/%d listed sites still unescaped]" % (len(live), len(f["sites"]))
                chk.known(f["id"], "%s: %s%s" % (f["id"], f["summary"], extra_txt))

    chk.coverage["rule"] = ("every binding-position program x (every Rust keyword Incan does not reserve + not-rawable names + fixed/prelude/"
                            "temporary names + case-class variants + PRNG identifiers + Incan keywords as malformed stream), each compared with the "
                            "same program for a neutral name of the same case class: verdict of the real pipeline (stage, syn re-parse), token "
                            "stream modulo the model's emit_ident, rustc for a batch; a case is non-trivial when the pipeline produced Rust")
    chk.coverage["distribution"] = dist
    chk.coverage["positions"] = positions
    chk.coverage["labels_not_exercised"] = sorted(l for l in label_sites if not any(l in TEMPLATES[p]["labels"] for p in positions))
    chk.coverage["names"] = {"rust_keywords_unreserved": kw_names, "not_rawable": not_rawable, "fixed_probe": fixed_probe,
                             "case_variants": case_names, "random": rnd, "illegal": illegal}
    chk.coverage["traces_validated_against_impl"] = (len(stream) + len(extra) + len(judged)) if model_ok else 0
    chk.coverage["correspondence_mismatches"] = len(corr_bad)
    chk.coverage["rustc_programs"] = len(rust_programs)
    chk.coverage["rustc_rejected_renamings"] = rustc_diff
    for pos, n in (("function", "loop"), ("variable", "loop"), ("field", "struct"), ("class_name", "incan_stdlib"), ("fstring_variable", "__parts")):
        if (pos, n) in results:
            rr = results[(pos, n)]
            chk.sample("%s %s -> %s %s" % (pos, n, rr["stage"], rr["msg"][:80]))

    fails.sort(key=lambda f: 0 if f.get("class") in ("metamorphic-renaming", "collision-renaming") else 1)
    for f in fails[:25]:
        if unaudited:
            f["unaudited_spelling_decisions"] = unaudited
        if escaped_lookups:
            f["lookups_keyed_by_escaped_name"] = escaped_lookups
        chk.violation("failing-input", f)
    if not fails:
        if corr_bad:
            chk.violation("correspondence-broken", {"theorem_or_tie": "C13 model/implementation correspondence", "cases": corr_bad[:10]}, no_input=True)
        if not res["proofs_ok"] or not res["tie_ok"]:
            chk.violation("proof-broken", {"theorem_or_tie": res["broken"]}, no_input=True)


def replay(path):
    data = json.load(open(path))
    binary = vlib.build_harness("debug")
    for v in data["violations"]:
        d = v["detail"]
        if str(d.get("position", "")).startswith("whole-program:") or d.get("position") == "collision-renaming":
            cs = [{"id": ["r", "renamed"], "src": d["source"]}]
            if d.get("base_source"):
                cs.append({"id": ["r", "base"], "src": d["base_source"]})
            rs = run_emit(binary, cs)
            print("program %s, bijection %s, renaming %s" % (d["name"], d["position"], json.dumps(d.get("renaming"))[:400]))
            print("--- renamed source\n%s" % d["source"])
            for k in ("base", "renamed"):
                if ("r", k) in rs:
                    print("implementation %-8s: stage=%s syn_ok=%s %s" % (k, rs[("r", k)]["stage"], rs[("r", k)]["syn_ok"], rs[("r", k)]["msg"]))
            if ("r", "base") in rs and rs[("r", "base")]["stage"] == "ok" and rs[("r", "renamed")]["stage"] == "ok":
                print("oracle (tokens modulo renaming):", tokens_match(rs[("r", "base")]["tokens"], rs[("r", "renamed")]["tokens"], d.get("renaming") or {}))
            print("oracle          : expected %s" % d.get("expected"))
            print("recorded actual :", d.get("actual"))
            continue
        if "position" in d and d.get("position") in TEMPLATES:
            n, pos = d["name"], d["position"]
            nb = neutral_for(n, pos)
            rs = run_emit(binary, [instantiate(pos, n), instantiate(pos, nb)])
            a, b = rs[(pos, n)], rs[(pos, nb)]
            print("position %s\n--- source\n%s" % (pos, instantiate(pos, n)["src"]))
            print("implementation  %-8s: stage=%s syn_ok=%s %s" % (n, a["stage"], a["syn_ok"], a["msg"]))
            print("implementation  %-8s: stage=%s syn_ok=%s %s" % (nb, b["stage"], b["syn_ok"], b["msg"]))
            try:
                m = model_names([n])[n]
                print("model           %-8s: legal=%s escape_keyword=%s valid_rust_ident=%s" % (n, m["legal"], m["esc"], m["valid"]))
            except vlib.Infra as e:
                print("model: not available (%s)" % e)
            print("oracle          : expected %s" % d.get("expected"))
            if a["stage"] == "ok" and "rustc" in json.dumps(d.get("actual", {})):
                print("rustc           :", rustc_batch({"x": a["rust"]}, "replay")["x"])
        else:
            print(json.dumps(d, indent=1))
    return 0


# =========================================================================================== whole-program renaming
# Metamorphic oracle: rename ALL user-chosen identifiers of a program consistently by a bijection and require the same
# pipeline verdict and the same Rust token stream modulo the renaming. Every bijection is LENGTH-PRESERVING (prettyplease
# re-wraps lines by width, which changes trailing commas/braces) and keeps the case class (first-letter case, leading `_`).

_TOK_RE = re.compile(
    r'(?P<com>\#[^\n]*)'
    r'|(?P<tstr>[fFbBrR]{0,2}"""(?:\\.|[^\\])*?"""|[fFbBrR]{0,2}\'\'\'(?:\\.|[^\\])*?\'\'\')'
    r'|(?P<str>[fFbBrR]{0,2}"(?:\\.|[^"\\\n])*"|[fFbBrR]{0,2}\'(?:\\.|[^\'\\\n])*\')'
    r'|(?P<id>[A-Za-z_][A-Za-z0-9_]*)'
    r'|(?P<other>.)', re.S)
_ID_RE = re.compile(r'[A-Za-z_][A-Za-z0-9_]*')
INCAN_SOFT = {"self", "Self", "main", "_", "validate", "new", "from_underlying", "Unit", "Some", "Ok", "Err", "None", "True", "False"}


def incan_tokens(src):
    out = []
    for m in _TOK_RE.finditer(src):
        k = m.lastgroup
        t = m.group(0)
        if k in ("tstr", "str"):
            pre = re.match(r'[fFbBrR]{0,2}', t).group(0)
            k = "fstr" if "f" in pre.lower() else "str"
        out.append((k, t))
    return out


def blank_code(src):
    """source with comments and string contents blanked (structure kept) for the binding heuristics."""
    out = []
    for k, t in incan_tokens(src):
        if k == "com":
            out.append("")
        elif k in ("str", "fstr"):
            out.append('""' if "\n" not in t else '""' + "\n" * t.count("\n"))
        else:
            out.append(t)
    return "".join(out)


def logical_lines(code):
    lines, cur, depth = [], "", 0
    for raw in code.split("\n"):
        if not cur:
            cur = raw
        else:
            cur += " " + raw.strip()
        depth = 0
        for ch in cur:
            if ch in "([{":
                depth += 1
            elif ch in ")]}":
                depth -= 1
        if depth <= 0:
            lines.append(cur)
            cur = ""
    if cur:
        lines.append(cur)
    return lines


def split_top(s, sep=","):
    parts, cur, d = [], "", 0
    for ch in s:
        if ch in "([{":
            d += 1
        elif ch in ")]}":
            d -= 1
        if ch == sep and d == 0:
            parts.append(cur)
            cur = ""
        else:
            cur += ch
    parts.append(cur)
    return parts


def pattern_binders(p):
    """lower-case identifiers of a pattern that are binders (not constructors, not path heads, not field labels)."""
    out = []
    for m in _ID_RE.finditer(p):
        n = m.group(0)
        after = p[m.end():].lstrip()[:1]
        before = p[:m.start()].rstrip()[-1:]
        if (n[0].islower() or (n[0] == "_" and len(n) > 1)) and after not in ("(", ".", "=") and before != ".":
            out.append(n)
    return out


def declared_names(src):
    """identifiers with a binding occurrence in this file (heuristic, line based; calibrated by the benign bijection)."""
    names = set()
    external = set()
    blocks = []  # (indent, kind)
    for line in logical_lines(blank_code(src)):
        s = line.strip()
        if not s:
            continue
        indent = len(line) - len(line.lstrip())
        while blocks and indent <= blocks[-1][0]:
            blocks.pop()
        parent = blocks[-1][1] if blocks else None
        s2 = re.sub(r'^(pub\s+)?(async\s+)?', '', s)
        m = re.match(r'def\s+([A-Za-z_]\w*)\s*(\[[^\]]*\])?\s*\((.*)$', s2)
        if m:
            names.add(m.group(1))
            if m.group(2):
                names.update(_ID_RE.findall(m.group(2)))
            rest = m.group(3)
            d, end = 1, len(rest)
            for i, ch in enumerate(rest):
                if ch in "([{":
                    d += 1
                elif ch in ")]}":
                    d -= 1
                    if d == 0:
                        end = i
                        break
            for prm in split_top(rest[:end]):
                pm = re.match(r'\s*(?:mut\s+)?([A-Za-z_]\w*)', prm)
                if pm:
                    names.add(pm.group(1))
            blocks.append((indent, "def"))
            continue
        m = re.match(r'(class|model|trait|enum|newtype)\s+([A-Za-z_]\w*)\s*(\[[^\]]*\])?', s2)
        if m:
            names.add(m.group(2))
            if m.group(3):
                names.update(_ID_RE.findall(m.group(3)))
            blocks.append((indent, m.group(1)))
            continue
        m = re.match(r'type\s+([A-Za-z_]\w*)\s*(\[[^\]]*\])?\s*=', s2)
        if m:
            names.add(m.group(1))
            if s2.rstrip().endswith(":"):
                blocks.append((indent, "newtype"))
            continue
        m = re.match(r'const\s+([A-Za-z_]\w*)', s2)
        if m:
            names.add(m.group(1))
            continue
        if s.startswith("@"):
            continue
        if parent == "enum":
            m = re.match(r'([A-Za-z_]\w*)\s*(\(|$)', s)
            if m:
                names.add(m.group(1))
                continue
        if parent in ("class", "model", "trait", "newtype"):
            m = re.match(r'(?:pub\s+)?([A-Za-z_]\w*)\s*:', s)
            if m:
                names.add(m.group(1))
                continue
        m = re.match(r'(?:import\s+\S+|from\s+\S+\s+import\s+.*?)\s+as\s+([A-Za-z_]\w*)', s)
        if s.startswith(("import ", "from ")):
            aliases = set(am.group(1) for am in re.finditer(r'\bas\s+([A-Za-z_]\w*)', s))
            names.update(aliases)
            # every other identifier of an import line names something defined elsewhere: never rename it
            external.update(n for n in _ID_RE.findall(s) if n not in aliases)
            continue
        for fm in re.finditer(r'\bfor\s+(.+?)\s+in\b', s):
            names.update(n for n in _ID_RE.findall(fm.group(1)) if n not in ("mut",))
        m = re.match(r'case\s+(.*?)\s*:\s*$', s) or re.match(r'case\s+(.*?)\s*:', s)
        if m:
            pat = re.split(r'\s+if\s+', m.group(1))[0]
            names.update(pattern_binders(pat))
        if "=>" in s:
            head = s.split("=>")[0]
            if not re.search(r'(^|[^=!<>])=([^=>]|$)', head):      # a match arm `Pat(x) => ...`
                names.update(pattern_binders(re.split(r'\s+if\s+', head)[0]))
            for cm in re.finditer(r'\(([^()]*)\)\s*=>', s):           # closures `(a, b) => ...`
                names.update(_ID_RE.findall(cm.group(1)))
        m = re.match(r'(?:mut\s+|let\s+)?([A-Za-z_]\w*(?:\s*,\s*[A-Za-z_]\w*)*)\s*(?::[^=]*)?=(?!=)', s)
        if m and not s.startswith(("return ", "if ", "elif ", "while ", "assert ")):
            names.update(_ID_RE.findall(m.group(1)))
        if s.endswith(":") and re.match(r'(if|elif|else|while|for|match|case|with|try|except)\b', s):
            blocks.append((indent, "stmt"))
    return names - external


def rename_source(src, mapping):
    out = []
    for k, t in incan_tokens(src):
        if k == "id":
            out.append(mapping.get(t, t))
        elif k == "fstr":
            # rename identifiers inside `{...}` segments of an f-string
            res, i, n = "", 0, len(t)
            while i < n:
                ch = t[i]
                if ch == "{" and t[i:i + 2] == "{{":
                    res += "{{"
                    i += 2
                elif ch == "{":
                    j = t.find("}", i)
                    if j < 0:
                        res += t[i:]
                        break
                    res += "{" + _ID_RE.sub(lambda m: mapping.get(m.group(0), m.group(0)), t[i + 1:j]) + "}"
                    i = j + 1
                else:
                    res += ch
                    i += 1
            out.append(res)
        else:
            out.append(t)
    return "".join(out)


def case_class(n):
    if n.startswith("_"):
        return "under"
    if n[0].isupper():
        return "const" if (len(n) > 1 and n.upper() == n and any(c.isalpha() for c in n)) else "upper"
    return "lower"


def _complement(n):
    def c(ch):
        if "a" <= ch <= "z":
            return chr(ord("a") + ord("z") - ord(ch))
        if "A" <= ch <= "Z":
            return chr(ord("A") + ord("Z") - ord(ch))
        if "0" <= ch <= "9":
            return chr(ord("0") + ord("9") - ord(ch))
        return ch
    return "".join(c(ch) for ch in n)


def _shift(n):
    def c(ch):
        if "a" <= ch <= "z":
            return chr((ord(ch) - 97 + 1) % 26 + 97)
        if "A" <= ch <= "Z":
            return chr((ord(ch) - 65 + 1) % 26 + 65)
        return ch
    return "".join(c(ch) for ch in n)


def make_bijections(names, forbidden, rng, unreserved_keywords):
    """names: sorted renameable identifiers; forbidden(n) -> True if n may not be used as a target.
    Returns dict kind -> mapping (partial: names whose image would clash stay unrenamed)."""
    res = {}

    def by_function(f):
        m, used = {}, set()
        for n in names:
            t = f(n)
            if t != n and not forbidden(t) and t not in used and t not in names:
                m[n] = t
                used.add(t)
        return m

    res["reverse"] = by_function(_complement)       # order-REVERSING on same-case strings, length preserving
    res["shift"] = by_function(_shift)              # benign: order mostly preserved (calibration)
    perm = {}
    groups = {}
    for n in names:
        groups.setdefault((case_class(n), len(n)), []).append(n)
    for g in groups.values():
        if len(g) > 1:
            sh = list(g)
            rng.shuffle(sh)
            perm.update({a: b for a, b in zip(g, sh) if a != b})
    res["permute"] = perm                           # permutation among themselves (same case class and length)
    kw = {}
    pool = sorted(unreserved_keywords)
    used = set()
    for n in names:
        if case_class(n) != "lower":
            continue
        cands = [k for k in pool if len(k) + 2 == len(n) and k not in used]   # `r#kw` is as wide as the original
        if cands:
            k = cands[rng.randrange(len(cands))]
            kw[n] = k
            used.add(k)
    res["keywords"] = kw
    return res


DERIVED_PREFIXES = ["__incan_web_"]


def tokens_match(base, renamed, mapping):
    """renamed token stream == base token stream modulo the renaming (r# stripped, derived string literals mapped)."""
    length_differs = len(base) != len(renamed)

    def strip(t):
        return t[2:] if t.startswith("r#") else t

    def wordmap(t):
        return _ID_RE.sub(lambda m: mapping.get(m.group(0), m.group(0)), t)
    for i, (a, b) in enumerate(zip(base, renamed)):
        if a == b:
            continue
        sa, sb = strip(a), strip(b)
        if sa == sb or mapping.get(sa) == sb:
            continue
        if any(sa.startswith(p) and sb == p + mapping.get(sa[len(p):], sa[len(p):]) for p in DERIVED_PREFIXES):
            continue
        if a.startswith('"') and wordmap(a) == b:
            continue
        return False, " ".join(base[max(0, i - 6):i + 7]) + "   <>   " + " ".join(renamed[max(0, i - 6):i + 7])
    if length_differs:
        return False, "length %d <> %d (common prefix equal)" % (len(base), len(renamed))
    return True, ""


FEATURE_PROGRAMS = {
    "feature_validate": '''@derive(Validate)
model Account:
    owner: str
    pin: str
    level: int = 1

    def validate(self) -> Result[Account, str]:
        if len(self.pin) != 4:
            return Err("pin must have 4 characters")
        return Ok(self)

def show(acct: Account) -> str:
    return f"{acct.owner}/{acct.pin}/{acct.level}"

def main() -> None:
    match Account.new("alice", "1234"):
        case Ok(entry):
            println(show(entry))
        case Err(why):
            println(why)
    match Account.new("bob", "12"):
        case Ok(entry):
            println(show(entry))
        case Err(why):
            println(why)
''',
    "feature_mix": '''enum Shape:
    Circle(float)
    Rect(float, float)
    Dot

trait Named:
    def label(self) -> str

class Box2 with Named:
    width: int
    height: int

    def label(self) -> str:
        return f"box {self.width}x{self.height}"

    def area(self) -> int:
        return self.width * self.height

type Meters = newtype int

const LIMIT: int = 3

def measure(shape: Shape) -> float:
    match shape:
        case Shape.Circle(radius):
            return 3.0 * radius * radius
        case Shape.Rect(wide, tall):
            return wide * tall
        case Shape.Dot:
            return 0.0

def pick(lo: int, hi: int) -> int:
    return hi - lo

def grow(mut items: List[int], extra: int) -> None:
    items.append(extra)

def main() -> None:
    crate1 = Box2(width=2, height=5)
    println(crate1.label())
    println(crate1.area())
    println(measure(Shape.Rect(2.0, 4.0)))
    println(measure(Shape.Circle(1.0)))
    println(pick(hi=10, lo=LIMIT))
    mut bag: List[int] = [1, 2]
    grow(bag, 7)
    doubled = [each * 2 for each in bag]
    lookup = {each: each + 1 for each in bag}
    bump = (val) => val + LIMIT
    println(len(doubled) + len(lookup) + bump(1))
    dist = Meters(4)
    println(dist.0)
    for idx in range(LIMIT):
        println(f"idx={idx} pick={pick(idx, 9)}")
''',
    # regression witness of the repaired `eq-param-name` finding: the parameter of __eq__ is renamed by every bijection
    "feature_eq": '''class Money:
    cents: int

    def __eq__(self, other: Money) -> bool:
        return self.cents == other.cents

def main() -> None:
    first = Money(cents=5)
    second = Money(cents=5)
    println(first == second)
''',
    # scopes: `mut` locals/parameters and plain first bindings in different functions and methods, earlier and later
    "feature_scopes": '''class Meter:
    ticks: int

    def bump(self, mut amount: int) -> int:
        amount = amount + self.ticks
        return amount

def tally(values: List[int]) -> int:
    mut total = 0
    for item in values:
        total = total + item
    return total

def describe(count: int) -> str:
    twice = count * 2
    label = f"double={twice}"
    return label

def widen(mut extra: int) -> int:
    extra = extra + 1
    return extra

def later(seed: int) -> int:
    mut grown = seed
    grown = grown + 3
    return grown

def main() -> None:
    first = tally([1, 2, 3])
    println(first)
    println(describe(4))
    println(widen(5))
    println(later(6))
    gauge = Meter(ticks=2)
    println(gauge.bump(7))
''',
    "feature_serde": '''@derive(Serialize, Deserialize)
model Reading:
    sensor: str
    amount: int
    ok: bool

def main() -> None:
    first = Reading(sensor="t1", amount=21, ok=True)
    println(first.to_json())
    println(first.amount + 1)
''',
}


def corpus_programs():
    progs = {}
    roots = ["examples", "tests/fixtures/valid", "tests/codegen_snapshots", "benchmarks", "stdlib", "tests/fixtures"]
    for r in roots:
        base = os.path.join(vlib.REPO, r)
        for dp, dn, fn in os.walk(base):
            if "invalid" in dp:
                continue
            for f in sorted(fn):
                if f.endswith(".incn"):
                    p = os.path.join(dp, f)
                    rel = os.path.relpath(p, vlib.REPO)
                    if rel not in progs:
                        try:
                            progs[rel] = open(p).read()
                        except (OSError, UnicodeDecodeError):
                            pass
    te = os.path.join(vlib.REPO, "tests", "test_example.incn")
    if os.path.exists(te):
        progs["tests/test_example.incn"] = open(te).read()
    for pos, t in TEMPLATES.items():
        if not t.get("modules"):
            progs["template:" + pos] = t["src"].replace("@N@", "zqn")
    for k, v in FEATURE_PROGRAMS.items():
        progs["feature:" + k] = v
    return progs


def metamorphic(chk, binary, ik_py, unreserved, known_ids, rustc=False):
    """Whole-program renaming oracle. Returns (fails, stats)."""
    progs = corpus_programs()
    all_ids = {}
    cand = set()
    for pid, src in progs.items():
        ids = set(t for k, t in incan_tokens(src) if k == "id")
        for k, t in incan_tokens(src):
            if k == "fstr":
                ids.update(_ID_RE.findall(t))
        all_ids[pid] = ids
        cand.update(ids)
    images = set()
    for n in cand:
        images.add(_complement(n))
        images.add(_shift(n))
    ask = sorted(cand | images)
    vocab = {}
    for line in vlib.run_harness(binary, ["run", "c13", "vocab"], "\n".join(ask) + "\n").split("\n"):
        if line:
            r = json.loads(line)
            vocab[r["name"]] = r

    def special(n):
        v = vocab.get(n)
        return (v is None or v["incan_keyword"] or bool(v["vocab"]) or n in INCAN_SOFT or n.startswith("__") or
                n.startswith("test_") or n.startswith("from_") or n.startswith("zq_never"))

    cases, plan = [], {}
    for pid, src in progs.items():
        decl = declared_names(src)
        names = sorted(n for n in decl if not special(n) and not vocab[n]["rust_keyword"])
        others = all_ids[pid] - set(names)

        def forbidden(t, others=others):
            return special(t) or vocab[t]["rust_keyword"] or t in others
        rng = __import__("random").Random(chk.seed ^ (hash(pid) & 0xffff) if False else chk.seed + sum(ord(c) for c in pid))
        bij = make_bijections(names, forbidden, rng, unreserved)
        plan[pid] = (names, bij)
        cases.append({"id": ["meta", pid, "base"], "src": src})
        for kind, m in bij.items():
            if m:
                cases.append({"id": ["meta", pid, kind], "src": rename_source(src, m)})
    results = run_emit(binary, cases)
    fails, stats = [], {"programs": len(progs), "renamed_programs": 0, "base_ok": 0, "names_renamed": 0, "by_kind": {}, "excluded": []}
    rust_programs = {}
    for pid, (names, bij) in sorted(plan.items()):
        b = results[("meta", pid, "base")]
        if b["stage"] == "ok":
            stats["base_ok"] += 1
        for kind, m in bij.items():
            if not m:
                continue
            r = results[("meta", pid, kind)]
            stats["renamed_programs"] += 1
            stats["names_renamed"] += len(m)
            chk.count_case(("meta", pid, kind), nontrivial=(r["stage"] == "ok"))
            key = "%s/%s" % (kind, "same" if True else "")
            why = None
            if (r["stage"], r["syn_ok"]) != (b["stage"], b["syn_ok"]):
                why = "verdict changed: base %s -> renamed %s (%s)" % (b["stage"], r["stage"], r["msg"][:200])
            elif b["stage"] == "ok":
                ok, diff = tokens_match(b["tokens"], r["tokens"], m)
                if not ok:
                    why = "emitted Rust differs by more than the renaming: " + diff
            d = stats["by_kind"].setdefault(kind, {"same": 0, "different": 0, "excluded": 0})
            if why is None:
                d["same"] += 1
                if rustc and b["stage"] == "ok" and (chk.tier == "thorough" or pid.startswith("feature:")):
                    rust_programs["%s|base" % pid] = b["rust"]
                    rust_programs["%s|%s" % (pid, kind)] = r["rust"]
                continue
            if (pid, kind) in META_EXCLUDE or (pid, "*") in META_EXCLUDE:
                d["excluded"] += 1
                stats["excluded"].append("%s/%s" % (pid, kind))
                continue
            d["different"] += 1
            fails.append({"position": "whole-program:" + kind, "name": pid, "class": "metamorphic-renaming",
                          "renaming": dict(sorted(m.items())[:40]), "source": rename_source(progs[pid], m),
                          "base_source": progs[pid],
                          "expected": "same verdict (%s) and the same Rust tokens modulo the renaming" % b["stage"],
                          "actual": {"stage": r["stage"], "msg": why[:600], "syn_ok": r["syn_ok"]}})
    if rust_programs:
        rr = rustc_batch(rust_programs, "meta")
        for key, (ok, msg) in sorted(rr.items()):
            pid, kind = key.rsplit("|", 1)
            if kind == "base" or ok:
                continue
            if not rr.get(pid + "|base", (True, ""))[0]:
                continue  # the base program does not build either (compiler gap unrelated to names)
            names, bij = plan[pid]
            eq_params = set(re.findall(r'def\s+__eq__\s*\(\s*self\s*,\s*(?:mut\s+)?([A-Za-z_]\w*)', progs[pid]))
            if ("eq-param-name" in known_ids and "cannot find value" in msg and
                    any(p in bij[kind] and ("`%s`" % bij[kind][p] in msg or "`r#%s`" % bij[kind][p] in msg) for p in eq_params)):
                stats["known:eq-param-name"] = stats.get("known:eq-param-name", 0) + 1
                continue
            fails.append({"position": "whole-program:" + kind, "name": pid, "class": "metamorphic-renaming",
                          "renaming": dict(sorted(bij[kind].items())[:40]), "source": rename_source(progs[pid], bij[kind]),
                          "base_source": progs[pid],
                          "expected": "rustc accepts the renamed program as it accepts the original",
                          "actual": {"stage": "rustc", "msg": msg}})
        stats["rustc_programs"] = len(rust_programs)
    if chk.tier == "thorough":
        runs = {}
        for pid in ("feature:feature_validate", "feature:feature_mix"):
            b = results[("meta", pid, "base")]
            if b["stage"] != "ok":
                continue
            runs[pid + "|base"] = b["rust"]
            for kind, m in plan[pid][1].items():
                r = results.get(("meta", pid, kind))
                if m and r and r["stage"] == "ok":
                    runs["%s|%s" % (pid, kind)] = r["rust"]
        outs = run_outputs(runs, "meta")
        stats["executed_programs"] = len(outs)
        for key, o in sorted(outs.items()):
            pid, kind = key.rsplit("|", 1)
            if kind == "base":
                continue
            bo = outs.get(pid + "|base")
            if bo and bo[0] and o != bo and not any(f["name"] == pid and f["position"].endswith(kind) for f in fails):
                fails.append({"position": "whole-program:" + kind, "name": pid, "class": "metamorphic-renaming",
                              "renaming": dict(sorted(plan[pid][1][kind].items())[:40]),
                              "source": rename_source(progs[pid], plan[pid][1][kind]),
                              "expected": "same build result, exit code and stdout as the original program: %r" % (bo,),
                              "actual": {"stage": "run", "msg": repr(o)[:600]}})
    return fails, stats


def run_outputs(programs, tag):
    """Build the given generated programs as bins of one cargo package (shared target dir) and run them.
    Returns id -> (built, exit code, stdout)."""
    d = os.path.join(vlib.BUILD, "c13-run-%s-%d" % (tag, os.getpid()))
    shutil.rmtree(d, ignore_errors=True)
    os.makedirs(os.path.join(d, "src", "bin"))
    repo = os.path.realpath(vlib.REPO)
    ids = sorted(programs)
    with open(os.path.join(d, "Cargo.toml"), "w") as f:
        f.write('[package]\nname = "c13run"\nversion = "0.1.0"\nedition = "2021"\n\n[workspace]\n\n[dependencies]\n'
                'incan_stdlib = { path = "%s/crates/incan_stdlib" }\nincan_derive = { path = "%s/crates/incan_derive" }\n' % (repo, repo))
    for k, i in enumerate(ids):
        with open(os.path.join(d, "src", "bin", "r%03d.rs" % k), "w") as f:
            f.write(programs[i])
    target = os.path.join(vlib.BUILD, "gen-target" if repo == "/repo" else "gen-target-alt")
    res = {}
    try:
        with vlib.Lock("c13-gen-target"):
            rc, out, err = vlib.sh(["cargo", "build", "--offline", "-q", "--keep-going", "--bins"], cwd=d,
                                   env={"CARGO_TARGET_DIR": target}, timeout=3000)
        for k, i in enumerate(ids):
            exe = os.path.join(target, "debug", "r%03d" % k)
            if not os.path.exists(exe):
                res[i] = (False, None, "")
                continue
            try:
                p = subprocess.run([exe], capture_output=True, text=True, timeout=60)
                res[i] = (True, p.returncode, p.stdout)
            except subprocess.TimeoutExpired:
                res[i] = (True, "timeout", "")
            os.remove(exe)
        return res
    finally:
        shutil.rmtree(d, ignore_errors=True)


# (program, bijection kind) pairs where the line-based renamer itself is not safe (calibrated on the unchanged tree; each with
# the reason). ("<program>", "*") excludes every bijection of that program.
META_EXCLUDE = {
}


# =========================================================================================== collision renaming
# The bijections above are injective on a program's names: they keep coincidences but never CREATE one. This family
# renames ONE scope-local identifier of one function (plain `N = e` first binding, `mut`/`let` local, parameter, `for`
# variable, pattern binder, closure parameter) to the spelling of an identifier that lives in a DIFFERENT, non-enclosing
# scope of the same file (another function's local / mut local / mut parameter, a field, a method) and that is neither
# visible nor mentioned in the renamed function. Expected: same stage, same rustc verdict, same Rust tokens modulo the
# renaming of that one binding's occurrences.

def function_regions(src):
    """[(def name, first line, last line+1, {local: kind})] for every def (top-level functions and methods)."""
    raw = src.split("\n")
    code = blank_code(src).split("\n")
    if len(code) != len(raw):
        return []
    regs = []
    i = 0
    n = len(code)
    while i < n:
        m = re.match(r'(\s*)(?:pub\s+)?(?:async\s+)?def\s+([A-Za-z_]\w*)', code[i])
        if not m:
            i += 1
            continue
        ind = len(m.group(1))
        # header may span lines until the parens balance and the line ends with ':'
        j = i
        depth = 0
        while j < n:
            for ch in code[j]:
                if ch in "([{":
                    depth += 1
                elif ch in ")]}":
                    depth -= 1
            if depth <= 0:
                break
            j += 1
        k = j + 1
        while k < n and (not code[k].strip() or len(code[k]) - len(code[k].lstrip()) > ind):
            k += 1
        while k > j + 1 and not code[k - 1].strip():
            k -= 1
        header = " ".join(x.strip() for x in code[i:j + 1])
        body = code[j + 1:k]
        kinds = {}
        hm = re.match(r'(?:pub\s+)?(?:async\s+)?def\s+[A-Za-z_]\w*\s*(?:\[[^\]]*\])?\s*\((.*)$', header)
        if hm:
            rest = hm.group(1)
            d, end = 1, len(rest)
            for q, ch in enumerate(rest):
                if ch in "([{":
                    d += 1
                elif ch in ")]}":
                    d -= 1
                    if d == 0:
                        end = q
                        break
            for prm in split_top(rest[:end]):
                pm = re.match(r'\s*(mut\s+)?([A-Za-z_]\w*)', prm)
                if pm and pm.group(2) != "self":
                    kinds.setdefault(pm.group(2), "mutparam" if pm.group(1) else "param")
        for line in logical_lines("\n".join(body)):
            s = line.strip()
            if re.match(r'(?:pub\s+)?(?:async\s+)?def\s', s):
                continue
            mm = re.match(r'(mut|let)\s+([A-Za-z_]\w*)', s)
            if mm:
                kinds.setdefault(mm.group(2), mm.group(1))
            else:
                mm = re.match(r'([A-Za-z_]\w*)\s*(?::[^=]*)?=(?!=)', s)
                if mm and not s.startswith(("return ", "if ", "elif ", "while ", "assert ")):
                    kinds.setdefault(mm.group(1), "plain")
            for fm in re.finditer(r'\bfor\s+(.+?)\s+in\b', s):
                for x in _ID_RE.findall(fm.group(1)):
                    if x != "mut":
                        kinds.setdefault(x, "for")
            cm = re.match(r'case\s+(.*?)\s*:', s)
            if cm:
                for x in pattern_binders(re.split(r'\s+if\s+', cm.group(1))[0]):
                    kinds.setdefault(x, "binder")
            for cl in re.finditer(r'\(([^()]*)\)\s*=>', s):
                for x in _ID_RE.findall(cl.group(1)):
                    kinds.setdefault(x, "closure")
        regs.append((m.group(2), i, k, kinds))
        i = j + 1
    return regs


def collision_variants(src, special, limit, rng):
    """[(description, renamed source, x, t)] -- one local x of one function renamed to a name t of a different scope."""
    regs = function_regions(src)
    if len(regs) < 2:
        return []
    raw = src.split("\n")
    code = blank_code(src).split("\n")
    decl = declared_names(src)
    all_locals = set()
    for _, _, _, kinds in regs:
        all_locals.update(kinds)
    def_names = set(r[0] for r in regs)
    top_items = set()
    fields_methods = {}
    for line in code:
        tm = re.match(r'(?:pub\s+)?(?:async\s+)?(?:def|class|model|trait|enum|newtype|type|const)\s+([A-Za-z_]\w*)', line)
        if tm:
            top_items.add(tm.group(1))
        fm = re.match(r'\s+(?:pub\s+)?([a-z_]\w*)\s*:\s*\S', line)
        if fm and not re.match(r'\s+(mut|let)\s', line):
            fields_methods.setdefault(fm.group(1), "field")
        mm = re.match(r'\s+(?:pub\s+)?(?:async\s+)?def\s+([a-z_]\w*)', line)
        if mm:
            fields_methods.setdefault(mm.group(1), "method")
    for line in code:
        if re.match(r'\s*(import|from)\s', line):
            top_items.update(_ID_RE.findall(line))
    kwarg_used = set(re.findall(r'[(,]\s*([A-Za-z_]\w*)\s*=(?!=)', "\n".join(code)))
    out = []
    order = list(range(len(regs)))
    rng.shuffle(order)
    # prefer the interesting source kinds first
    prio = {"plain": 0, "for": 1, "binder": 1, "let": 2, "mut": 2, "param": 3, "closure": 3, "mutparam": 4}
    seen_cat = set()
    for fi in order:
        fname, a, b, kinds = regs[fi]
        region_code = "\n".join(code[a:b])
        region_ids = set(_ID_RE.findall(region_code)) | set(x for k, t in incan_tokens("\n".join(raw[a:b])) if k == "fstr" for x in _ID_RE.findall(t))
        # enclosing regions (a method inside ... defs are not nested here, but be safe)
        xs = sorted((x for x in kinds if not special(x) and x in decl and len(x) > 1), key=lambda x: (prio.get(kinds[x], 9), x))
        for x in xs:
            if re.search(r'\.\s*%s\b' % re.escape(x), region_code):
                continue
            if kinds[x] in ("param", "mutparam") and x in kwarg_used:
                continue
            if x in fields_methods or x in top_items:
                continue
            cands = []
            for gi, (gname, ga, gb, gk) in enumerate(regs):
                if gi == fi or (ga <= a and b <= gb) or (a <= ga and gb <= b):
                    continue
                for t, tk in gk.items():
                    cands.append((t, tk + ("-earlier" if ga < a else "-later")))
            for t, tk in fields_methods.items():
                cands.append((t, tk))
            rng.shuffle(cands)
            cands.sort(key=lambda c: 0 if c[1] in ("mut-earlier", "mutparam-earlier") else 1 if c[1].startswith("mut") else 2)
            per_x = 0
            for t, tk in cands:
                cat = (kinds[x], tk)
                if cat in seen_cat:
                    continue
                if (t == x or special(t) or t in region_ids or t in top_items or t in def_names or case_class(t) != case_class(x)
                        or t in kwarg_used and kinds[x] in ("param", "mutparam")):
                    continue
                new_region = rename_source("\n".join(raw[a:b]), {x: t})
                new_src = "\n".join(raw[:a] + new_region.split("\n") + raw[b:])
                out.append(("%s `%s` of %s() -> `%s` (%s elsewhere)" % (kinds[x], x, fname, t, tk), new_src, x, t))
                seen_cat.add(cat)
                per_x += 1
                if per_x >= 3 or len(out) >= limit:
                    break
            if len(out) >= limit:
                return out
    return out


def vocab_special(binary, progs):
    ids = set()
    for src in progs.values():
        for k, t in incan_tokens(src):
            if k == "id":
                ids.add(t)
            elif k == "fstr":
                ids.update(_ID_RE.findall(t))
    vocab = {}
    for line in vlib.run_harness(binary, ["run", "c13", "vocab"], "\n".join(sorted(ids)) + "\n").split("\n"):
        if line:
            r = json.loads(line)
            vocab[r["name"]] = r

    def special(n):
        v = vocab.get(n)
        return (v is None or v["incan_keyword"] or v["rust_keyword"] or bool(v["vocab"]) or n in INCAN_SOFT or n.startswith("__") or
                n.startswith("test_") or n.startswith("from_"))
    return special


def _width_insensitive(tokens):
    # a different name length lets prettyplease re-wrap: trailing commas and arm braces come and go
    return [t for t in tokens if t not in (",", "{", "}")]


def collision_oracle(chk, binary, known_ids):
    progs = corpus_programs()
    special = vocab_special(binary, progs)
    limit = 6 if chk.tier == "quick" else 24
    cases, plan = [], {}
    for pid, src in sorted(progs.items()):
        rng = __import__("random").Random(chk.seed + 7 * sum(ord(c) for c in pid))
        vs = collision_variants(src, special, 24 if pid.startswith("feature:") else limit, rng)
        if vs:
            plan[pid] = vs
            cases.append({"id": ["col", pid, "base"], "src": src})
            for i, (desc, nsrc, x, t) in enumerate(vs):
                cases.append({"id": ["col", pid, str(i)], "src": nsrc})
    results = run_emit(binary, cases) if cases else {}
    fails = []
    stats = {"programs_with_variants": len(plan), "variants": sum(len(v) for v in plan.values()), "categories": {}, "different": 0}
    rust = {}
    for pid, vs in sorted(plan.items()):
        b = results[("col", pid, "base")]
        for i, (desc, nsrc, x, t) in enumerate(vs):
            r = results[("col", pid, str(i))]
            cat = re.sub(r'`[^`]*`', '', desc).split(" of ")[0].strip() + "->" + desc.split("(")[-1].rstrip(")")
            stats["categories"][cat] = stats["categories"].get(cat, 0) + 1
            chk.count_case(("col", pid, i), nontrivial=(r["stage"] == "ok"))
            why = None
            if (r["stage"], r["syn_ok"]) != (b["stage"], b["syn_ok"]):
                why = "verdict changed: base %s -> renamed %s (%s)" % (b["stage"], r["stage"], r["msg"][:200])
            elif b["stage"] == "ok":
                ok, diff = tokens_match(_width_insensitive(b["tokens"]), _width_insensitive(r["tokens"]), {x: t})
                if not ok:
                    why = "emitted Rust differs by more than the renaming of this one binding: " + diff
                elif chk.tier == "thorough" or pid.startswith(("feature:", "template:")):
                    rust["%s|base" % pid] = b["rust"]
                    rust["%s|%d" % (pid, i)] = r["rust"]
            if why:
                stats["different"] += 1
                fails.append({"position": "collision-renaming", "name": pid, "class": "collision-renaming", "what": desc,
                              "renaming": {x: t}, "source": nsrc, "base_source": progs[pid],
                              "expected": "same verdict (%s) and the same Rust tokens modulo renaming that one binding" % b["stage"],
                              "actual": {"stage": r["stage"], "msg": why[:600], "syn_ok": r["syn_ok"]}})
    if rust:
        rr = rustc_batch(rust, "col")
        stats["rustc_programs"] = len(rust)
        for key, (ok, msg) in sorted(rr.items()):
            pid, i = key.rsplit("|", 1)
            if i == "base" or ok or not rr.get(pid + "|base", (True, ""))[0]:
                continue
            desc, nsrc, x, t = plan[pid][int(i)]
            stats["different"] += 1
            fails.append({"position": "collision-renaming", "name": pid, "class": "collision-renaming", "what": desc,
                          "renaming": {x: t}, "source": nsrc, "base_source": progs[pid],
                          "expected": "rustc accepts the renamed program as it accepts the original",
                          "actual": {"stage": "rustc", "msg": msg}})
    return fails, stats
