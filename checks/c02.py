"""C02 — every program that type-checks also builds (MiniIncan fragment).

proof:   coq/C02/Props.v: accepted_builds on the fragment (checker model accepts and outside the known classes =>
         lowering Ok, emitted tokens parse, parsed body well-typed Rust), static_builds, refutation witnesses.
tie:     checker model (Core/Checker.v) verdict vs the real `TypeChecker::check_program` verdict; predicted
         lowering verdict vs the real IrCodegen; Core/Static.v kinds classify the failures.
oracle:  the property itself on the REAL pipeline: every generated function the real checker accepts must lower and
         emit without internal error, the emitted Rust must parse with syn, and (batched) compile with rustc through
         the real `incan build` path — unless it falls in a listed known class (decided by the Coq predicates)."""
import json
import os
import re
import shutil

import vlib
from checks import c01

KIND = {0: None, 1: "VUnbound", 2: "VLiteralRange", 3: "VNegOperand", 4: "VNotOperand", 5: "VArithOperand", 6: "VCompareTypes",
        7: "VAndOrOperand", 8: "VReassignImmutable", 9: "VReassignType", 10: "VAnnotation", 11: "VRebindSameScope",
        12: "VCompoundTarget", 13: "VCompoundOperand", 14: "VCondition", 15: "VRangeArg", 16: "VBreakOutsideLoop",
        17: "VUnknownFn", 18: "VCallArity", 19: "VCallArgType", 20: "VUnitValue", 21: "VReturnType", 22: "VMissingReturn"}
# documented rule broken -> id of the known finding whose class it is (rules not listed here must be caught by the checker)
KIND_FINDING = {"VAndOrOperand": "andor-unchecked", "VArithOperand": "arith-partner-unchecked",
                "VReassignImmutable": "nested-reassign", "VReassignType": "nested-reassign",
                "VRebindSameScope": "rebind-same-scope", "VBreakOutsideLoop": "break-outside-loop",
                "VRangeArg": "range-arg-unchecked", "VCompoundTarget": "compound-bool", "VCompoundOperand": "compound-bool",
                "VCallArity": "call-args-unchecked", "VCallArgType": "call-args-unchecked", "VUnitValue": "unit-value",
                "VMissingReturn": "missing-return"}

REQ = ("From Verif Require Import Base.I64 C04.Model Core.Syntax Core.Dynamic Core.Rust Core.Lower Core.Static Core.Checker C01.Model C02.Model.\n"
       "From Coq Require Import ZArith List. Import ListNotations. Open Scope Z_scope.")


def eval_model(cases):
    return eval_model_terms([c.coq() for c in cases])


ELIF_VISITED = False      # set by run(): does the real check_if_stmt visit elif branches (pending C03 fix)?


def eval_model_terms(terms):
    res = vlib.coq_eval(REQ, "fcase", "c02_case_gen %s" % ("true" if ELIF_VISITED else "false"), terms,
                        shard=max(8, (len(terms) + 15) // 16), tag="c02")
    out = []
    for r in res:
        chk_ok, kind, build, flags = r
        out.append({"check": chk_ok, "kind": KIND[kind], "build": build, "grouping": flags[0], "fallback": flags[1],
                    "const_overflow": flags[2], "only_in_elif": flags[3]})
    return out


def classes_of(m):
    """ids of the known-finding classes a function belongs to (by the Coq predicates)"""
    out = []
    if m["kind"] is not None:
        if m["only_in_elif"]:
            out.append("elif-unchecked")
        elif m["kind"] in KIND_FINDING:
            out.append(KIND_FINDING[m["kind"]])
        else:
            out.append("UNLISTED:" + m["kind"])
    if m["grouping"]:
        out.append("grouping")
    if m["fallback"]:
        out.append("int-fallback")
    if m["const_overflow"]:
        out.append("const-overflow")
    return out


# ------------------------------------------------------------------------------------------------ generator

I = lambda n: ("int", n)
V = lambda k: ("var", k)
B = lambda o, l, r: ("bin", o, l, r)
T, F = ("bool", True), ("bool", False)


# helper functions available to the snippets (local ids 7, 8, 9)
SNIP_HELPERS = [(7, [0, 1], True, [("ret", ("bin", "-", ("var", 0), ("var", 1)))]),
                (8, [0], False, [("print", ("var", 0))]),
                (9, [0], True, [("if", ("bin", ">", ("var", 0), ("int", 0)), [("ret", ("int", 1))], [], None)])]


def snippets(rng):
    """statement lists that break ONE documented rule each (some the checker enforces, some it does not), using the
    reserved names v12/v13; inserted at the top level of an otherwise valid generated function"""
    n = rng.randint(0, 9)
    return [
        ("andor", [("print", B(rng.choice(["and", "or"]), I(n), rng.choice([T, I(2)])))]),
        ("arith", [("print", B(rng.choice(["+", "-", "*", "//", "%"]), rng.choice([T, F]), I(n + 1)))]),
        ("arith2", [("print", B(rng.choice(["+", "*"]), I(n), T))]),
        ("nested-imm", [("assign", rng.choice(["inferred", "let"]), 12, None, I(n)),
                        ("if", T, [("assign", "inferred", 12, None, I(n + 1))], [], None), ("print", V(12))]),
        ("nested-type", [("assign", "mut", 12, None, I(n)),
                         ("while", F, [("assign", "inferred", 12, None, T)])]),
        ("nested-ok", [("assign", "mut", 12, None, B("+", I(n), I(1))),
                       ("if", T, [("assign", "inferred", 12, None, I(n + 1))], [], None), ("print", V(12))]),
        ("rebind", [("assign", "mut", 12, None, I(n)), ("assign", "let", 12, None, I(n + 1)),
                    ("assign", "inferred", 12, None, I(n + 2))]),
        ("rebind-ok", [("assign", "mut", 12, None, I(n)), ("assign", "let", 12, None, I(n + 1)), ("print", V(12))]),
        ("break", [(rng.choice(["break", "continue"]),)]),
        ("elif", [("if", F, [("pass",)], [(rng.choice([I(1), B("+", T, I(1)), V(13)]), [("print", V(13))])], None)]),
        ("range", [("for", 12, [rng.choice([T, B("and", T, F)])], [("pass",)])]),
        ("compound-bool", [("assign", "mut", 12, None, T), ("compound", rng.choice(["+", "*"]), 12, F)]),
        ("chain", [("print", B("==", B(rng.choice(["<", "=="]), I(n), I(2)), T))]),
        ("const-overflow", [("assign", "let", 12, None, B("+", I(n), I(1))), ("print", B("+", B("+", I(2**63 - 1), I(n + 1)), V(12)))]),
        ("call-ok", [("cprint", ("call", 7, [I(n)], [(1, I(2))])), ("cexpr", ("call", 8, [I(n)], []))]),
        ("call-arity", [("cprint", ("call", 7, [I(n)], []))]),
        ("call-arity2", [("cexpr", ("call", 8, [I(n), I(1)], []))]),
        ("call-argtype", [("cprint", ("call", 7, [T, I(n)], []))]),
        ("call-kwname", [("cprint", ("call", 7, [I(n)], [(5, I(2))]))]),
        ("unit-value", [("cprint", ("call", 8, [I(n)], []))]),
        ("unit-value2", [("cassign", "let", 12, None, ("call", 8, [I(n)], []))]),
        ("missing-return", [("cprint", ("call", 9, [I(n)], []))]),
        # rules the checker DOES enforce (must be rejected)
        ("unknown-fn", [("cexpr", ("call", 6, [I(n)], []))]),
        ("return-value-in-none-fn", [("ret", I(n))]),
        ("unbound", [("print", V(13))]),
        ("neg-bool", [("print", ("un", "neg", T))]),
        ("not-int", [("print", ("un", "not", I(n)))]),
        ("cmp-mixed", [("print", B("==", I(n), T))]),
        ("cond-int", [("if", I(n), [("pass",)], [], None)]),
        ("imm-reassign", [("assign", "let", 12, None, I(n)), ("assign", "inferred", 12, None, I(n + 1))]),
        ("annot", [("assign", "inferred", 12, "bool", I(n))]),
        ("compound-imm", [("assign", "let", 12, None, I(n)), ("compound", "+", 12, I(1))]),
    ]


def gen_cases(chk, n):
    g = c01.Gen(chk.rng, anchor_p=1.0)
    cases, seen, tags = [], set(), []
    while len(cases) < n:
        c = g.case()
        # keep the reserved names free
        if "v12" in c.source("t0") or "v13" in c.source("t0"):
            continue
        tag = "valid"
        if chk.rng.random() < 0.55:
            tag, sn = chk.rng.choice(snippets(chk.rng))
            pos = chk.rng.randint(0, len(c.body))
            body = c.body[:pos] + [fin_stmt(x, chk.rng) for x in sn] + c.body[pos:]
            c = c01.Case(c.params, c.args, body, origin="gen+" + tag, helpers=c.helpers + SNIP_HELPERS)
        if c.key() in seen:
            continue
        seen.add(c.key())
        cases.append(c)
        tags.append(tag)
    return cases, tags


def fin_expr(e, rng):
    return c01.parenthesize(e, rng, 0.0)


def fin_stmt(s, rng):
    k = s[0]
    if k == "assign":
        return (k, s[1], s[2], s[3], fin_expr(s[4], rng))
    if k == "compound":
        return (k, s[1], s[2], fin_expr(s[3], rng))
    if k == "print":
        return (k, fin_expr(s[1], rng))
    if k == "if":
        return (k, fin_expr(s[1], rng), [fin_stmt(x, rng) for x in s[2]], [(fin_expr(c, rng), [fin_stmt(x, rng) for x in b]) for c, b in s[3]],
                None if s[4] is None else [fin_stmt(x, rng) for x in s[4]])
    if k == "while":
        return (k, fin_expr(s[1], rng), [fin_stmt(x, rng) for x in s[2]])
    if k == "for":
        return (k, s[1], [fin_expr(a, rng) for a in s[2]], [fin_stmt(x, rng) for x in s[3]])
    return s


def witness_cases():
    """the witnesses of coq/C02/Model.v `witnesses` (same functions), used to re-confirm each known finding"""
    W = c01.Case
    return {
        "nested-reassign": W([], [], [("assign", "inferred", 1, None, I(1)), ("if", T, [("assign", "inferred", 1, None, I(2))], [], None), ("print", V(1))]),
        "andor-unchecked": W([], [], [("print", B("and", I(1), I(2)))]),
        "arith-partner-unchecked": W([], [], [("print", B("+", T, I(1)))]),
        "rebind-same-scope": W([], [], [("assign", "mut", 1, None, I(1)), ("assign", "let", 1, None, I(2)), ("assign", "inferred", 1, None, I(3)), ("print", V(1))]),
        "break-outside-loop": W([], [], [("break",)]),
        "elif-unchecked": W([], [], [("if", F, [("pass",)], [(I(1), [("print", V(9))])], None)]),
        "range-arg-unchecked": W([], [], [("for", 1, [T], [("pass",)])]),
        "compound-bool": W([], [], [("assign", "mut", 1, None, T), ("compound", "+", 1, T)]),
        "grouping": W([], [], [("print", B("==", B("<", I(1), I(2)), T))]),
        "const-overflow": W([0], [1], [("print", B("+", B("+", I(2**63 - 1), I(2)), V(0)))]),
        "int-fallback": W([], [], [("print", I(3000000000))]),
        "call-args-unchecked": W([], [], [("cprint", ("call", 7, [I(1)], []))], helpers=SNIP_HELPERS),
        "unit-value": W([], [], [("cprint", ("call", 8, [I(1)], []))], helpers=SNIP_HELPERS),
        "missing-return": W([], [], [("cprint", ("call", 9, [I(1)], []))], helpers=SNIP_HELPERS),
    }


LEN_LT_WITNESS = "def t0() -> None:\n    xs = [1, 2]\n    if len(xs) < 3:\n        println(1)\ndef main() -> None:\n    t0()\n"


def owners(fnames):
    """case indices (function f<10*i+k> belongs to the case placed at index i)"""
    return {int(n[1:]) // 10 for n in fnames if re.fullmatch(r"f\d+", n)}


def fn_of_error_lines(msg, main_rs):
    """names of the functions rustc reported errors in"""
    try:
        lines = open(main_rs).read().split("\n")
    except OSError:
        return set()
    starts = [(i + 1, m.group(1)) for i, l in enumerate(lines) for m in [re.match(r"\s*fn (\w+)\(", l)] if m]
    out = set()
    for b in re.split(r"\n(?=error|warning)", msg):
        if not b.startswith("error") or b.startswith("error: could not compile") or b.startswith("error: aborting"):
            continue
        m = re.search(r"--> src/main\.rs:(\d+):", b)
        if not m:
            continue
        ln = int(m.group(1))
        owner = None
        for st, name in starts:
            if st <= ln:
                owner = name
        if owner:
            out.add(owner)
    return out


def run(chk):
    chk.trusted = [
        "Coq 8.16.1 kernel; no axioms (every theorem closed under the global context)",
        "hand-written models coq/Core/{Checker,Static,Lower,Rust}.v: checker model of check_stmt.rs / check_expr/ops.rs (tied to the real "
        "verdict on every generated function), documented static rules (from the language reference), lowering/emission model, "
        "i64/bool typing of the parsed Rust body (validated by real rustc on the batch)",
        "rustc 1.95 / cargo (the real `incan build` path is what is observed), syn, the vharness c01/c02 adapters, this script's classifier",
    ]
    chk.assumptions = [
        "scope proved: single-file functions of the MiniIncan fragment (coverage.constructs); multi-file programs, strings, collections, "
        "models/classes are outside the theorem and not generated yet",
        "the Coq theorem's hypothesis is the checker MODEL; its agreement with the real checker is the correspondence run of this check",
        "`check accepts => the only documented rules it can miss are the listed ones` is enforced by the oracle of this run, not proved",
    ]
    if os.environ.get("VERIF_KF_DEV"):
        # TEMPORARY fallback until the lead merges build/kf-C02.json into known_findings.json (drop after merging)
        try:
            chk.findings = json.load(open(os.path.join(vlib.VERIF, "build", "kf-C02.json")))
        except OSError:
            pass
    known = c01.load_findings(chk, "C02")
    res = chk.proof_stage("C02", allow_axioms=(), rs2v_units=["CoreNum", "StdNum"])
    dbg = vlib.build_harness("debug")
    quick = chk.tier == "quick"
    cases, tags = gen_cases(chk, 420 if quick else 3000)
    wit = witness_cases()
    wnames = sorted(wit)
    cases = [wit[k] for k in wnames] + cases
    tags = ["witness:" + k for k in wnames] + tags
    chk.coverage["constructs"] = c01.CONSTRUCTS + ["(C02) one injected rule violation per program, 32 kinds"]

    # which variant of check_if_stmt does the tree have?  (Core/Checker.v models both; see `ev` there)
    global ELIF_VISITED
    probe = c01.emit_real(dbg, [wit["elif-unchecked"].source("t0") + "def main() -> None:\n    t0()\n"])[0]
    ELIF_VISITED = bool(probe.get("check"))
    chk.coverage["checker_variant"] = "elif branches visited (fix merged)" if ELIF_VISITED else "elif branches not visited (finding elif-unchecked)"
    model_ok = vlib.coq_build(["C02/Model.vo"])[0]
    if not model_ok:
        res["tie_ok"] = False
        res["broken"].append({"what": "model", "message": "C02/Model.v no longer builds"})
    model = eval_model(cases) if model_ok else None
    real = c01.emit_real(dbg, [c.source("t0") + "def main() -> None:\n    " + c.call("t0") + "\n" for c in cases])

    fails, corr_bad, dist, hits = [], [], {}, {}
    must_build = []
    for i, c in enumerate(cases):
        r, m = real[i], (model[i] if model else None)
        if "panic" in r:
            fails.append({"case": c01.describe(c), "why": "the compiler panicked: " + r["panic"]})
            continue
        want = c.sexps()
        if r.get("parse") != "ok" or {k: r["ast"].get(k) for k in want} != want:
            corr_bad.append({"case": c01.describe(c), "tie": "generator/parser", "real": r.get("parse"), "ast": r.get("ast"), "generator": want})
            continue
        accepted = not r["check"]
        cls = classes_of(m) if m else []
        key = (tags[i].split(":")[0] if tags[i].startswith("witness") else tags[i], "accepted" if accepted else "rejected", ",".join(cls))
        dist[str(key)] = dist.get(str(key), 0) + 1
        chk.count_case(c.key(), nontrivial=accepted)
        if m and m["check"] != accepted:
            corr_bad.append({"case": c01.describe(c), "tie": "checker verdict", "real": r["check"][:2] or "accepted", "model": "accepts" if m["check"] else "rejects"})
            # explained on the property itself below: a function the real checker accepts must build
        if not accepted:
            continue
        # ---- the property: accepted => builds
        gen_ok = r["gen"] == "ok" and r.get("syn", False)
        unlisted = [k for k in cls if k.startswith("UNLISTED:") or k not in known]
        listed = [k for k in cls if k in known]
        if m and cls and not unlisted:
            # member of listed known classes only: the build is expected to fail (or to be wrong); nothing to demand
            for k in listed:
                hits.setdefault(k, 0)
                hits[k] += 1
            if m["build"] == 1 and r["gen"] == "ok":
                corr_bad.append({"case": c01.describe(c), "tie": "lowering verdict", "real": "ok", "model": "lowering error"})
            continue
        if not gen_ok:
            fails.append({"case": c01.describe(c), "coq_case": c.coq(), "program": c01.batch_source([("t0", c)]),
                          "accepted_by": "real checker", "stage": "code generation", "actual": r["gen"],
                          "classes": cls, "why": "the checker accepts this function but code generation fails (%s)" % r["gen"]})
            continue
        if cls:     # accepted, generates, but in an unlisted class: it must still build — let rustc judge
            pass
        if m and m["build"] != 0 and not cls:
            corr_bad.append({"case": c01.describe(c), "tie": "build verdict", "real": "generated", "model": m["build"]})
            continue
        must_build.append(i)

    # ---- rustc through the real `incan build`: one batch that must compile, and the witnesses that must not
    tagp = "c02s%dp%d" % (chk.seed % 100000, os.getpid() % 100000)
    n_batch = 1 if quick else 6
    progs, layout = [], {}
    mb = must_build[:160 * n_batch]
    for b in range(n_batch):
        chunk = mb[b * 160:(b + 1) * 160]
        if chunk:
            layout["%sb%d" % (tagp, b)] = [("t%d" % i, i) for i in chunk]
    widx = {k: wnames.index(k) for k in wnames}
    type_w = [k for k in ("andor-unchecked", "arith-partner-unchecked", "rebind-same-scope", "break-outside-loop", "elif-unchecked",
                          "range-arg-unchecked", "compound-bool", "call-args-unchecked", "unit-value", "missing-return")
              if k in known and not real[widx[k]].get("check", ["x"])]
    lint_w = [k for k in ("const-overflow", "int-fallback") if k in known and not real[widx[k]].get("check", ["x"])]
    if type_w:
        layout[tagp + "w0"] = [("w%d" % widx[k], widx[k]) for k in type_w]
    if lint_w:
        layout[tagp + "w1"] = [("w%d" % widx[k], widx[k]) for k in lint_w]
    if "grouping" in wnames:
        layout[tagp + "w2"] = [("w%d" % widx["grouping"], widx["grouping"])]
    for stem, members in layout.items():
        progs.append((stem, c01.batch_source([(n, cases[i]) for n, i in members])))
    d = c01.scratch_dir("c02")
    reproduced = set()
    try:
        built = c01.build_programs(dbg, d, progs)
        for stem, src in progs:
            ok, msg, path = built[stem]
            members = layout[stem]
            if stem[len(tagp)] == "b":
                if not ok:
                    bad = owners(fn_of_error_lines(msg, os.path.join(d, "out_" + stem, "src", "main.rs")))
                    culprits = [(n, i) for n, i in members if int(n[1:]) in bad] or members[:3]
                    for n, i in culprits[:10]:
                        fails.append({"case": c01.describe(cases[i], n), "coq_case": cases[i].coq(), "program": c01.batch_source([("t0", cases[i])]),
                                      "accepted_by": "real checker", "stage": "rustc",
                                      "classes": classes_of(model[i]) if model else [],
                                      "actual": "\n".join(b for b in re.split(r"\n(?=error|warning)", msg) if b.startswith("error"))[:2500],
                                      "why": "the checker accepts this function, code generation succeeds, rustc rejects the generated Rust"})
                else:
                    chk.coverage["functions_compiled_by_rustc"] = chk.coverage.get("functions_compiled_by_rustc", 0) + len(members)
            else:
                # witnesses: the build must fail, with an error inside each witness function
                if ok:
                    continue
                bad = owners(fn_of_error_lines(msg, os.path.join(d, "out_" + stem, "src", "main.rs")))
                for n, i in members:
                    if int(n[1:]) in bad or (len(members) == 1):
                        reproduced.add(wnames[i])
    finally:
        shutil.rmtree(d, ignore_errors=True)
        c01.clean_gen_target([stem for stem, _ in progs])
    # len-lt was repaired (fix: commit); its witness is a regression case: `len(xs) < n` must pass the checker AND generate
    r = c01.emit_real(dbg, [LEN_LT_WITNESS])[0]
    if not r.get("check") and r.get("gen") != "ok":
        if "len-lt" in known:
            reproduced.add("len-lt")
        else:
            fails.append({"case": "regression of the repaired finding len-lt", "program": LEN_LT_WITNESS, "accepted_by": "real checker", "stage": "codegen",
                          "actual": str(r.get("gen"))[:500],
                          "why": "`len(xs) < n` passes --check and fails code generation again (`xs.len() as i64 < n`: `<` after a cast type)"})
    # witnesses whose failure is at code generation (no rustc needed)
    for k in wnames:
        i = widx[k]
        if not real[i].get("check") and real[i].get("gen") != "ok":
            reproduced.add(k)

    # ---- wide constructs (models, lists, lvalue paths, keyword arguments, keyword-like names): valid programs, so every one
    # the real checker accepts must lower, emit, re-parse with syn and compile (oracle only: not in the Coq model)
    wfails, wstats = c01.wide_oracle(chk, dbg, 70 if quick else 400, "c02")
    fails += [f for f in wfails if f["why"].startswith("the checker accepts") or f["why"].startswith("the compiler panicked")]
    chk.coverage["wide_constructs_oracle_only"] = c01.WIDE_CONSTRUCTS
    chk.coverage.update(wstats)
    mfails, mstats, mrepro = c01.matrix_oracle(chk, dbg, "c02", "C02", known)
    fails += [f for f in mfails if f["why"].startswith("the checker accepts") or f["why"].startswith("the compiler panicked")]
    chk.coverage.update(mstats)
    reproduced |= mrepro

    chk.coverage["rule"] = ("seeded generator: valid fragment functions (C01's generator, every integer anchored to i64) with, in 55% of them, one injected "
                            "violation of a documented rule (22 kinds: 14 the checker misses, 8 it enforces) + the 11 witnesses; for EVERY function: real "
                            "checker verdict vs model; for every ACCEPTED function: real lowering+emission, syn re-parse, and — unless the Coq predicates put it "
                            "in a listed known class — rustc through the real `incan build` in one batch; non-trivial = accepted by the real checker")
    chk.coverage["distribution"] = dist
    chk.coverage["functions_generated"] = len(cases)
    chk.coverage["accepted_and_required_to_build"] = len(must_build)
    chk.coverage["traces_validated_against_impl"] = len(cases)
    chk.coverage["correspondence_mismatches"] = len(corr_bad)
    chk.coverage["known_class_members_accepted_by_real_checker"] = hits
    for c in cases[len(wnames):len(wnames) + 5]:
        chk.sample(c01.describe(c))
    for fid, f in known.items():
        if fid in reproduced:
            chk.known(fid, "%s: %s" % (fid, f["summary"]))
    for f in fails[:20]:
        chk.violation("failing-input", f)
    if not fails:
        if corr_bad:
            chk.violation("correspondence-broken", {"theorem_or_tie": "C02 model/implementation correspondence", "cases": corr_bad[:10]}, no_input=True)
        if not res["proofs_ok"] or not res["tie_ok"]:
            chk.violation("proof-broken", {"theorem_or_tie": res["broken"]}, no_input=True)


def replay(path):
    data = json.load(open(path))
    binary = vlib.build_harness("debug")
    for v in data["violations"]:
        d = v["detail"]
        if "program" in d:
            print("== case\n" + d.get("case", ""))
            print(json.dumps(c01.replay_one(binary, d["program"], None, tag="c02r"), indent=1, default=str))
            if d.get("coq_case") and vlib.coq_build(["C02/Model.vo"])[0]:
                m = eval_model_terms([d["coq_case"]])[0]
                print("model:", json.dumps(m), "classes:", classes_of(m))
            print("recorded:", d.get("stage"), (d.get("actual") or "")[:1500])
        else:
            print(json.dumps(d, indent=1)[:6000])
    return 0
