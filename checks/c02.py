"""C02 — every program that type-checks also builds (MiniIncan fragment).

proof:   coq/C02/Props.v: accepted_builds on the fragment (checker model accepts and outside the known classes =>
         lowering Ok, emitted tokens parse, parsed body well-typed Rust), static_builds, refutation witnesses.
tie:     checker model (Core/Checker.v) verdict vs the real `TypeChecker::check_program` verdict; predicted
         lowering verdict vs the real IrCodegen; Core/Static.v kinds classify the failures.
oracle:  the property itself on the REAL pipeline: every generated function the real checker accepts must lower and
         emit without internal error, the emitted Rust must parse with syn, and (batched) compile with rustc through
         the real `incan build` path — unless it falls in a listed known class (decided by the Coq predicates)."""
import json
import os
import re
import shutil

import vlib
from checks import c01

KIND = {0: None, 1: "VUnbound", 2: "VLiteralRange", 3: "VNegOperand", 4: "VNotOperand", 5: "VArithOperand", 6: "VCompareTypes",
        7: "VAndOrOperand", 8: "VReassignImmutable", 9: "VReassignType", 10: "VAnnotation", 11: "VRebindSameScope",
        12: "VCompoundTarget", 13: "VCompoundOperand", 14: "VCondition", 15: "VRangeArg", 16: "VBreakOutsideLoop",
        17: "VUnknownFn", 18: "VCallArity", 19: "VCallArgType", 20: "VUnitValue", 21: "VReturnType", 22: "VMissingReturn"}
# documented rule broken -> id of the known finding whose class it is (rules not listed here must be caught by the checker)
KIND_FINDING = {"VAndOrOperand": "andor-unchecked", "VArithOperand": "arith-partner-unchecked",
                "VReassignImmutable": "nested-reassign", "VReassignType": "nested-reassign",
                "VRebindSameScope": "rebind-same-scope", "VBreakOutsideLoop": "break-outside-loop",
                "VRangeArg": "range-arg-unchecked", "VCompoundTarget": "compound-bool", "VCompoundOperand": "compound-bool",
                "VCallArity": "call-args-unchecked", "VCallArgType": "call-args-unchecked", "VUnitValue": "unit-value",
                "VMissingReturn": "missing-return"}

REQ = ("From Verif Require Import Base.I64 C04.Model Core.Syntax Core.Dynamic Core.Rust Core.Lower Core.Static Core.Checker C01.Model C02.Model.\n"
       "From Coq Require Import ZArith List. Import ListNotations. Open Scope Z_scope.")


def eval_model(cases):
    return eval_model_terms([c.coq() for c in cases])


ELIF_VISITED = False      # set by run(): does the real check_if_stmt visit elif branches (pending C03 fix)?


def eval_model_terms(terms):
    res = vlib.coq_eval(REQ, "fcase", "c02_case_gen %s" % ("true" if ELIF_VISITED else "false"), terms,
                        shard=max(8, (len(terms) + 15) // 16), tag="c02")
    out = []
    for r in res:
        chk_ok, kind, build, flags = r
        out.append({"check": chk_ok, "kind": KIND[kind], "build": build, "grouping": flags[0], "fallback": flags[1],
                    "const_overflow": flags[2], "only_in_elif": flags[3]})
    return out


def classes_of(m):
    """ids of the known-finding classes a function belongs to (by the Coq predicates)"""
    out = []
    if m["kind"] is not None:
        if m["only_in_elif"]:
            out.append("elif-unchecked")
        elif m["kind"] in KIND_FINDING:
            out.append(KIND_FINDING[m["kind"]])
        else:
            out.append("UNLISTED:" + m["kind"])
    if m["grouping"]:
        out.append("grouping")
    if m["fallback"]:
        out.append("int-fallback")
    if m["const_overflow"]:
        out.append("const-overflow")
    return out


# ------------------------------------------------------------------------------------------------ generator

I = lambda n: ("int", n)
V = lambda k: ("var", k)
B = lambda o, l, r: ("bin", o, l, r)
T, F = ("bool", True), ("bool", False)


# helper functions available to the snippets (local ids 7, 8, 9)
SNIP_HELPERS = [(7, [0, 1], True, [("ret", ("bin", "-", ("var", 0), ("var", 1)))]),
                (8, [0], False, [("print", ("var", 0))]),
                (9, [0], True, [("if", ("bin", ">", ("var", 0), ("int", 0)), [("ret", ("int", 1))], [], None)])]


def snippets(rng):
    """statement lists that break ONE documented rule each (some the checker enforces, some it does not), using the
    reserved names v12/v13; inserted at the top level of an otherwise valid generated function"""
    n = rng.randint(0, 9)
    return [
        ("andor", [("print", B(rng.choice(["and", "or"]), I(n), rng.choice([T, I(2)])))]),
        ("arith", [("print", B(rng.choice(["+", "-", "*", "//", "%"]), rng.choice([T, F]), I(n + 1)))]),
        ("arith2", [("print", B(rng.choice(["+", "*"]), I(n), T))]),
        ("nested-imm", [("assign", rng.choice(["inferred", "let"]), 12, None, I(n)),
                        ("if", T, [("assign", "inferred", 12, None, I(n + 1))], [], None), ("print", V(12))]),
        ("nested-type", [("assign", "mut", 12, None, I(n)),
                         ("while", F, [("assign", "inferred", 12, None, T)])]),
        ("nested-ok", [("assign", "mut", 12, None, B("+", I(n), I(1))),
                       ("if", T, [("assign", "inferred", 12, None, I(n + 1))], [], None), ("print", V(12))]),
        ("rebind", [("assign", "mut", 12, None, I(n)), ("assign", "let", 12, None, I(n + 1)),
                    ("assign", "inferred", 12, None, I(n + 2))]),
        ("rebind-ok", [("assign", "mut", 12, None, I(n)), ("assign", "let", 12, None, I(n + 1)), ("print", V(12))]),
        ("break", [(rng.choice(["break", "continue"]),)]),
        ("elif", [("if", F, [("pass",)], [(rng.choice([I(1), B("+", T, I(1)), V(13)]), [("print", V(13))])], None)]),
        ("range", [("for", 12, [rng.choice([T, B("and", T, F)])], [("pass",)])]),
        ("compound-bool", [("assign", "mut", 12, None, T), ("compound", rng.choice(["+", "*"]), 12, F)]),
        ("chain", [("print", B("==", B(rng.choice(["<", "=="]), I(n), I(2)), T))]),
        ("const-overflow", [("assign", "let", 12, None, B("+", I(n), I(1))), ("print", B("+", B("+", I(2**63 - 1), I(n + 1)), V(12)))]),
        ("call-ok", [("cprint", ("call", 7, [I(n)], [(1, I(2))])), ("cexpr", ("call", 8, [I(n)], []))]),
        ("call-arity", [("cprint", ("call", 7, [I(n)], []))]),
        ("call-arity2", [("cexpr", ("call", 8, [I(n), I(1)], []))]),
        ("call-argtype", [("cprint", ("call", 7, [T, I(n)], []))]),
        ("call-kwname", [("cprint", ("call", 7, [I(n)], [(5, I(2))]))]),
        ("unit-value", [("cprint", ("call", 8, [I(n)], []))]),
        ("unit-value2", [("cassign", "let", 12, None, ("call", 8, [I(n)], []))]),
        ("missing-return", [("cprint", ("call", 9, [I(n)], []))]),
        # rules the checker DOES enforce (must be rejected)
        ("unknown-fn", [("cexpr", ("call", 6, [I(n)], []))]),
        ("return-value-in-none-fn", [("ret", I(n))]),
        ("unbound", [("print", V(13))]),
        ("neg-bool", [("print", ("un", "neg", T))]),
        ("not-int", [("print", ("un", "not", I(n)))]),
        ("cmp-mixed", [("print", B("==", I(n), T))]),
        ("cond-int", [("if", I(n), [("pass",)], [], None)]),
        ("imm-reassign", [("assign", "let", 12, None, I(n)), ("assign", "inferred", 12, None, I(n + 1))]),
        ("annot", [("assign", "inferred", 12, "bool", I(n))]),
        ("compound-imm", [("assign", "let", 12, None, I(n)), ("compound", "+", 12, I(1))]),
    ]


def gen_cases(chk, n):
    g = c01.Gen(chk.rng, anchor_p=1.0)
    cases, seen, tags = [], set(), []
    while len(cases) < n:
        c = g.case()
        # keep the reserved names free
        if "v12" in c.source("t0") or "v13" in c.source("t0"):
            continue
        tag = "valid"
        if chk.rng.random() < 0.55:
            tag, sn = chk.rng.choice(snippets(chk.rng))
            pos = chk.rng.randint(0, len(c.body))
            body = c.body[:pos] + [fin_stmt(x, chk.rng) for x in sn] + c.body[pos:]
            c = c01.Case(c.params, c.args, body, origin="gen+" + tag, helpers=c.helpers + SNIP_HELPERS)
        if c.key() in seen:
            continue
        seen.add(c.key())
        cases.append(c)
        tags.append(tag)
    return cases, tags


def fin_expr(e, rng):
    return c01.parenthesize(e, rng, 0.0)


def fin_stmt(s, rng):
    k = s[0]
    if k == "assign":
        return (k, s[1], s[2], s[3], fin_expr(s[4], rng))
    if k == "compound":
        return (k, s[1], s[2], fin_expr(s[3], rng))
    if k == "print":
        return (k, fin_expr(s[1], rng))
    if k == "if":
        return (k, fin_expr(s[1], rng), [fin_stmt(x, rng) for x in s[2]], [(fin_expr(c, rng), [fin_stmt(x, rng) for x in b]) for c, b in s[3]],
                None if s[4] is None else [fin_stmt(x, rng) for x in s[4]])
    if k == "while":
        return (k, fin_expr(s[1], rng), [fin_stmt(x, rng) for x in s[2]])
    if k == "for":
        return (k, s[1], [fin_expr(a, rng) for a in s[2]], [fin_stmt(x, rng) for x in s[3]])
    return s


def witness_cases():
    """the witnesses of coq/C02/Model.v `witnesses` (same functions), used to re-confirm each known finding"""
    W = c01.Case
    return {
        "nested-reassign": W([], [], [("assign", "inferred", 1, None, I(1)), ("if", T, [("assign", "inferred", 1, None, I(2))], [], None), ("print", V(1))]),
        "andor-unchecked": W([], [], [("print", B("and", I(1), I(2)))]),
        "arith-partner-unchecked": W([], [], [("print", B("+", T, I(1)))]),
        "rebind-same-scope": W([], [], [("assign", "mut", 1, None, I(1)), ("assign", "let", 1, None, I(2)), ("assign", "inferred", 1, None, I(3)), ("print", V(1))]),
        "break-outside-loop": W([], [], [("break",)]),
        "elif-unchecked": W([], [], [("if", F, [("pass",)], [(I(1), [("print", V(9))])], None)]),
        "range-arg-unchecked": W([], [], [("for", 1, [T], [("pass",)])]),
        "compound-bool": W([], [], [("assign", "mut", 1, None, T), ("compound", "+", 1, T)]),
        "grouping": W([], [], [("print", B("==", B("<", I(1), I(2)), T))]),
        "const-overflow": W([0], [1], [("print", B("+", B("+", I(2**63 - 1), I(2)), V(0)))]),
        "int-fallback": W([], [], [("print", I(3000000000))]),
        "call-args-unchecked": W([], [], [("cprint", ("call", 7, [I(1)], []))], helpers=SNIP_HELPERS),
        "unit-value": W([], [], [("cprint", ("call", 8, [I(1)], []))], helpers=SNIP_HELPERS),
        "missing-return": W([], [], [("cprint", ("call", 9, [I(1)], []))], helpers=SNIP_HELPERS),
    }


LEN_LT_WITNESS = "def t0() -> None:\n    xs = [1, 2]\n    if len(xs) < 3:\n        println(1)\ndef main() -> None:\n    t0()\n"


def owners(fnames):
    """case indices (function f<10*i+k> belongs to the case placed at index i)"""
    return {int(n[1:]) // 10 for n in fnames if re.fullmatch(r"f\d+", n)}


def fn_of_error_lines(msg, main_rs):
    """names of the functions rustc reported errors in"""
    try:
        lines = open(main_rs).read().split("\n")
    except OSError:
        return set()
    starts = [(i + 1, m.group(1)) for i, l in enumerate(lines) for m in [re.match(r"\s*fn (\w+)\(", l)] if m]
    out = set()
    for b in re.split(r"\n(?=error|warning)", msg):
        if not b.startswith("error") or b.startswith("error: could not compile") or b.startswith("error: aborting"):
            continue
        m = re.search(r"--> src/main\.rs:(\d+):", b)
        if not m:
            continue
        ln = int(m.group(1))
        owner = None
        for st, name in starts:
            if st <= ln:
                owner = name
        if owner:
            out.add(owner)
    return out


def run(chk):
    chk.trusted = [
        "Coq 8.16.1 kernel; no axioms (every theorem closed under the global context)",
        "hand-written models coq/Core/{Checker,Static,Lower,Rust}.v: checker model of check_stmt.rs / check_expr/ops.rs (tied to the real "
        "verdict on every generated function), documented static rules (from the language reference), lowering/emission model, "
        "i64/bool typing of the parsed Rust body (validated by real rustc on the batch)",
        "rustc 1.95 / cargo (the real `incan build` path is what is observed), syn, the vharness c01/c02 adapters, this script's classifier",
    ]
    chk.assumptions = [
        "scope proved: single-file functions of the MiniIncan fragment (coverage.constructs); multi-file programs, strings, collections, "
        "models/classes are outside the theorem and not generated yet",
        "the Coq theorem's hypothesis is the checker MODEL; its agreement with the real checker is the correspondence run of this check",
        "`check accepts => the only documented rules it can miss are the listed ones` is enforced by the oracle of this run, not proved",
    ]
    if os.environ.get("VERIF_KF_DEV"):
        # TEMPORARY fallback until the lead merges build/kf-C02.json into known_findings.json (drop after merging)
        try:
            chk.findings = json.load(open(os.path.join(vlib.VERIF, "build", "kf-C02.json")))
        except OSError:
            pass
    known = c01.load_findings(chk, "C02")
    res = chk.proof_stage("C02", allow_axioms=(), rs2v_units=["CoreNum", "StdNum"])
    dbg = vlib.build_harness("debug")
    quick = chk.tier == "quick"
    cases, tags = gen_cases(chk, 420 if quick else 3000)
    wit = witness_cases()
    wnames = sorted(wit)
    cases = [wit[k] for k in wnames] + cases
    tags = ["witness:" + k for k in wnames] + tags
    chk.coverage["constructs"] = c01.CONSTRUCTS + ["(C02) one injected rule violation per program, 32 kinds"]

    # which variant of check_if_stmt does the tree have?  (Core/Checker.v models both; see `ev` there)
    global ELIF_VISITED
    probe = c01.emit_real(dbg, [wit["elif-unchecked"].source("t0") + "def main() -> None:\n    t0()\n"])[0]
    ELIF_VISITED = bool(probe.get("check"))
    chk.coverage["checker_variant"] = "elif branches visited (fix merged)" if ELIF_VISITED else "elif branches not visited (finding elif-unchecked)"
    model_ok = vlib.coq_build(["C02/Model.vo"])[0]
    if not model_ok:
        res["tie_ok"] = False
        res["broken"].append({"what": "model", "message": "C02/Model.v no longer builds"})
    model = eval_model(cases) if model_ok else None
    real = c01.emit_real(dbg, [c.source("t0") + "def main() -> None:\n    " + c.call("t0") + "\n" for c in cases])

    fails, corr_bad, dist, hits = [], [], {}, {}
    must_build = []
    for i, c in enumerate(cases):
        r, m = real[i], (model[i] if model else None)
        if "panic" in r:
            fails.append({"case": c01.describe(c), "why": "the compiler panicked: " + r["panic"]})
            continue
        want = c.sexps()
        if r.get("parse") != "ok" or {k: r["ast"].get(k) for k in want} != want:
            corr_bad.append({"case": c01.describe(c), "tie": "generator/parser", "real": r.get("parse"), "ast": r.get("ast"), "generator": want})
            continue
        accepted = not r["check"]
        cls = classes_of(m) if m else []
        key = (tags[i].split(":")[0] if tags[i].startswith("witness") else tags[i], "accepted" if accepted else "rejected", ",".join(cls))
        dist[str(key)] = dist.get(str(key), 0) + 1
        chk.count_case(c.key(), nontrivial=accepted)
        if m and m["check"] != accepted:
            corr_bad.append({"case": c01.describe(c), "tie": "checker verdict", "real": r["check"][:2] or "accepted", "model": "accepts" if m["check"] else "rejects"})
            # explained on the property itself below: a function the real checker accepts must build
        if not accepted:
            continue
        # ---- the property: accepted => builds
        gen_ok = r["gen"] == "ok" and r.get("syn", False)
        unlisted = [k for k in cls if k.startswith("UNLISTED:") or k not in known]
        listed = [k for k in cls if k in known]
        if m and cls and not unlisted:
            # member of listed known classes only: the build is expected to fail (or to be wrong); nothing to demand
            for k in listed:
                hits.setdefault(k, 0)
                hits[k] += 1
            if m["build"] == 1 and r["gen"] == "ok":
                corr_bad.append({"case": c01.describe(c), "tie": "lowering verdict", "real": "ok", "model": "lowering error"})
            continue
        if not gen_ok:
            fails.append({"case": c01.describe(c), "coq_case": c.coq(), "program": c01.batch_source([("t0", c)]),
                          "accepted_by": "real checker", "stage": "code generation", "actual": r["gen"],
                          "classes": cls, "why": "the checker accepts this function but code generation fails (%s)" % r["gen"]})
            continue
        if cls:     # accepted, generates, but in an unlisted class: it must still build — let rustc judge
            pass
        if m and m["build"] != 0 and not cls:
            corr_bad.append({"case": c01.describe(c), "tie": "build verdict", "real": "generated", "model": m["build"]})
            continue
        must_build.append(i)

    # ---- rustc through the real `incan build`: one batch that must compile, and the witnesses that must not
    tagp = "c02s%dp%d" % (chk.seed % 100000, os.getpid() % 100000)
    n_batch = 1 if quick else 6
    progs, layout = [], {}
    mb = must_build[:160 * n_batch]
    for b in range(n_batch):
        chunk = mb[b * 160:(b + 1) * 160]
        if chunk:
            layout["%sb%d" % (tagp, b)] = [("t%d" % i, i) for i in chunk]
    widx = {k: wnames.index(k) for k in wnames}
    type_w = [k for k in ("andor-unchecked", "arith-partner-unchecked", "rebind-same-scope", "break-outside-loop", "elif-unchecked",
                          "range-arg-unchecked", "compound-bool", "call-args-unchecked", "unit-value", "missing-return")
              if k in known and not real[widx[k]].get("check", ["x"])]
    lint_w = [k for k in ("const-overflow", "int-fallback") if k in known and not real[widx[k]].get("check", ["x"])]
    if type_w:
        layout[tagp + "w0"] = [("w%d" % widx[k], widx[k]) for k in type_w]
    if lint_w:
        layout[tagp + "w1"] = [("w%d" % widx[k], widx[k]) for k in lint_w]
    if "grouping" in wnames:
        layout[tagp + "w2"] = [("w%d" % widx["grouping"], widx["grouping"])]
    for stem, members in layout.items():
        progs.append((stem, c01.batch_source([(n, cases[i]) for n, i in members])))
    d = c01.scratch_dir("c02")
    reproduced = set()
    try:
        built = c01.build_programs(dbg, d, progs)
        for stem, src in progs:
            ok, msg, path = built[stem]
            members = layout[stem]
            if stem[len(tagp)] == "b":
                if not ok:
                    bad = owners(fn_of_error_lines(msg, os.path.join(d, "out_" + stem, "src", "main.rs")))
                    culprits = [(n, i) for n, i in members if int(n[1:]) in bad] or members[:3]
                    for n, i in culprits[:10]:
                        fails.append({"case": c01.describe(cases[i], n), "coq_case": cases[i].coq(), "program": c01.batch_source([("t0", cases[i])]),
                                      "accepted_by": "real checker", "stage": "rustc",
                                      "classes": classes_of(model[i]) if model else [],
                                      "actual": "\n".join(b for b in re.split(r"\n(?=error|warning)", msg) if b.startswith("error"))[:2500],
                                      "why": "the checker accepts this function, code generation succeeds, rustc rejects the generated Rust"})
                else:
                    chk.coverage["functions_compiled_by_rustc"] = chk.coverage.get("functions_compiled_by_rustc", 0) + len(members)
            else:
                # witnesses: the build must fail, with an error inside each witness function
                if ok:
                    continue
                bad = owners(fn_of_error_lines(msg, os.path.join(d, "out_" + stem, "src", "main.rs")))
                for n, i in members:
                    if int(n[1:]) in bad or (len(members) == 1):
                        reproduced.add(wnames[i])
    finally:
        shutil.rmtree(d, ignore_errors=True)
        c01.clean_gen_target([stem for stem, _ in progs])
    # len-lt was repaired (fix: commit); its witness is a regression case: `len(xs) < n` must pass the checker AND generate
    r = c01.emit_real(dbg, [LEN_LT_WITNESS])[0]
    if not r.get("check") and r.get("gen") != "ok":
        if "len-lt" in known:
            reproduced.add("len-lt")
        else:
            fails.append({"case": "regression of the repaired finding len-lt", "program": LEN_LT_WITNESS, "accepted_by": "real checker", "stage": "codegen",
                          "actual": str(r.get("gen"))[:500],
                          "why": "`len(xs) < n` passes --check and fails code generation again (`xs.len() as i64 < n`: `<` after a cast type)"})
    # witnesses whose failure is at code generation (no rustc needed)
    for k in wnames:
        i = widx[k]
        if not real[i].get("check") and real[i].get("gen") != "ok":
            reproduced.add(k)

    # ---- wide constructs (models, lists, lvalue paths, keyword arguments, keyword-like names): valid programs, so every one
    # the real checker accepts must lower, emit, re-parse with syn and compile (oracle only: not in the Coq model)
    wfails, wstats = c01.wide_oracle(chk, dbg, 70 if quick else 400, "c02")
    fails += [f for f in wfails if f["why"].startswith("the checker accepts") or f["why"].startswith("the compiler panicked")]
    chk.coverage["wide_constructs_oracle_only"] = c01.WIDE_CONSTRUCTS
    chk.coverage.update(wstats)
    mfails, mstats, mrepro = c01.matrix_oracle(chk, dbg, "c02", "C02", known)
    fails += [f for f in mfails if f["why"].startswith("the checker accepts") or f["why"].startswith("the compiler panicked")]
    chk.coverage.update(mstats)
    reproduced |= mrepro

    xfails, xstats, xrepro = mf_oracle(chk, dbg, known)
    fails += xfails
    chk.coverage.update(xstats)
    reproduced |= xrepro
    ffails, fstats, frepro = fstring_oracle(chk, dbg, known)
    fails += ffails
    chk.coverage.update(fstats)
    reproduced |= frepro

    chk.coverage["rule"] = ("seeded generator: valid fragment functions (C01's generator, every integer anchored to i64) with, in 55% of them, one injected "
                            "violation of a documented rule (22 kinds: 14 the checker misses, 8 it enforces) + the 11 witnesses; for EVERY function: real "
                            "checker verdict vs model; for every ACCEPTED function: real lowering+emission, syn re-parse, and — unless the Coq predicates put it "
                            "in a listed known class — rustc through the real `incan build` in one batch; non-trivial = accepted by the real checker")
    chk.coverage["distribution"] = dist
    chk.coverage["functions_generated"] = len(cases)
    chk.coverage["accepted_and_required_to_build"] = len(must_build)
    chk.coverage["traces_validated_against_impl"] = len(cases)
    chk.coverage["correspondence_mismatches"] = len(corr_bad)
    chk.coverage["known_class_members_accepted_by_real_checker"] = hits
    for c in cases[len(wnames):len(wnames) + 5]:
        chk.sample(c01.describe(c))
    for fid, f in known.items():
        if fid in reproduced:
            chk.known(fid, "%s: %s" % (fid, f["summary"]))
    for f in fails[:20]:
        chk.violation("failing-input", f)
    if not fails:
        if corr_bad:
            chk.violation("correspondence-broken", {"theorem_or_tie": "C02 model/implementation correspondence", "cases": corr_bad[:10]}, no_input=True)
        if not res["proofs_ok"] or not res["tie_ok"]:
            chk.violation("proof-broken", {"theorem_or_tie": res["broken"]}, no_input=True)


def replay(path):
    data = json.load(open(path))
    binary = vlib.build_harness("debug")
    for v in data["violations"]:
        d = v["detail"]
        if "files" in d:
            root = os.path.join(vlib.BUILD, "c02mf-replay-%d" % os.getpid()) + ("/src" if d.get("entry") == "src/" else "")
            stem = next(k[:-5] for k in d["files"] if "/" not in k and "def main()" in d["files"][k])
            try:
                c_ok, b_ok, msg = mf_run(binary, root, stem, d["files"])
                print("== multi-file project (%s)\n%s" % (d.get("unit"), d.get("case", "")))
                print("check accepted:", c_ok, "build ok:", b_ok)
                print("\n".join(mf_errors(msg))[:2500] if b_ok is False else (msg or "")[:600])
            finally:
                shutil.rmtree(os.path.join(vlib.BUILD, "c02mf-replay-%d" % os.getpid()), ignore_errors=True)
                c01.clean_gen_target([stem])
        elif "program" in d:
            print("== case\n" + d.get("case", ""))
            print(json.dumps(c01.replay_one(binary, d["program"], None, tag="c02r"), indent=1, default=str))
            if d.get("coq_case") and vlib.coq_build(["C02/Model.vo"])[0]:
                m = eval_model_terms([d["coq_case"]])[0]
                print("model:", json.dumps(m), "classes:", classes_of(m))
            print("recorded:", d.get("stage"), (d.get("actual") or "")[:1500])
        else:
            print(json.dumps(d, indent=1)[:6000])
    return 0


# ================================================================================================ multi-file projects
# C02 quantifies over single- AND multi-file programs.  This family builds real multi-file projects with the real
# `incan build` (collect_modules -> checker with imports -> ProjectGenerator::generate_nested -> cargo/rustc).  A project is
# an entry file + several independent "units" (each unit owns one top-level directory / module name, so units do not
# interact and many are packed into one cargo build):
#   depth 1..4 x 1..3 sibling modules in the deepest directory (shared directory prefixes of length 0..3), branching
#   prefixes (a/b/x + a/c/y, a/b/c/x + a/b/d/y), a module and a directory with the same stem, items of each kind used
#   across files (function, model, enum, const), a module imported by two importers (diamond), nested modules importing
#   other modules (absolute, `.x`, `..x`), import spellings `from a.b.c import f`, `from a::b::c import f`, `import a::b::c::f`
#   (+ alias), entry file in the project root and in src/.
# Oracle: every project `incan --check` accepts must build.  A failing packed project is attributed to units by the paths in
# rustc's errors and each culprit unit is rebuilt alone (the failing input that is reported is that small project).

MF_STYLES = ["dot", "colon", "item", "alias"]


def mf_import(path, names, style):
    """entry-side import lines + the local names bound"""
    if style == "dot":
        return ["from %s import %s" % (".".join(path), ", ".join(names))], list(names)
    if style == "colon":
        return ["from %s import %s" % ("::".join(path), ", ".join(names))], list(names)
    if style == "item":
        return ["import %s::%s" % ("::".join(path), n) for n in names], list(names)
    return ["import %s::%s as %s_al" % ("::".join(path), n, n) for n in names], [n + "_al" for n in names]


class MFUnit:
    def __init__(self, key, files, imports, uses, klass=None):
        self.key, self.files, self.imports, self.uses, self.klass = key, files, imports, uses, klass   # files: {relpath: text}

    def top(self):
        return sorted({p.split("/")[0].replace(".incn", "") for p in self.files})


def mf_units(rng):
    units = []
    uid = [0]

    def nm(prefix):
        uid[0] += 1
        return "%s%d" % (prefix, uid[0])

    # depth x siblings
    for depth in (1, 2, 3, 4):
        for sib in (1, 2, 3):
            dirs = [nm("d") for _ in range(depth - 1)]
            files, imports, uses = {}, [], []
            for k in range(sib):
                m = nm("m")
                f = nm("f")
                c = rng.randint(2, 90)
                files["/".join(dirs + [m]) + ".incn"] = "pub def %s(n: int) -> int:\n    return n + %d\n" % (f, c)
                style = MF_STYLES[(depth + sib + k) % 4]
                imp, loc = mf_import(dirs + [m], [f], style)
                imports += imp
                uses.append("println(%s(1))" % loc[0])
            units.append(MFUnit("depth=%d siblings=%d prefix=%d" % (depth, sib, depth - 1 if sib > 1 else 0), files, imports, uses))
    # branching prefixes
    for depth, share in ((3, 1), (4, 2), (4, 1), (3, 2)):
        common = [nm("d") for _ in range(share)]
        files, imports, uses = {}, [], []
        for k in range(2 if (depth, share) != (3, 2) else 3):
            rest = [nm("d") for _ in range(depth - 1 - share)]
            m, f = nm("m"), nm("f")
            files["/".join(common + rest + [m]) + ".incn"] = "pub def %s() -> int:\n    return %d\n" % (f, rng.randint(2, 90))
            imp, loc = mf_import(common + rest + [m], [f], MF_STYLES[(k + depth) % 2])
            imports += imp
            uses.append("println(%s())" % loc[0])
        units.append(MFUnit("branching depth=%d shared-prefix=%d modules=%d" % (depth, share, len(files)), files, imports, uses))
    # a module and a directory with the same stem
    d, s, m, f1, f2 = nm("d"), nm("s"), nm("m"), nm("f"), nm("f")
    units.append(MFUnit("module and directory with the same stem",
                        {"%s/%s.incn" % (d, s): "pub def %s() -> int:\n    return 5\n" % f1,
                         "%s/%s/%s.incn" % (d, s, m): "pub def %s() -> int:\n    return 6\n" % f2},
                        ["from %s.%s import %s" % (d, s, f1), "from %s.%s.%s import %s" % (d, s, m, f2)],
                        ["println(%s())" % f1, "println(%s())" % f2]))
    s2, m2, f3, f4 = nm("s"), nm("m"), nm("f"), nm("f")
    units.append(MFUnit("top-level module and directory with the same stem",
                        {"%s.incn" % s2: "pub def %s() -> int:\n    return 5\n" % f3,
                         "%s/%s.incn" % (s2, m2): "pub def %s() -> int:\n    return 6\n" % f4},
                        ["from %s import %s" % (s2, f3), "from %s.%s import %s" % (s2, m2, f4)],
                        ["println(%s())" % f3, "println(%s())" % f4]))
    # items of each kind across files (flat and nested)
    for depth in (1, 3):
        dirs = [nm("d") for _ in range(depth - 1)]
        m = nm("m")
        M, E, K, f = nm("Mo"), nm("En"), nm("KC").upper(), nm("f")
        text = ("pub model %s:\n    a: int\n    b: int\n\npub enum %s:\n    Ci(int)\n    Em\n\npub const %s: int = 41\n\n"
                "pub def %s(o: %s) -> int:\n    return o.a + o.b\n" % (M, E, K, f, M))
        ov, ev, vv = nm("o"), nm("e"), nm("v")        # entry-local names are unique per unit: the units share one main()
        for kind, names, use in (("function+model", [M, f], ["%s = %s(a=1, b=2)" % (ov, M), "println(%s(%s))" % (f, ov)]),
                                 ("enum", [E], ["%s = %s.Ci(3)" % (ev, E), "match %s:" % ev, "    case %s.Ci(%s):" % (E, vv), "        println(%s)" % vv, "    case _:", "        println(0)"]),
                                 ("const", [K], ["println(%s + 1)" % K])):
            # one unit per kind: its own copy of the module under its own directory
            dd = [nm("d")] + dirs
            mm = nm("m")
            imp, _ = mf_import(dd + [mm], names, "dot" if depth == 1 else "colon")
            units.append(MFUnit("item kind=%s depth=%d" % (kind, depth + 1), {"/".join(dd + [mm]) + ".incn": text}, imp, use))
    # diamond: p and q import r; the entry imports all three
    for depth in (1, 2):
        d = [nm("d")] if depth == 2 else []
        r, p, q, fr, fp, fq = nm("m"), nm("m"), nm("m"), nm("f"), nm("f"), nm("f")
        pre = ".".join(d + [""]) if d else ""
        files = {"/".join(d + [r]) + ".incn": "pub def %s() -> int:\n    return 7\n" % fr,
                 "/".join(d + [p]) + ".incn": "from %s%s import %s\n\npub def %s() -> int:\n    return %s() + 1\n" % (pre, r, fr, fp, fr),
                 "/".join(d + [q]) + ".incn": "from %s%s import %s\n\npub def %s() -> int:\n    return %s() + 2\n" % (pre, r, fr, fq, fr)}
        units.append(MFUnit("diamond depth=%d (absolute imports inside modules)" % depth, files,
                            ["from %s%s import %s" % (pre, x, y) for x, y in ((p, fp), (q, fq), (r, fr))],
                            ["println(%s() + %s() + %s())" % (fp, fq, fr)]))
    # relative imports inside nested modules
    d1, d2, a, b, c, fa, fb, fc = nm("d"), nm("d"), nm("m"), nm("m"), nm("m"), nm("f"), nm("f"), nm("f")
    units.append(MFUnit("relative import `from .x` (sibling) inside a nested module",
                        {"%s/%s.incn" % (d1, a): "pub def %s() -> int:\n    return 3\n" % fa,
                         "%s/%s.incn" % (d1, b): "from .%s import %s\n\npub def %s() -> int:\n    return %s() + 1\n" % (a, fa, fb, fa)},
                        ["from %s.%s import %s" % (d1, b, fb)], ["println(%s())" % fb]))
    d3, d4, a2, c2, fa2, fc2 = nm("d"), nm("d"), nm("m"), nm("m"), nm("f"), nm("f")
    units.append(MFUnit("relative import `from ..x` (parent directory) inside a nested module",
                        {"%s/%s.incn" % (d3, a2): "pub def %s() -> int:\n    return 3\n" % fa2,
                         "%s/%s/%s.incn" % (d3, d4, c2): "from ..%s import %s\n\npub def %s() -> int:\n    return %s() + 1\n" % (a2, fa2, fc2, fa2)},
                        ["from %s.%s.%s import %s" % (d3, d4, c2, fc2)], ["println(%s())" % fc2]))
    return units


def mf_project(units, stem):
    files = {}
    imports, body = [], []
    for u in units:
        files.update(u.files)
        imports += u.imports
        body += u.uses
    files[stem + ".incn"] = "\n".join(imports) + "\n\n\ndef main() -> None:\n" + "\n".join("    " + l for l in body) + "\n"
    return files


def mf_write(root, files):
    for rel, text in files.items():
        p = os.path.join(root, rel)
        os.makedirs(os.path.dirname(p), exist_ok=True)
        open(p, "w").write(text)


def mf_run(binary, root, stem, files):
    """(check verdict, build verdict, message) for one project written under `root` (the entry's directory)"""
    shutil.rmtree(root, ignore_errors=True)
    mf_write(root, files)
    out = vlib.run_harness(binary, ["run", "c01", "check"], "%s\t%s.incn\n" % (root, stem), timeout=600)
    line = next((l for l in out.split("\n") if l.startswith("@@ ")), "@@ ? fail no verdict")
    chk_ok = line.split(" ", 3)[2] == "ok"
    if not chk_ok:
        return False, None, line[:600]
    ok, msg, _ = c01.build_programs(binary, root, [(stem, files[stem + ".incn"])])[stem]
    return True, ok, msg


MF_KNOWN = {"module and directory with the same stem": "module-dir-same-stem",
            "top-level module and directory with the same stem": "module-dir-same-stem",
            "relative import `from ..x` (parent directory) inside a nested module": "relative-parent-import"}


def mf_describe(u, stem, layout):
    files = mf_project([u], stem)
    pre = "" if layout == "root" else "src/"
    return "\n".join("# ---- %s%s\n%s" % (pre, rel, text) for rel, text in sorted(files.items()))


def mf_errors(msg):
    return [b for b in re.split(r"\n(?=error|warning)", msg or "") if b.startswith("error") and "could not compile" not in b and "aborting" not in b]



# ---- f-strings with several interpolations (audit after seed C17-4).  The parser parses every `{...}` from its own
# substring, so the spans of NESTED sub-expressions are relative to the interpolation, and the checker's span-keyed maps
# (expression types, identifier kinds) are last-writer-wins over the whole file.  Known class `fstring-span-collision`:
# two interpolations anywhere in the file have a nested sub-expression at the same relative (start, end) with different
# static types.  Every program outside that class must build.
FS_VARS = {"a": "int", "b": "int", "xx": "float", "yy": "float", "x": "float", "y": "float"}


def fs_nested(text):
    """[(start, end, type)] of the nested operands of `V op W` (atoms have none: they carry the f-string's span)"""
    m = re.fullmatch(r"(\w+(?:\.\d+)?) (\+|-|\*|//|%|/) (\w+(?:\.\d+)?)", text)
    if not m:
        return []
    def ty(t):
        return FS_VARS.get(t) or ("float" if "." in t else "int")
    return [(m.start(1), m.end(1), ty(m.group(1))), (m.start(3), m.end(3), ty(m.group(3)))]


def fs_collides(texts):
    seen = {}
    for t in texts:
        for s, e, ty in fs_nested(t):
            if seen.setdefault((s, e), ty) != ty:
                return True
    return False


def fs_program(fstrings):
    lines = ["def main() -> None:", "    a: int = 7", "    b: int = 2", "    x: float = 2.5", "    y: float = 0.5", "    xx: float = 1.5", "    yy: float = 4.0"]
    for parts in fstrings:
        lines.append('    println(f"%s")' % " ".join("{%s}" % t for t in parts))
    return "\n".join(lines) + "\n"


def fstring_oracle(chk, binary, known):
    rng = chk.rng
    consistent = ["a + b", "a + 1", "b * 2", "a // b", "a % b", "a - 1", "a / b", "xx + yy", "yy * xx", "xx // yy", "xx % yy", "xx / yy",
                  "a + xx", "b * yy", "xx + a", "yy - b", "a", "xx", "b", "a + yy"]
    assert not fs_collides(consistent)
    fstrings = [[t] for t in consistent]
    for _ in range(40):
        k = rng.choice([2, 2, 3, 4])
        fstrings.append([rng.choice(consistent) for _ in range(k)])
    demanded = fs_program(fstrings)
    witnesses = {"same-fstring": fs_program([["a + 1", "x + a"]]),
                 "two-statements": fs_program([["x + 1"], ["a + 1"]])}
    assert all(fs_collides(re.findall(r"\{([^}]*)\}", w)) for w in witnesses.values())
    tagp = "c02fs%dp%d" % (chk.seed % 100000, os.getpid() % 100000)
    progs = [(tagp + "d", demanded)] + [(tagp + "w%d" % i, witnesses[k]) for i, k in enumerate(sorted(witnesses))]
    real = c01.emit_real(binary, [src for _, src in progs])
    fails, reproduced = [], set()
    stats = {"fstring_family": {"interpolation_pool": consistent, "fstrings_in_demanded_program": len(fstrings),
                                "interpolations_per_fstring": {str(k): sum(1 for f in fstrings if len(f) == k) for k in (1, 2, 3, 4)},
                                "witnesses_in_known_class": sorted(witnesses)}}
    d = c01.scratch_dir("c02fs")
    try:
        accepted = [(stem, src) for (stem, src), r in zip(progs, real) if not r.get("check") and "panic" not in r]
        if (tagp + "d") not in [s_ for s_, _ in accepted]:
            raise vlib.Infra("c02 f-string family: the collision-free program is rejected by the checker: %s" % str(real[0])[:400])
        built = c01.build_programs(binary, d, accepted)
        ok, msg, _ = built[tagp + "d"]
        if not ok:
            errs = "\n".join(b for b in re.split(r"\n(?=error|warning)", msg) if b.startswith("error"))[:2500]
            fails.append({"case": "f-strings with 1-4 interpolations whose nested sub-expressions have one static type per relative position",
                          "program": demanded, "accepted_by": "real checker", "stage": "rustc", "actual": errs or msg[-1500:],
                          "why": "the checker accepts this program, code generation succeeds, rustc rejects the generated Rust"})
        else:
            chk.count_case(("fstring-family", demanded), nontrivial=True)
        for stem, _ in accepted[1:]:
            if not built[stem][0]:
                reproduced.add("fstring-span-collision")
    finally:
        shutil.rmtree(d, ignore_errors=True)
        c01.clean_gen_target([stem for stem, _ in progs])
    if "fstring-span-collision" in reproduced and "fstring-span-collision" not in known:
        fails.append({"case": "f-string interpolations with colliding relative spans", "program": witnesses["same-fstring"], "accepted_by": "real checker",
                      "stage": "rustc", "why": "the checker accepts this program, code generation succeeds, rustc rejects the generated Rust "
                                               "(`a + (1) as f64` for int a: the type recorded for the literal comes from the other interpolation)"})
    return fails, stats, reproduced


def mf_oracle(chk, binary, known):
    """multi-file build family. Returns (fails, stats, reproduced known ids)."""
    units = mf_units(chk.rng)
    fails, stats, reproduced = [], {}, set()
    root = os.path.join(vlib.BUILD, "c02mf-%d" % os.getpid())
    tagp = "c02mf%dp%d" % (chk.seed % 100000, os.getpid() % 100000)
    stems = []
    demanded = [u for u in units if not (MF_KNOWN.get(u.key) in known)]
    excused = [u for u in units if MF_KNOWN.get(u.key) in known]
    stats["multifile_units"] = {u.key: len(u.files) for u in units}
    stats["multifile_units_excused_by_known_class"] = [u.key for u in excused]
    owner = {}
    for u in units:
        for t in u.top():
            owner[t] = u

    def alone(u, layout, n):
        stem = "%su%d%s" % (tagp, n, layout[0])
        stems.append(stem)
        d = os.path.join(root, "u%d%s" % (n, layout[0])) + ("" if layout == "root" else "/src")
        return (stem,) + mf_run(binary, d, stem, mf_project([u], stem))

    try:
        n_built = 0
        # every unit alone through the real multi-file `--check` (no cargo): only accepted units are packed and demanded
        lines, dirs = [], {}
        for i, u in enumerate(demanded):
            d0 = os.path.join(root, "chk%d" % i)
            mf_write(d0, mf_project([u], "e%d" % i))
            lines.append("%s\te%d.incn" % (d0, i))
        out = vlib.run_harness(binary, ["run", "c01", "check"], "\n".join(lines) + "\n", timeout=900)
        verdicts = [l for l in out.split("\n") if l.startswith("@@ ")]
        if len(verdicts) != len(demanded):
            raise vlib.Infra("c02 multi-file check: %d verdicts for %d units" % (len(verdicts), len(demanded)))
        rejected = [(u.key, v[:300]) for u, v in zip(demanded, verdicts) if v.split(" ", 3)[2] != "ok"]
        demanded = [u for u, v in zip(demanded, verdicts) if v.split(" ", 3)[2] == "ok"]
        stats["multifile_units_rejected_by_check"] = [k for k, _ in rejected]
        if rejected:
            chk.notes.append({"note": "multi-file units rejected by `incan --check` (not judged by C02)", "units": rejected[:6]})
        for layout in ("root", "src"):
            stem = "%s%s" % (tagp, layout[0])
            stems.append(stem)
            d = os.path.join(root, "all-" + layout) + ("" if layout == "root" else "/src")
            c_ok, b_ok, msg = mf_run(binary, d, stem, mf_project(demanded, stem))
            n_built += 1
            suspects = []
            if not c_ok:
                # which unit does the checker reject?  (cheap: no cargo involved)
                chk.notes.append({"note": "multi-file project rejected by --check (entry in %s)" % layout, "message": (msg or "")[:600]})
                # judge every unit on its own instead
                suspects = list(demanded)
            elif b_ok:
                for u in demanded:
                    chk.count_case(("multifile", layout, u.key, tuple(sorted(u.files.items()))), nontrivial=True)
                stats["multifile_units_built(entry in %s)" % layout] = len(demanded)
                continue
            else:
                errs = mf_errors(msg)
                tops = set()
                for b in errs:
                    for m in re.finditer(r"src/(\w+)", b):
                        tops.add(m.group(1))
                    for m in re.finditer(r"`(\w+)`", b):
                        tops.add(m.group(1))
                suspects = [u for u in demanded if set(u.top()) & tops] or list(demanded)
            seen = set()
            for i, u in enumerate(demanded):
                if u not in suspects or u.key in seen or len(seen) >= 10:
                    continue
                seen.add(u.key)
                stem1, c1, b1, m1 = alone(u, layout, i)
                n_built += 1
                if c1 and b1 is False:
                    fails.append({"case": mf_describe(u, stem1, layout), "unit": u.key, "entry": "project root" if layout == "root" else "src/",
                                  "files": mf_project([u], stem1), "accepted_by": "real `incan --check` (check_file, imports included)", "stage": "rustc / cargo",
                                  "actual": "\n".join(mf_errors(m1))[:2500] or (m1 or "")[-1500:],
                                  "why": "the checker accepts this multi-file project, code generation succeeds, the generated Cargo project does not build"})
            if c_ok and not fails:
                fails.append({"case": "packed project of %d units (entry in %s)" % (len(demanded), layout), "files": mf_project(demanded, stem), "stage": "rustc / cargo",
                              "accepted_by": "real `incan --check`", "actual": "\n".join(mf_errors(msg))[:2500],
                              "why": "the checker accepts this multi-file project, code generation succeeds, the generated Cargo project does not build "
                                     "(every unit builds on its own: interaction between units)"})
        # ---- listed classes: one witness unit each, alone
        done = set()
        for i, u in enumerate(excused):
            fid = MF_KNOWN[u.key]
            if fid in done:
                continue
            stem1, c1, b1, m1 = alone(u, "root", 100 + i)
            n_built += 1
            if c1 and b1 is False:
                reproduced.add(fid)
                done.add(fid)
        stats["multifile_cargo_builds"] = n_built
    finally:
        shutil.rmtree(root, ignore_errors=True)
        c01.clean_gen_target(stems)
    vlib.log("[c02] multi-file family: %d units (%d demanded), %d failures" % (len(units), len(demanded), len(fails)))
    return fails, stats, reproduced
