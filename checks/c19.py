"""C19 — editor positions and byte offsets convert consistently.

proof:   coq/C19/Props.v over the hand model coq/C19/Model.v (offset_to_position,
         position_to_offset, span_to_range, get_line_info + format_error's caret arithmetic).
tie:     correspondence: the model is evaluated inside coqc (vm_compute) and compared with the real
         functions (harness/src/c19.rs): for every document of <= N scalars over {a, e-acute, euro,
         emoji, LF, CR} the WHOLE table (all offsets 0..len+1, all positions of the (n+2)^2 grid, all
         spans (a,b) in (0..len+1)^2) is compared (model side as a hash of the table, full table on
         a mismatch), plus single queries on random long documents and extreme offsets/positions
         (debug build <-> mode Trap, release build <-> mode Wrap).
oracle:  Python's own string semantics (str.count / rfind / split / encode) judge every
         implementation answer: round trip, strict monotonicity, newline/character counting,
         p2o soundness, range well-formedness, terminal line/column, caret shape, and the LSP
         (UTF-16) meaning of `character`."""
import bisect
import collections
import glob
import itertools
import json
import os
import time

import vlib

ALPHA = [0x61, 0xE9, 0x20AC, 0x1F600, 0x0A, 0x0D]
USIZE_MAX = 2**64 - 1
U32_MAX = 2**32 - 1
HASH_P = 2305843009213693951
TRAP = -9


# ----------------------------------------------------------------------------- documents

def runs(doc):
    out = []
    for c in doc:
        if out and out[-1][0] == c:
            out[-1][1] += 1
        else:
            out.append([c, 1])
    return out


def doc_str(doc):
    """harness spelling: scalars separated by commas, `c*n` for a run of n copies"""
    if not doc:
        return "-"
    return ",".join(str(c) if n == 1 else "%d*%d" % (c, n) for c, n in runs(doc))


def doc_coq(doc):
    """Gallina spelling: list literal, long runs as [repeat c (Z.to_nat n)]"""
    parts, lit = [], []
    for c, n in runs(doc):
        if n >= 8:
            if lit:
                parts.append("[" + "; ".join(lit) + "]")
                lit = []
            parts.append("repeat %d (Z.to_nat %d)" % (c, n))
        else:
            lit += [str(c)] * n
    if lit or not parts:
        parts.append("[" + "; ".join(lit) + "]")
    return "(" + " ++ ".join(parts) + ")"


def blen(c):
    return len(chr(c).encode("utf-8"))


class Doc:
    """Python's own view of a document (independent of the Coq model)."""

    def __init__(self, doc):
        self.doc = list(doc)
        self.s = "".join(chr(c) for c in doc)
        self.b = self.s.encode("utf-8")
        self.len = len(self.b)
        self.starts = []
        o = 0
        for ch in self.s:
            self.starts.append(o)
            o += len(ch.encode("utf-8"))
        self.bounds = self.starts + [self.len]
        self.boundset = set(self.bounds)
        self.lines = self.s.split("\n")

    def prefix(self, o):
        """the scalars that start before byte o (o clamped to the length)"""
        o = min(o, self.len)
        return self.s[:bisect.bisect_left(self.starts, o)]

    def pos(self, o):
        p = self.prefix(o)
        return (p.count("\n"), len(p) - (p.rfind("\n") + 1))

    def pos16(self, o):
        p = self.prefix(o)
        tail = p[p.rfind("\n") + 1:]
        return (p.count("\n"), len(tail.encode("utf-16-le")) // 2)

    def astral_before(self, o):
        p = self.prefix(o)
        tail = p[p.rfind("\n") + 1:]
        return any(ord(ch) >= 0x10000 for ch in tail)

    def multibyte_before(self, o):
        p = self.prefix(o)
        tail = p[p.rfind("\n") + 1:]
        return any(ord(ch) >= 0x80 for ch in tail)

    def valid(self, pos):
        l, c = pos
        return 0 <= l < len(self.lines) and 0 <= c <= len(self.lines[l])

    def offset_of(self, pos):
        """byte offset of a valid position, by Python slicing"""
        l, c = pos
        before = "\n".join(self.lines[:l]) + ("\n" if l > 0 else "")
        return len((before + self.lines[l][:c]).encode("utf-8"))


# ----------------------------------------------------------------------------- oracle

class Oracle:
    def __init__(self, chk, build):
        self.chk = chk
        self.build = build
        self.fails = []
        self.known_ids = {f["id"] for f in chk.findings if f.get("status") == "known"}
        self.suppressed = {}

    def fail(self, D, query, why, expected=None, actual=None, then=None):
        """query (and the optional follow-up `then`) are harness input lines: the replay re-runs them"""
        f = {"doc": doc_str(D.doc), "text": D.s[:200], "query": query, "build": self.build, "why": why,
             "expected": expected, "actual": actual}
        if then:
            f["then"] = then
        self.fails.append(f)

    def known(self, fid):
        if fid in self.known_ids:
            self.suppressed[fid] = self.suppressed.get(fid, 0) + 1
            return True
        return False

    def o2p(self, D, o, got):
        q = "o2p %s %d" % (doc_str(D.doc), o)
        if got[0] == TRAP:
            return self.fail(D, q, "offset_to_position panicked", None, got)
        want = D.pos(o)
        if tuple(got) != want:
            return self.fail(D, q, "line/character do not agree with counting newlines and characters", want, got)
        want16 = D.pos16(o)
        if tuple(got) != want16:
            # class decided by the precise predicate: an astral scalar in the line prefix
            if D.astral_before(o) and got[0] == want16[0] and self.known("utf16-astral-column"):
                return None
            return self.fail(D, q, "character is not the UTF-16 column the LSP default encoding asks for", want16, got)

    def p2o(self, D, l, c, got):
        q = "p2o %s %d %d" % (doc_str(D.doc), l, c)
        if got == TRAP:
            return self.fail(D, q, "position_to_offset panicked", None, got)
        if got != -1 and got not in D.boundset:
            return self.fail(D, q, "position_to_offset returned an offset that is not a character boundary", None, got)
        if D.valid((l, c)):
            want = D.offset_of((l, c))
            if got != want:
                return self.fail(D, q, "a position inside the document must map to its own offset", want, got)

    def roundtrip_monotone(self, D, o2p_at, p2o_at):
        """o2p_at: dict boundary offset -> pos ; p2o_at: callable pos -> offset or -1"""
        prev = None
        for o in sorted(o2p_at):
            p = tuple(o2p_at[o])
            if p[0] == TRAP:
                continue
            back = p2o_at(p)
            if back != o:
                self.fail(D, "o2p %s %d" % (doc_str(D.doc), o), "round trip offset -> position -> offset: position_to_offset(%s) "
                          "does not give the offset back" % (p,), o, back, then="p2o %s %d %d" % (doc_str(D.doc), p[0], p[1]))
            if prev is not None and not prev[1] < p:
                self.fail(D, "o2p %s %d" % (doc_str(D.doc), o), "positions not strictly increasing: boundary offset %d has %s"
                          % prev, "> " + str(prev[1]), p, then="o2p %s %d" % (doc_str(D.doc), prev[0]))
            prev = (o, p)

    def rng(self, D, a, b, got):
        q = "rng %s %d %d" % (doc_str(D.doc), a, b)
        if got[0] == TRAP:
            return self.fail(D, q, "span_to_range panicked", "a range with start <= end", got)
        s, e = (got[0], got[1]), (got[2], got[3])
        if not (s <= e and D.valid(s) and D.valid(e)):
            return self.fail(D, q, "range not well-formed (start <= end, both inside the document)", "start <= end inside", got)
        if s != D.pos(a):
            return self.fail(D, q, "range start is not the position of the span start", D.pos(a), s)
        if a < b and e != D.pos(b):
            return self.fail(D, q, "range end is not the position of the span end", D.pos(b), e)

    def car(self, D, a, b, got):
        """got = (line, col, spaces, carets, text) or None for panic"""
        q = "car %s %d %d" % (doc_str(D.doc), a, b)
        if got is None:
            return self.fail(D, q, "format_error panicked", None, None)
        line, col, spaces, carets, text = got
        l, c = D.pos(a)
        if line != l + 1:
            return self.fail(D, q, "terminal line is not editor line + 1", l + 1, line)
        if text != [ord(ch) for ch in D.lines[l]]:
            return self.fail(D, q, "line text is not the line of the offset", D.lines[l], text)
        o = min(a, D.len)
        if o in D.boundset and col != c + 1:
            # the property reads "column agrees with counting characters"; the code counts bytes: the class
            # is decided by the precise predicate (a multi-byte scalar in the line prefix) and the byte count
            want = len(D.lines[l][:c].encode("utf-8")) + 1
            if not (D.multibyte_before(a) and col == want and self.known("terminal-column-bytes")):
                return self.fail(D, q, "terminal column is not the 1-based character column (nor, in the known class, "
                                 "the 1-based byte column %d)" % want, c + 1, col)
        tl = len(D.lines[l].encode("utf-8"))
        if not (col >= 1 and spaces == col - 1 and carets >= 1 and spaces + carets <= tl + 1):
            return self.fail(D, q, "caret line ill-formed (col>=1, spaces=col-1, carets>=1, caret stays within line+1)", None, got)


# ----------------------------------------------------------------------------- tables

def table_shape(D, K):
    n = D.len + 2
    return n, K + 1


def decode_table(D, K, xs):
    """split the flat table of harness/model into its parts; returns dict or None when malformed"""
    n, g = table_shape(D, K)
    it = iter(xs)
    try:
        o2p = [(next(it), next(it)) for _ in range(n)]
        p2o = [[next(it) for _ in range(g)] for _ in range(g)]
        li = []
        for _ in range(n):
            ln, cn, tl = next(it), next(it), next(it)
            li.append((ln, cn, [next(it) for _ in range(tl)]))
        spans = {}
        for a in range(n):
            for b in range(n):
                sp, ul = next(it), next(it)
                r = (next(it), next(it), next(it), next(it))
                spans[(a, b)] = (sp, ul, r)
    except StopIteration:
        return None
    if next(it, None) is not None:
        return None
    return {"o2p": o2p, "p2o": p2o, "li": li, "spans": spans}


def hash_list(xs):
    h = 7
    for x in xs:
        h = (h * 1000003 + x + 11) % HASH_P
    return h


def judge_table(orc, D, K, t, arms):
    n, g = table_shape(D, K)
    for o in range(n):
        orc.o2p(D, o, t["o2p"][o])
        arms.o2p(D, o)
    for l in range(g):
        for c in range(g):
            orc.p2o(D, l, c, t["p2o"][l][c])
            arms.p2o(D, l, c)

    def p2o_at(p):
        return t["p2o"][p[0]][p[1]] if p[0] < g and p[1] < g else None
    orc.roundtrip_monotone(D, {o: t["o2p"][o] for o in D.bounds}, p2o_at)
    for a in range(n):
        ln, cn, text = t["li"][a]
        for b in range(n):
            sp, ul, r = t["spans"][(a, b)]
            orc.rng(D, a, b, r)
            orc.car(D, a, b, None if sp == TRAP or ln == TRAP else (ln, cn, sp, ul, text))
            arms.rng(D, a, b)
            if ln != TRAP:
                arms.car(D, a, b, cn, sum(blen(c) for c in text))


# ----------------------------------------------------------------------------- generators

def exhaustive_docs(maxlen):
    for k in range(maxlen + 1):
        for d in itertools.product(ALPHA, repeat=k):
            yield list(d)


def random_scalar(rng):
    k = rng.random()
    if k < 0.45:
        return rng.choice([0x61, 0x20, 0x7A, 0x30, 0x09, 0x7F])
    if k < 0.60:
        return 0x0A
    if k < 0.66:
        return 0x0D
    if k < 0.78:
        return rng.choice([0x80, 0xE9, 0x7FF, rng.randint(0x80, 0x7FF)])
    if k < 0.90:
        c = rng.choice([0x800, 0x20AC, 0xFFFF, 0xD7FF, 0xE000, 0xFEFF, rng.randint(0x800, 0xFFFF)])
        return c if not (0xD800 <= c <= 0xDFFF) else 0x20AC
    return rng.choice([0x10000, 0x1F600, 0x10FFFF, rng.randint(0x10000, 0x10FFFF)])


def random_doc(rng, n):
    style = rng.random()
    doc = [random_scalar(rng) for _ in range(n)]
    if style < 0.25:  # CRLF line ends
        out = []
        for c in doc:
            if c == 0x0A:
                out += [0x0D, 0x0A]
            elif c != 0x0D:
                out.append(c)
        doc = out
    elif style < 0.35:  # no newline at all
        doc = [c for c in doc if c != 0x0A]
    elif style < 0.45:  # many empty lines
        doc = [0x0A if rng.random() < 0.5 else c for c in doc]
    return doc


def single_queries(rng, doc, n_each):
    """(op, args) queries on one long document: boundaries, mid-scalar, past the end, extremes"""
    D = Doc(doc)
    qs = []
    offs = list(D.bounds) + [o + 1 for o in D.starts] + [D.len + 1, D.len + 2, 2**32, 2**63 - 1, 2**63, USIZE_MAX - 1, USIZE_MAX]
    pick = lambda: rng.choice(offs) if rng.random() < 0.85 else rng.randint(0, D.len + 3)
    for _ in range(n_each):
        qs.append(("o2p", (pick(),)))
    nl = len(D.lines)
    for _ in range(n_each):
        k = rng.random()
        l = rng.randint(0, nl + 1) if k < 0.9 else rng.choice([U32_MAX, 2**31, nl + 5])
        ll = len(D.lines[l]) if l < nl else 3
        c = rng.randint(0, ll + 2) if k < 0.9 else rng.choice([U32_MAX, 2**31, ll + 7])
        qs.append(("p2o", (l, c)))
    for _ in range(n_each):
        a, b = pick(), pick()
        qs.append(("rng", (a, b)))
        qs.append(("car", (a, b)))
    return D, qs


def q_line(doc, op, args):
    return "%s %s %s" % (op, doc_str(doc), " ".join(str(a) for a in args))


def q_coq(doc, op, args):
    """doc: list of scalars, or the name of a Coq definition holding them"""
    ctor = {"o2p": "CO2p", "p2o": "CP2o", "rng": "CRng", "car": "CCar", "tab": "CTab", "hash": "CHash"}[op]
    return "%s %s %s" % (ctor, doc if isinstance(doc, str) else doc_coq(doc), " ".join(vlib.zlit(a) for a in args))


def parse_ints(line):
    """harness line -> (list of ints, note)"""
    body, _, note = line.partition(" # ")
    if body.startswith(("X", "E")):
        return None, line
    return [int(x) for x in body.split()], note



def parse_doc_str(t):
    if t == "-":
        return []
    out = []
    for item in t.split(","):
        c, _, n = item.partition("*")
        out += [int(c)] * (int(n) if n else 1)
    return out


# ----------------------------------------------------------------------------- scale documents

MODEL_MAX = 12000
SCALES = [0, 1, 2, 16, 17, 63, 64, 65, 255, 256, 257, 1000, 65535, 65536, 65537]


def scale_docs(thorough):
    """documents whose line length / line count / scalar count sit on and around powers of two
    (u8/u16 truncation of a counter, buffer sizes, gutter widths 9->10->100->1000->10000->100000)"""
    out = []
    for n in SCALES if thorough else [n for n in SCALES if n not in (63, 65, 65535)]:
        out.append([0x61] * n + [0xE9, 0x62])            # one long line, then a 2-byte scalar
        out.append([0x0A] * n + [0x61, 0x1F600])           # n empty lines
        if n <= 1000 or thorough:
            out.append([0xE9, 0x0D, 0x0A] * n + [0x7A])   # n CRLF lines with a multi-byte scalar
    for n in (9, 10, 99, 100, 999, 1000, 9999, 10000):     # line-number width of the terminal gutter
        out.append([0x78, 0x0A] * (n - 1) + [0x79, 0x79])
    # tabs, zero-width, combining and wide characters on one line before an ASCII target
    out.append([0x09, 0x61, 0x200B, 0x62, 0x0301, 0x4E2D, 0xFF21, 0x1F1E9, 0x1F1EA, 0x63, 0x0A, 0x64])
    return out


def scale_queries(doc):
    D = Doc(doc)
    n = len(doc)
    offs = sorted({o for o in (0, 1, 2, D.len - 3, D.len - 2, D.len - 1, D.len, D.len + 1, 254, 255, 256, 257, 65535, 65536, 65537,
                               D.len // 2, 2**32, USIZE_MAX) if o >= 0})
    qs = [("o2p", (o,)) for o in offs]
    nl = len(D.lines)
    last = len(D.lines[-1])
    for l, c in ((0, 0), (0, n), (0, 255), (0, 256), (0, 65535), (0, 65536), (nl - 1, last), (nl - 1, last + 1), (nl - 1, 0),
                 (nl, 0), (255, 0), (256, 0), (256, 1), (65535, 0), (65536, 0), (65536, 1), (nl // 2, 1), (U32_MAX, 0), (0, U32_MAX)):
        qs.append(("p2o", (l, c)))
    for a, b in ((0, D.len), (D.len - 1, D.len), (D.len, D.len + 5), (D.len - 2, 0), (D.len // 2, D.len // 2 + 300), (255, 257),
                 (65535, 65537), (D.len + 1, D.len + 2)):
        if a >= 0:
            qs.append(("rng", (a, b)))
            qs.append(("car", (a, b)))
    return D, qs


# ----------------------------------------------------------------------------- which arms of the model a case reaches

class Arms:
    """A Python mirror of the CONTROL FLOW of coq/C19/Model.v, used only to count which arm of each
    modelled function the correspondence stream reaches (coverage["model_arm_hits"])."""
    NAMES = ["o2p.clamp", "o2p.noclamp", "o2p.break", "o2p.nl", "o2p.other", "o2p.end_of_text",
             "p2o.nil_match", "p2o.nil_nomatch", "p2o.cons_match", "p2o.nl_clamp", "p2o.nl_next", "p2o.other",
             "span.end_wins", "span.forced_start_plus_1", "span.saturated",
             "gli.clamp", "gli.noclamp", "gli.break", "gli.nl", "gli.other", "gli.end_of_text",
             "line_info.find_nl_some", "line_info.find_nl_none",
             "underline.empty_or_reversed", "underline.min_end_in_line", "underline.min_line_len",
             "underline.max_one", "underline.max_value"]
    UNREACHABLE = {"u32add.overflow": "proved unreachable below 2^32 scalars (C19_counters_fit)",
                   "uadd/usub.overflow": "proved unreachable below 2^64-1 bytes (C19_line_info_consistent, C19_render_total)",
                   "line_info.slice_off_boundary": "proved unreachable (C19_line_info_consistent)"}

    def __init__(self):
        self.h = collections.Counter({n: 0 for n in self.NAMES})

    def scan(self, pre, D, o):
        self.h[pre + (".clamp" if o > D.len else ".noclamp")] += 1
        off = min(o, D.len)
        k = bisect.bisect_left(D.starts, off)
        nls = D.s.count("\n", 0, k)
        self.h[pre + ".nl"] += nls
        self.h[pre + ".other"] += k - nls
        self.h[pre + (".break" if k < len(D.starts) else ".end_of_text")] += 1

    def o2p(self, D, o):
        self.scan("o2p", D, o)

    def p2o(self, D, pl, pc):
        line = col = 0
        for ch in D.s:
            if line == pl and col == pc:
                self.h["p2o.cons_match"] += 1
                return
            if ch == "\n":
                if line == pl:
                    self.h["p2o.nl_clamp"] += 1
                    return
                self.h["p2o.nl_next"] += 1
                line, col = line + 1, 0
            else:
                self.h["p2o.other"] += 1
                col += 1
        self.h["p2o.nil_match" if (line == pl and col == pc) else "p2o.nil_nomatch"] += 1

    def rng(self, D, a, b):
        if a == USIZE_MAX:
            self.h["span.saturated"] += 1
        self.h["span.end_wins" if b > min(a + 1, USIZE_MAX) else "span.forced_start_plus_1"] += 1
        self.o2p(D, a)
        self.o2p(D, max(b, min(a + 1, USIZE_MAX)))

    def car(self, D, a, b, cn, tl):
        self.scan("gli", D, a)
        l = D.pos(a)[0]
        self.h["line_info.find_nl_some" if l < len(D.lines) - 1 else "line_info.find_nl_none"] += 1
        if not (a < b and cn > 0):
            self.h["underline.empty_or_reversed"] += 1
            return
        so = max(0, a - max(0, cn - 1))
        eil = max(0, b - so)
        self.h["underline.min_end_in_line" if eil <= tl else "underline.min_line_len"] += 1
        self.h["underline.max_value" if max(0, min(eil, tl) - max(0, cn - 1)) >= 1 else "underline.max_one"] += 1


# ----------------------------------------------------------------------------- through the language server

def lsp_sources(rng, thorough):
    """Incan programs from the repository's examples and test fixtures, each in several layouts."""
    files = sorted(glob.glob(os.path.join(vlib.REPO, "examples", "**", "*.incn"), recursive=True)
                   + glob.glob(os.path.join(vlib.REPO, "tests", "**", "*.incn"), recursive=True))
    texts = []
    for f in files:
        try:
            t = open(f, encoding="utf-8").read()
        except (OSError, UnicodeDecodeError):
            continue
        if 0 < len(t) <= 6000:
            texts.append((os.path.relpath(f, vlib.REPO), t))
    rng.shuffle(texts)
    texts = texts[:60 if thorough else 14]
    bad = 'def c19_bad() -> int:\n    return "é\U0001F600€" + c19_unknown_name\n'
    out = []
    for name, t in texts:
        out.append((name, t))
        out.append((name + " [CRLF, error at the end]",
                    (t + ("" if t.endswith("\n") else "\n") + "\n" + bad).replace("\r\n", "\n").replace("\n", "\r\n")))
        out.append((name + " [non-ASCII header, error after astral text]",
                    "# é\U0001F600 中文 header\n" + t + ("" if t.endswith("\n") else "\n") + "\n" + bad))
        out.append((name + " [consts with non-ASCII strings]",
                    'const C19_A: str = "\U0001F600é"\nconst C19_B: int = 7\n' + t))
    out.append(("<lex error after non-ASCII>", 'const S: str = "é\U0001F600"\nx = "unterminated €\n'))
    out.append(("<parse error>", "# \U0001F600\ndef f( -> int:\n    return 1\n"))
    out.append(("<empty>", ""))
    return out


def lsp_positions(D, rng):
    ps = []
    nl = len(D.lines)
    for l in sorted(set([0, 1, 2, nl - 1, nl, nl + 1] + [rng.randrange(0, nl) for _ in range(14)])):
        if l < 0:
            continue
        ll = len(D.lines[l]) if l < nl else 0
        for c in sorted({0, 1, 4, ll // 2, max(ll - 1, 0), ll, ll + 3}):
            ps.append((l, c))
    return ps


def lsp_stream(chk, binary, orc, rng, thorough, dist):
    srcs = lsp_sources(rng, thorough)
    cases = []
    for name, t in srcs:
        D = Doc([ord(ch) for ch in t])
        cases.append((name, D, lsp_positions(D, rng)))
    text = "".join("lsp " + json.dumps({"text": D.s, "positions": ps}) + "\n" for _, D, ps in cases)
    out = vlib.run_harness(binary, ["run", "c19"], text, timeout=1200).split("\n")[:len(cases)]
    if len(out) != len(cases):
        raise vlib.Infra("harness returned a wrong number of lsp lines")
    st = {"documents": len(cases), "diagnostics": 0, "hover_ranges": 0, "definition_ranges": 0, "stages": {}, "position_encoding": None}

    def wf(r):
        return (r[0], r[1]) <= (r[2], r[3]) and D.valid((r[0], r[1])) and D.valid((r[2], r[3]))
    for (name, D, ps), line in zip(cases, out):
        r = json.loads(line)
        q = "lsp " + json.dumps({"text": D.s, "positions": ps})

        def fail(why, expected=None, actual=None):
            orc.fails.append({"doc": name, "query": q if len(q) < 20000 else None, "build": orc.build, "why": why,
                              "expected": expected, "actual": actual})
        if r.get("error"):
            fail("language server case failed: %s" % r["error"])
            continue
        st["position_encoding"] = r.get("position_encoding")
        stage, errs = r["direct"]
        st["stages"][stage] = st["stages"].get(stage, 0) + 1
        diags = r["diags"]
        chk.count_case(("lsp", name), nontrivial=True)
        if any("foreign_uri" in d for d in diags):
            fail("diagnostics published for another document", None, diags)
            continue
        if len(diags) != len(errs):
            fail("number of published diagnostics differs from the front end's errors", len(errs), len(diags))
            continue
        for d, (a, b, kind, msg) in zip(diags, errs):
            st["diagnostics"] += 1
            chk.evaluations += 1
            want = D.pos(a) + D.pos(max(b, a + 1))
            got = tuple(d["range"])
            if not d["message"].startswith(msg):
                fail("diagnostic message is not the error's message", msg, d["message"])
            elif got != want:
                fail("diagnostic range is not the position of the error span %d..%d (%s)" % (a, b, msg), want, got)
            elif not wf(got):
                fail("diagnostic range not well-formed / outside the document", None, got)
            elif any(tuple(x) != got for x in d["related"]):
                fail("related-information range differs from the diagnostic's range", got, d["related"])
            elif d["severity"] != {"warning": 2, "lint": 4}.get(kind, 1):
                fail("severity does not match the error kind %s" % kind, None, d["severity"])
        for (l, c), (hr, dr, herr, derr) in zip(ps, r["answers"]):
            chk.evaluations += 2
            if herr or derr:
                fail("hover/definition request failed at %d:%d" % (l, c), None, herr or derr)
                continue
            for what, rr in (("hover", hr), ("definition", dr)):
                if rr is None:
                    continue
                st[what + "_ranges"] += 1
                if not wf(rr):
                    fail("%s range at %d:%d not well-formed / outside the document" % (what, l, c), None, rr)
            if hr is not None:
                # the hovered declaration contains the cursor: compare in byte offsets computed by Python
                if not D.valid((l, c)):
                    ll = len(D.lines[l]) if l < len(D.lines) else None
                    cur = D.offset_of((l, ll)) if ll is not None and l < len(D.lines) - 1 else None
                else:
                    cur = D.offset_of((l, c))
                if cur is None:
                    fail("hover answered for a position outside the document (%d:%d)" % (l, c), None, hr)
                else:
                    lo, hi = D.offset_of((hr[0], hr[1])), D.offset_of((hr[2], hr[3]))
                    if not (lo <= cur < hi):
                        fail("hover range at %d:%d (offset %d) does not contain the cursor" % (l, c, cur), "lo <= %d < hi" % cur, [lo, hi])
    dist["lsp"] = st


# ----------------------------------------------------------------------------- run

REQ = "From Verif Require Import Base.I64 Base.Text C19.Model.\nOpen Scope Z_scope."


def load_findings(chk):
    # TEMPORARY: entries of build/kf-C19.json that known_findings.json does not list yet (new in the audit round);
    # the lead drops this after merging
    p = os.path.join(vlib.VERIF, "build", "kf-C19.json")
    if os.path.exists(p) and os.environ.get("VERIF_KF_DEV"):  # development only: proposals not yet merged into known_findings.json
        have = {f.get("id") for f in chk.findings}
        chk.findings = chk.findings + [f for f in json.load(open(p)) if f.get("id") not in have]


def run(chk):
    load_findings(chk)
    thorough = chk.tier == "thorough"
    chk.trusted = [
        "Coq 8.16.1 kernel (coqc, vm_compute in proofs of closed facts and in the correspondence run); no native_compute",
        "hand-written coq/C19/Model.v + coq/Base/Text.v (documents = lists of scalar values, blen = char::len_utf8), tied by the correspondence run",
        "vharness c19 adapter (parses format_error's text back into line/col/text/caret counts) + this script's differ and Python's str/encode semantics",
        "rustc/std: str::char_indices, char::len_utf8, str::find, slicing",
    ]
    chk.assumptions = [
        "documents shorter than 2^32 scalars / 2^63 bytes (hypotheses of C19_counters_fit / C19_render_total): the CLI rejects files over 100 MB; "
        "LSP documents arrive from the editor and are not size-checked by the server",
        "`character` is judged against UTF-16 units (LSP default encoding; the server negotiates no positionEncoding) in the oracle; "
        "the scalar-count reading is the one proved (C19_agrees_with_counting)",
    ]
    t0 = time.time()

    def lap(what):
        vlib.log("[c19] %-28s %6.1fs" % (what, time.time() - t0))
    res = chk.proof_stage("C19", allow_axioms=())
    lap("proof stage")
    dbg = vlib.build_harness("debug")
    rel = vlib.build_harness("release")
    rng = chk.rng

    # ---- cases
    nmax = 5 if thorough else 3
    docs = list(exhaustive_docs(nmax))
    if not thorough:
        # a seeded sample of the 4- and 5-scalar documents on the same alphabet
        for k, cnt in ((4, 250), (5, 150)):
            for _ in range(cnt):
                docs.append([rng.choice(ALPHA) for _ in range(k)])
    tabs = [(d, len(d) + 1) for d in docs]
    n_long = 400 if thorough else 60
    longs = []
    for _ in range(n_long):
        n = rng.choice([1, 2, 7, 20, 50, 120, 300]) if rng.random() < 0.8 else rng.randint(0, 400)
        longs.append(single_queries(rng, random_doc(rng, n), 12 if thorough else 6))
    # fixed corner documents
    for doc in ([], [0x0A], [0x0D, 0x0A], [0x1F600], [0x61, 0x0A, 0x0A], [0x0A, 0x1F600, 0xE9, 0x0D, 0x0A, 0x61]):
        longs.append(single_queries(rng, doc, 10))
    scales = [scale_queries(doc) for doc in scale_docs(thorough)]
    singles = [(D, op, args) for (D, qs) in longs + scales for (op, args) in qs]

    # ---- implementation
    tab_in = "".join(q_line(d, "tab", (K,)) + "\n" for d, K in tabs)
    sin_in = "".join(q_line(D.doc, op, args) + "\n" for D, op, args in singles)
    impl_tab = vlib.run_harness(dbg, ["run", "c19"], tab_in, timeout=3000).split("\n")[:len(tabs)]
    impl_sin = {"Trap": vlib.run_harness(dbg, ["run", "c19"], sin_in).split("\n")[:len(singles)],
                "Wrap": vlib.run_harness(rel, ["run", "c19"], sin_in).split("\n")[:len(singles)]}
    lap("implementation runs")
    if len(impl_tab) != len(tabs) or any(len(v) != len(singles) for v in impl_sin.values()):
        raise vlib.Infra("harness returned a wrong number of lines")

    # ---- model (inside Coq)
    model_ok = vlib.coq_build(["C19/Model.vo"])[0]
    corr_bad = []
    validated = 0
    if model_ok:
        hterms = [q_coq(d, "hash", (K,)) for d, K in tabs]
        mh = vlib.coq_eval(REQ, "case", "run_case Trap", hterms, shard=max(120, len(hterms) // 16 + 1), tag="c19h")
        # single queries: every long document is defined once per shard, both modes in one evaluation
        names, defs = {}, []
        for D, _ in longs + scales:
            names[id(D)] = "doc_%d" % len(names)
            if len(D.doc) > MODEL_MAX:
                continue
            defs.append("Definition %s : text := %s." % (names[id(D)], doc_coq(D.doc)))
        # documents above MODEL_MAX scalars are judged by the oracle only (coqc's evaluator runs out of stack on
        # the non-tail-recursive text functions; the theorems cover every size)
        in_model = [j for j, (D, op, args) in enumerate(singles) if len(D.doc) <= MODEL_MAX]
        sterms = [q_coq(names[id(singles[j][0])], singles[j][1], singles[j][2]) for j in in_model]
        both = vlib.coq_eval(REQ, "case", "fun c => (run_case Trap c, run_case Wrap c)", sterms,
                             shard=max(400, len(sterms) // 8 + 1), tag="c19s", extra_defs="\n".join(defs))
        ms = {"Trap": {j: list(b[0]) for j, b in zip(in_model, both)}, "Wrap": {j: list(b[1]) for j, b in zip(in_model, both)}}
    else:
        res["tie_ok"] = False
        res["broken"].append({"what": "model", "message": "C19/Model.v no longer builds"})

    lap("model runs (coqc)")
    # ---- judge tables
    orc = {"Trap": Oracle(chk, "debug"), "Wrap": Oracle(chk, "release")}
    arms = Arms()
    dist = {"docs_by_scalars": {}, "single_ops": {}, "table_entries": 0}
    bad_tabs = []
    for i, (d, K) in enumerate(tabs):
        D = Doc(d)
        xs, note = parse_ints(impl_tab[i])
        t = decode_table(D, K, xs) if xs is not None else None
        dist["docs_by_scalars"][len(d)] = dist["docs_by_scalars"].get(len(d), 0) + 1
        if t is None:
            orc["Trap"].fail(D, q_line(d, "tab", (K,)), "table malformed: " + (note or impl_tab[i][:200]))
            chk.count_case(("tab", doc_str(d)), nontrivial=False)
            continue
        n = D.len + 2
        entries = n + (K + 1) ** 2 + n + 2 * n * n
        dist["table_entries"] += entries
        chk.count_case(("tab", doc_str(d)), nontrivial=len(d) > 0)
        chk.evaluations += entries - 1
        judge_table(orc["Trap"], D, K, t, arms)
        if model_ok:
            validated += entries
            if mh[i] != [hash_list(xs)]:
                bad_tabs.append(i)
    # full model tables for the mismatching documents (diagnosis)
    if model_ok and bad_tabs:
        sel = bad_tabs[:40]
        full = vlib.coq_eval(REQ, "case", "run_case Trap", [q_coq(tabs[i][0], "tab", (tabs[i][1],)) for i in sel], shard=5, tag="c19t")
        for i, mt in zip(sel, full):
            xs, _ = parse_ints(impl_tab[i])
            k = next((j for j in range(min(len(xs), len(mt))) if xs[j] != mt[j]), min(len(xs), len(mt)))
            corr_bad.append({"case": q_line(tabs[i][0], "tab", (tabs[i][1],)), "first_difference_at": k,
                             "model": mt[max(0, k - 4):k + 6], "impl": xs[max(0, k - 4):k + 6]})

    lap("tables judged")
    # ---- judge single queries (both builds)
    for mode in ("Trap", "Wrap"):
        o = orc[mode]
        for j, (D, op, args) in enumerate(singles):
            xs, note = parse_ints(impl_sin[mode][j])
            line = q_line(D.doc, op, args)
            dist["single_ops"][op] = dist["single_ops"].get(op, 0) + 1
            chk.count_case((mode, line), nontrivial=True)
            if xs is None:
                o.fail(D, line, "diagnostic range differs from span_to_range: " + note)
                continue
            if model_ok and j in ms[mode]:
                validated += 1
                if ms[mode][j] != xs:
                    corr_bad.append({"case": line, "build": o.build, "model": ms[mode][j][:40], "impl": xs[:40], "note": note})
            count_arms = mode == "Trap" and len(D.doc) <= 2000
            if op == "o2p":
                o.o2p(D, args[0], xs)
                if count_arms:
                    arms.o2p(D, args[0])
            elif op == "p2o":
                o.p2o(D, args[0], args[1], xs[0])
                if count_arms:
                    arms.p2o(D, args[0], args[1])
            elif op == "rng":
                o.rng(D, args[0], args[1], xs)
                if count_arms:
                    arms.rng(D, args[0], args[1])
            elif op == "car":
                o.car(D, args[0], args[1], None if xs[0] == TRAP else (xs[0], xs[1], xs[2], xs[3], xs[4:]))
                if count_arms and xs[0] != TRAP:
                    arms.car(D, args[0], args[1], xs[1], sum(blen(c) for c in xs[4:]))
    # round trip on the long documents: ask the implementation for p2o(o2p(o)) on every boundary
    rt_in, rt_meta = [], []
    for D, _ in longs + scales:
        bs = D.bounds
        if len(bs) > 600:  # scale documents: the boundaries around the ends and around 2^8 and 2^16
            keep = sorted({i for k in (0, 255, 256, 65535, 65536, len(bs) // 2, len(bs) - 2) for i in (k - 1, k, k + 1) if 0 <= i < len(bs)})
            bs = [bs[i] for i in keep]
        for o in bs:
            rt_in.append(q_line(D.doc, "o2p", (o,)))
            rt_meta.append((D, o))
    out1 = vlib.run_harness(dbg, ["run", "c19"], "\n".join(rt_in) + "\n").split("\n")[:len(rt_in)]
    poss = [tuple(parse_ints(l)[0]) for l in out1]
    out2 = vlib.run_harness(dbg, ["run", "c19"], "".join(q_line(D.doc, "p2o", p) + "\n" for (D, o), p in zip(rt_meta, poss))).split("\n")
    cur, o2p_at, back = None, {}, {}
    groups = []
    for (D, o), p, l2 in zip(rt_meta, poss, out2):
        if D is not cur:
            cur, o2p_at, back = D, {}, {}
            groups.append((D, o2p_at, back))
        o2p_at[o] = p
        back[p] = int(l2.split()[0])
        chk.count_case(("rt", doc_str(D.doc)[:200], o), nontrivial=True)
    for D, o2p_at, back in groups:
        orc["Trap"].roundtrip_monotone(D, o2p_at, lambda p, back=back: back.get(p))

    lap("singles + round trips judged")
    # ---- through the language server (hover / definition / published diagnostics)
    lsp_stream(chk, dbg, orc["Trap"], rng, thorough, dist)
    lap("language-server stream")
    # ---- known findings: replay the witnesses
    for f in chk.findings:
        if f.get("status") != "known":
            continue
        w = f["witness"]
        binary = rel if w.get("build") == "release" else dbg
        got = vlib.run_harness(binary, ["run", "c19"], w["line"] + "\n").strip()
        if got.partition(" # ")[0].split() == [str(x) for x in w["actual"]]:
            chk.known(f["id"], "%s: %s" % (f["id"], f["summary"]))

    # ---- evidence
    fails = orc["Trap"].fails + orc["Wrap"].fails
    chk.coverage["rule"] = (
        "exhaustive: every document of <= %d scalars over {a, U+E9, U+20AC, U+1F600, LF, CR} x every offset 0..len+1 x every "
        "position of the (n+2)^2 grid x every span (a,b) in (0..len+1)^2%s; random documents (0..400 scalars, CRLF/no-newline/"
        "empty-line styles) with boundary, mid-scalar, past-the-end, 2^32, 2^63, usize::MAX offsets and u32::MAX positions in "
        "debug and release builds; round trip on every boundary of every long document. An evaluation is one query answered by "
        "the implementation; distinct counts documents (tables) and query lines (single queries)" % (nmax, "" if thorough else " + a seeded sample of 4- and 5-scalar documents"))
    chk.coverage["distribution"] = dist
    chk.coverage["model_arm_hits"] = dict(arms.h)
    chk.coverage["model_arms_unreachable_by_theorem"] = Arms.UNREACHABLE
    zero = [k for k, v in arms.h.items() if v == 0]
    if zero:
        raise vlib.Infra("generator bug: model arms never reached: %s" % zero)
    chk.coverage["traces_validated_against_impl"] = validated
    chk.coverage["correspondence_mismatches"] = len(corr_bad) + max(0, len(bad_tabs) - 40)
    chk.coverage["suppressed_by_known_finding"] = {k: orc["Trap"].suppressed.get(k, 0) + orc["Wrap"].suppressed.get(k, 0)
                                                   for k in set(orc["Trap"].suppressed) | set(orc["Wrap"].suppressed)}
    chk.coverage["character_unit"] = "the implementation counts Unicode scalar values (col += 1 per char), not UTF-16 units"
    for d, K in tabs[:4] + tabs[-2:]:
        chk.sample(q_line(d, "tab", (K,)))
    for D, op, args in singles[:6]:
        chk.sample(q_line(D.doc, op, args)[:300])
    for f in fails[:20]:
        chk.violation("failing-input", f)
    if not fails:
        if corr_bad:
            chk.violation("correspondence-broken", {"theorem_or_tie": "C19 model/implementation correspondence", "cases": corr_bad[:10]}, no_input=True)
        if not res["proofs_ok"] or not res["tie_ok"]:
            chk.violation("proof-broken", {"theorem_or_tie": res["broken"]}, no_input=True)


def replay(path):
    data = json.load(open(path))
    dbg = vlib.build_harness("debug")
    rel = vlib.build_harness("release")
    for v in data["violations"]:
        d = v["detail"]
        qs = [q for q in (d.get("query"), d.get("then")) if q and q.split(" ")[0] in ("o2p", "p2o", "rng", "car", "tab")]
        if (d.get("query") or "").startswith("lsp "):
            print("impl (language server, debug):", vlib.run_harness(dbg, ["run", "c19"], d["query"] + "\n").strip()[:3000])
            print("oracle  expected:", d.get("expected"), "| actual:", d.get("actual"), "|", d.get("why"))
            print()
            continue
        if not qs:
            print(json.dumps(d, indent=1)[:3000])
            continue
        for q in qs:
            for name, b in (("debug  ", dbg), ("release", rel)):
                print(name, "impl  ", q[:200], "->", vlib.run_harness(b, ["run", "c19"], q + "\n").strip()[:400])
            p = q.split()
            doc = parse_doc_str(p[1])
            args = [int(x) for x in p[2:]]
            for m in ("Trap", "Wrap"):
                try:
                    r = vlib.coq_eval(REQ, "case", "run_case %s" % m, [q_coq(doc, p[0], args)], tag="c19r")[0]
                    print("model  ", m, "                       ->", str(r)[:400])
                except vlib.Infra as e:
                    print("model  ", m, "unavailable:", str(e)[:200])
        print("oracle  expected:", d.get("expected"), "| actual:", d.get("actual"), "|", d.get("why"))
        print()
    return 0
