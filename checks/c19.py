"""C19 — editor positions and byte offsets convert consistently.

proof:   coq/C19/Props.v over the hand model coq/C19/Model.v (offset_to_position,
         position_to_offset, span_to_range, get_line_info + format_error's caret arithmetic).
tie:     correspondence: the model is evaluated inside coqc (vm_compute) and compared with the real
         functions (harness/src/c19.rs): for every document of <= N scalars over {a, e-acute, euro,
         emoji, LF, CR} the WHOLE table (all offsets 0..len+1, all positions of the (n+2)^2 grid, all
         spans (a,b) in (0..len+1)^2) is compared (model side as a hash of the table, full table on
         a mismatch), plus single queries on random long documents and extreme offsets/positions
         (debug build <-> mode Trap, release build <-> mode Wrap).
oracle:  Python's own string semantics (str.count / rfind / split / encode) judge every
         implementation answer: round trip, strict monotonicity, newline/character counting,
         p2o soundness, range well-formedness, terminal line/column, caret shape, and the LSP
         (UTF-16) meaning of `character`."""
import itertools
import json
import os
import time

import vlib

ALPHA = [0x61, 0xE9, 0x20AC, 0x1F600, 0x0A, 0x0D]
USIZE_MAX = 2**64 - 1
U32_MAX = 2**32 - 1
HASH_P = 2305843009213693951
TRAP = -9


# ----------------------------------------------------------------------------- documents

def doc_str(doc):
    return ",".join(str(c) for c in doc) if doc else "-"


def doc_coq(doc):
    return "[" + "; ".join(str(c) for c in doc) + "]"


def blen(c):
    return len(chr(c).encode("utf-8"))


class Doc:
    """Python's own view of a document (independent of the Coq model)."""

    def __init__(self, doc):
        self.doc = list(doc)
        self.s = "".join(chr(c) for c in doc)
        self.b = self.s.encode("utf-8")
        self.len = len(self.b)
        self.starts = []
        o = 0
        for ch in self.s:
            self.starts.append(o)
            o += len(ch.encode("utf-8"))
        self.bounds = self.starts + [self.len]
        self.boundset = set(self.bounds)
        self.lines = self.s.split("\n")

    def prefix(self, o):
        """the scalars that start before byte o (o clamped to the length)"""
        o = min(o, self.len)
        n = sum(1 for st in self.starts if st < o)
        return self.s[:n]

    def pos(self, o):
        p = self.prefix(o)
        return (p.count("\n"), len(p) - (p.rfind("\n") + 1))

    def pos16(self, o):
        p = self.prefix(o)
        tail = p[p.rfind("\n") + 1:]
        return (p.count("\n"), len(tail.encode("utf-16-le")) // 2)

    def astral_before(self, o):
        p = self.prefix(o)
        tail = p[p.rfind("\n") + 1:]
        return any(ord(ch) >= 0x10000 for ch in tail)

    def valid(self, pos):
        l, c = pos
        return 0 <= l < len(self.lines) and 0 <= c <= len(self.lines[l])

    def offset_of(self, pos):
        """byte offset of a valid position, by Python slicing"""
        l, c = pos
        before = "\n".join(self.lines[:l]) + ("\n" if l > 0 else "")
        return len((before + self.lines[l][:c]).encode("utf-8"))


# ----------------------------------------------------------------------------- oracle

class Oracle:
    def __init__(self, chk, build):
        self.chk = chk
        self.build = build
        self.fails = []
        self.known_ids = {f["id"] for f in chk.findings if f.get("status") == "known"}
        self.suppressed = {}

    def fail(self, D, query, why, expected=None, actual=None, then=None):
        """query (and the optional follow-up `then`) are harness input lines: the replay re-runs them"""
        f = {"doc": doc_str(D.doc), "text": D.s, "query": query, "build": self.build, "why": why,
             "expected": expected, "actual": actual}
        if then:
            f["then"] = then
        self.fails.append(f)

    def known(self, fid):
        if fid in self.known_ids:
            self.suppressed[fid] = self.suppressed.get(fid, 0) + 1
            return True
        return False

    def o2p(self, D, o, got):
        q = "o2p %s %d" % (doc_str(D.doc), o)
        if got[0] == TRAP:
            return self.fail(D, q, "offset_to_position panicked", None, got)
        want = D.pos(o)
        if tuple(got) != want:
            return self.fail(D, q, "line/character do not agree with counting newlines and characters", want, got)
        want16 = D.pos16(o)
        if tuple(got) != want16:
            # class decided by the precise predicate: an astral scalar in the line prefix
            if D.astral_before(o) and got[0] == want16[0] and self.known("utf16-astral-column"):
                return None
            return self.fail(D, q, "character is not the UTF-16 column the LSP default encoding asks for", want16, got)

    def p2o(self, D, l, c, got):
        q = "p2o %s %d %d" % (doc_str(D.doc), l, c)
        if got == TRAP:
            return self.fail(D, q, "position_to_offset panicked", None, got)
        if got != -1 and got not in D.boundset:
            return self.fail(D, q, "position_to_offset returned an offset that is not a character boundary", None, got)
        if D.valid((l, c)):
            want = D.offset_of((l, c))
            if got != want:
                return self.fail(D, q, "a position inside the document must map to its own offset", want, got)

    def roundtrip_monotone(self, D, o2p_at, p2o_at):
        """o2p_at: dict boundary offset -> pos ; p2o_at: callable pos -> offset or -1"""
        prev = None
        for o in D.bounds:
            p = tuple(o2p_at[o])
            if p[0] == TRAP:
                continue
            back = p2o_at(p)
            if back != o:
                self.fail(D, "o2p %s %d" % (doc_str(D.doc), o), "round trip offset -> position -> offset: position_to_offset(%s) "
                          "does not give the offset back" % (p,), o, back, then="p2o %s %d %d" % (doc_str(D.doc), p[0], p[1]))
            if prev is not None and not prev[1] < p:
                self.fail(D, "o2p %s %d" % (doc_str(D.doc), o), "positions not strictly increasing: boundary offset %d has %s"
                          % prev, "> " + str(prev[1]), p, then="o2p %s %d" % (doc_str(D.doc), prev[0]))
            prev = (o, p)

    def rng(self, D, a, b, got):
        q = "rng %s %d %d" % (doc_str(D.doc), a, b)
        if got[0] == TRAP:
            return self.fail(D, q, "span_to_range panicked", "a range with start <= end", got)
        s, e = (got[0], got[1]), (got[2], got[3])
        if not (s <= e and D.valid(s) and D.valid(e)):
            return self.fail(D, q, "range not well-formed (start <= end, both inside the document)", "start <= end inside", got)
        if s != D.pos(a):
            return self.fail(D, q, "range start is not the position of the span start", D.pos(a), s)
        if a < b and e != D.pos(b):
            return self.fail(D, q, "range end is not the position of the span end", D.pos(b), e)

    def car(self, D, a, b, got):
        """got = (line, col, spaces, carets, text) or None for panic"""
        q = "car %s %d %d" % (doc_str(D.doc), a, b)
        if got is None:
            return self.fail(D, q, "format_error panicked", None, None)
        line, col, spaces, carets, text = got
        l, c = D.pos(a)
        if line != l + 1:
            return self.fail(D, q, "terminal line is not editor line + 1", l + 1, line)
        if text != [ord(ch) for ch in D.lines[l]]:
            return self.fail(D, q, "line text is not the line of the offset", D.lines[l], text)
        o = min(a, D.len)
        if o in D.boundset:
            want = len(D.lines[l][:c].encode("utf-8")) + 1
            if col != want:
                return self.fail(D, q, "terminal column is not (UTF-8 length of the first `character` scalars of the line) + 1", want, col)
        tl = len(D.lines[l].encode("utf-8"))
        if not (col >= 1 and spaces == col - 1 and carets >= 1 and spaces + carets <= tl + 1):
            return self.fail(D, q, "caret line ill-formed (col>=1, spaces=col-1, carets>=1, caret stays within line+1)", None, got)


# ----------------------------------------------------------------------------- tables

def table_shape(D, K):
    n = D.len + 2
    return n, K + 1


def decode_table(D, K, xs):
    """split the flat table of harness/model into its parts; returns dict or None when malformed"""
    n, g = table_shape(D, K)
    it = iter(xs)
    try:
        o2p = [(next(it), next(it)) for _ in range(n)]
        p2o = [[next(it) for _ in range(g)] for _ in range(g)]
        li = []
        for _ in range(n):
            ln, cn, tl = next(it), next(it), next(it)
            li.append((ln, cn, [next(it) for _ in range(tl)]))
        spans = {}
        for a in range(n):
            for b in range(n):
                sp, ul = next(it), next(it)
                r = (next(it), next(it), next(it), next(it))
                spans[(a, b)] = (sp, ul, r)
    except StopIteration:
        return None
    if next(it, None) is not None:
        return None
    return {"o2p": o2p, "p2o": p2o, "li": li, "spans": spans}


def hash_list(xs):
    h = 7
    for x in xs:
        h = (h * 1000003 + x + 11) % HASH_P
    return h


def judge_table(orc, D, K, t):
    n, g = table_shape(D, K)
    for o in range(n):
        orc.o2p(D, o, t["o2p"][o])
    for l in range(g):
        for c in range(g):
            orc.p2o(D, l, c, t["p2o"][l][c])

    def p2o_at(p):
        return t["p2o"][p[0]][p[1]] if p[0] < g and p[1] < g else None
    orc.roundtrip_monotone(D, {o: t["o2p"][o] for o in D.bounds}, p2o_at)
    for a in range(n):
        ln, cn, text = t["li"][a]
        for b in range(n):
            sp, ul, r = t["spans"][(a, b)]
            orc.rng(D, a, b, r)
            orc.car(D, a, b, None if sp == TRAP or ln == TRAP else (ln, cn, sp, ul, text))


# ----------------------------------------------------------------------------- generators

def exhaustive_docs(maxlen):
    for k in range(maxlen + 1):
        for d in itertools.product(ALPHA, repeat=k):
            yield list(d)


def random_scalar(rng):
    k = rng.random()
    if k < 0.45:
        return rng.choice([0x61, 0x20, 0x7A, 0x30, 0x09, 0x7F])
    if k < 0.60:
        return 0x0A
    if k < 0.66:
        return 0x0D
    if k < 0.78:
        return rng.choice([0x80, 0xE9, 0x7FF, rng.randint(0x80, 0x7FF)])
    if k < 0.90:
        c = rng.choice([0x800, 0x20AC, 0xFFFF, 0xD7FF, 0xE000, 0xFEFF, rng.randint(0x800, 0xFFFF)])
        return c if not (0xD800 <= c <= 0xDFFF) else 0x20AC
    return rng.choice([0x10000, 0x1F600, 0x10FFFF, rng.randint(0x10000, 0x10FFFF)])


def random_doc(rng, n):
    style = rng.random()
    doc = [random_scalar(rng) for _ in range(n)]
    if style < 0.25:  # CRLF line ends
        out = []
        for c in doc:
            if c == 0x0A:
                out += [0x0D, 0x0A]
            elif c != 0x0D:
                out.append(c)
        doc = out
    elif style < 0.35:  # no newline at all
        doc = [c for c in doc if c != 0x0A]
    elif style < 0.45:  # many empty lines
        doc = [0x0A if rng.random() < 0.5 else c for c in doc]
    return doc


def single_queries(rng, doc, n_each):
    """(op, args) queries on one long document: boundaries, mid-scalar, past the end, extremes"""
    D = Doc(doc)
    qs = []
    offs = list(D.bounds) + [o + 1 for o in D.starts] + [D.len + 1, D.len + 2, 2**32, 2**63 - 1, 2**63, USIZE_MAX - 1, USIZE_MAX]
    pick = lambda: rng.choice(offs) if rng.random() < 0.85 else rng.randint(0, D.len + 3)
    for _ in range(n_each):
        qs.append(("o2p", (pick(),)))
    nl = len(D.lines)
    for _ in range(n_each):
        k = rng.random()
        l = rng.randint(0, nl + 1) if k < 0.9 else rng.choice([U32_MAX, 2**31, nl + 5])
        ll = len(D.lines[l]) if l < nl else 3
        c = rng.randint(0, ll + 2) if k < 0.9 else rng.choice([U32_MAX, 2**31, ll + 7])
        qs.append(("p2o", (l, c)))
    for _ in range(n_each):
        a, b = pick(), pick()
        qs.append(("rng", (a, b)))
        qs.append(("car", (a, b)))
    return D, qs


def q_line(doc, op, args):
    return "%s %s %s" % (op, doc_str(doc), " ".join(str(a) for a in args))


def q_coq(doc, op, args):
    """doc: list of scalars, or the name of a Coq definition holding them"""
    ctor = {"o2p": "CO2p", "p2o": "CP2o", "rng": "CRng", "car": "CCar", "tab": "CTab", "hash": "CHash"}[op]
    return "%s %s %s" % (ctor, doc if isinstance(doc, str) else doc_coq(doc), " ".join(vlib.zlit(a) for a in args))


def parse_ints(line):
    """harness line -> (list of ints, note)"""
    body, _, note = line.partition(" # ")
    if body.startswith(("X", "E")):
        return None, line
    return [int(x) for x in body.split()], note


# ----------------------------------------------------------------------------- run

REQ = "From Verif Require Import Base.I64 Base.Text C19.Model.\nOpen Scope Z_scope."


def load_findings(chk):
    return None


def run(chk):
    load_findings(chk)
    thorough = chk.tier == "thorough"
    chk.trusted = [
        "Coq 8.16.1 kernel (coqc, vm_compute in proofs of closed facts and in the correspondence run); no native_compute",
        "hand-written coq/C19/Model.v + coq/Base/Text.v (documents = lists of scalar values, blen = char::len_utf8), tied by the correspondence run",
        "vharness c19 adapter (parses format_error's text back into line/col/text/caret counts) + this script's differ and Python's str/encode semantics",
        "rustc/std: str::char_indices, char::len_utf8, str::find, slicing",
    ]
    chk.assumptions = [
        "documents shorter than 2^32 scalars / 2^63 bytes (hypotheses of C19_counters_fit / C19_render_total): the CLI rejects files over 100 MB; "
        "LSP documents arrive from the editor and are not size-checked by the server",
        "`character` is judged against UTF-16 units (LSP default encoding; the server negotiates no positionEncoding) in the oracle; "
        "the scalar-count reading is the one proved (C19_agrees_with_counting)",
    ]
    t0 = time.time()

    def lap(what):
        vlib.log("[c19] %-28s %6.1fs" % (what, time.time() - t0))
    res = chk.proof_stage("C19", allow_axioms=())
    lap("proof stage")
    dbg = vlib.build_harness("debug")
    rel = vlib.build_harness("release")
    rng = chk.rng

    # ---- cases
    nmax = 5 if thorough else 3
    docs = list(exhaustive_docs(nmax))
    if not thorough:
        # a seeded sample of the 4- and 5-scalar documents on the same alphabet
        for k, cnt in ((4, 250), (5, 150)):
            for _ in range(cnt):
                docs.append([rng.choice(ALPHA) for _ in range(k)])
    tabs = [(d, len(d) + 1) for d in docs]
    n_long = 400 if thorough else 60
    longs = []
    for _ in range(n_long):
        n = rng.choice([1, 2, 7, 20, 50, 120, 300]) if rng.random() < 0.8 else rng.randint(0, 400)
        longs.append(single_queries(rng, random_doc(rng, n), 12 if thorough else 6))
    # fixed corner documents
    for doc in ([], [0x0A], [0x0D, 0x0A], [0x1F600], [0x61, 0x0A, 0x0A], [0x0A, 0x1F600, 0xE9, 0x0D, 0x0A, 0x61]):
        longs.append(single_queries(rng, doc, 10))
    singles = [(D, op, args) for (D, qs) in longs for (op, args) in qs]

    # ---- implementation
    tab_in = "".join(q_line(d, "tab", (K,)) + "\n" for d, K in tabs)
    sin_in = "".join(q_line(D.doc, op, args) + "\n" for D, op, args in singles)
    impl_tab = vlib.run_harness(dbg, ["run", "c19"], tab_in, timeout=3000).split("\n")[:len(tabs)]
    impl_sin = {"Trap": vlib.run_harness(dbg, ["run", "c19"], sin_in).split("\n")[:len(singles)],
                "Wrap": vlib.run_harness(rel, ["run", "c19"], sin_in).split("\n")[:len(singles)]}
    lap("implementation runs")
    if len(impl_tab) != len(tabs) or any(len(v) != len(singles) for v in impl_sin.values()):
        raise vlib.Infra("harness returned a wrong number of lines")

    # ---- model (inside Coq)
    model_ok = vlib.coq_build(["C19/Model.vo"])[0]
    corr_bad = []
    validated = 0
    if model_ok:
        hterms = [q_coq(d, "hash", (K,)) for d, K in tabs]
        mh = vlib.coq_eval(REQ, "case", "run_case Trap", hterms, shard=max(120, len(hterms) // 16 + 1), tag="c19h")
        # single queries: every long document is defined once per shard, both modes in one evaluation
        names, defs = {}, []
        for D, _ in longs:
            names[id(D)] = "doc_%d" % len(names)
            defs.append("Definition %s : text := %s." % (names[id(D)], doc_coq(D.doc)))
        sterms = [q_coq(names[id(D)], op, args) for D, op, args in singles]
        both = vlib.coq_eval(REQ, "case", "fun c => (run_case Trap c, run_case Wrap c)", sterms,
                             shard=max(400, len(sterms) // 8 + 1), tag="c19s", extra_defs="\n".join(defs))
        ms = {"Trap": [list(b[0]) for b in both], "Wrap": [list(b[1]) for b in both]}
    else:
        res["tie_ok"] = False
        res["broken"].append({"what": "model", "message": "C19/Model.v no longer builds"})

    lap("model runs (coqc)")
    # ---- judge tables
    orc = {"Trap": Oracle(chk, "debug"), "Wrap": Oracle(chk, "release")}
    dist = {"docs_by_scalars": {}, "single_ops": {}, "table_entries": 0}
    bad_tabs = []
    for i, (d, K) in enumerate(tabs):
        D = Doc(d)
        xs, note = parse_ints(impl_tab[i])
        t = decode_table(D, K, xs) if xs is not None else None
        dist["docs_by_scalars"][len(d)] = dist["docs_by_scalars"].get(len(d), 0) + 1
        if t is None:
            orc["Trap"].fail(D, q_line(d, "tab", (K,)), "table malformed: " + (note or impl_tab[i][:200]))
            chk.count_case(("tab", doc_str(d)), nontrivial=False)
            continue
        n = D.len + 2
        entries = n + (K + 1) ** 2 + n + 2 * n * n
        dist["table_entries"] += entries
        chk.count_case(("tab", doc_str(d)), nontrivial=len(d) > 0)
        chk.evaluations += entries - 1
        judge_table(orc["Trap"], D, K, t)
        if model_ok:
            validated += entries
            if mh[i] != [hash_list(xs)]:
                bad_tabs.append(i)
    # full model tables for the mismatching documents (diagnosis)
    if model_ok and bad_tabs:
        sel = bad_tabs[:40]
        full = vlib.coq_eval(REQ, "case", "run_case Trap", [q_coq(tabs[i][0], "tab", (tabs[i][1],)) for i in sel], shard=5, tag="c19t")
        for i, mt in zip(sel, full):
            xs, _ = parse_ints(impl_tab[i])
            k = next((j for j in range(min(len(xs), len(mt))) if xs[j] != mt[j]), min(len(xs), len(mt)))
            corr_bad.append({"case": q_line(tabs[i][0], "tab", (tabs[i][1],)), "first_difference_at": k,
                             "model": mt[max(0, k - 4):k + 6], "impl": xs[max(0, k - 4):k + 6]})

    lap("tables judged")
    # ---- judge single queries (both builds)
    for mode in ("Trap", "Wrap"):
        o = orc[mode]
        by_doc = {}
        for j, (D, op, args) in enumerate(singles):
            xs, note = parse_ints(impl_sin[mode][j])
            line = q_line(D.doc, op, args)
            dist["single_ops"][op] = dist["single_ops"].get(op, 0) + 1
            chk.count_case((mode, line), nontrivial=True)
            if xs is None:
                o.fail(D, line, "diagnostic range differs from span_to_range: " + note)
                continue
            if model_ok:
                validated += 1
                if ms[mode][j] != xs:
                    corr_bad.append({"case": line, "build": o.build, "model": ms[mode][j][:40], "impl": xs[:40], "note": note})
            if op == "o2p":
                o.o2p(D, args[0], xs)
                by_doc.setdefault(id(D), (D, {}, {}))[1][args[0]] = tuple(xs)
            elif op == "p2o":
                o.p2o(D, args[0], args[1], xs[0])
            elif op == "rng":
                o.rng(D, args[0], args[1], xs)
            elif op == "car":
                o.car(D, args[0], args[1], None if xs[0] == TRAP else (xs[0], xs[1], xs[2], xs[3], xs[4:]))
    # round trip on the long documents: ask the implementation for p2o(o2p(o)) on every boundary
    rt_in, rt_meta = [], []
    for D, _ in longs:
        for o in D.bounds:
            rt_in.append(q_line(D.doc, "o2p", (o,)))
            rt_meta.append((D, o))
    out1 = vlib.run_harness(dbg, ["run", "c19"], "\n".join(rt_in) + "\n").split("\n")[:len(rt_in)]
    poss = [tuple(parse_ints(l)[0]) for l in out1]
    out2 = vlib.run_harness(dbg, ["run", "c19"], "".join(q_line(D.doc, "p2o", p) + "\n" for (D, o), p in zip(rt_meta, poss))).split("\n")
    cur, o2p_at, back = None, {}, {}
    groups = []
    for (D, o), p, l2 in zip(rt_meta, poss, out2):
        if D is not cur:
            cur, o2p_at, back = D, {}, {}
            groups.append((D, o2p_at, back))
        o2p_at[o] = p
        back[p] = int(l2.split()[0])
        chk.count_case(("rt", doc_str(D.doc)[:200], o), nontrivial=True)
    for D, o2p_at, back in groups:
        orc["Trap"].roundtrip_monotone(D, o2p_at, lambda p, back=back: back.get(p))

    lap("singles + round trips judged")
    # ---- known findings: replay the witnesses
    for f in chk.findings:
        if f.get("status") != "known":
            continue
        w = f["witness"]
        binary = rel if w.get("build") == "release" else dbg
        got = vlib.run_harness(binary, ["run", "c19"], w["line"] + "\n").strip()
        if got.partition(" # ")[0].split() == [str(x) for x in w["actual"]]:
            chk.known(f["id"], "%s: %s" % (f["id"], f["summary"]))

    # ---- evidence
    fails = orc["Trap"].fails + orc["Wrap"].fails
    chk.coverage["rule"] = (
        "exhaustive: every document of <= %d scalars over {a, U+E9, U+20AC, U+1F600, LF, CR} x every offset 0..len+1 x every "
        "position of the (n+2)^2 grid x every span (a,b) in (0..len+1)^2%s; random documents (0..400 scalars, CRLF/no-newline/"
        "empty-line styles) with boundary, mid-scalar, past-the-end, 2^32, 2^63, usize::MAX offsets and u32::MAX positions in "
        "debug and release builds; round trip on every boundary of every long document. An evaluation is one query answered by "
        "the implementation; distinct counts documents (tables) and query lines (single queries)" % (nmax, "" if thorough else " + a seeded sample of 4- and 5-scalar documents"))
    chk.coverage["distribution"] = dist
    chk.coverage["traces_validated_against_impl"] = validated
    chk.coverage["correspondence_mismatches"] = len(corr_bad) + max(0, len(bad_tabs) - 40)
    chk.coverage["suppressed_by_known_finding"] = {k: orc["Trap"].suppressed.get(k, 0) + orc["Wrap"].suppressed.get(k, 0)
                                                   for k in set(orc["Trap"].suppressed) | set(orc["Wrap"].suppressed)}
    chk.coverage["character_unit"] = "the implementation counts Unicode scalar values (col += 1 per char), not UTF-16 units"
    for d, K in tabs[:4] + tabs[-2:]:
        chk.sample(q_line(d, "tab", (K,)))
    for D, op, args in singles[:6]:
        chk.sample(q_line(D.doc, op, args)[:300])
    for f in fails[:20]:
        chk.violation("failing-input", f)
    if not fails:
        if corr_bad:
            chk.violation("correspondence-broken", {"theorem_or_tie": "C19 model/implementation correspondence", "cases": corr_bad[:10]}, no_input=True)
        if not res["proofs_ok"] or not res["tie_ok"]:
            chk.violation("proof-broken", {"theorem_or_tie": res["broken"]}, no_input=True)


def replay(path):
    data = json.load(open(path))
    dbg = vlib.build_harness("debug")
    rel = vlib.build_harness("release")
    for v in data["violations"]:
        d = v["detail"]
        qs = [q for q in (d.get("query"), d.get("then")) if q and q.split(" ")[0] in ("o2p", "p2o", "rng", "car", "tab")]
        if not qs:
            print(json.dumps(d, indent=1)[:3000])
            continue
        for q in qs:
            for name, b in (("debug  ", dbg), ("release", rel)):
                print(name, "impl  ", q[:200], "->", vlib.run_harness(b, ["run", "c19"], q + "\n").strip()[:400])
            p = q.split()
            doc = [] if p[1] == "-" else [int(x) for x in p[1].split(",")]
            args = [int(x) for x in p[2:]]
            for m in ("Trap", "Wrap"):
                try:
                    r = vlib.coq_eval(REQ, "case", "run_case %s" % m, [q_coq(doc, p[0], args)], tag="c19r")[0]
                    print("model  ", m, "                       ->", str(r)[:400])
                except vlib.Infra as e:
                    print("model  ", m, "unavailable:", str(e)[:200])
        print("oracle  expected:", d.get("expected"), "| actual:", d.get("actual"), "|", d.get("why"))
        print()
    return 0
