(* C02/Model.v — "every program that type-checks also builds" on the MiniIncan fragment:
   the predicted build verdict, the known classes, rendering.  Definitions only. *)
From Verif Require Import Base.I64 C04.Model Core.Syntax Core.Dynamic Core.Rust Core.Lower Core.Static Core.Checker C01.Model.
From Coq Require Import ZArith List Bool.
Import ListNotations.
Open Scope Z_scope.

(* 0 builds; 1 lowering reports an internal error; 2 the emitted tokens are not a Rust body;
   3 the body is not well-typed Rust (i64/bool typing) *)
Definition build_model (c : fcase) : Z :=
  match compile c with
  | CLowerErr => 1
  | CNoParse _ => 2
  | COk _ p => if rtype_prog p then 0 else 3
  end.

(* rustc's deny-by-default lint `arithmetic_overflow`: a closed (literal-only) subexpression whose
   exact value leaves i64 *)
Fixpoint closed (e : expr) : bool :=
  match e with
  | EInt _ | EBool _ => true
  | EVar _ => false
  | EParen e1 | EUn _ e1 => closed e1
  | EBin _ l r => closed l && closed r
  end.
Definition is_unspec (r : eres) : bool := match r with EUnspec => true | _ => false end.
Fixpoint ovf_expr (e : expr) : bool :=
  (closed e && is_unspec (eval [] e)) ||
  match e with
  | EParen e1 | EUn _ e1 => ovf_expr e1
  | EBin _ l r => ovf_expr l || ovf_expr r
  | _ => false
  end.
Definition ovf_c (c : cexpr) : bool :=
  match c with CPure e => ovf_expr e | CCall _ pos kw => existsb ovf_expr (pos ++ map snd kw) end.

Fixpoint ovf_stmt (s : stmt) : bool :=
  match s with
  | SAssign _ _ _ c | SPrint c | SExpr c => ovf_c c
  | SReturn None => false
  | SReturn (Some c) => ovf_c c
  | SCompound _ _ e => ovf_expr e
  | SIf c th el => ovf_expr c || ovf_block th || ovf_els el
  | SWhile c b => ovf_expr c || ovf_block b
  | SFor _ r b => existsb ovf_expr (rargs_list r) || ovf_block b
  | SPass | SBreak | SContinue => false
  end
with ovf_block (b : block) : bool :=
  match b with BNil => false | BCons s r => ovf_stmt s || ovf_block r end
with ovf_els (el : els) : bool :=
  match el with
  | ENone => false
  | EElse b => ovf_block b
  | EElif c b rest => ovf_expr c || ovf_block b || ovf_els rest
  end.
Definition known_const_overflow (c : fcase) : bool := existsb (fun d => ovf_block (fbody d)) (cprog c).

(* Known_C02: the function breaks a documented static rule that the checker does not enforce
   (static_fn c = Some k: k names the rule), or is in one of the two emission classes of C01, or
   contains a constant overflow that rustc's lint rejects *)
Definition Known_C02 (c : fcase) : Prop :=
  static_fn c <> None \/ Known_C01_grouping c \/ Known_C01_int_fallback c \/ known_const_overflow c = true.

(* the elif branches removed: what check_if_stmt actually visits *)
Fixpoint strip_stmt (s : stmt) : stmt :=
  match s with
  | SIf c th el => SIf c (strip_block th) (strip_els el)
  | SWhile c b => SWhile c (strip_block b)
  | SFor x r b => SFor x r (strip_block b)
  | _ => s
  end
with strip_block (b : block) : block :=
  match b with BNil => BNil | BCons s r => BCons (strip_stmt s) (strip_block r) end
with strip_els (el : els) : els :=
  match el with
  | ENone => ENone
  | EElse b => EElse (strip_block b)
  | EElif _ _ rest => strip_els rest
  end.
Definition strip_fn (c : fcase) : fcase :=
  {| cprog := map (fun d => {| fname := fname d; fparams := fparams d; fret := fret d; fbody := strip_block (fbody d) |}) (cprog c);
     centry := centry c; args := args c |}.
(* the only rule violations are inside elif branches *)
Definition only_in_elif (c : fcase) : bool :=
  match static_fn c, static_fn (strip_fn c) with Some _, None => true | _, _ => false end.

Definition static_code (c : fcase) : Z :=
  match static_fn c with None => 0 | Some k => vkind_code k end.

(* (checker model accepts, first documented rule broken (0 none), predicted build verdict,
    grouping, int fallback, constant overflow) *)
Definition c02_case_gen (ev : bool) (c : fcase) : bool * Z * Z * (bool * bool * bool * bool) :=
  (check_fn_gen ev c, static_code c, build_model c,
   (known_grouping c, known_int_fallback c, known_const_overflow c, only_in_elif c)).
Definition c02_case := c02_case_gen false.

(* witnesses: programs the checker model accepts and that do not build *)
Definition fn0 (l : list stmt) : fcase :=
  {| cprog := [{| fname := 0; fparams := []; fret := false; fbody := blk l |}]; centry := 0; args := [] |}.
(* f1(v0, v1) -> int: return v0 - v1;  f2(v0) -> None: println(v0) *)
Definition helpers : prog :=
  [{| fname := 1; fparams := [0; 1]; fret := true; fbody := blk [SReturn (Some (CPure (EBin OpSub (EVar 0) (EVar 1))))] |};
   {| fname := 2; fparams := [0]; fret := false; fbody := blk [SPrint (CPure (EVar 0))] |}].
Definition fnh (l : list stmt) : fcase :=
  {| cprog := helpers ++ [{| fname := 0; fparams := []; fret := false; fbody := blk l |}]; centry := 0; args := [] |}.
Definition pe (e : expr) := SPrint (CPure e).
Definition w_nested_reassign := fn0 [SAssign BInferred 1 None (CPure (EInt 1)); SIf (EBool true) (blk [SAssign BInferred 1 None (CPure (EInt 2))]) ENone; pe (EVar 1)].
Definition w_nested_type := fn0 [SAssign BMut 1 None (CPure (EInt 1)); SIf (EBool true) (blk [SAssign BInferred 1 None (CPure (EBool true))]) ENone; pe (EVar 1)].
Definition w_andor := fn0 [pe (EBin OpAnd (EInt 1) (EInt 2))].
Definition w_arith := fn0 [pe (EBin OpAdd (EBool true) (EInt 1))].
Definition w_rebind := fn0 [SAssign BMut 1 None (CPure (EInt 1)); SAssign BLet 1 None (CPure (EInt 2)); SAssign BInferred 1 None (CPure (EInt 3)); pe (EVar 1)].
Definition w_break := fn0 [SBreak].
Definition w_elif := fn0 [SIf (EBool false) (blk [SPass]) (EElif (EInt 1) (blk [pe (EVar 9)]) ENone)].
Definition w_range := fn0 [SFor 1 (R1 (EBool true)) (blk [SPass])].
Definition w_compound := fn0 [SAssign BMut 1 None (CPure (EBool true)); SCompound CAdd 1 (EBool true)].
Definition w_chain := fn0 [pe (EBin OpEq (EBin OpLt (EInt 1) (EInt 2)) (EBool true))].
Definition w_call_arity := fnh [SPrint (CCall 1 [EInt 1] [])].                       (* f1(1): one argument missing *)
Definition w_call_argtype := fnh [SPrint (CCall 1 [EBool true; EInt 2] [])].         (* f1(true, 2) *)
(* f1(1, v7=2) (no such parameter) also passes the checker; the real emitter drops the unbound keyword
   argument (`f1(1)`, rustc arity error) while this model keeps written order for calls it cannot bind:
   not used as a witness *)
Definition w_unit_value := fnh [SPrint (CCall 2 [EInt 1] [])].                       (* println(f2(1)) *)
Definition w_missing_return : fcase :=
  {| cprog := [{| fname := 1; fparams := [0]; fret := true;
                  fbody := blk [SIf (EBin OpGt (EVar 0) (EInt 0)) (blk [SReturn (Some (CPure (EInt 1)))]) ENone] |};
               {| fname := 0; fparams := []; fret := false; fbody := blk [SPrint (CCall 1 [EInt 1] [])] |}];
     centry := 0; args := [] |}.
Definition witnesses : list (fcase * Z * Z) :=      (* (program, first rule broken, predicted verdict) *)
  [(w_nested_reassign, 8, 1); (w_nested_type, 9, 3); (w_andor, 7, 3); (w_arith, 5, 3); (w_rebind, 11, 3);
   (w_break, 16, 3); (w_elif, 14, 3); (w_range, 15, 3); (w_compound, 12, 3); (w_chain, 0, 2);
   (w_call_arity, 18, 3); (w_call_argtype, 19, 3); (w_unit_value, 20, 3); (w_missing_return, 22, 3)].
