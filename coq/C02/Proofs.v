(* C02/Proofs.v — a function that obeys the documented static rules lowers without internal error
   to an IR whose denoted Rust body is well-typed (i64/bool typing). *)
From Verif Require Import Base.I64 C04.Model Core.Syntax Core.Dynamic Core.Rust Core.Lower Core.Static Core.Checker
  C01.Model C01.ProofsStmt C02.Model.
From Coq Require Import ZArith List Bool Lia.
Import ListNotations.
Open Scope Z_scope.

Definition erase (E : senv) : scopes := map (map (fun p : ident * (ty * bool) => (fst p, fst (snd p)))) E.
Definition flat (E : senv) : tframe := concat E.
Definition mvok (E : senv) (mv : list ident) : Prop :=
  forall x t, tlookup x E = Some (t, true) -> mem x mv = true.
Definition mono (mv mv' : list ident) : Prop := forall y, mem y mv = true -> mem y mv' = true.

Lemma tflookup_app x a b :
  tflookup x (a ++ b) = match tflookup x a with Some v => Some v | None => tflookup x b end.
Proof. induction a as [|[y v] r IH]; cbn; [reflexivity|]. destruct (x =? y); [reflexivity|exact IH]. Qed.

Lemma tlookup_flat x E : tlookup x E = tflookup x (flat E).
Proof.
  unfold flat. induction E as [|f r IH]; cbn; [reflexivity|].
  rewrite tflookup_app. destruct (tflookup x f); [reflexivity|exact IH].
Qed.

Lemma sclookup_erase x f :
  sclookup x (map (fun p : ident * (ty * bool) => (fst p, fst (snd p))) f) = option_map fst (tflookup x f).
Proof. induction f as [|[y [t m]] r IH]; cbn; [reflexivity|]. destruct (x =? y); [reflexivity|exact IH]. Qed.

Lemma slookup_erase x E : slookup x (erase E) = option_map fst (tlookup x E).
Proof.
  induction E as [|f r IH]; cbn; [reflexivity|].
  rewrite sclookup_erase. destruct (tflookup x f) as [[t m]|]; cbn; [reflexivity|exact IH].
Qed.

Lemma tlookup_tbind y x v E : tlookup y (tbind x v E) = if y =? x then Some v else tlookup y E.
Proof. destruct E as [|f r]; cbn; destruct (y =? x); reflexivity. Qed.

Lemma erase_tbind x t m E : erase (tbind x (t, m) E) = sinsert x t (erase E).
Proof. destruct E; reflexivity. Qed.

Lemma flat_tbind x v E : flat (tbind x v E) = (x, v) :: flat E.
Proof. destruct E; reflexivity. Qed.

Lemma mem_cons_mono x mv : mono mv (x :: mv).
Proof. intros y H. cbn. rewrite H. apply orb_true_r. Qed.
Lemma mono_refl mv : mono mv mv. Proof. intros y H; exact H. Qed.
Lemma mono_trans a b c : mono a b -> mono b c -> mono a c.
Proof. intros H1 H2 y H. auto. Qed.
Lemma mvok_mono E mv mv' : mvok E mv -> mono mv mv' -> mvok E mv'.
Proof. intros H M x t Hx. apply M. eapply H; eauto. Qed.
Lemma mvok_push E f mv : (forall x t, tflookup x f <> Some (t, true)) -> mvok E mv -> mvok (f :: E) mv.
Proof.
  intros Hf H x t Hx. cbn in Hx. destruct (tflookup x f) as [[t' m']|] eqn:Ef.
  - injection Hx as -> ->. exfalso. eapply Hf; eauto.
  - eapply H; eauto.
Qed.
Lemma mvok_push_nil E mv : mvok E mv -> mvok ([] :: E) mv.
Proof. apply mvok_push. intros x t H. discriminate. Qed.
Lemma mvok_push_var E x mv : mvok E mv -> mvok ([(x, (TyInt, false))] :: E) mv.
Proof. apply mvok_push. intros y t H. cbn in H. destruct (y =? x); discriminate. Qed.
Lemma mvok_bind_imm E x t mv : mvok E mv -> mvok (tbind x (t, false) E) mv.
Proof.
  intros H y t' Hy. rewrite tlookup_tbind in Hy. destruct (y =? x); [discriminate|]. eapply H; eauto.
Qed.
Lemma mvok_bind_mut E x t mv : mvok E mv -> mvok (tbind x (t, true) E) (x :: mv).
Proof.
  intros H y t' Hy. rewrite tlookup_tbind in Hy. cbn. destruct (y =? x) eqn:Eq; [reflexivity|].
  cbn. eapply H; eauto.
Qed.

(* ---------------------------------------------------------------- expressions *)

Lemma cty_sty E e t : sty E e = SOk t -> cty (erase E) e = t.
Proof.
  revert t. induction e as [n|b|x|e IH|o e IH|o l IHl r IHr]; intros t H; cbn [sty cty] in *.
  - destruct ((0 <=? n) && in_i64b n); [|discriminate]. now injection H as <-.
  - now injection H as <-.
  - unfold var_ty. rewrite slookup_erase. destruct (tlookup x E) as [[[| |] m]|]; cbn; try discriminate; now injection H as <-.
  - now apply IH.
  - destruct o; destruct (sty E e) as [[| |]|k]; try discriminate; injection H as <-.
    + now rewrite (IH TyInt eq_refl).
    + reflexivity.
  - destruct (sty E l) as [tl|k]; [|discriminate]. destruct (sty E r) as [tr|k]; [|discriminate].
    rewrite (IHl tl eq_refl), (IHr tr eq_refl).
    destruct o; cbn in *; destruct tl, tr; cbn in *; try discriminate; now injection H as <-.
Qed.

Lemma sty_rtype sc E e t : sty E e = SOk t -> rtype_expr (flat E) (tree_of (lower_expr sc e)) = Some t.
Proof.
  revert t. induction e as [n|b|x|e IH|o e IH|o l IHl r IHr]; intros t H; cbn [sty lower_expr tree_of] in *.
  - destruct (0 <=? n) eqn:H0; cbn in H; [|discriminate].
    destruct (in_i64b n) eqn:Hn; [|discriminate]. injection H as <-. cbn. now rewrite Hn.
  - now injection H as <-.
  - cbn. rewrite <- tlookup_flat. destruct (tlookup x E) as [[[| |] m]|]; try discriminate; now injection H as <-.
  - now apply IH.
  - destruct o; destruct (sty E e) as [[| |]|k]; try discriminate; injection H as <-; cbn [tree_of rtype_expr];
    now rewrite (IH _ eq_refl).
  - destruct (sty E l) as [tl|k]; [|discriminate]. destruct (sty E r) as [tr|k]; [|discriminate].
    specialize (IHl tl eq_refl). specialize (IHr tr eq_refl).
    destruct o; cbn [binop_plan] in *; cbn in H;
    try (destruct (cty sc l)); cbn [rtype_expr]; rewrite IHl, IHr;
    destruct tl, tr; cbn in *; try discriminate; now injection H as <-.
Qed.

(* ---------------------------------------------------------------- statements *)

Lemma pick_in {A} (l : list A) sel l' : pick l sel = Some l' -> forall x, In x l' -> In x l.
Proof.
  revert l'. induction sel as [|i r IH]; cbn; intros l' H x Hx.
  - injection H as <-. destruct Hx.
  - destruct (nth_error l i) eqn:E1; [|discriminate]. destruct (pick l r) eqn:E2; [|discriminate].
    injection H as <-. destruct Hx as [<-|Hx]; [eapply nth_error_In; eauto|eauto].
Qed.

Lemma sty_args_all E l : sty_args E l = SOk Datatypes.tt -> forall e, In e l -> sty E e = SOk TyInt.
Proof.
  induction l as [|x r IH]; cbn; intros H e He; [destruct He|].
  destruct (sty E x) as [[| |]|] eqn:Ex; try discriminate.
  destruct He as [<-|He]; [exact Ex|eauto].
Qed.

Section Typed.
Variable P : prog.
Variable S0 : fsigs.
Hypothesis Hsig : forall f d, find_fn f P = Some d -> find_sig f S0 = Some (length (fparams d), fret d).

Lemma sty_c_rtype sc E c ot :
  sty_c P E c = SOk ot ->
  rtype_c S0 (flat E) (tree_of_c (lower_c P sc c)) = Some ot /\
  (forall t, ot = Some t -> cty_c P (erase E) c = t).
Proof.
  destruct c as [e|f pos kw]; cbn [sty_c lower_c tree_of_c rtype_c cty_c].
  - destruct (sty E e) as [t|k] eqn:He; [|discriminate]. intros [= <-].
    rewrite (sty_rtype sc _ _ _ He). split; [reflexivity|]. intros t0 [= <-]. now apply cty_sty.
  - destruct (find_fn f P) as [d|] eqn:Hf; [|discriminate].
    destruct (sty_args E (pos ++ map snd kw)) as [[]|] eqn:Ha; [|discriminate].
    destruct (select (fparams d) (length pos) 0 (map fst kw)) as [sel|] eqn:Hsel; [|discriminate].
    destruct (Nat.eqb (length sel) (length pos + length kw)); [|discriminate].
    destruct (pick (pos ++ map snd kw) sel) as [ws'|] eqn:Hp; [|discriminate].
    intros [= <-]. rewrite pick_map, Hp. cbn [option_map tree_of_c rtype_c].
    rewrite (Hsig _ _ Hf). rewrite !map_length.
    rewrite (pick_length _ _ _ Hp), (select_length _ _ _ _ _ Hsel), Nat.eqb_refl. cbn [andb].
    assert (Hall : forallb (fun a => is_i64 (rtype_expr (flat E) a)) (map tree_of (map (lower_expr sc) ws')) = true).
    { apply forallb_forall. intros a Ha'. rewrite map_map in Ha'. apply in_map_iff in Ha'. destruct Ha' as (e & <- & He).
      rewrite (sty_rtype sc E e TyInt); [reflexivity|]. eapply sty_args_all; eauto. eapply pick_in; eauto. }
    rewrite Hall. split; [reflexivity|]. intros t Ht. destruct (fret d); [now injection Ht as <-|discriminate].
Qed.

Definition rtype_els (rt lp : bool) (F : tframe) (el : rels) : bool :=
  match el with GNoElse => true | GElse b => is_some (rtype_block S0 rt lp F b) end.

Definition PS (s : stmt) : Prop := forall rt lp E E' mv,
  static_stmt P rt lp E s = SOk E' -> mvok E mv ->
  exists s' mv', lower_stmt P (erase E) mv s = LOk (s', erase E', mv') /\
                 rtype_stmt S0 rt lp (flat E) (tree_of_stmt s') = Some (flat E') /\
                 mvok E' mv' /\ mono mv mv'.
Definition PB (b : block) : Prop := forall rt lp E E' mv,
  static_block P rt lp E b = SOk E' -> mvok E mv ->
  exists b' mv', lower_block P (erase E) mv b = LOk (b', erase E', mv') /\
                 rtype_block S0 rt lp (flat E) (tree_of_block b') = Some (flat E') /\
                 mvok E' mv' /\ mono mv mv'.
Definition PE (el : els) : Prop := forall rt lp E mv,
  static_els P rt lp E el = SOk Datatypes.tt -> mvok E mv ->
  exists el' mv', lower_els P (erase E) mv el = LOk (el', mv') /\
                  rtype_els rt lp (flat E) (tels el') = true /\ mvok E mv' /\ mono mv mv'.

(* a block checked in a fresh scope *)
Lemma scoped (b : block) rt lp f E Eb mv sc0 :
  PB b -> static_block P rt lp (f :: E) b = SOk Eb -> mvok (f :: E) mv -> sc0 = erase (f :: E) ->
  exists b' sc1 mv', lower_block P sc0 mv b = LOk (b', sc1, mv') /\
                 is_some (rtype_block S0 rt lp (flat (f :: E)) (tree_of_block b')) = true /\ mono mv mv'.
Proof.
  intros IH Hs Hm ->. destruct (IH _ _ _ _ _ Hs Hm) as (b' & mv' & Hl & Ht & _ & Hmo).
  exists b', (erase Eb), mv'. split; [exact Hl|]. split; [now rewrite Ht|exact Hmo].
Qed.

Lemma static_lowers : (forall s, PS s) /\ (forall b, PB b) /\ (forall el, PE el).
Proof.
  apply stmt_block_els_ind; unfold PS, PB, PE.
  - (* assignment *)
    intros k x ann c rt lp E E' mv Hs Hm. cbn [static_stmt] in Hs.
    destruct (sty_c P E c) as [[t|]|v] eqn:Hty; try discriminate.
    destruct (sty_c_rtype (erase E) _ _ _ Hty) as [Hr Hc0]. specialize (Hc0 t eq_refl).
    assert (Hann : forall d, ann_ok ann d = true -> match ann with Some a => a | None => cty_c P (erase E) c end = (match ann with Some _ => d | None => t end)).
    { intros d Ha. destruct ann as [a|]; cbn in *; [|exact Hc0]. destruct a, d; cbn in Ha; try discriminate; reflexivity. }
    cbn [lower_stmt]. unfold sexists. rewrite slookup_erase.
    destruct k.
    + destruct (tlookup x E) as [[vt vm]|] eqn:Hx; cbn [option_map].
      * destruct vm; cbn in Hs; [|discriminate].
        destruct (ty_eqb vt t) eqn:Ht; cbn in Hs; [|discriminate].
        destruct (ann_ok ann vt); [|discriminate]. injection Hs as <-.
        rewrite (Hm x vt Hx).
        exists (GAssign x (lower_c P (erase E) c)), mv. split; [reflexivity|].
        split; [|split; [exact Hm|apply mono_refl]].
        cbn [tree_of_stmt rtype_stmt]. rewrite <- tlookup_flat, Hx, Hr, Ht. reflexivity.
      * destruct (ann_ok ann t) eqn:Ha; [|discriminate]. injection Hs as <-.
        rewrite (Hann t Ha). replace (match ann with Some _ => t | None => t end) with t by (destruct ann; reflexivity).
        exists (GLet x false (lower_c P (erase E) c)), mv. rewrite erase_tbind. split; [reflexivity|].
        split; [|split; [now apply mvok_bind_imm|apply mono_refl]].
        cbn [tree_of_stmt rtype_stmt]. rewrite Hr, flat_tbind. reflexivity.
    + destruct (in_top x E); [discriminate|]. destruct (ann_ok ann t) eqn:Ha; [|discriminate]. injection Hs as <-.
      rewrite (Hann t Ha). replace (match ann with Some _ => t | None => t end) with t by (destruct ann; reflexivity).
      exists (GLet x false (lower_c P (erase E) c)), mv. rewrite erase_tbind. split; [reflexivity|].
      split; [|split; [now apply mvok_bind_imm|apply mono_refl]].
      cbn [tree_of_stmt rtype_stmt]. rewrite Hr, flat_tbind. reflexivity.
    + destruct (in_top x E); [discriminate|]. destruct (ann_ok ann t) eqn:Ha; [|discriminate]. injection Hs as <-.
      rewrite (Hann t Ha). replace (match ann with Some _ => t | None => t end) with t by (destruct ann; reflexivity).
      exists (GLet x true (lower_c P (erase E) c)), (x :: mv). rewrite erase_tbind. split; [reflexivity|].
      split; [|split; [now apply mvok_bind_mut|apply mem_cons_mono]].
      cbn [tree_of_stmt rtype_stmt]. rewrite Hr, flat_tbind. reflexivity.
  - (* compound assignment *)
    intros o x e rt lp E E' mv Hs Hm. cbn [static_stmt] in Hs.
    destruct (tlookup x E) as [[[| |] [|]]|] eqn:Hx; try discriminate.
    destruct (sty E e) as [[| |]|v] eqn:Hty; try discriminate. injection Hs as <-.
    exists (GAssign x (IPure (lower_expr (erase E) (EBin (binop_of_cop o) (EVar x) e)))), mv.
    split; [reflexivity|]. split; [|split; [exact Hm|apply mono_refl]].
    cbn [tree_of_stmt tree_of_c rtype_stmt rtype_c]. rewrite <- tlookup_flat, Hx.
    assert (Hb : sty E (EBin (binop_of_cop o) (EVar x) e) = SOk TyInt).
    { cbn [sty]. rewrite Hx, Hty. destruct o; reflexivity. }
    rewrite (sty_rtype (erase E) _ _ _ Hb). reflexivity.
  - (* if *)
    intros c th IHth el IHel rt lp E E' mv Hs Hm. cbn [static_stmt] in Hs.
    destruct (sty E c) as [[| |]|v] eqn:Hc; try discriminate.
    destruct (static_block P rt lp ([] :: E) th) as [Eth|v] eqn:Hth; [|discriminate].
    destruct (static_els P rt lp E el) as [[]|v] eqn:Hel; [|discriminate]. injection Hs as <-.
    destruct (IHel _ _ _ _ Hel Hm) as (el' & mv1 & Hle & Hte & Hm1 & Mo1).
    destruct (scoped th rt lp [] E Eth mv1 ([] :: erase E) IHth Hth (mvok_push_nil _ _ Hm1) eq_refl) as (th' & sct & mv2 & Hlt & Htt & Mo2).
    exists (GIf (lower_expr (erase E) c) th' el'), mv2. cbn [lower_stmt].
    rewrite Hle. cbv beta iota. rewrite Hlt. split; [reflexivity|].
    split; [|split; [eapply mvok_mono; [exact Hm|eapply mono_trans; eauto]|eapply mono_trans; eauto]].
    cbn [tree_of_stmt rtype_stmt]. rewrite (sty_rtype (erase E) _ _ _ Hc). cbn [is_boolt andb].
    change (flat ([] :: E)) with (flat E) in Htt. rewrite Htt. cbn [andb].
    destruct el'; cbn [tels rtype_els] in Hte |- *; [reflexivity|]. now rewrite Hte.
  - (* while *)
    intros c b IHb rt lp E E' mv Hs Hm. cbn [static_stmt] in Hs.
    destruct (sty E c) as [[| |]|v] eqn:Hc; try discriminate.
    destruct (static_block P rt true ([] :: E) b) as [Eb|v] eqn:Hb; [|discriminate]. injection Hs as <-.
    destruct (scoped b rt true [] E Eb mv ([] :: erase E) IHb Hb (mvok_push_nil _ _ Hm) eq_refl) as (b' & scb & mv1 & Hlb & Htb & Mo).
    exists (GWhile (lower_expr ([] :: erase E) c) b'), mv1. cbn [lower_stmt].
    rewrite Hlb. split; [reflexivity|].
    split; [|split; [eapply mvok_mono; eauto|exact Mo]].
    change (flat ([] :: E)) with (flat E) in Htb.
    assert (Hcs : sty ([] :: E) c = SOk TyBool).
    { clear -Hc. revert Hc. generalize TyBool. induction c; intros t H; cbn [sty] in *; auto.
      - destruct o; (destruct (sty E c) as [[| |]|k] eqn:Ec; try discriminate; rewrite (IHc _ eq_refl); exact H).
      - destruct (sty E c1) as [t1|] eqn:E1; [|discriminate]. destruct (sty E c2) as [t2|] eqn:E2; [|discriminate].
        rewrite (IHc1 _ eq_refl), (IHc2 _ eq_refl). exact H. }
    pose proof (sty_rtype ([] :: erase E) _ _ _ Hcs) as Hr. change (flat ([] :: E)) with (flat E) in Hr.
    cbn [tree_of_stmt]. destruct (is_true_lit (lower_expr ([] :: erase E) c)) eqn:Htl.
    + cbn [rtype_stmt]. now rewrite Htb.
    + cbn [rtype_stmt]. rewrite Hr. cbn [is_boolt andb]. now rewrite Htb.
  - (* for *)
    intros x r b IHb rt lp E E' mv Hs Hm. cbn [static_stmt] in Hs.
    match type of Hs with match ?G with _ => _ end = _ => destruct G as [[]|v] eqn:Hargs; [|discriminate] end.
    destruct (static_block P rt true ([(x, (TyInt, false))] :: E) b) as [Eb|v] eqn:Hb; [|discriminate]. injection Hs as <-.
    destruct (scoped b rt true [(x, (TyInt, false))] E Eb mv ([(x, TyInt)] :: erase E) IHb Hb (mvok_push_var _ _ _ Hm) eq_refl) as (b' & scb & mv1 & Hlb & Htb & Mo).
    assert (Hint : forall e, sty_int E e = SOk Datatypes.tt -> sty E e = SOk TyInt).
    { intros e H. unfold sty_int in H. destruct (sty E e) as [[| |]|]; try discriminate; reflexivity. }
    destruct (lower_rargs (erase E) r) as [[ia iz] ist] eqn:Hlr.
    exists (GFor x ia iz ist b'), mv1. cbn [lower_stmt]. rewrite Hlr.
    rewrite Hlb.
    split; [reflexivity|]. split; [|split; [eapply mvok_mono; eauto|exact Mo]].
    cbn [tree_of_stmt rtype_stmt]. change (flat ([(x, (TyInt, false))] :: E)) with ((x, (TyInt, false)) :: flat E) in Htb.
    rewrite Htb.
    destruct r as [e1|e1 e2|e1 e2 e3]; cbn [lower_rargs] in Hlr; injection Hlr as <- <- <-; cbn in Hargs;
    repeat match type of Hargs with
    | match sty_int E ?e with _ => _ end = _ =>
        let H := fresh "Hi" in destruct (sty_int E e) as [[]|] eqn:H; [apply Hint in H|discriminate]
    end; cbn [tree_of rtype_expr];
    repeat match goal with H : sty E ?e = SOk TyInt |- _ => rewrite (sty_rtype (erase E) _ _ _ H); clear H end;
    reflexivity.
  - (* println *)
    intros c rt lp E E' mv Hs Hm. cbn [static_stmt] in Hs.
    destruct (sty_c P E c) as [[t|]|v] eqn:Hty; try discriminate. injection Hs as <-.
    destruct (sty_c_rtype (erase E) _ _ _ Hty) as [Hr _].
    exists (GPrint (lower_c P (erase E) c)), mv. split; [reflexivity|].
    split; [|split; [exact Hm|apply mono_refl]].
    cbn [tree_of_stmt rtype_stmt]. now rewrite Hr.
  - (* expression statement *)
    intros c rt lp E E' mv Hs Hm. cbn [static_stmt] in Hs.
    destruct (sty_c P E c) as [ot|v] eqn:Hty; try discriminate. injection Hs as <-.
    destruct (sty_c_rtype (erase E) _ _ _ Hty) as [Hr _].
    exists (GExpr (lower_c P (erase E) c)), mv. split; [reflexivity|].
    split; [|split; [exact Hm|apply mono_refl]].
    cbn [tree_of_stmt rtype_stmt]. now rewrite Hr.
  - (* return *)
    intros oc rt lp E E' mv Hs Hm. cbn [static_stmt] in Hs. destruct oc as [c|].
    + destruct (sty_c P E c) as [[[| |]|]|v] eqn:Hty; try discriminate.
      destruct rt; [|discriminate]. injection Hs as <-.
      destruct (sty_c_rtype (erase E) _ _ _ Hty) as [Hr _].
      exists (GReturn (Some (lower_c P (erase E) c))), mv. split; [reflexivity|].
      split; [|split; [exact Hm|apply mono_refl]].
      cbn [tree_of_stmt rtype_stmt]. now rewrite Hr.
    + destruct rt; [discriminate|]. injection Hs as <-.
      exists (GReturn None), mv. repeat split; auto using mono_refl.
  - intros rt lp E E' mv Hs Hm. injection Hs as <-. exists GUnit, mv. repeat split; auto using mono_refl.
  - intros rt lp E E' mv Hs Hm. cbn in Hs. destruct lp; [|discriminate]. injection Hs as <-.
    exists GBreak, mv. repeat split; auto using mono_refl.
  - intros rt lp E E' mv Hs Hm. cbn in Hs. destruct lp; [|discriminate]. injection Hs as <-.
    exists GContinue, mv. repeat split; auto using mono_refl.
  - (* BNil *)
    intros rt lp E E' mv Hs Hm. injection Hs as <-. exists GNil, mv. repeat split; auto using mono_refl.
  - (* BCons *)
    intros s IHs r IHr rt lp E E' mv Hs Hm. cbn [static_block] in Hs.
    destruct (static_stmt P rt lp E s) as [E1|v] eqn:H1; [|discriminate].
    destruct (IHs _ _ _ _ _ H1 Hm) as (s' & mv1 & Hl1 & Ht1 & Hm1 & Mo1).
    destruct (IHr _ _ _ _ _ Hs Hm1) as (r' & mv2 & Hl2 & Ht2 & Hm2 & Mo2).
    exists (GCons s' r'), mv2. cbn [lower_block]. rewrite Hl1, Hl2. split; [reflexivity|].
    split; [|split; [exact Hm2|eapply mono_trans; eauto]].
    cbn [tree_of_block rtype_block]. now rewrite Ht1.
  - (* ENone *)
    intros rt lp E mv Hs Hm. exists GNoElse, mv. repeat split; auto using mono_refl.
  - (* EElse *)
    intros b IHb rt lp E mv Hs Hm. cbn [static_els] in Hs.
    destruct (static_block P rt lp ([] :: E) b) as [Eb|v] eqn:Hb; [|discriminate].
    destruct (scoped b rt lp [] E Eb mv ([] :: erase E) IHb Hb (mvok_push_nil _ _ Hm) eq_refl) as (b' & scb & mv1 & Hlb & Htb & Mo).
    exists (GElse b'), mv1. cbn [lower_els]. rewrite Hlb.
    split; [reflexivity|]. split; [|split; [eapply mvok_mono; eauto|exact Mo]].
    exact Htb.
  - (* EElif *)
    intros c b IHb rest IHrest rt lp E mv Hs Hm. cbn [static_els] in Hs.
    destruct (sty E c) as [[| |]|v] eqn:Hc; try discriminate.
    destruct (static_block P rt lp ([] :: E) b) as [Eb|v] eqn:Hb; [|discriminate].
    destruct (IHrest _ _ _ _ Hs Hm) as (rest' & mv1 & Hlr & Htr & Hm1 & Mo1).
    destruct (scoped b rt lp [] E Eb mv1 ([] :: erase E) IHb Hb (mvok_push_nil _ _ Hm1) eq_refl) as (b' & scb & mv2 & Hlb & Htb & Mo2).
    exists (GElse (GCons (GIf (lower_expr (erase E) c) b' rest') GNil)), mv2. cbn [lower_els].
    rewrite Hlr. cbv beta iota. rewrite Hlb. split; [reflexivity|].
    split; [|split; [eapply mvok_mono; [exact Hm|eapply mono_trans; eauto]|eapply mono_trans; eauto]].
    cbn [tels rtype_els tree_of_block tree_of_stmt rtype_block rtype_stmt].
    rewrite (sty_rtype (erase E) _ _ _ Hc). cbn [is_boolt andb].
    change (flat ([] :: E)) with (flat E) in Htb. rewrite Htb. cbn [andb].
    destruct rest'; cbn [tels rtype_els] in Htr |- *; [reflexivity|]. now rewrite Htr.
Qed.

(* a body that ends in return on every path keeps doing so after lowering *)
Definition ends_ret_stmt (s : stmt) : bool :=
  match s with
  | SReturn _ => true
  | SIf _ th el => ends_ret th && ends_ret_els el
  | _ => false
  end.

Lemma ends_ret_last s : ends_ret (BCons s BNil) = ends_ret_stmt s.
Proof. destruct s; reflexivity. Qed.

Lemma ends_ret_lowers :
  (forall s, forall sc mv s' sc' mv', ends_ret_stmt s = true -> lower_stmt P sc mv s = LOk (s', sc', mv') ->
             ends_in_return (GCons (tree_of_stmt s') GNil) = true) /\
  (forall b, forall sc mv b' sc' mv', ends_ret b = true -> lower_block P sc mv b = LOk (b', sc', mv') ->
             ends_in_return (tree_of_block b') = true) /\
  (forall el, forall sc mv el' mv', ends_ret_els el = true -> lower_els P sc mv el = LOk (el', mv') ->
              exists eb, tels el' = GElse eb /\ ends_in_return eb = true).
Proof.
  apply stmt_block_els_ind; try (intros; cbn in *; discriminate).
  - (* if *)
    intros c th IHth el IHel sc mv s' sc' mv' He Hl. cbn [ends_ret_stmt] in He. apply andb_prop in He. destruct He as [H1 H2].
    cbn [lower_stmt] in Hl.
    destruct (lower_els P sc mv el) as [[el' mv1]|] eqn:Hle; [|discriminate].
    destruct (lower_block P ([] :: sc) mv1 th) as [[[th' sct] mv2]|] eqn:Hlt; [|discriminate]. injection Hl as <- <- <-.
    destruct (IHel _ _ _ _ H2 Hle) as (eb & Heb & Hre).
    cbn [tree_of_stmt ends_in_return]. unfold tels in Heb. destruct el'; [discriminate|]. injection Heb as <-.
    rewrite (IHth _ _ _ _ _ H1 Hlt), Hre. reflexivity.
  - (* return *)
    intros oc sc mv s' sc' mv' _ Hl. cbn [lower_stmt] in Hl. injection Hl as <- <- <-. reflexivity.
  - (* BCons *)
    intros s IHs r IHr sc mv b' sc' mv' He Hl. cbn [lower_block] in Hl.
    destruct (lower_stmt P sc mv s) as [[[s1 sc1] mv1]|] eqn:Hs; [|discriminate].
    destruct (lower_block P sc1 mv1 r) as [[[r1 sc2] mv2]|] eqn:Hr; [|discriminate]. injection Hl as <- <- <-.
    destruct r as [|s2 r2].
    + cbn [lower_block] in Hr. injection Hr as <- <- <-. rewrite ends_ret_last in He.
      cbn [tree_of_block]. eapply IHs; eauto.
    + assert (Hne : exists s2' r2', r1 = GCons s2' r2').
      { cbn [lower_block] in Hr. destruct (lower_stmt P sc1 mv1 s2) as [[[s3 sc3] mv3]|]; [|discriminate].
        destruct (lower_block P sc3 mv3 r2) as [[[r3 sc4] mv4]|]; [|discriminate]. injection Hr as <- <- <-. eauto. }
      destruct Hne as (s2' & r2' & ->).
      assert (He' : ends_ret (BCons s2 r2) = true) by (destruct s; exact He).
      specialize (IHr _ _ _ _ _ He' Hr). cbn [tree_of_block] in *. exact IHr.
  - (* EElse *)
    intros b IHb sc mv el' mv' He Hl. cbn [lower_els] in Hl.
    destruct (lower_block P ([] :: sc) mv b) as [[[b' scb] mv1]|] eqn:Hb; [|discriminate]. injection Hl as <- <-.
    exists (tree_of_block b'). split; [reflexivity|]. eapply IHb; eauto.
  - (* EElif *)
    intros c b IHb rest IHrest sc mv el' mv' He Hl. cbn [ends_ret_els] in He. apply andb_prop in He. destruct He as [H1 H2].
    cbn [lower_els] in Hl.
    destruct (lower_els P sc mv rest) as [[rest' mv1]|] eqn:Hr; [|discriminate].
    destruct (lower_block P ([] :: sc) mv1 b) as [[[b' scb] mv2]|] eqn:Hb; [|discriminate]. injection Hl as <- <-.
    destruct (IHrest _ _ _ _ H2 Hr) as (eb & Heb & Hre).
    eexists. split; [reflexivity|]. cbn [tree_of_block tree_of_stmt ends_in_return].
    rewrite (IHb _ _ _ _ _ H1 Hb). unfold tels in Heb. destruct rest'; [discriminate|]. injection Heb as <-. now rewrite Hre.
Qed.

End Typed.

(* ---------------------------------------------------------------- whole programs *)

Definition psigs (l : prog) : fsigs := map (fun d => (fname d, (length (fparams d), fret d))) l.

Lemma psigs_find l : forall f d, find_fn f l = Some d -> find_sig f (psigs l) = Some (length (fparams d), fret d).
Proof.
  induction l as [|x r IH]; intros f d H; cbn in *; [discriminate|].
  destruct (f =? fname x); [now injection H as <-|auto].
Qed.

Lemma sigs_of_lowered P : forall l mv fs, lower_fns P mv l = LOk fs -> sigs_of (tree_of_fns fs) = psigs l.
Proof.
  induction l as [|x r IH]; intros mv fs H; cbn [lower_fns] in H.
  - now injection H as <-.
  - destruct (lower_block P (init_scopes (fparams x)) mv (fbody x)) as [[[b sc1] mv1]|]; [|discriminate].
    destruct (lower_fns P mv1 r) as [rest|] eqn:Hr; [|discriminate]. injection H as <-.
    cbn. f_equal. eapply IH; eauto.
Qed.

Lemma mvok_params ps mv : mvok (param_env ps) mv.
Proof.
  intros x t H. unfold param_env in H. cbn in H. exfalso.
  induction ps as [|p r IH]; cbn in H; [discriminate|].
  destruct (x =? p); [discriminate|]. now apply IH.
Qed.

Lemma static_defs_lower P (S0 : fsigs)
  (Hsig : forall f d, find_fn f P = Some d -> find_sig f S0 = Some (length (fparams d), fret d)) :
  forall l mv, static_defs P l = None ->
  exists fs, lower_fns P mv l = LOk fs /\ forallb (rtype_fn S0) (tree_of_fns fs) = true.
Proof.
  induction l as [|d r IH]; intros mv H; cbn [static_defs] in H; [exists []; split; reflexivity|].
  unfold static_def in H.
  destruct (static_block P (fret d) false (param_env (fparams d)) (fbody d)) as [E'|k] eqn:Hs; [|discriminate].
  destruct (negb (fret d) || ends_ret (fbody d)) eqn:Hret; [|discriminate].
  destruct (proj1 (proj2 (static_lowers P S0 Hsig)) _ _ _ _ _ _ Hs (mvok_params _ mv)) as (b' & mv' & Hl & Ht & _ & _).
  destruct (IH mv' H) as (rest & Hr & Hrt).
  replace (erase (param_env (fparams d))) with (init_scopes (fparams d)) in Hl.
  2:{ unfold init_scopes, param_env, erase. cbn. now rewrite map_map. }
  exists ({| iname := fname d; iparams := fparams d; iret := fret d; ibody := b' |} :: rest).
  cbn [lower_fns]. rewrite Hl, Hr. split; [reflexivity|].
  unfold tree_of_fns in *. cbn [map forallb]. rewrite Hrt, andb_true_r.
  unfold rtype_fn, tree_of_fn. cbn [rparams rret rbody iparams iret ibody].
  replace (map (fun p => (p, (TyInt, false))) (fparams d)) with (flat (param_env (fparams d))).
  2:{ unfold flat, param_env. cbn. apply app_nil_r. }
  rewrite Ht. cbn [is_some andb].
  destruct (fret d); [|reflexivity]. cbn [negb orb] in Hret |- *.
  eapply (proj1 (proj2 (ends_ret_lowers P))); eauto.
Qed.

Lemma static_builds c :
  static_fn c = None ->
  exists fs, lower_prog (cprog c) = LOk fs /\ rtype_prog (tree_of_fns fs) = true.
Proof.
  unfold static_fn, lower_prog. intros H. set (P := cprog c) in *.
  destruct (static_defs_lower P (psigs P) (psigs_find P) P [] H) as (fs & Hl & Ht).
  exists fs. split; [exact Hl|]. unfold rtype_prog. now rewrite (sigs_of_lowered P P [] fs Hl).
Qed.
