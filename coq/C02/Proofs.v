(* C02/Proofs.v — a function that obeys the documented static rules lowers without internal error
   to an IR whose denoted Rust body is well-typed (i64/bool typing). *)
From Verif Require Import Base.I64 C04.Model Core.Syntax Core.Dynamic Core.Rust Core.Lower Core.Static Core.Checker
  C01.Model C01.ProofsStmt C02.Model.
From Coq Require Import ZArith List Bool Lia.
Import ListNotations.
Open Scope Z_scope.

Definition erase (E : senv) : scopes := map (map (fun p : ident * (ty * bool) => (fst p, fst (snd p)))) E.
Definition flat (E : senv) : tframe := concat E.
Definition mvok (E : senv) (mv : list ident) : Prop :=
  forall x t, tlookup x E = Some (t, true) -> mem x mv = true.
Definition mono (mv mv' : list ident) : Prop := forall y, mem y mv = true -> mem y mv' = true.

Lemma tflookup_app x a b :
  tflookup x (a ++ b) = match tflookup x a with Some v => Some v | None => tflookup x b end.
Proof. induction a as [|[y v] r IH]; cbn; [reflexivity|]. destruct (x =? y); [reflexivity|exact IH]. Qed.

Lemma tlookup_flat x E : tlookup x E = tflookup x (flat E).
Proof.
  unfold flat. induction E as [|f r IH]; cbn; [reflexivity|].
  rewrite tflookup_app. destruct (tflookup x f); [reflexivity|exact IH].
Qed.

Lemma sclookup_erase x f :
  sclookup x (map (fun p : ident * (ty * bool) => (fst p, fst (snd p))) f) = option_map fst (tflookup x f).
Proof. induction f as [|[y [t m]] r IH]; cbn; [reflexivity|]. destruct (x =? y); [reflexivity|exact IH]. Qed.

Lemma slookup_erase x E : slookup x (erase E) = option_map fst (tlookup x E).
Proof.
  induction E as [|f r IH]; cbn; [reflexivity|].
  rewrite sclookup_erase. destruct (tflookup x f) as [[t m]|]; cbn; [reflexivity|exact IH].
Qed.

Lemma tlookup_tbind y x v E : tlookup y (tbind x v E) = if y =? x then Some v else tlookup y E.
Proof. destruct E as [|f r]; cbn; destruct (y =? x); reflexivity. Qed.

Lemma erase_tbind x t m E : erase (tbind x (t, m) E) = sinsert x t (erase E).
Proof. destruct E; reflexivity. Qed.

Lemma flat_tbind x v E : flat (tbind x v E) = (x, v) :: flat E.
Proof. destruct E; reflexivity. Qed.

Lemma mem_cons_mono x mv : mono mv (x :: mv).
Proof. intros y H. cbn. rewrite H. apply orb_true_r. Qed.
Lemma mono_refl mv : mono mv mv. Proof. intros y H; exact H. Qed.
Lemma mono_trans a b c : mono a b -> mono b c -> mono a c.
Proof. intros H1 H2 y H. auto. Qed.
Lemma mvok_mono E mv mv' : mvok E mv -> mono mv mv' -> mvok E mv'.
Proof. intros H M x t Hx. apply M. eapply H; eauto. Qed.
Lemma mvok_push E f mv : (forall x t, tflookup x f <> Some (t, true)) -> mvok E mv -> mvok (f :: E) mv.
Proof.
  intros Hf H x t Hx. cbn in Hx. destruct (tflookup x f) as [[t' m']|] eqn:Ef.
  - injection Hx as -> ->. exfalso. eapply Hf; eauto.
  - eapply H; eauto.
Qed.
Lemma mvok_push_nil E mv : mvok E mv -> mvok ([] :: E) mv.
Proof. apply mvok_push. intros x t H. discriminate. Qed.
Lemma mvok_push_var E x mv : mvok E mv -> mvok ([(x, (TyInt, false))] :: E) mv.
Proof. apply mvok_push. intros y t H. cbn in H. destruct (y =? x); discriminate. Qed.
Lemma mvok_bind_imm E x t mv : mvok E mv -> mvok (tbind x (t, false) E) mv.
Proof.
  intros H y t' Hy. rewrite tlookup_tbind in Hy. destruct (y =? x); [discriminate|]. eapply H; eauto.
Qed.
Lemma mvok_bind_mut E x t mv : mvok E mv -> mvok (tbind x (t, true) E) (x :: mv).
Proof.
  intros H y t' Hy. rewrite tlookup_tbind in Hy. cbn. destruct (y =? x) eqn:Eq; [reflexivity|].
  cbn. eapply H; eauto.
Qed.

(* ---------------------------------------------------------------- expressions *)

Lemma cty_sty E e t : sty E e = SOk t -> cty (erase E) e = t.
Proof.
  revert t. induction e as [n|b|x|e IH|o e IH|o l IHl r IHr]; intros t H; cbn [sty cty] in *.
  - destruct ((0 <=? n) && in_i64b n); [|discriminate]. now injection H as <-.
  - now injection H as <-.
  - unfold var_ty. rewrite slookup_erase. destruct (tlookup x E) as [[[| |] m]|]; cbn; try discriminate; now injection H as <-.
  - now apply IH.
  - destruct o; destruct (sty E e) as [[| |]|k]; try discriminate; injection H as <-.
    + now rewrite (IH TyInt eq_refl).
    + reflexivity.
  - destruct (sty E l) as [tl|k]; [|discriminate]. destruct (sty E r) as [tr|k]; [|discriminate].
    rewrite (IHl tl eq_refl), (IHr tr eq_refl).
    destruct o; cbn in *; destruct tl, tr; cbn in *; try discriminate; now injection H as <-.
Qed.

Lemma sty_rtype sc E e t : sty E e = SOk t -> rtype_expr (flat E) (tree_of (lower_expr sc e)) = Some t.
Proof.
  revert t. induction e as [n|b|x|e IH|o e IH|o l IHl r IHr]; intros t H; cbn [sty lower_expr tree_of] in *.
  - destruct (0 <=? n) eqn:H0; cbn in H; [|discriminate].
    destruct (in_i64b n) eqn:Hn; [|discriminate]. injection H as <-. cbn. now rewrite Hn.
  - now injection H as <-.
  - cbn. rewrite <- tlookup_flat. destruct (tlookup x E) as [[[| |] m]|]; try discriminate; now injection H as <-.
  - now apply IH.
  - destruct o; destruct (sty E e) as [[| |]|k]; try discriminate; injection H as <-; cbn [tree_of rtype_expr];
    now rewrite (IH _ eq_refl).
  - destruct (sty E l) as [tl|k]; [|discriminate]. destruct (sty E r) as [tr|k]; [|discriminate].
    specialize (IHl tl eq_refl). specialize (IHr tr eq_refl).
    destruct o; cbn [binop_plan] in *; cbn in H;
    try (destruct (cty sc l)); cbn [rtype_expr]; rewrite IHl, IHr;
    destruct tl, tr; cbn in *; try discriminate; now injection H as <-.
Qed.

(* ---------------------------------------------------------------- statements *)

Definition rtype_els (lp : bool) (F : tframe) (el : rels) : bool :=
  match el with GNoElse => true | GElse b => is_some (rtype_block lp F b) end.

Definition PS (s : stmt) : Prop := forall lp E E' mv,
  static_stmt lp E s = SOk E' -> mvok E mv ->
  exists s' mv', lower_stmt (erase E) mv s = LOk (s', erase E', mv') /\
                 rtype_stmt lp (flat E) (tree_of_stmt s') = Some (flat E') /\
                 mvok E' mv' /\ mono mv mv'.
Definition PB (b : block) : Prop := forall lp E E' mv,
  static_block lp E b = SOk E' -> mvok E mv ->
  exists b' mv', lower_block (erase E) mv b = LOk (b', erase E', mv') /\
                 rtype_block lp (flat E) (tree_of_block b') = Some (flat E') /\
                 mvok E' mv' /\ mono mv mv'.
Definition PE (el : els) : Prop := forall lp E mv,
  static_els lp E el = SOk Datatypes.tt -> mvok E mv ->
  exists el' mv', lower_els (erase E) mv el = LOk (el', mv') /\
                  rtype_els lp (flat E) (tels el') = true /\ mvok E mv' /\ mono mv mv'.

(* a block checked in a fresh scope *)
Lemma scoped (b : block) lp f E Eb mv sc0 :
  PB b -> static_block lp (f :: E) b = SOk Eb -> mvok (f :: E) mv -> sc0 = erase (f :: E) ->
  exists b' sc1 mv', lower_block sc0 mv b = LOk (b', sc1, mv') /\
                 is_some (rtype_block lp (flat (f :: E)) (tree_of_block b')) = true /\ mono mv mv'.
Proof.
  intros IH Hs Hm ->. destruct (IH _ _ _ _ Hs Hm) as (b' & mv' & Hl & Ht & _ & Hmo).
  exists b', (erase Eb), mv'. split; [exact Hl|]. split; [now rewrite Ht|exact Hmo].
Qed.

Lemma static_lowers : (forall s, PS s) /\ (forall b, PB b) /\ (forall el, PE el).
Proof.
  apply stmt_block_els_ind; unfold PS, PB, PE.
  - (* assignment *)
    intros k x ann e lp E E' mv Hs Hm. cbn [static_stmt] in Hs.
    destruct (sty E e) as [t|v] eqn:Hty; [|discriminate].
    pose proof (cty_sty _ _ _ Hty) as Hc. pose proof (sty_rtype (erase E) _ _ _ Hty) as Hr.
    assert (Hann : forall d, ann_ok ann d = true -> match ann with Some a => a | None => cty (erase E) e end = (match ann with Some _ => d | None => t end)).
    { intros d Ha. destruct ann as [a|]; cbn in *; [|exact Hc]. destruct a, d; cbn in Ha; try discriminate; reflexivity. }
    cbn [lower_stmt]. unfold sexists. rewrite slookup_erase.
    destruct k.
    + destruct (tlookup x E) as [[vt vm]|] eqn:Hx; cbn [option_map].
      * destruct vm; cbn in Hs; [|discriminate].
        destruct (ty_eqb vt t) eqn:Ht; cbn in Hs; [|discriminate].
        destruct (ann_ok ann vt); [|discriminate]. injection Hs as <-.
        rewrite (Hm x vt Hx).
        exists (GAssign x (lower_expr (erase E) e)), mv. split; [reflexivity|].
        split; [|split; [exact Hm|apply mono_refl]].
        cbn [tree_of_stmt rtype_stmt]. rewrite <- tlookup_flat, Hx, Hr, Ht. reflexivity.
      * destruct (ann_ok ann t) eqn:Ha; [|discriminate]. injection Hs as <-.
        rewrite (Hann t Ha). replace (match ann with Some _ => t | None => t end) with t by (destruct ann; reflexivity).
        exists (GLet x false (lower_expr (erase E) e)), mv. rewrite erase_tbind. split; [reflexivity|].
        split; [|split; [now apply mvok_bind_imm|apply mono_refl]].
        cbn [tree_of_stmt rtype_stmt]. rewrite Hr, flat_tbind. reflexivity.
    + destruct (in_top x E); [discriminate|]. destruct (ann_ok ann t) eqn:Ha; [|discriminate]. injection Hs as <-.
      rewrite (Hann t Ha). replace (match ann with Some _ => t | None => t end) with t by (destruct ann; reflexivity).
      exists (GLet x false (lower_expr (erase E) e)), mv. rewrite erase_tbind. split; [reflexivity|].
      split; [|split; [now apply mvok_bind_imm|apply mono_refl]].
      cbn [tree_of_stmt rtype_stmt]. rewrite Hr, flat_tbind. reflexivity.
    + destruct (in_top x E); [discriminate|]. destruct (ann_ok ann t) eqn:Ha; [|discriminate]. injection Hs as <-.
      rewrite (Hann t Ha). replace (match ann with Some _ => t | None => t end) with t by (destruct ann; reflexivity).
      exists (GLet x true (lower_expr (erase E) e)), (x :: mv). rewrite erase_tbind. split; [reflexivity|].
      split; [|split; [now apply mvok_bind_mut|apply mem_cons_mono]].
      cbn [tree_of_stmt rtype_stmt]. rewrite Hr, flat_tbind. reflexivity.
  - (* compound assignment *)
    intros o x e lp E E' mv Hs Hm. cbn [static_stmt] in Hs.
    destruct (tlookup x E) as [[[| |] [|]]|] eqn:Hx; try discriminate.
    destruct (sty E e) as [[| |]|v] eqn:Hty; try discriminate. injection Hs as <-.
    exists (GAssign x (lower_expr (erase E) (EBin (binop_of_cop o) (EVar x) e))), mv.
    split; [reflexivity|]. split; [|split; [exact Hm|apply mono_refl]].
    cbn [tree_of_stmt rtype_stmt]. rewrite <- tlookup_flat, Hx.
    assert (Hb : sty E (EBin (binop_of_cop o) (EVar x) e) = SOk TyInt).
    { cbn [sty]. rewrite Hx, Hty. destruct o; reflexivity. }
    rewrite (sty_rtype (erase E) _ _ _ Hb). reflexivity.
  - (* if *)
    intros c th IHth el IHel lp E E' mv Hs Hm. cbn [static_stmt] in Hs.
    destruct (sty E c) as [[| |]|v] eqn:Hc; try discriminate.
    destruct (static_block lp ([] :: E) th) as [Eth|v] eqn:Hth; [|discriminate].
    destruct (static_els lp E el) as [[]|v] eqn:Hel; [|discriminate]. injection Hs as <-.
    destruct (IHel _ _ _ Hel Hm) as (el' & mv1 & Hle & Hte & Hm1 & Mo1).
    destruct (scoped th lp [] E Eth mv1 ([] :: erase E) IHth Hth (mvok_push_nil _ _ Hm1) eq_refl) as (th' & sct & mv2 & Hlt & Htt & Mo2).
    exists (GIf (lower_expr (erase E) c) th' el'), mv2. cbn [lower_stmt].
    rewrite Hle. cbv beta iota. rewrite Hlt. split; [reflexivity|].
    split; [|split; [eapply mvok_mono; [exact Hm|eapply mono_trans; eauto]|eapply mono_trans; eauto]].
    cbn [tree_of_stmt rtype_stmt]. rewrite (sty_rtype (erase E) _ _ _ Hc). cbn [is_boolt andb].
    change (flat ([] :: E)) with (flat E) in Htt. rewrite Htt. cbn [andb].
    destruct el'; cbn [tels rtype_els] in Hte |- *; [reflexivity|]. now rewrite Hte.
  - (* while *)
    intros c b IHb lp E E' mv Hs Hm. cbn [static_stmt] in Hs.
    destruct (sty E c) as [[| |]|v] eqn:Hc; try discriminate.
    destruct (static_block true ([] :: E) b) as [Eb|v] eqn:Hb; [|discriminate]. injection Hs as <-.
    destruct (scoped b true [] E Eb mv ([] :: erase E) IHb Hb (mvok_push_nil _ _ Hm) eq_refl) as (b' & scb & mv1 & Hlb & Htb & Mo).
    exists (GWhile (lower_expr ([] :: erase E) c) b'), mv1. cbn [lower_stmt].
    rewrite Hlb. split; [reflexivity|].
    split; [|split; [eapply mvok_mono; eauto|exact Mo]].
    change (flat ([] :: E)) with (flat E) in Htb.
    assert (Hcs : sty ([] :: E) c = SOk TyBool).
    { clear -Hc. revert Hc. generalize TyBool. induction c; intros t H; cbn [sty] in *; auto.
      - destruct o; (destruct (sty E c) as [[| |]|k] eqn:Ec; try discriminate; rewrite (IHc _ eq_refl); exact H).
      - destruct (sty E c1) as [t1|] eqn:E1; [|discriminate]. destruct (sty E c2) as [t2|] eqn:E2; [|discriminate].
        rewrite (IHc1 _ eq_refl), (IHc2 _ eq_refl). exact H. }
    pose proof (sty_rtype ([] :: erase E) _ _ _ Hcs) as Hr. change (flat ([] :: E)) with (flat E) in Hr.
    cbn [tree_of_stmt]. destruct (is_true_lit (lower_expr ([] :: erase E) c)) eqn:Htl.
    + cbn [rtype_stmt]. now rewrite Htb.
    + cbn [rtype_stmt]. rewrite Hr. cbn [is_boolt andb]. now rewrite Htb.
  - (* for *)
    intros x r b IHb lp E E' mv Hs Hm. cbn [static_stmt] in Hs.
    match type of Hs with match ?G with _ => _ end = _ => destruct G as [[]|v] eqn:Hargs; [|discriminate] end.
    destruct (static_block true ([(x, (TyInt, false))] :: E) b) as [Eb|v] eqn:Hb; [|discriminate]. injection Hs as <-.
    destruct (scoped b true [(x, (TyInt, false))] E Eb mv ([(x, TyInt)] :: erase E) IHb Hb (mvok_push_var _ _ _ Hm) eq_refl) as (b' & scb & mv1 & Hlb & Htb & Mo).
    assert (Hint : forall e, sty_int E e = SOk Datatypes.tt -> sty E e = SOk TyInt).
    { intros e H. unfold sty_int in H. destruct (sty E e) as [[| |]|]; try discriminate; reflexivity. }
    destruct (lower_rargs (erase E) r) as [[ia iz] ist] eqn:Hlr.
    exists (GFor x ia iz ist b'), mv1. cbn [lower_stmt]. rewrite Hlr.
    rewrite Hlb.
    split; [reflexivity|]. split; [|split; [eapply mvok_mono; eauto|exact Mo]].
    cbn [tree_of_stmt rtype_stmt]. change (flat ([(x, (TyInt, false))] :: E)) with ((x, (TyInt, false)) :: flat E) in Htb.
    rewrite Htb.
    destruct r as [e1|e1 e2|e1 e2 e3]; cbn [lower_rargs] in Hlr; injection Hlr as <- <- <-; cbn in Hargs;
    repeat match type of Hargs with
    | match sty_int E ?e with _ => _ end = _ =>
        let H := fresh "Hi" in destruct (sty_int E e) as [[]|] eqn:H; [apply Hint in H|discriminate]
    end; cbn [tree_of rtype_expr];
    repeat match goal with H : sty E ?e = SOk TyInt |- _ => rewrite (sty_rtype (erase E) _ _ _ H); clear H end;
    reflexivity.
  - (* println *)
    intros e lp E E' mv Hs Hm. cbn [static_stmt] in Hs.
    destruct (sty E e) as [t|v] eqn:Hty; [|discriminate]. injection Hs as <-.
    exists (GPrint (lower_expr (erase E) e)), mv. split; [reflexivity|].
    split; [|split; [exact Hm|apply mono_refl]].
    cbn [tree_of_stmt rtype_stmt]. now rewrite (sty_rtype (erase E) _ _ _ Hty).
  - intros lp E E' mv Hs Hm. injection Hs as <-. exists GUnit, mv. repeat split; auto using mono_refl.
  - intros lp E E' mv Hs Hm. cbn in Hs. destruct lp; [|discriminate]. injection Hs as <-.
    exists GBreak, mv. repeat split; auto using mono_refl.
  - intros lp E E' mv Hs Hm. cbn in Hs. destruct lp; [|discriminate]. injection Hs as <-.
    exists GContinue, mv. repeat split; auto using mono_refl.
  - (* BNil *)
    intros lp E E' mv Hs Hm. injection Hs as <-. exists GNil, mv. repeat split; auto using mono_refl.
  - (* BCons *)
    intros s IHs r IHr lp E E' mv Hs Hm. cbn [static_block] in Hs.
    destruct (static_stmt lp E s) as [E1|v] eqn:H1; [|discriminate].
    destruct (IHs _ _ _ _ H1 Hm) as (s' & mv1 & Hl1 & Ht1 & Hm1 & Mo1).
    destruct (IHr _ _ _ _ Hs Hm1) as (r' & mv2 & Hl2 & Ht2 & Hm2 & Mo2).
    exists (GCons s' r'), mv2. cbn [lower_block]. rewrite Hl1, Hl2. split; [reflexivity|].
    split; [|split; [exact Hm2|eapply mono_trans; eauto]].
    cbn [tree_of_block rtype_block]. now rewrite Ht1.
  - (* ENone *)
    intros lp E mv Hs Hm. exists GNoElse, mv. repeat split; auto using mono_refl.
  - (* EElse *)
    intros b IHb lp E mv Hs Hm. cbn [static_els] in Hs.
    destruct (static_block lp ([] :: E) b) as [Eb|v] eqn:Hb; [|discriminate].
    destruct (scoped b lp [] E Eb mv ([] :: erase E) IHb Hb (mvok_push_nil _ _ Hm) eq_refl) as (b' & scb & mv1 & Hlb & Htb & Mo).
    exists (GElse b'), mv1. cbn [lower_els]. rewrite Hlb.
    split; [reflexivity|]. split; [|split; [eapply mvok_mono; eauto|exact Mo]].
    exact Htb.
  - (* EElif *)
    intros c b IHb rest IHrest lp E mv Hs Hm. cbn [static_els] in Hs.
    destruct (sty E c) as [[| |]|v] eqn:Hc; try discriminate.
    destruct (static_block lp ([] :: E) b) as [Eb|v] eqn:Hb; [|discriminate].
    destruct (IHrest _ _ _ Hs Hm) as (rest' & mv1 & Hlr & Htr & Hm1 & Mo1).
    destruct (scoped b lp [] E Eb mv1 ([] :: erase E) IHb Hb (mvok_push_nil _ _ Hm1) eq_refl) as (b' & scb & mv2 & Hlb & Htb & Mo2).
    exists (GElse (GCons (GIf (lower_expr (erase E) c) b' rest') GNil)), mv2. cbn [lower_els].
    rewrite Hlr. cbv beta iota. rewrite Hlb. split; [reflexivity|].
    split; [|split; [eapply mvok_mono; [exact Hm|eapply mono_trans; eauto]|eapply mono_trans; eauto]].
    cbn [tels rtype_els tree_of_block tree_of_stmt rtype_block rtype_stmt].
    rewrite (sty_rtype (erase E) _ _ _ Hc). cbn [is_boolt andb].
    change (flat ([] :: E)) with (flat E) in Htb. rewrite Htb. cbn [andb].
    destruct rest'; cbn [tels rtype_els] in Htr |- *; [reflexivity|]. now rewrite Htr.
Qed.

Lemma mvok_init ps : mvok (param_env ps) [].
Proof.
  intros x t H. unfold param_env in H. cbn in H.
  induction ps as [|p r IH]; cbn in H; [discriminate|].
  destruct (x =? p); [discriminate|]. now apply IH.
Qed.

Lemma static_builds c :
  static_fn c = None ->
  exists ib, lower_fn c = LOk ib /\ rtype_fn (params c) (tree_of_block ib) = true.
Proof.
  unfold static_fn. intros H. destruct (static_block false (param_env (params c)) (body c)) as [E'|k] eqn:Hs; [|discriminate].
  destruct (proj1 (proj2 static_lowers) _ _ _ _ _ Hs (mvok_init _)) as (b' & mv' & Hl & Ht & _ & _).
  exists b'. unfold lower_fn.
  replace (init_scopes (params c)) with (erase (param_env (params c))).
  2:{ unfold init_scopes, param_env, erase. cbn. now rewrite map_map. }
  rewrite Hl. split; [reflexivity|].
  unfold rtype_fn. replace (map (fun p => (p, (TyInt, false))) (params c)) with (flat (param_env (params c))).
  2:{ unfold flat, param_env. cbn. apply app_nil_r. }
  now rewrite Ht.
Qed.
