(* C02/Props.v — the property theorems for C02 (MiniIncan fragment), and nothing else. *)
From Verif Require Import Base.I64 C04.Model Core.Syntax Core.Dynamic Core.Rust Core.Lower Core.Static Core.Checker
  C01.Model C01.ProofsStmt C02.Model C02.Proofs.
From Coq Require Import ZArith List Bool.
Import ListNotations.
Open Scope Z_scope.

(* the hypotheses are satisfiable by a non-trivial function (loops, nested reassignment of a `mut`) *)
Example C02_nonvacuous :
  check_fn nonvacuous_case = true /\ static_fn nonvacuous_case = None /\
  known_grouping nonvacuous_case = false /\ build_model nonvacuous_case = 0.
Proof. vm_compute. repeat split; reflexivity. Qed.

(* P1  accepted_builds on the fragment (programs of several functions with calls — positional and
       keyword arguments — and return): a program the checker (model, either variant of elif handling)
       accepts and that is outside the known classes lowers without internal error, the emitted token
       tree parses (Rust's grammar) to function items, and every item is well-typed Rust: i64/bool
       typing, calls match the callee's signature in number and type of arguments, break/continue only
       in loops, assignment only to `let mut`, `return` matches the declared result, and a function
       returning i64 cannot fall off its end.  Known_C02 = breaks a documented static rule the checker
       does not enforce (Core/Static.v names it), or is in an emission class of C01, or holds a
       constant overflow. *)
Theorem C02_accepted_builds : forall ev c,
  check_fn_gen ev c = true -> ~ Known_C02 c ->
  exists ts p, compile c = COk ts p /\ rtype_prog p = true.
Proof.
  intros ev c _ HK.
  assert (Hs : static_fn c = None).
  { destruct (static_fn c) eqn:E; [|reflexivity]. exfalso. apply HK. left. congruence. }
  assert (Hg : known_grouping c = false).
  { destruct (known_grouping c) eqn:E; [|reflexivity]. exfalso. apply HK. right. left. exact E. }
  destruct (static_builds c Hs) as (fs & Hl & Ht).
  unfold known_grouping in Hg. rewrite Hl in Hg. apply negb_false_iff in Hg. apply reparses_true in Hg.
  exists (emit_fns fs), (tree_of_fns fs). split; [|exact Ht].
  unfold compile. now rewrite Hl, Hg.
Qed.
Print Assumptions C02_accepted_builds.

(* P2  the documented rules alone suffice for lowering and typing (the checker is not needed):
       no internal error and well-typed denoted items *)
Theorem C02_static_builds : forall c,
  static_fn c = None ->
  exists fs, lower_prog (cprog c) = LOk fs /\ rtype_prog (tree_of_fns fs) = true.
Proof. exact static_builds. Qed.
Print Assumptions C02_static_builds.

(* P3  the property is false without the classes: fourteen programs the (pre-elif-fix) checker model
       accepts and whose build fails in the model (1 lowering error, 2 tokens do not parse, 3 ill-typed
       Rust), each with the first documented rule it breaks; with elif branches visited (the current
       tree) all but the elif witness remain accepted *)
Theorem C02_accepted_builds_refuted :
  forallb (fun w => let '(c, k, v) := w in
             check_fn c && (static_code c =? k) && (build_model c =? v) && negb (v =? 0)) witnesses = true /\
  forallb (fun w => let '(c, k, v) := w in
             check_fn_elif c && (static_code c =? k) && (build_model c =? v) && negb (v =? 0))
          (filter (fun w => negb (only_in_elif (fst (fst w)))) witnesses) = true /\
  check_fn_elif w_elif = false.
Proof. vm_compute. repeat split; reflexivity. Qed.
Print Assumptions C02_accepted_builds_refuted.
