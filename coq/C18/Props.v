(* C18/Props.v — the property theorems for C18, and nothing else.
   Model: C18/Model.v (handlers = lists of atomic segments split at the awaits of
   analyze_document / collect_dependency_modules / did_close; schedules = interleavings that start
   handlers in arrival order with at most 4 in flight; RwLock exclusion).
   `converged h st`: for every document, the stored (version, text) is the last one the client sent
   (nothing after close) and the last publication for it carries that version and was computed from
   that text by its own analysis.  A fair schedule is one that runs every handler to completion:
   `run .. = Some st /\ quiescentb h st = true`. *)
From Coq Require Import ZArith List Bool.
From Verif Require Import C18.Model C18.Proofs C18.ProofsRepaired C18.ProofsFaithful C18.ProofsWitness C18.ProofsLock.
Import ListNotations.
Open Scope Z_scope.

(* hypotheses are satisfiable: a complete, overlapping, lock-respecting run of 3 handlers on 2
   documents exists in both variants, and is outside every known class *)
Example C18_nonvacuous :
  let h := [Doc true 0 1 (good 1); Doc true 1 1 (good 2); Doc false 0 2 (good 3)] in
  let sch := [0; 1; 0; 1; 0; 0; 1; 1; 2; 2; 2; 2]%nat in
  (exists st, run Faithful h sch = Some st /\ quiescentb h st = true) /\
  (exists st, run Repaired h sch = Some st /\ quiescentb h st = true) /\
  known_syntax h = false /\ known_dep h = false /\ known_overlap h sch = false.
Proof.
  split; [eexists; split; vm_compute; reflexivity|].
  split; [eexists; split; vm_compute; reflexivity|].
  repeat split; vm_compute; reflexivity.
Qed.

(* T1  THE PROPERTY, for the repaired store: all histories, all fair schedules *)
Theorem C18_converges_repaired : forall h sch st,
  run Repaired h sch = Some st -> quiescentb h st = true -> converged h st.
Proof. exact converges_repaired. Qed.
Print Assumptions C18_converges_repaired.

(* T2  the code as it is refutes the property: a slow analysis of v1 overwrites v2 *)
Theorem C18_stale_overwrites_refuted :
  exists st, run Faithful h_stale s_stale = Some st /\ quiescentb h_stale st = true /\ ~ converged h_stale st.
Proof. exact stale_overwrites_refuted. Qed.
Print Assumptions C18_stale_overwrites_refuted.

(* T3  ... a store that runs after close/reopen brings the closed text back *)
Theorem C18_reopen_after_close_refuted :
  exists st, run Faithful h_reopen s_reopen = Some st /\ quiescentb h_reopen st = true /\ ~ converged h_reopen st.
Proof. exact reopen_after_close_refuted. Qed.
Print Assumptions C18_reopen_after_close_refuted.

(* T4  ... a text that does not parse is never stored: hover keeps answering from the old text
       (sequential schedule: no concurrency needed) *)
Theorem C18_syntax_error_keeps_old_text_refuted :
  exists st, run Faithful h_syntax s_syntax = Some st /\ quiescentb h_syntax st = true /\ ~ converged h_syntax st.
Proof. exact syntax_error_keeps_old_text_refuted. Qed.
Print Assumptions C18_syntax_error_keeps_old_text_refuted.

(* T5  ... analysing a document that imports an open document republishes the dependency's
       diagnostics from a syntax-only view (sequential schedule) *)
Theorem C18_dep_republish_refuted :
  exists st, run Faithful h_dep s_dep = Some st /\ quiescentb h_dep st = true /\ ~ converged h_dep st.
Proof. exact dep_republish_refuted. Qed.
Print Assumptions C18_dep_republish_refuted.

(* T6  each witness lies in exactly one class: the classes are non-empty and independent *)
Theorem C18_classes_independent :
  (Known_C18_stale_store h_stale s_stale /\ ~ Known_C18_error_keeps_old h_stale /\ ~ Known_C18_dep_republish h_stale) /\
  (Known_C18_stale_store h_reopen s_reopen /\ ~ Known_C18_error_keeps_old h_reopen /\ ~ Known_C18_dep_republish h_reopen) /\
  (Known_C18_error_keeps_old h_syntax /\ ~ Known_C18_stale_store h_syntax s_syntax /\ ~ Known_C18_dep_republish h_syntax) /\
  (Known_C18_dep_republish h_dep /\ ~ Known_C18_stale_store h_dep s_dep /\ ~ Known_C18_error_keeps_old h_dep).
Proof. exact (conj stale_class (conj reopen_class (conj syntax_class dep_class))). Qed.
Print Assumptions C18_classes_independent.

(* T7  THE PROPERTY, for the code as it is, on the complement of the three classes: all histories,
       all fair schedules in which no two handlers of one document overlap *)
Theorem C18_converges_unless_known : forall h sch st,
  ~ Known_C18_error_keeps_old h -> ~ Known_C18_dep_republish h -> ~ Known_C18_stale_store h sch ->
  run Faithful h sch = Some st -> quiescentb h st = true -> converged h st.
Proof.
  intros h sch st H1 H2 H3. apply converges_unless_known.
  - unfold Known_C18_error_keeps_old in H1. destruct (known_syntax h); [exfalso; auto|reflexivity].
  - unfold Known_C18_dep_republish in H2. destruct (known_dep h); [exfalso; auto|reflexivity].
  - unfold Known_C18_stale_store in H3. destruct (known_overlap h sch); [exfalso; auto|reflexivity].
Qed.
Print Assumptions C18_converges_unless_known.

(* T8  the repaired store handles the refuting cases (same histories, counterpart schedules) *)
Theorem C18_repaired_runs_witnesses :
  (exists st, run Repaired h_stale [0; 1; 0; 1; 1; 1; 0]%nat = Some st /\ quiescentb h_stale st = true) /\
  (exists st, run Repaired h_syntax [0; 0; 0; 0; 1; 1; 1]%nat = Some st /\ quiescentb h_syntax st = true).
Proof. exact (conj repaired_runs_stale repaired_runs_syntax). Qed.
Print Assumptions C18_repaired_runs_witnesses.

(* T9  the modelled RwLock: never a writer and a reader at once, in either variant, on every
       schedule prefix (so `lock_code` in the correspondence run is well defined) *)
Theorem C18_lock_exclusion : forall vr h sch st,
  run vr h sch = Some st -> writer st = None \/ readers st = [].
Proof. exact lock_exclusion. Qed.
Print Assumptions C18_lock_exclusion.
