(* C18/Props.v — the property theorems for C18, and nothing else.
   Model: C18/Model.v (handlers = lists of atomic segments split at the awaits of analyze_document /
   finish_analysis / collect_dependency_modules / did_close; schedules = interleavings that start
   handlers in arrival order with at most 4 in flight; RwLock exclusion; arrival tickets).
   `converged h st`: for every document, the stored (version, text) is the last one the client sent
   (nothing after close) and the last publication for it carries that version and was computed from
   that text by its own analysis.  A fair schedule is one that runs every handler to completion:
   `run .. = Some st /\ quiescentb h st = true`.
   Faithful = the code as it is (after 4a5ca1b, bdb7243); Repaired = additionally stores texts that do
   not parse. *)
From Coq Require Import ZArith List Bool.
From Verif Require Import C18.Model C18.Proofs C18.ProofsConverge C18.ProofsWitness C18.ProofsLock.
Import ListNotations.
Open Scope Z_scope.

(* hypotheses are satisfiable: a complete, overlapping, lock-respecting run of 3 handlers on 2
   documents exists in both variants, outside the known class *)
Example C18_nonvacuous :
  let h := [Doc true 0 1 (good 1); Doc true 1 1 (good 2); Doc false 0 2 (good 3)] in
  let sch := [0; 1; 2; 0; 1; 2; 0; 1; 1; 2; 2]%nat in
  (exists st, run Faithful h sch = Some st /\ quiescentb h st = true) /\
  (exists st, run Repaired h sch = Some st /\ quiescentb h st = true) /\
  known_syntax h = false /\ former_overlap h sch = true.
Proof.
  split; [eexists; split; vm_compute; reflexivity|].
  split; [eexists; split; vm_compute; reflexivity|].
  split; vm_compute; reflexivity.
Qed.

(* T1  THE PROPERTY for the code as it is: all histories whose last text per document parses, ALL
       fair schedules (overlapping handlers and imports of open documents included) *)
Theorem C18_converges_unless_known : forall h sch st,
  ~ Known_C18_error_keeps_old h ->
  run Faithful h sch = Some st -> quiescentb h st = true -> converged h st.
Proof.
  intros h sch st H1. apply converges_unless_syntax.
  unfold Known_C18_error_keeps_old in H1. destruct (known_syntax h); [exfalso; auto|reflexivity].
Qed.
Print Assumptions C18_converges_unless_known.

(* T2  THE PROPERTY without exception, for the variant that also stores texts that do not parse *)
Theorem C18_converges_repaired : forall h sch st,
  run Repaired h sch = Some st -> quiescentb h st = true -> converged h st.
Proof. exact converges_repaired. Qed.
Print Assumptions C18_converges_repaired.

(* T3  the code as it is refutes the property inside the known class: a text that does not parse is
       never stored, hover keeps answering from the old text (sequential schedule) *)
Theorem C18_syntax_error_keeps_old_text_refuted :
  exists st, run Faithful h_syntax s_syntax = Some st /\ quiescentb h_syntax st = true /\ ~ converged h_syntax st.
Proof. exact syntax_error_keeps_old_text_refuted. Qed.
Print Assumptions C18_syntax_error_keeps_old_text_refuted.

Theorem C18_class_nonempty : Known_C18_error_keeps_old h_syntax.
Proof. exact syntax_class. Qed.
Print Assumptions C18_class_nonempty.

(* T4  regression witness, lsp-stale-store (repaired by 4a5ca1b): v1's handler reaches its store after
       v2 has stored and published — v2 stays; the old continuation (v1 publishes) no longer exists *)
Theorem C18_stale_store_regression :
  (exists st, run Faithful h_stale s_stale = Some st /\ quiescentb h_stale st = true /\
              docs st 0 = Some (2, good 2) /\ last_pub (pubs st) 0 = Some (own_pub 0 2 (good 2))) /\
  run Faithful h_stale (s_stale ++ [0%nat]) = None.
Proof. exact (conj stale_store_regression stale_old_schedule_ends). Qed.
Print Assumptions C18_stale_store_regression.

(* T5  regression witness, close/reopen: neither a late store of the closed text nor a late close
       of the reopened document wins *)
Theorem C18_reopen_after_close_regression :
  (exists st, run Faithful h_reopen s_reopen = Some st /\ quiescentb h_reopen st = true /\
              docs st 0 = Some (1, good 3) /\ last_pub (pubs st) 0 = Some (own_pub 0 1 (good 3))) /\
  (exists st, run Faithful h_reopen s_late_close = Some st /\ quiescentb h_reopen st = true /\
              docs st 0 = Some (1, good 3) /\ last_pub (pubs st) 0 = Some (own_pub 0 1 (good 3))).
Proof. exact (conj reopen_regression late_close_regression). Qed.
Print Assumptions C18_reopen_after_close_regression.

(* T6  regression witness, lsp-dep-republish (repaired by bdb7243): analysing the importer publishes
       nothing for the open dependency (2 publications in all: one per document) *)
Theorem C18_dep_republish_regression :
  exists st, run Faithful h_dep s_dep = Some st /\ quiescentb h_dep st = true /\
             docs st 1 = Some (1, good 5) /\ last_pub (pubs st) 1 = Some (own_pub 1 1 (good 5)) /\
             length (pubs st) = 2%nat.
Proof. exact dep_republish_regression. Qed.
Print Assumptions C18_dep_republish_regression.

(* T7  the Repaired variant completes the refuting history *)
Theorem C18_repaired_runs_witness :
  exists st, run Repaired h_syntax [0; 0; 0; 0; 1; 1; 1]%nat = Some st /\ quiescentb h_syntax st = true.
Proof. exact repaired_runs_syntax. Qed.
Print Assumptions C18_repaired_runs_witness.

(* T8  the modelled RwLock: never a writer and a reader at once, in either variant, on every
       schedule prefix (so `lock_code` in the correspondence run is well defined) *)
Theorem C18_lock_exclusion : forall vr h sch st,
  run vr h sch = Some st -> writer st = None \/ readers st = [].
Proof. exact lock_exclusion. Qed.
Print Assumptions C18_lock_exclusion.
