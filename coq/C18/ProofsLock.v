(* C18/ProofsLock.v — the modelled RwLock is never held by a writer and a reader at once. *)
From Coq Require Import ZArith List Bool Lia.
From Verif Require Import C18.Model C18.Proofs.
Import ListNotations.
Open Scope Z_scope.

Definition lock_ok (st : state) : Prop := writer st = None \/ readers st = [].

Lemma lock_free_spec st : lock_free st = true -> writer st = None /\ readers st = [].
Proof.
  unfold lock_free, no_writer, is_nil. destruct (writer st); simpl; [discriminate|].
  destruct (readers st); [auto|discriminate].
Qed.
Lemma no_writer_spec st : no_writer st = true -> writer st = None.
Proof. unfold no_writer. destruct (writer st); [discriminate|reflexivity]. Qed.

Lemma lock_ok_exec st k s rest st' : lock_ok st -> exec st k s rest = Some st' -> lock_ok st'.
Proof.
  intros L Hx. unfold lock_ok in *. destruct s; simpl in Hx.
  - destruct (lock_free st) eqn:F; [|discriminate]. apply lock_free_spec in F as [F1 F2].
    destruct (has_ticket st u k); inversion Hx; subst; simpl; auto.
  - destruct (no_writer st) eqn:W; [|discriminate]. apply no_writer_spec in W.
    inversion Hx; subst; simpl. left; assumption.
  - inversion Hx; subst; simpl. destruct L as [L|L]; [left; assumption|right].
    destruct (holds_read rest); [assumption|]. rewrite L. reflexivity.
  - destruct (lock_free st) eqn:F; [|discriminate]. apply lock_free_spec in F as [F1 F2].
    destruct (has_ticket st u k); inversion Hx; subst; simpl; auto.
  - inversion Hx; subst; simpl. left; reflexivity.
  - destruct (lock_free st) eqn:F; [|discriminate]. apply lock_free_spec in F as [F1 F2].
    destruct (has_ticket st u k); inversion Hx; subst; simpl; auto.
  - inversion Hx; subst; simpl. left; reflexivity.
Qed.

Theorem lock_exclusion vr h sch st : run vr h sch = Some st -> writer st = None \/ readers st = [].
Proof.
  intros Hr. unfold run in Hr.
  apply (run_from_inv lock_ok vr h) with (sch := sch) (st := init); [| left; reflexivity | assumption].
  intros st0 k st1 L H. destruct (step_cases _ _ _ _ _ H) as [[_ [n [_ ->]]]|[_ [s [rest [_ Hx]]]]].
  - exact L.
  - eapply lock_ok_exec; eassumption.
Qed.
