(* C18/Proofs.v — basic lemmas, the handler shape, and the relational view of one step. *)
From Coq Require Import ZArith List Bool Lia.
From Verif Require Import C18.Model.
Import ListNotations.
Open Scope Z_scope.

(* ------------------------------------------------------------------ small facts *)

Lemma updn_same {A} (f : nat -> A) k a : updn f k a k = a.
Proof. unfold updn. rewrite Nat.eqb_refl. reflexivity. Qed.
Lemma updn_other {A} (f : nat -> A) k a j : j <> k -> updn f k a j = f j.
Proof. intros H. unfold updn. destruct (Nat.eqb j k) eqn:E; [apply Nat.eqb_eq in E; contradiction | reflexivity]. Qed.
Lemma upd_same {A} (f : Z -> A) u a : upd f u a u = a.
Proof. unfold upd. rewrite Z.eqb_refl. reflexivity. Qed.
Lemma upd_other {A} (f : Z -> A) u a x : x <> u -> upd f u a x = f x.
Proof. intros H. unfold upd. destruct (x =? u) eqn:E; [apply Z.eqb_eq in E; contradiction | reflexivity]. Qed.

Lemma latest_snoc l n u : latest (l ++ [n]) u = if nuri n =? u then Some n else latest l u.
Proof.
  induction l as [|a l IH]; simpl.
  - destruct (nuri n =? u); reflexivity.
  - rewrite IH. destruct (nuri n =? u); reflexivity.
Qed.

Lemma firstn_snoc {A} (h : list A) k n : nth_error h k = Some n -> firstn (S k) h = firstn k h ++ [n].
Proof.
  revert k; induction h as [|a h IH]; intros [|k] H; simpl in H; try discriminate.
  - inversion H; reflexivity.
  - change (a :: firstn (S k) h = a :: (firstn k h ++ [n])). f_equal. apply IH; assumption.
Qed.

Lemma last_pub_cons p ps u : last_pub (p :: ps) u = if puri p =? u then Some p else last_pub ps u.
Proof. reflexivity. Qed.

Lemma nth_error_lt {A} (h : list A) k : (k < length h)%nat -> exists n, nth_error h k = Some n.
Proof. intros H. destruct (nth_error h k) eqn:E; [eauto|]. apply nth_error_None in E. lia. Qed.

(* ------------------------------------------------------------------ the run keeps an invariant *)

Lemma run_from_inv (P : state -> Prop) vr h :
  (forall st k st', P st -> step vr h st k = Some st' -> P st') ->
  forall sch st st', P st -> run_from vr h st sch = Some st' -> P st'.
Proof.
  intros Hs sch; induction sch as [|k r IH]; intros st st' HP Hr; simpl in Hr.
  - inversion Hr; subst; assumption.
  - destruct (step vr h st k) as [st1|] eqn:E; [|discriminate].
    eapply IH; [eapply Hs; eassumption | eassumption].
Qed.

(* ------------------------------------------------------------------ handler shape *)

(* Faithful: a text that does not parse is published but not stored *)
Definition untouched (vr : variant) (n : note) : bool :=
  match vr, n with Faithful, Doc _ _ _ t => negb (tok t) | _, _ => false end.
Definition commit (vr : variant) (n : note) : seg :=
  match n with
  | Doc _ u v t => if untouched vr n then Guard u else Store u v t
  | Close u => CloseRemove u
  end.
Definition final (n : note) : seg := match n with Doc _ u v t => Publish u v t | Close u => ClosePublish u end.
Definition content (n : note) : option (Z * text) := match n with Doc _ _ v t => Some (v, t) | Close _ => None end.
Definition cdocs (vr : variant) (n : note) (d : uri -> option (Z * text)) : uri -> option (Z * text) :=
  if untouched vr n then d else upd d (nuri n) (content n).
Definition fpub (n : note) : pub := match n with Doc _ u v t => own_pub u v t | Close u => clear_pub u end.
Definition is_deps (s : seg) : bool := match s with DepsRead | DepsPublish _ => true | _ => false end.

Lemma puri_fpub n : puri (fpub n) = nuri n.
Proof. destruct n; reflexivity. Qed.
Lemma cdocs_other vr n d x : x <> nuri n -> cdocs vr n d x = d x.
Proof. intros H. unfold cdocs. destruct (untouched vr n); [reflexivity|apply upd_other; assumption]. Qed.
Lemma cdocs_same vr n d : untouched vr n = false -> cdocs vr n d (nuri n) = content n.
Proof. intros H. unfold cdocs. rewrite H. apply upd_same. Qed.

(* remaining segments of a handler whose note is n: it ends with commit;final *)
Definition shape (vr : variant) (n : note) (l : list seg) : Prop :=
  l = [] \/ l = [final n] \/ exists pre, forallb is_deps pre = true /\ l = pre ++ [commit vr n; final n].

Lemma forallb_deps_map imps : forallb is_deps (map DepsPublish imps) = true.
Proof. induction imps; simpl; auto. Qed.

Lemma forallb_deps_segs u t : forallb is_deps (deps_segs u t) = true.
Proof. unfold deps_segs. destruct (is_file u); [simpl; apply forallb_deps_map|reflexivity]. Qed.

Lemma of_note_pre vr n : exists pre, forallb is_deps pre = true /\ of_note vr n = pre ++ [commit vr n; final n].
Proof.
  destruct n as [o u v t|u]; simpl.
  - destruct (tok t) eqn:T.
    + exists (deps_segs u t). split; [apply forallb_deps_segs|].
      destruct vr; simpl; rewrite ?T; reflexivity.
    + exists []. split; [reflexivity|]. destruct vr; simpl; rewrite ?T; reflexivity.
  - exists []. split; reflexivity.
Qed.

Lemma shape_of_note vr n : shape vr n (of_note vr n).
Proof. right; right. apply of_note_pre. Qed.

Lemma commit_neq_final vr n : commit vr n <> final n.
Proof. destruct n as [o u v t|u]; simpl; [destruct (untouched vr (Doc o u v t))|]; discriminate. Qed.

Lemma shape_cons vr n s rest : shape vr n (s :: rest) ->
  (s = final n /\ rest = []) \/
  (s = commit vr n /\ rest = [final n]) \/
  (is_deps s = true /\ exists pre, forallb is_deps pre = true /\ rest = pre ++ [commit vr n; final n]).
Proof.
  intros [H|[H|[pre [Hp H]]]]; [discriminate| inversion H; auto |].
  destruct pre as [|p pre]; simpl in *.
  - inversion H; subst. right; left; auto.
  - inversion H; subst. apply andb_prop in Hp as [Hp1 Hp2]. right; right. split; [assumption|]. exists pre; auto.
Qed.

Lemma shape_pre_nonnil (pre : list seg) a b : pre ++ [a; b] <> [].
Proof. destruct pre; discriminate. Qed.
Lemma shape_pre_not_final (pre : list seg) a b c : pre ++ [a; b] <> [c].
Proof. destruct pre as [|p [|q pre]]; discriminate. Qed.

(* ------------------------------------------------------------------ decomposing a step *)

Lemma step_cases vr h st k st' : step vr h st k = Some st' ->
  (k = started st /\ exists n, nth_error h k = Some n /\ st' = start vr st k n) \/
  ((k < started st)%nat /\ exists s rest, segs st k = s :: rest /\ exec st k s rest = Some st').
Proof.
  unfold step. destruct (Nat.ltb k (started st)) eqn:L.
  - apply Nat.ltb_lt in L. destruct (segs st k) as [|s rest] eqn:E; [discriminate|].
    intros H. right. split; [assumption|]. exists s, rest. auto.
  - destruct (Nat.eqb k (started st) && Nat.ltb (inflight st) 4) eqn:C; [|discriminate].
    apply andb_prop in C as [C _]. apply Nat.eqb_eq in C.
    destruct (nth_error h k) as [n|] eqn:E; [|discriminate].
    intros H; inversion H; subst st'. left. split; [assumption|]. exists n. auto.
Qed.
