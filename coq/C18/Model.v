(* C18/Model.v — the language server's document store as a handler/schedule machine.
   Definitions only.

   Source modelled: /repo/src/lsp/backend.rs  analyze_document + finish_analysis (did_open,
   did_change), collect_dependency_modules, did_close, take_ticket / is_latest.  A handler is the list
   of its ATOMIC SEGMENTS: the code between two consecutive `.await`s (a segment starts when the await
   it follows completes).  The awaits are exactly the gate points of src/lsp/verif_gate.rs (cfg
   incan_verif):

     did_open/did_change  take_ticket; lex/parse (sync prefix)         = the Start step: ticket[uri] := own
                                                                         arrival index, no other effect
        ok path           deps_read   | documents.read().await         = DepsRead
                          deps_publish| (dependency step)              = DepsPublish u' (one per import that
                                        client.publish(dep..).await      resolves to a readable file; publishes
                                                                         only if u' is NOT an open document)
                          (read guard dropped when collect_dependency_modules returns: end of the
                           last deps segment, NOT an await)
        finish_analysis   store       | documents.write().await;       = Store  (text parses)  /  Guard (it does
                                        is_latest? insert                not: nothing is inserted).  Not latest:
                                                                         the handler ends here.  Guard kept!
                          publish     | client.publish(..).await       = Publish (guard dropped)
     did_close            close_lock  | documents.write().await;       = CloseRemove (same ticket test, guard kept)
                                        is_latest? remove
                          close_publish| client.publish(clear).await   = ClosePublish (guard dropped)

   An await is modelled as a possible suspension BEFORE its effect ("any await may suspend").
   Measured on the real server: `client.publish_diagnostics(..).await` is enqueue + flush on a
   futures mpsc channel of capacity 1; the enqueue never waits, the flush parks the handler whenever
   more than one message is queued, i.e. it really suspends AFTER the enqueue.  A run with
   suspend-after points is a run of this model in which each publish segment follows its predecessor
   immediately and guards are released earlier, so the model over-approximates it.

   tokio's RwLock is modelled by its exclusion only (a segment that must take the lock is enabled
   only when it can); tokio's FIFO fairness removes schedules, never adds any, so the model
   over-approximates the real server.  tower-lsp: handlers start in arrival order, <= 4 in flight.

   History: before the repairs 4a5ca1b (arrival ticket, store/remove/publish skipped when stale, write
   guard held from store to publish) and bdb7243 (no publication for a dependency that is an open
   document) the store was unconditional and `converged` failed under overlapping handlers
   (lsp-stale-store) and after analysing an importer (lsp-dep-republish).

   Two variants share every definition except `of_note`:
     Faithful  the code as it is: a text that does not lex/parse is published (under the same ticket
               test and guard) but never stored — lsp-error-keeps-old, a known finding;
     Repaired  such a text is stored too (without AST): the variant in which `converged` holds for
               every history. *)
From Coq Require Import ZArith List Bool Lia.
Import ListNotations.
Open Scope Z_scope.

Definition uri := Z.

(* A text: its identity, whether it lexes+parses, and the open-or-on-disk files its imports resolve
   to, in the order collect_dependency_modules visits them. *)
Record text := mkText { tid : Z; tok : bool; timports : list uri }.

Inductive note :=
| Doc (is_open : bool) (u : uri) (v : Z) (t : text)   (* didOpen / didChange (FULL sync) *)
| Close (u : uri).

Definition nuri (n : note) : uri := match n with Doc _ u _ _ => u | Close u => u end.

Inductive variant := Faithful | Repaired.

Inductive seg :=
| Guard (u : uri)
| DepsRead
| DepsPublish (u' : uri)
| Store (u : uri) (v : Z) (t : text)
| Publish (u : uri) (v : Z) (t : text)
| CloseRemove (u : uri)
| ClosePublish (u : uri).

(* uris below 100 are file: uris; the others (untitled:, ...) have no file path, and
   collect_dependency_modules returns before it touches the document map *)
Definition is_file (u : uri) : bool := u <? 100.
Definition deps_segs (u : uri) (t : text) : list seg :=
  if is_file u then DepsRead :: map DepsPublish (timports t) else [].

(* segments AFTER the start step *)
Definition of_note (vr : variant) (n : note) : list seg :=
  match n with
  | Doc _ u v t =>
      if tok t then deps_segs u t ++ [Store u v t; Publish u v t]
      else match vr with
           | Faithful => [Guard u; Publish u v t]
           | Repaired => [Store u v t; Publish u v t]
           end
  | Close u => [CloseRemove u; ClosePublish u]
  end.

(* what a publishDiagnostics was computed from *)
Inductive psrc :=
| SrcOwn (i : Z)            (* full analysis of text i by its own handler *)
| SrcDep (o : option Z)     (* syntax-only view of a dependency: stored text i, or the disk file *)
| SrcClear.                 (* did_close: empty list *)
Record pub := mkPub { puri : uri; pver : option Z; psrc_of : psrc }.

Record state := mkState {
  docs : uri -> option (Z * text);     (* documents: version, text *)
  pubs : list pub;                     (* newest first *)
  readers : list nat;                  (* handlers holding a read guard *)
  writer : option nat;                 (* handler holding the write guard *)
  started : nat;                       (* handlers 0..started-1 have started *)
  segs : nat -> list seg;              (* remaining segments; [] = not started or finished *)
  ticket : uri -> option nat           (* arrival ticket: latest started handler per document *)
}.

Definition init : state :=
  mkState (fun _ => None) [] [] None 0%nat (fun _ => []) (fun _ => None).

Definition upd {A} (f : Z -> A) (u : Z) (a : A) : Z -> A := fun x => if x =? u then a else f x.
Definition updn {A} (f : nat -> A) (k : nat) (a : A) : nat -> A := fun x => if Nat.eqb x k then a else f x.

Definition is_nil {A} (l : list A) : bool := match l with [] => true | _ => false end.
Definition no_writer (st : state) : bool := match writer st with None => true | Some _ => false end.
Definition lock_free (st : state) : bool := no_writer st && is_nil (readers st).
(* the read guard lives until collect_dependency_modules returns, i.e. while deps segments remain *)
Definition holds_read (rest : list seg) : bool := match rest with DepsPublish _ :: _ => true | _ => false end.
Definition has_ticket (st : state) (u : uri) (k : nat) : bool :=
  match ticket st u with Some l => Nat.eqb l k | None => false end.

Definition own_pub (u : uri) (v : Z) (t : text) : pub := mkPub u (Some v) (SrcOwn (tid t)).
Definition dep_pub (st : state) (u' : uri) : pub :=
  mkPub u' (option_map fst (docs st u')) (SrcDep (option_map (fun d => tid (snd d)) (docs st u'))).
Definition clear_pub (u : uri) : pub := mkPub u None SrcClear.

(* handler k runs its next segment s (rest = what remains afterwards); None = not enabled *)
Definition exec (st : state) (k : nat) (s : seg) (rest : list seg) : option state :=
  match s with
  | DepsRead =>
      if no_writer st then
        Some (mkState (docs st) (pubs st) (if holds_read rest then k :: readers st else readers st)
                      (writer st) (started st) (updn (segs st) k rest) (ticket st))
      else None
  | DepsPublish u' =>
      let ps := match docs st u' with
                | Some _ => pubs st                     (* an open document: its own handler publishes *)
                | None => dep_pub st u' :: pubs st
                end in
      Some (mkState (docs st) ps
                    (if holds_read rest then readers st else remove Nat.eq_dec k (readers st))
                    (writer st) (started st) (updn (segs st) k rest) (ticket st))
  | Store u v t =>
      if lock_free st then
        if has_ticket st u k then
          Some (mkState (upd (docs st) u (Some (v, t))) (pubs st) (readers st) (Some k) (started st)
                        (updn (segs st) k rest) (ticket st))
        else
          Some (mkState (docs st) (pubs st) (readers st) (writer st) (started st)
                        (updn (segs st) k []) (ticket st))
      else None
  | Guard u =>
      if lock_free st then
        if has_ticket st u k then
          Some (mkState (docs st) (pubs st) (readers st) (Some k) (started st)
                        (updn (segs st) k rest) (ticket st))
        else
          Some (mkState (docs st) (pubs st) (readers st) (writer st) (started st)
                        (updn (segs st) k []) (ticket st))
      else None
  | Publish u v t =>
      Some (mkState (docs st) (own_pub u v t :: pubs st) (readers st) None (started st)
                    (updn (segs st) k rest) (ticket st))
  | CloseRemove u =>
      if lock_free st then
        if has_ticket st u k then
          Some (mkState (upd (docs st) u None) (pubs st) (readers st) (Some k) (started st)
                        (updn (segs st) k rest) (ticket st))
        else
          Some (mkState (docs st) (pubs st) (readers st) (writer st) (started st)
                        (updn (segs st) k []) (ticket st))
      else None
  | ClosePublish u =>
      Some (mkState (docs st) (clear_pub u :: pubs st) (readers st) None (started st)
                    (updn (segs st) k rest) (ticket st))
  end.

(* the start step: the sync prefix (take the ticket; lex+parse) *)
Definition start (vr : variant) (st : state) (k : nat) (n : note) : state :=
  mkState (docs st) (pubs st) (readers st) (writer st) (S (started st))
          (updn (segs st) k (of_note vr n))
          (upd (ticket st) (nuri n) (Some k)).

Definition inflight (st : state) : nat :=
  length (filter (fun j => negb (is_nil (segs st j))) (seq 0 (started st))).

(* a schedule names, step by step, the handler (arrival index) that runs next: a started handler
   runs its next segment; the next not-yet-started one starts if fewer than 4 are in flight *)
Definition step (vr : variant) (h : list note) (st : state) (k : nat) : option state :=
  if Nat.ltb k (started st) then
    match segs st k with
    | [] => None
    | s :: rest => exec st k s rest
    end
  else if Nat.eqb k (started st) && Nat.ltb (inflight st) 4 then
    match nth_error h k with
    | Some n => Some (start vr st k n)
    | None => None
    end
  else None.

Fixpoint run_from (vr : variant) (h : list note) (st : state) (sch : list nat) : option state :=
  match sch with
  | [] => Some st
  | k :: r => match step vr h st k with Some st' => run_from vr h st' r | None => None end
  end.
Definition run (vr : variant) (h : list note) (sch : list nat) : option state := run_from vr h init sch.

(* every notification was handled to completion: what a fair schedule reaches *)
Definition quiescentb (h : list note) (st : state) : bool :=
  Nat.eqb (started st) (length h) && forallb (fun j => is_nil (segs st j)) (seq 0 (started st)).

(* ------------------------------------------------------------------ the property (independent spec) *)

(* the last notification the client sent for u *)
Fixpoint latest (l : list note) (u : uri) : option note :=
  match l with
  | [] => None
  | n :: r => match latest r u with
              | Some m => Some m
              | None => if nuri n =? u then Some n else None
              end
  end.

Fixpoint last_pub (ps : list pub) (u : uri) : option pub :=
  match ps with
  | [] => None
  | p :: r => if puri p =? u then Some p else last_pub r u
  end.

Definition settled (st : state) (u : uri) (o : option note) : Prop :=
  match o with
  | None => True
  | Some (Close _) => docs st u = None
  | Some (Doc _ _ v t) => docs st u = Some (v, t) /\ last_pub (pubs st) u = Some (own_pub u v t)
  end.

(* stored text = highest version sent (nothing after close); last diagnostics published for the
   document carry that version and were computed from that text by its own analysis *)
Definition converged (h : list note) (st : state) : Prop := forall u, settled st u (latest h u).

(* ------------------------------------------------------------------ classes of known failures *)

Definition uris (h : list note) : list uri := map nuri h.
Definition memz (u : Z) (l : list Z) : bool := existsb (Z.eqb u) l.

(* lsp-error-keeps-old: the last text sent for some document does not lex/parse *)
Definition known_syntax (h : list note) : bool :=
  existsb (fun u => match latest h u with Some (Doc _ _ _ t) => negb (tok t) | _ => false end) (uris h).

(* FORMER classes (repaired by 4a5ca1b / bdb7243; kept only so that the check can say in which of
   them a newly failing case would have fallen — they suppress nothing):
   dep-republish: a parsing text imports a document the client opens in this history *)
Definition former_dep (h : list note) : bool :=
  existsb (fun n => match n with
                    | Doc _ _ _ t => tok t && existsb (fun u' => memz u' (uris h)) (timports t)
                    | Close _ => false
                    end) h.

(* stale-store: a handler starts while an earlier handler for the same document is in flight *)
Definition starts_overlap (h : list note) (st : state) (k : nat) : bool :=
  Nat.eqb k (started st) &&
  match nth_error h k with
  | Some n => existsb (fun j => negb (is_nil (segs st j)) &&
                                match nth_error h j with Some m => nuri m =? nuri n | None => false end)
                      (seq 0 (started st))
  | None => false
  end.
Fixpoint overlap_from (vr : variant) (h : list note) (st : state) (sch : list nat) : bool :=
  match sch with
  | [] => false
  | k :: r => starts_overlap h st k ||
              match step vr h st k with Some st' => overlap_from vr h st' r | None => false end
  end.
Definition former_overlap (h : list note) (sch : list nat) : bool := overlap_from Faithful h init sch.

(* ------------------------------------------------------------------ rendering for the correspondence run *)

Definition oz (o : option Z) : Z := match o with Some z => z | None => -1 end.
Definition render_src (s : psrc) : Z * Z :=
  match s with SrcOwn i => (0, i) | SrcDep o => (1, oz o) | SrcClear => (2, 0) end.
Definition render_pub (p : pub) : Z * Z * (Z * Z) := (puri p, oz (pver p), render_src (psrc_of p)).
Definition render_doc (st : state) (u : uri) : Z * Z :=
  match docs st u with Some (v, t) => (v, tid t) | None => (-1, -1) end.
Definition lock_code (st : state) : Z :=
  match writer st with Some _ => 2 | None => if is_nil (readers st) then 0 else 1 end.
(* which arm of `step`/`exec` a schedule entry takes (recorded per run: coverage["model_arm_hits"]):
   0 start | 1/2 DepsRead keeps/drops the read guard | 3/4 DepsPublish publishes (keeps/drops guard) |
   5/6 DepsPublish skips an open document (keeps/drops) | 7/8 Store passes/stale ticket | 9/10 Guard
   passes/stale | 11 Publish | 12/13 CloseRemove passes/stale | 14 ClosePublish |
   not enabled: 20 DepsRead while a writer holds the lock | 21 store/guard/remove while a writer holds it |
   22 ... while readers hold it | 23 start with 4 handlers in flight | 24 start out of arrival order or
   beyond the history | 25 step of a finished handler *)
Definition wr_arm (st : state) (u : uri) (k : nat) (pass stale : Z) : Z :=
  if lock_free st then (if has_ticket st u k then pass else stale) else (if no_writer st then 22 else 21).
Definition arm (h : list note) (st : state) (k : nat) : Z :=
  if Nat.ltb k (started st) then
    match segs st k with
    | [] => 25
    | s :: rest =>
        match s with
        | DepsRead => if no_writer st then (if holds_read rest then 1 else 2) else 20
        | DepsPublish u' =>
            match docs st u' with
            | None => if holds_read rest then 3 else 4
            | Some _ => if holds_read rest then 5 else 6
            end
        | Store u _ _ => wr_arm st u k 7 8
        | Guard u => wr_arm st u k 9 10
        | Publish _ _ _ => 11
        | CloseRemove u => wr_arm st u k 12 13
        | ClosePublish _ => 14
        end
    end
  else if Nat.eqb k (started st) then
    (if Nat.ltb (inflight st) 4 then match nth_error h k with Some _ => 0 | None => 24 end else 23)
  else 24.

(* after each step: stored (version, text id) of the watched documents, lock state, #publications, arm *)
Definition snapshot (ws : list uri) (st : state) (a : Z) : list (Z * Z) * Z * Z * Z :=
  (map (render_doc st) ws, lock_code st, Z.of_nat (length (pubs st)), a).

Fixpoint trace_from (vr : variant) (h : list note) (ws : list uri) (st : state) (sch : list nat)
  : list (list (Z * Z) * Z * Z * Z) * option state * Z :=
  match sch with
  | [] => ([], Some st, -1)
  | k :: r => match step vr h st k with
              | Some st' => let '(tr, fin, bad) := trace_from vr h ws st' r in
                            (snapshot ws st' (arm h st k) :: tr, fin, bad)
              | None => ([], None, arm h st k)
              end
  end.

(* (legal?, quiescent?, per-step snapshots, publications oldest first, arm of the refused step or -1) *)
Definition render (vr : variant) (ws : list uri) (h : list note) (sch : list nat)
  : Z * Z * list (list (Z * Z) * Z * Z * Z) * list (Z * Z * (Z * Z)) * Z :=
  match trace_from vr h ws init sch with
  | (tr, Some st, bad) => (1, if quiescentb h st then 1 else 0, tr, rev (map render_pub (pubs st)), bad)
  | (tr, None, bad) => (0, 0, tr, [], bad)
  end.

(* the class as a predicate on a history *)
Definition Known_C18_error_keeps_old (h : list note) : Prop := known_syntax h = true.
