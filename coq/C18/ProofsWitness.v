(* C18/ProofsWitness.v — concrete runs: the faithful model refutes `converges` (one witness per
   class of failure, each outside the other classes), the repaired model handles the same cases. *)
From Coq Require Import ZArith List Bool Lia.
From Verif Require Import C18.Model C18.Proofs.
Import ListNotations.
Open Scope Z_scope.

Definition good (i : Z) : text := mkText i true [].
Definition bad (i : Z) : text := mkText i false [].
Definition good_imp (i : Z) (us : list uri) : text := mkText i true us.

(* open v1, change v2 on one document; v1's store segment runs last *)
Definition h_stale : list note := [Doc true 0 1 (good 1); Doc false 0 2 (good 2)].
Definition s_stale : list nat := [0; 1; 0; 1; 1; 1; 0; 0]%nat.
(* open, close, reopen; the first open's store runs after everything else *)
Definition h_reopen : list note := [Doc true 0 1 (good 1); Close 0; Doc true 0 1 (good 3)].
Definition s_reopen : list nat := [0; 0; 1; 1; 1; 2; 2; 2; 2; 0; 0]%nat.
(* open v1 (valid), change v2 (syntax error), handlers one after the other *)
Definition h_syntax : list note := [Doc true 0 1 (good 1); Doc false 0 2 (bad 2)].
Definition s_syntax : list nat := [0; 0; 0; 0; 1; 1]%nat.
(* open B, then open A which imports B, one after the other: A's handler republishes B *)
Definition h_dep : list note := [Doc true 1 1 (good 5); Doc true 0 1 (good_imp 3 [1])].
Definition s_dep : list nat := [0; 0; 0; 0; 1; 1; 1; 1; 1]%nat.

Ltac run_it := eexists; split; [vm_compute; reflexivity|]; split; [vm_compute; reflexivity|].

Lemma stale_overwrites_refuted :
  exists st, run Faithful h_stale s_stale = Some st /\ quiescentb h_stale st = true /\ ~ converged h_stale st.
Proof.
  run_it. intros C. specialize (C 0). vm_compute in C. destruct C as [C _]. discriminate C.
Qed.
Lemma stale_class :
  Known_C18_stale_store h_stale s_stale /\ ~ Known_C18_error_keeps_old h_stale /\ ~ Known_C18_dep_republish h_stale.
Proof. split; [vm_compute; reflexivity|]. split; intros C; vm_compute in C; discriminate C. Qed.

Lemma reopen_after_close_refuted :
  exists st, run Faithful h_reopen s_reopen = Some st /\ quiescentb h_reopen st = true /\ ~ converged h_reopen st.
Proof.
  run_it. intros C. specialize (C 0). vm_compute in C. destruct C as [C _]. discriminate C.
Qed.
Lemma reopen_class :
  Known_C18_stale_store h_reopen s_reopen /\ ~ Known_C18_error_keeps_old h_reopen /\ ~ Known_C18_dep_republish h_reopen.
Proof. split; [vm_compute; reflexivity|]. split; intros C; vm_compute in C; discriminate C. Qed.

Lemma syntax_error_keeps_old_text_refuted :
  exists st, run Faithful h_syntax s_syntax = Some st /\ quiescentb h_syntax st = true /\ ~ converged h_syntax st.
Proof.
  run_it. intros C. specialize (C 0). vm_compute in C. destruct C as [C _]. discriminate C.
Qed.
Lemma syntax_class :
  Known_C18_error_keeps_old h_syntax /\ ~ Known_C18_stale_store h_syntax s_syntax /\ ~ Known_C18_dep_republish h_syntax.
Proof. split; [vm_compute; reflexivity|]. split; intros C; vm_compute in C; discriminate C. Qed.

Lemma dep_republish_refuted :
  exists st, run Faithful h_dep s_dep = Some st /\ quiescentb h_dep st = true /\ ~ converged h_dep st.
Proof.
  run_it. intros C. specialize (C 1). vm_compute in C. destruct C as [_ C]. discriminate C.
Qed.
Lemma dep_class :
  Known_C18_dep_republish h_dep /\ ~ Known_C18_stale_store h_dep s_dep /\ ~ Known_C18_error_keeps_old h_dep.
Proof. split; [vm_compute; reflexivity|]. split; intros C; vm_compute in C; discriminate C. Qed.

(* the same histories in the repaired model: the stale handler's store is skipped, so the same
   interleaving is one step shorter; the schedule below is its counterpart *)
Lemma repaired_runs_stale :
  exists st, run Repaired h_stale [0; 1; 0; 1; 1; 1; 0]%nat = Some st /\ quiescentb h_stale st = true.
Proof. eexists; split; vm_compute; reflexivity. Qed.
Lemma repaired_runs_syntax :
  exists st, run Repaired h_syntax [0; 0; 0; 0; 1; 1; 1]%nat = Some st /\ quiescentb h_syntax st = true.
Proof. eexists; split; vm_compute; reflexivity. Qed.
