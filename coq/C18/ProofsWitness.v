(* C18/ProofsWitness.v — concrete runs. The code as it is still refutes `converged` when the last
   text of a document does not parse (known finding); the two repaired defects are pinned by
   regression witnesses: the histories and interleavings that used to fail now converge. *)
From Coq Require Import ZArith List Bool Lia.
From Verif Require Import C18.Model C18.Proofs.
Import ListNotations.
Open Scope Z_scope.

Definition good (i : Z) : text := mkText i true [].
Definition bad (i : Z) : text := mkText i false [].
Definition good_imp (i : Z) (us : list uri) : text := mkText i true us.

(* open v1 (valid), change v2 (syntax error), handlers one after the other *)
Definition h_syntax : list note := [Doc true 0 1 (good 1); Doc false 0 2 (bad 2)].
Definition s_syntax : list nat := [0; 0; 0; 0; 1; 1; 1]%nat.

(* FORMER witness of lsp-stale-store: open v1, change v2; v1's handler reaches its store last.
   Before the repair the run continued with v1's publish (schedule ++ [0]). *)
Definition h_stale : list note := [Doc true 0 1 (good 1); Doc false 0 2 (good 2)].
Definition s_stale : list nat := [0; 1; 0; 1; 1; 1; 0]%nat.
(* FORMER witness: open, close, reopen; the first open's store comes after everything else *)
Definition h_reopen : list note := [Doc true 0 1 (good 1); Close 0; Doc true 0 1 (good 3)].
Definition s_reopen : list nat := [0; 0; 1; 1; 1; 2; 2; 2; 2; 0]%nat.
(* a late close must not remove the reopened document *)
Definition s_late_close : list nat := [0; 0; 0; 0; 1; 2; 2; 2; 2; 1]%nat.
(* FORMER witness of lsp-dep-republish: open B, then open A which imports B *)
Definition h_dep : list note := [Doc true 1 1 (good 5); Doc true 0 1 (good_imp 3 [1])].
Definition s_dep : list nat := [0; 0; 0; 0; 1; 1; 1; 1; 1]%nat.

Lemma syntax_error_keeps_old_text_refuted :
  exists st, run Faithful h_syntax s_syntax = Some st /\ quiescentb h_syntax st = true /\ ~ converged h_syntax st.
Proof.
  eexists; split; [vm_compute; reflexivity|]; split; [vm_compute; reflexivity|].
  intros C. specialize (C 0). vm_compute in C. destruct C as [C _]. discriminate C.
Qed.
Lemma syntax_class : Known_C18_error_keeps_old h_syntax.
Proof. vm_compute; reflexivity. Qed.

Ltac regress u :=
  eexists; split; [vm_compute; reflexivity|]; split; [vm_compute; reflexivity|];
  vm_compute; repeat split; reflexivity.

(* the stale handler finds its ticket superseded: it ends at its store step, nothing is overwritten *)
Lemma stale_store_regression :
  exists st, run Faithful h_stale s_stale = Some st /\ quiescentb h_stale st = true /\
             docs st 0 = Some (2, good 2) /\ last_pub (pubs st) 0 = Some (own_pub 0 2 (good 2)).
Proof. regress 0. Qed.
Lemma stale_old_schedule_ends : run Faithful h_stale (s_stale ++ [0%nat]) = None.
Proof. vm_compute; reflexivity. Qed.

Lemma reopen_regression :
  exists st, run Faithful h_reopen s_reopen = Some st /\ quiescentb h_reopen st = true /\
             docs st 0 = Some (1, good 3) /\ last_pub (pubs st) 0 = Some (own_pub 0 1 (good 3)).
Proof. regress 0. Qed.
Lemma late_close_regression :
  exists st, run Faithful h_reopen s_late_close = Some st /\ quiescentb h_reopen st = true /\
             docs st 0 = Some (1, good 3) /\ last_pub (pubs st) 0 = Some (own_pub 0 1 (good 3)).
Proof. regress 0. Qed.

(* analysing the importer publishes nothing for the open dependency *)
Lemma dep_republish_regression :
  exists st, run Faithful h_dep s_dep = Some st /\ quiescentb h_dep st = true /\
             docs st 1 = Some (1, good 5) /\ last_pub (pubs st) 1 = Some (own_pub 1 1 (good 5)) /\
             length (pubs st) = 2%nat.
Proof. regress 1. Qed.

Lemma repaired_runs_syntax :
  exists st, run Repaired h_syntax [0; 0; 0; 0; 1; 1; 1]%nat = Some st /\ quiescentb h_syntax st = true.
Proof. eexists; split; vm_compute; reflexivity. Qed.
