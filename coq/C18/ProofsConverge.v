(* C18/ProofsConverge.v — the ticket-guarded store converges under EVERY schedule (both variants).
   Invariant RInv (inductive over schedule prefixes):
     ticket[u] is the last started handler for u;
     a handler past its commit (store/remove) and before its publish holds the write guard, the
       document already has its content, and the ticket holder of that document, if it is another
       handler, has not committed yet;
     once the ticket holder of u has finished, document and last publication of u are those of
       its notification. *)
From Coq Require Import ZArith List Bool Lia.
From Verif Require Import C18.Model C18.Proofs.
Import ListNotations.
Open Scope Z_scope.

Lemma settled_ext st st' u o :
  docs st' u = docs st u -> last_pub (pubs st') u = last_pub (pubs st) u -> settled st u o -> settled st' u o.
Proof.
  intros Hd Hp. destruct o as [[o' u0 v t|u0]|]; simpl; [rewrite Hd, Hp|rewrite Hd|]; auto.
Qed.

Lemma exec_final st i n st' : exec st i (final n) [] = Some st' ->
  st' = mkState (docs st) (fpub n :: pubs st) (readers st) None (started st) (updn (segs st) i []) (ticket st).
Proof. destruct n; simpl; intros H; inversion H; reflexivity. Qed.

Lemma exec_commit vr st i n st' : exec st i (commit vr n) [final n] = Some st' ->
  writer st = None /\
  ((ticket st (nuri n) = Some i /\
    st' = mkState (cdocs vr n (docs st)) (pubs st) (readers st) (Some i) (started st)
                  (updn (segs st) i [final n]) (ticket st)) \/
   (ticket st (nuri n) <> Some i /\
    st' = mkState (docs st) (pubs st) (readers st) (writer st) (started st) (updn (segs st) i []) (ticket st))).
Proof.
  assert (HT : forall u, has_ticket st u i = true <-> ticket st u = Some i).
  { intros u. unfold has_ticket. destruct (ticket st u) as [l|]; split; intros H; try discriminate.
    - apply Nat.eqb_eq in H; subst; reflexivity.
    - inversion H; apply Nat.eqb_refl. }
  assert (HL : lock_free st = true -> writer st = None).
  { unfold lock_free, no_writer. destruct (writer st); simpl; [discriminate|reflexivity]. }
  unfold cdocs, commit. destruct n as [o u v t|u]; [destruct (untouched vr (Doc o u v t)) eqn:U|destruct vr]; simpl; intros H;
    (destruct (lock_free st) eqn:L; [|discriminate]); (split; [auto|]);
    destruct (has_ticket st u i) eqn:T; inversion H; subst st';
    first [left; split; [apply HT; assumption|reflexivity] | right; split; [intros C; apply HT in C; congruence|reflexivity]].
Qed.

Lemma exec_deps st i s rest st' : is_deps s = true -> exec st i s rest = Some st' ->
  exists rd ps, st' = mkState (docs st) ps rd (writer st) (started st) (updn (segs st) i rest) (ticket st) /\
    (ps = pubs st \/ exists u', docs st u' = None /\ ps = dep_pub st u' :: pubs st).
Proof.
  destruct s; simpl; try discriminate; intros _.
  - destruct (no_writer st); [|discriminate]. intros H; inversion H. eexists; eexists; split; [reflexivity|auto].
  - intros H; inversion H. destruct (docs st u') eqn:D; eexists; eexists; split; try reflexivity; eauto.
Qed.

Record RInv (vr : variant) (h : list note) (st : state) : Prop := {
  ri_started : (started st <= length h)%nat;
  ri_unstarted : forall j, (started st <= j)%nat -> segs st j = [];
  ri_shape : forall j n, nth_error h j = Some n -> (j < started st)%nat -> shape vr n (segs st j);
  ri_ticket : forall u l, ticket st u = Some l ->
      (l < started st)%nat /\ (forall n, nth_error h l = Some n -> nuri n = u);
  ri_latest : forall u, latest (firstn (started st) h) u =
      match ticket st u with Some l => nth_error h l | None => None end;
  ri_final : forall j n, nth_error h j = Some n -> (j < started st)%nat -> segs st j = [final n] ->
      writer st = Some j /\ (untouched vr n = false -> docs st (nuri n) = content n) /\
      (forall l nl, ticket st (nuri n) = Some l -> l <> j -> nth_error h l = Some nl ->
         exists pre, segs st l = pre ++ [commit vr nl; final nl]);
  ri_settled : forall u l n, ticket st u = Some l -> nth_error h l = Some n -> segs st l = [] ->
      untouched vr n = false -> settled st u (Some n)
}.

Lemma RInv_init vr h : RInv vr h init.
Proof.
  constructor; simpl; intros; try discriminate; try lia; auto.
Qed.

Ltac same_note :=
  match goal with
  | H1 : nth_error ?h ?k = Some ?a, H2 : nth_error ?h ?k = Some ?b |- _ =>
      rewrite H1 in H2; inversion H2; subst; clear H2
  end.

Lemma RInv_start vr h st k n : RInv vr h st -> k = started st -> nth_error h k = Some n ->
  RInv vr h (start vr st k n).
Proof.
  intros I Hk Hn. subst k.
  assert (Hlt : (started st < length h)%nat) by (apply nth_error_Some; congruence).
  constructor; unfold start; cbn [docs pubs readers writer started segs ticket].
  - lia.
  - intros j Hj. rewrite updn_other by lia. apply (ri_unstarted _ _ _ I). lia.
  - intros j nj Hnj Hj. destruct (Nat.eq_dec j (started st)) as [->|Hne].
    + same_note. rewrite updn_same. apply shape_of_note.
    + rewrite updn_other by assumption. apply (ri_shape _ _ _ I); [assumption|lia].
  - intros u l Hl. unfold upd in Hl. destruct (u =? nuri n) eqn:E.
    + apply Z.eqb_eq in E. inversion Hl; subst l. split; [lia|]. intros n' Hn'. same_note. auto.
    + destruct (ri_ticket _ _ _ I u l Hl) as [A B]. split; [lia|assumption].
  - intros u. rewrite (firstn_snoc h _ n Hn), latest_snoc. unfold upd.
    rewrite (Z.eqb_sym (nuri n) u). destruct (u =? nuri n); [symmetry; assumption | apply (ri_latest _ _ _ I)].
  - intros j nj Hnj Hj Hs. destruct (Nat.eq_dec j (started st)) as [->|Hne].
    + same_note. rewrite updn_same in Hs. destruct (of_note_pre vr nj) as [pre [_ Hp]].
      rewrite Hp in Hs. exfalso; eapply shape_pre_not_final; eassumption.
    + rewrite updn_other in Hs by assumption.
      destruct (ri_final _ _ _ I j nj Hnj ltac:(lia) Hs) as [A [B C]]. split; [assumption|]. split; [assumption|].
      intros l nl Hl Hlj Hnl. unfold upd in Hl. destruct (nuri nj =? nuri n) eqn:E.
      * inversion Hl; subst l. same_note. rewrite updn_same. destruct (of_note_pre vr nl) as [pre0 [_ Hp0]]. exists pre0; exact Hp0.
      * destruct (ri_ticket _ _ _ I _ _ Hl) as [Hlt' _]. rewrite updn_other by lia. eapply C; eassumption.
  - intros u l nl Hl Hnl Hs Hun. unfold upd in Hl. destruct (u =? nuri n) eqn:E.
    + inversion Hl; subst l. rewrite updn_same in Hs. destruct (of_note_pre vr n) as [pre [_ Hp]].
      rewrite Hp in Hs. exfalso; eapply shape_pre_nonnil; eassumption.
    + destruct (ri_ticket _ _ _ I _ _ Hl) as [Hlt' _]. rewrite updn_other in Hs by lia.
      eapply (settled_ext st); [| |eapply (ri_settled _ _ _ I); eassumption]; reflexivity.
Qed.

Lemma RInv_exec vr h st i s rest st' : RInv vr h st -> (i < started st)%nat -> segs st i = s :: rest ->
  exec st i s rest = Some st' -> RInv vr h st'.
Proof.
  intros I Hi Hs Hx.
  destruct (nth_error_lt h i) as [ni Hni]; [pose proof (ri_started _ _ _ I); lia|].
  pose proof (ri_shape _ _ _ I i ni Hni Hi) as Hsh. rewrite Hs in Hsh.
  destruct (shape_cons _ _ _ _ Hsh) as [[-> ->]|[[-> ->]|[Hd [pre [Hpre ->]]]]].
  - (* final: publish, release *)
    apply exec_final in Hx. subst st'.
    destruct (ri_final _ _ _ I i ni Hni Hi Hs) as [Fw [Fd Fo]].
    constructor; cbn [docs pubs readers writer started segs ticket].
    + apply (ri_started _ _ _ I).
    + intros j Hj. rewrite updn_other by lia. apply (ri_unstarted _ _ _ I); assumption.
    + intros j nj Hnj Hj. destruct (Nat.eq_dec j i) as [->|Hne].
      * rewrite updn_same. left; reflexivity.
      * rewrite updn_other by assumption. apply (ri_shape _ _ _ I); assumption.
    + apply (ri_ticket _ _ _ I).
    + apply (ri_latest _ _ _ I).
    + intros j nj Hnj Hj Hsj. destruct (Nat.eq_dec j i) as [->|Hne].
      * rewrite updn_same in Hsj. discriminate.
      * rewrite updn_other in Hsj by assumption.
        destruct (ri_final _ _ _ I j nj Hnj Hj Hsj) as [A _]. rewrite Fw in A. inversion A. congruence.
    + intros u l nl Hl Hnl Hsl Hun. destruct (Nat.eq_dec l i) as [->|Hne].
      * same_note. destruct (ri_ticket _ _ _ I _ _ Hl) as [_ Hu]. specialize (Hu _ Hni). subst u.
        specialize (Fd Hun). destruct nl as [o u v t|u]; simpl in *.
        -- split; [assumption|]. unfold own_pub at 1. simpl. rewrite Z.eqb_refl. reflexivity.
        -- assumption.
      * rewrite updn_other in Hsl by assumption.
        destruct (Z.eq_dec (nuri ni) u) as [E|E].
        -- subst u. destruct (Fo l nl Hl Hne Hnl) as [pre Hp]. rewrite Hp in Hsl.
           exfalso; eapply shape_pre_nonnil; eassumption.
        -- eapply (settled_ext st); [reflexivity| |eapply (ri_settled _ _ _ I); eassumption].
           cbn [pubs]. rewrite last_pub_cons, puri_fpub. destruct (nuri ni =? u) eqn:E'; [apply Z.eqb_eq in E'; contradiction|reflexivity].
  - (* commit: store / remove under the ticket guard *)
    apply (exec_commit vr) in Hx. destruct Hx as [Hw [[Ht ->]|[Ht ->]]].
    + constructor; cbn [docs pubs readers writer started segs ticket].
      * apply (ri_started _ _ _ I).
      * intros j Hj. rewrite updn_other by lia. apply (ri_unstarted _ _ _ I); assumption.
      * intros j nj Hnj Hj. destruct (Nat.eq_dec j i) as [->|Hne].
        -- same_note. rewrite updn_same. right; left; reflexivity.
        -- rewrite updn_other by assumption. apply (ri_shape _ _ _ I); assumption.
      * apply (ri_ticket _ _ _ I).
      * apply (ri_latest _ _ _ I).
      * intros j nj Hnj Hj Hsj. destruct (Nat.eq_dec j i) as [->|Hne].
        -- same_note. split; [reflexivity|]. split; [apply cdocs_same|].
           intros l nl Hl Hli. rewrite Ht in Hl. inversion Hl. congruence.
        -- rewrite updn_other in Hsj by assumption.
           destruct (ri_final _ _ _ I j nj Hnj Hj Hsj) as [A _]. congruence.
      * intros u l nl Hl Hnl Hsl Hun. destruct (Nat.eq_dec l i) as [->|Hne].
        -- rewrite updn_same in Hsl. discriminate.
        -- rewrite updn_other in Hsl by assumption.
           eapply (settled_ext st); [| |eapply (ri_settled _ _ _ I); eassumption]; [|reflexivity].
           cbn [docs]. apply cdocs_other. intros ->. rewrite Ht in Hl. inversion Hl. congruence.
    + constructor; cbn [docs pubs readers writer started segs ticket].
      * apply (ri_started _ _ _ I).
      * intros j Hj. rewrite updn_other by lia. apply (ri_unstarted _ _ _ I); assumption.
      * intros j nj Hnj Hj. destruct (Nat.eq_dec j i) as [->|Hne].
        -- rewrite updn_same. left; reflexivity.
        -- rewrite updn_other by assumption. apply (ri_shape _ _ _ I); assumption.
      * apply (ri_ticket _ _ _ I).
      * apply (ri_latest _ _ _ I).
      * intros j nj Hnj Hj Hsj. destruct (Nat.eq_dec j i) as [->|Hne].
        -- rewrite updn_same in Hsj. discriminate.
        -- rewrite updn_other in Hsj by assumption.
           destruct (ri_final _ _ _ I j nj Hnj Hj Hsj) as [A _]. congruence.
      * intros u l nl Hl Hnl Hsl Hun. destruct (Nat.eq_dec l i) as [->|Hne].
        -- same_note. destruct (ri_ticket _ _ _ I _ _ Hl) as [_ Hu]. specialize (Hu _ Hni). subst u. contradiction.
        -- rewrite updn_other in Hsl by assumption.
           eapply (settled_ext st); [| |eapply (ri_settled _ _ _ I); eassumption]; reflexivity.
  - (* dependency phase *)
    destruct (exec_deps _ _ _ _ _ Hd Hx) as [rd [ps [-> Hps]]].
    constructor; cbn [docs pubs readers writer started segs ticket].
    + apply (ri_started _ _ _ I).
    + intros j Hj. rewrite updn_other by lia. apply (ri_unstarted _ _ _ I); assumption.
    + intros j nj Hnj Hj. destruct (Nat.eq_dec j i) as [->|Hne].
      * same_note. rewrite updn_same. right; right. exists pre; auto.
      * rewrite updn_other by assumption. apply (ri_shape _ _ _ I); assumption.
    + apply (ri_ticket _ _ _ I).
    + apply (ri_latest _ _ _ I).
    + intros j nj Hnj Hj Hsj. destruct (Nat.eq_dec j i) as [->|Hne].
      * rewrite updn_same in Hsj. same_note. exfalso; eapply shape_pre_not_final; eassumption.
      * rewrite updn_other in Hsj by assumption.
        destruct (ri_final _ _ _ I j nj Hnj Hj Hsj) as [A [B C]]. split; [assumption|]. split; [assumption|].
        intros l nl Hl Hlj Hnl. destruct (Nat.eq_dec l i) as [->|Hne'].
        -- same_note. rewrite updn_same. eauto.
        -- rewrite updn_other by assumption. eapply C; eassumption.
    + intros u l nl Hl Hnl Hsl Hun. destruct (Nat.eq_dec l i) as [->|Hne].
      * rewrite updn_same in Hsl. exfalso; eapply shape_pre_nonnil; eassumption.
      * rewrite updn_other in Hsl by assumption.
        pose proof (ri_settled _ _ _ I u l nl Hl Hnl Hsl Hun) as S0.
        destruct Hps as [->|[u' [Hu' ->]]].
        -- eapply (settled_ext st); [| |exact S0]; reflexivity.
        -- destruct (Z.eq_dec u' u) as [->|E].
           ++ destruct nl as [o u0 v t|u0]; simpl in *; [destruct S0; congruence|assumption].
           ++ eapply (settled_ext st); [reflexivity| |exact S0]. cbn [pubs]. rewrite last_pub_cons. unfold dep_pub at 1. simpl.
              destruct (u' =? u) eqn:E'; [apply Z.eqb_eq in E'; contradiction|reflexivity].
Qed.

Lemma RInv_step vr h st k st' : RInv vr h st -> step vr h st k = Some st' -> RInv vr h st'.
Proof.
  intros I H. destruct (step_cases _ _ _ _ _ H) as [[Hk [n [Hn ->]]]|[Hk [s [rest [Hs Hx]]]]].
  - apply RInv_start; assumption.
  - eapply RInv_exec; eassumption.
Qed.

Lemma quiescentb_spec h st : quiescentb h st = true ->
  started st = length h /\ forall j, (j < started st)%nat -> segs st j = [].
Proof.
  unfold quiescentb. intros H. apply andb_prop in H as [A B]. apply Nat.eqb_eq in A. split; [assumption|].
  intros j Hj. rewrite forallb_forall in B. specialize (B j).
  assert (In j (seq 0 (started st))) as Hin by (apply in_seq; lia).
  apply B in Hin. destruct (segs st j); [reflexivity|discriminate].
Qed.

(* what the invariant gives at quiescence, for both variants *)
Lemma converges_gen vr h sch st :
  run vr h sch = Some st -> quiescentb h st = true ->
  forall u, match latest h u with
            | Some n => untouched vr n = false -> settled st u (Some n)
            | None => True
            end.
Proof.
  intros Hr Hq. unfold run in Hr.
  assert (I : RInv vr h st).
  { eapply (run_from_inv (RInv vr h)); [|apply RInv_init|eassumption]. intros; eapply RInv_step; eassumption. }
  destruct (quiescentb_spec _ _ Hq) as [Hlen Hall].
  intros u. pose proof (ri_latest _ _ _ I u) as L. rewrite Hlen, firstn_all in L. rewrite L.
  destruct (ticket st u) as [l|] eqn:T; [|exact Logic.I].
  destruct (ri_ticket _ _ _ I u l T) as [Hl _].
  destruct (nth_error_lt h l) as [n Hn]; [lia|]. rewrite Hn.
  intros Hun. eapply (ri_settled _ _ _ I); eauto.
Qed.

Theorem converges_repaired h sch st :
  run Repaired h sch = Some st -> quiescentb h st = true -> converged h st.
Proof.
  intros Hr Hq u. pose proof (converges_gen Repaired h sch st Hr Hq u) as G.
  destruct (latest h u) as [n|]; [|exact Logic.I]. apply G. destruct n; reflexivity.
Qed.

Lemma latest_in l u n : latest l u = Some n -> In n l /\ nuri n = u.
Proof.
  induction l as [|a l IH]; simpl; [discriminate|].
  destruct (latest l u) as [m|] eqn:E.
  - intros H; inversion H; subst. destruct (IH eq_refl) as [A B]. auto.
  - destruct (nuri a =? u) eqn:E'; [|discriminate]. intros H; inversion H; subst.
    apply Z.eqb_eq in E'. auto.
Qed.

(* the code as it is: every history whose last text per document parses, every fair schedule *)
Theorem converges_unless_syntax h sch st :
  known_syntax h = false ->
  run Faithful h sch = Some st -> quiescentb h st = true -> converged h st.
Proof.
  intros Hsyn Hr Hq u. pose proof (converges_gen Faithful h sch st Hr Hq u) as G.
  destruct (latest h u) as [n|] eqn:L; [|exact Logic.I]. apply G.
  destruct n as [o u0 v t|u0]; [|reflexivity]. simpl. destruct (tok t) eqn:T; [reflexivity|]. exfalso.
  destruct (latest_in _ _ _ L) as [Hin Hu].
  assert (known_syntax h = true) as C; [|congruence].
  unfold known_syntax. apply existsb_exists. exists u. split.
  - unfold uris. rewrite <- Hu. apply in_map; assumption.
  - rewrite L, T. reflexivity.
Qed.
