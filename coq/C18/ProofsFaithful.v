(* C18/ProofsFaithful.v — the code as it is converges on every case outside the three known classes:
   no two handlers of one document overlap, the last text of every document parses, and no parsing
   text imports a document of the history.  Invariant FInv over schedule prefixes. *)
From Coq Require Import ZArith List Bool Lia.
From Verif Require Import C18.Model C18.Proofs.
Import ListNotations.
Open Scope Z_scope.

Definition isbad (n : note) : bool := match n with Doc _ _ _ t => negb (tok t) | Close _ => false end.
Definition ffinal (n : note) : seg :=
  match n with Doc _ u v t => if tok t then Publish u v t else PublishErr u v t | Close u => ClosePublish u end.
Definition dep_ok (h : list note) (s : seg) : Prop :=
  s = DepsRead \/ exists u', s = DepsPublish u' /\ ~ In u' (uris h).

Definition fshape (h : list note) (n : note) (l : list seg) : Prop :=
  l = [] \/ l = [ffinal n] \/
  (isbad n = false /\ exists pre, (forall s, In s pre -> dep_ok h s) /\ l = pre ++ [commit n; final n]).

Lemma ffinal_good n : isbad n = false -> ffinal n = final n.
Proof. destruct n as [o u v t|u]; simpl; [|reflexivity]. destruct (tok t); [reflexivity|discriminate]. Qed.

Lemma fshape_cons h n s rest : fshape h n (s :: rest) ->
  (s = ffinal n /\ rest = []) \/
  (isbad n = false /\ s = commit n /\ rest = [final n]) \/
  (isbad n = false /\ dep_ok h s /\ exists pre, (forall x, In x pre -> dep_ok h x) /\ rest = pre ++ [commit n; final n]).
Proof.
  intros [H|[H|[Hb [pre [Hp H]]]]]; [discriminate| inversion H; auto |].
  destruct pre as [|p pre]; simpl in *.
  - inversion H; subst. right; left; auto.
  - inversion H; subst. right; right. split; [assumption|]. split; [apply Hp; left; reflexivity|].
    exists pre. split; [intros x Hx; apply Hp; right; assumption|reflexivity].
Qed.

Definition fsettled (st : state) (u : uri) (o : option note) : Prop :=
  match o with Some n => if isbad n then True else settled st u (Some n) | None => True end.

Lemma fsettled_ext st st' u o :
  docs st' u = docs st u -> last_pub (pubs st') u = last_pub (pubs st) u -> fsettled st u o -> fsettled st' u o.
Proof.
  intros Hd Hp. destruct o as [n|]; simpl; [|auto]. destruct (isbad n); [auto|].
  destruct n as [o' u0 v t|u0]; simpl; [rewrite Hd, Hp|rewrite Hd]; auto.
Qed.

Lemma latest_in l u n : latest l u = Some n -> In n l /\ nuri n = u.
Proof.
  induction l as [|a l IH]; simpl; [discriminate|].
  destruct (latest l u) as [m|] eqn:E.
  - intros H; inversion H; subst. destruct (IH eq_refl) as [A B]. auto.
  - destruct (nuri a =? u) eqn:E'; [|discriminate]. intros H; inversion H; subst.
    apply Z.eqb_eq in E'. auto.
Qed.

Lemma latest_none_notin l u : ~ In u (uris l) -> latest l u = None.
Proof.
  intros H. destruct (latest l u) as [n|] eqn:E; [|reflexivity].
  destruct (latest_in _ _ _ E) as [A B]. exfalso; apply H. unfold uris. rewrite <- B. apply in_map; assumption.
Qed.

Lemma In_firstn {A} (x : A) k l : In x (firstn k l) -> In x l.
Proof. revert k; induction l as [|a l IH]; intros [|k]; simpl; try tauto. intros [H|H]; [left; auto|right; eapply IH; eauto]. Qed.

Lemma uris_firstn k h u : In u (uris (firstn k h)) -> In u (uris h).
Proof. unfold uris. rewrite in_map_iff. intros [n [A B]]. rewrite in_map_iff. exists n. split; [auto|eapply In_firstn; eauto]. Qed.

Lemma memz_in u l : memz u l = true <-> In u l.
Proof.
  unfold memz. rewrite existsb_exists. split.
  - intros [x [A B]]. apply Z.eqb_eq in B. subst. assumption.
  - intros H. exists u. split; [assumption|apply Z.eqb_refl].
Qed.

(* known_dep h = false: the dependency segments of every handler publish outside the history *)
Lemma nodep_of_note h n : known_dep h = false -> In n h -> isbad n = false ->
  exists pre, (forall s, In s pre -> dep_ok h s) /\ of_note Faithful n = pre ++ [commit n; final n].
Proof.
  intros Hk Hin Hb. destruct n as [o u v t|u]; simpl in *.
  - destruct (tok t) eqn:T; [|discriminate].
    exists (DepsRead :: map DepsPublish (timports t)). split; [|reflexivity].
    intros s [<-|Hs]; [left; reflexivity|]. apply in_map_iff in Hs as [u' [<- Hu']]. right. exists u'. split; [reflexivity|].
    intros Hmem. unfold known_dep in Hk.
    assert (existsb (fun n => match n with
                              | Doc _ _ _ t => tok t && existsb (fun u' => memz u' (uris h)) (timports t)
                              | Close _ => false end) h = true) as C; [|congruence].
    apply existsb_exists. exists (Doc o u v t). split; [assumption|]. rewrite T. simpl.
    apply existsb_exists. exists u'. split; [assumption|apply memz_in; assumption].
  - exists []. split; [intros s []|reflexivity].
Qed.

Lemma of_note_faithful_bad n : isbad n = true -> of_note Faithful n = [ffinal n].
Proof. destruct n as [o u v t|u]; simpl; [|discriminate]. destruct (tok t); [discriminate|reflexivity]. Qed.

Lemma pre_nonnil (pre : list seg) a b : pre ++ [a; b] <> [].
Proof. destruct pre; discriminate. Qed.
Lemma pre_not_single (pre : list seg) a b c : pre ++ [a; b] <> [c].
Proof. destruct pre as [|p [|q pre]]; discriminate. Qed.

Lemma fexec_final st i n st' : exec Faithful st i (ffinal n) [] = Some st' ->
  exists w, st' = mkState (docs st) (fpub n :: pubs st) (readers st) w (started st) (updn (segs st) i []) (ticket st).
Proof.
  destruct n as [o u v t|u]; simpl; [destruct (tok t)|]; simpl; intros H; inversion H; eexists; reflexivity.
Qed.

Lemma fexec_commit st i n st' : exec Faithful st i (commit n) [final n] = Some st' ->
  exists w, st' = mkState (upd (docs st) (nuri n) (content n)) (pubs st) (readers st) w (started st)
                          (updn (segs st) i [final n]) (ticket st).
Proof.
  destruct n as [o u v t|u]; simpl; destruct (lock_free st); try discriminate;
    intros H; inversion H; eexists; reflexivity.
Qed.

Lemma fexec_deps h st i s rest st' : dep_ok h s -> exec Faithful st i s rest = Some st' ->
  exists rd ps, st' = mkState (docs st) ps rd (writer st) (started st) (updn (segs st) i rest) (ticket st) /\
    (ps = pubs st \/ exists u', ~ In u' (uris h) /\ ps = dep_pub st u' :: pubs st).
Proof.
  intros [->|[u' [-> Hu']]]; simpl.
  - destruct (no_writer st); [|discriminate]. intros H; inversion H. eexists; eexists; split; [reflexivity|auto].
  - intros H; inversion H. eexists; eexists; split; [reflexivity|]. right. exists u'. split; [assumption|].
    destruct (docs st u'); reflexivity.
Qed.

Record FInv (h : list note) (st : state) : Prop := {
  fi_started : (started st <= length h)%nat;
  fi_unstarted : forall j, (started st <= j)%nat -> segs st j = [];
  fi_shape : forall j n, nth_error h j = Some n -> (j < started st)%nat -> fshape h n (segs st j);
  fi_unique : forall i j ni nj, nth_error h i = Some ni -> nth_error h j = Some nj ->
      segs st i <> [] -> segs st j <> [] -> nuri ni = nuri nj -> i = j;
  fi_last : forall j nj, nth_error h j = Some nj -> segs st j <> [] ->
      latest (firstn (started st) h) (nuri nj) = Some nj;
  fi_final : forall j nj, nth_error h j = Some nj -> segs st j = [ffinal nj] -> isbad nj = false ->
      docs st (nuri nj) = content nj;
  fi_settled : forall u, (forall j nj, nth_error h j = Some nj -> nuri nj = u -> segs st j = []) ->
      fsettled st u (latest (firstn (started st) h) u)
}.

Lemma FInv_init h : FInv h init.
Proof.
  constructor; simpl; intros; try discriminate; try lia; try congruence; auto.
Qed.

Ltac same_note :=
  match goal with
  | H1 : nth_error ?h ?k = Some ?a, H2 : nth_error ?h ?k = Some ?b |- _ =>
      rewrite H1 in H2; inversion H2; subst; clear H2
  end.

Lemma no_overlap_idle h st k n : starts_overlap h st k = false -> k = started st -> nth_error h k = Some n ->
  forall j m, (j < started st)%nat -> nth_error h j = Some m -> nuri m = nuri n -> segs st j = [].
Proof.
  intros H -> Hn j m Hj Hm Hu. unfold starts_overlap in H. rewrite Nat.eqb_refl, Hn in H. simpl in H.
  destruct (segs st j) eqn:E; [reflexivity|]. exfalso.
  assert (existsb (fun j => negb (is_nil (segs st j)) &&
            match nth_error h j with Some m => nuri m =? nuri n | None => false end) (seq 0 (started st)) = true) as C;
    [|congruence].
  apply existsb_exists. exists j. split; [apply in_seq; lia|]. rewrite E, Hm. simpl. apply Z.eqb_eq; assumption.
Qed.

Lemma of_note_faithful_nonnil n : of_note Faithful n <> [].
Proof. destruct n as [o u v t|u]; simpl; [destruct (tok t)|]; discriminate. Qed.

Lemma FInv_start h st k n : known_dep h = false -> FInv h st -> starts_overlap h st k = false ->
  k = started st -> nth_error h k = Some n -> FInv h (start Faithful st k n).
Proof.
  intros Hdep I Hov Hk Hn. pose proof (no_overlap_idle _ _ _ _ Hov Hk Hn) as Idle. subst k.
  assert (Hlt : (started st < length h)%nat) by (apply nth_error_Some; congruence).
  assert (Hin : In n h) by (eapply nth_error_In; eassumption).
  assert (Hold : forall j, j <> started st -> updn (segs st) (started st) (of_note Faithful n) j = segs st j)
    by (intros; apply updn_other; assumption).
  assert (Hbusy : forall j m, nth_error h j = Some m -> segs st j <> [] -> (j < started st)%nat /\ nuri m <> nuri n).
  { intros j m Hm Hb. assert (j < started st)%nat as Hj.
    { destruct (Nat.lt_ge_cases j (started st)); [assumption|]. exfalso; apply Hb. apply (fi_unstarted _ _ I); assumption. }
    split; [assumption|]. intros E. apply Hb. eapply Idle; eassumption. }
  constructor; unfold start; cbn [docs pubs readers writer started segs ticket].
  - lia.
  - intros j Hj. rewrite Hold by lia. apply (fi_unstarted _ _ I). lia.
  - intros j nj Hnj Hj. destruct (Nat.eq_dec j (started st)) as [->|Hne].
    + same_note. rewrite updn_same. destruct (isbad nj) eqn:B.
      * right; left. apply of_note_faithful_bad; assumption.
      * right; right. split; [assumption|]. destruct (nodep_of_note h nj Hdep Hin B) as [pre [A ->]]. eauto.
    + rewrite Hold by assumption. apply (fi_shape _ _ I); [assumption|lia].
  - intros i j mi mj Hi Hj Bi Bj E.
    destruct (Nat.eq_dec i (started st)) as [->|Ni]; destruct (Nat.eq_dec j (started st)) as [->|Nj]; [reflexivity| | |].
    + same_note. rewrite Hold in Bj by assumption. destruct (Hbusy _ _ Hj Bj) as [_ C]. congruence.
    + same_note. rewrite Hold in Bi by assumption. destruct (Hbusy _ _ Hi Bi) as [_ C]. congruence.
    + rewrite Hold in Bi, Bj by assumption. eapply (fi_unique _ _ I); eassumption.
  - intros j nj Hnj Bj. rewrite (firstn_snoc h _ n Hn), latest_snoc.
    destruct (Nat.eq_dec j (started st)) as [->|Nj].
    + same_note. rewrite Z.eqb_refl. reflexivity.
    + rewrite Hold in Bj by assumption. destruct (Hbusy _ _ Hnj Bj) as [_ C].
      destruct (nuri n =? nuri nj) eqn:E; [apply Z.eqb_eq in E; congruence|]. eapply (fi_last _ _ I); eassumption.
  - intros j nj Hnj Hs B. destruct (Nat.eq_dec j (started st)) as [->|Nj].
    + same_note. rewrite updn_same in Hs. destruct (nodep_of_note h nj Hdep Hin B) as [pre [_ Hp]].
      rewrite Hp in Hs. exfalso; eapply pre_not_single; eassumption.
    + rewrite Hold in Hs by assumption. eapply (fi_final _ _ I); eassumption.
  - intros u Hidle. rewrite (firstn_snoc h _ n Hn), latest_snoc.
    destruct (nuri n =? u) eqn:E.
    + apply Z.eqb_eq in E. specialize (Hidle _ _ Hn E). rewrite updn_same in Hidle.
      exfalso; eapply of_note_faithful_nonnil; eassumption.
    + apply Z.eqb_neq in E. eapply (fsettled_ext st); [reflexivity|reflexivity|].
      apply (fi_settled _ _ I). intros j nj Hnj Hu.
      destruct (Nat.eq_dec j (started st)) as [->|Nj]; [same_note; contradiction|].
      specialize (Hidle _ _ Hnj Hu). rewrite Hold in Hidle by assumption. assumption.
Qed.

(* frame: what every exec step keeps *)
Lemma FInv_exec_frame h st i s rest D P R W r :
  FInv h st -> (i < started st)%nat -> segs st i = s :: rest ->
  let st' := mkState D P R W (started st) (updn (segs st) i r) (ticket st) in
  (started st' <= length h)%nat /\
  (forall j, (started st' <= j)%nat -> segs st' j = []) /\
  (forall j, segs st' j <> [] -> segs st j <> []).
Proof.
  intros I Hi Hs st'. subst st'; cbn [started segs].
  split; [apply (fi_started _ _ I)|]. split.
  - intros j Hj. rewrite updn_other by lia. apply (fi_unstarted _ _ I); assumption.
  - intros j Hj. destruct (Nat.eq_dec j i) as [->|N]; [rewrite Hs; discriminate|].
    rewrite updn_other in Hj by assumption. assumption.
Qed.

Lemma FInv_exec h st i s rest st' : FInv h st -> (i < started st)%nat -> segs st i = s :: rest ->
  exec Faithful st i s rest = Some st' -> FInv h st'.
Proof.
  intros I Hi Hs Hx.
  destruct (nth_error_lt h i) as [ni Hni]; [pose proof (fi_started _ _ I); lia|].
  pose proof (fi_shape _ _ I i ni Hni Hi) as Hsh. rewrite Hs in Hsh.
  assert (Bi : segs st i <> []) by (rewrite Hs; discriminate).
  pose proof (fi_last _ _ I i ni Hni Bi) as Li.
  destruct (fshape_cons _ _ _ _ Hsh) as [[-> ->]|[[Hb [-> ->]]|[Hb [Hd [pre [Hpre ->]]]]]].
  - (* last segment of handler i: publish *)
    destruct (fexec_final _ _ _ _ Hx) as [w ->].
    destruct (FInv_exec_frame h st i _ _ (docs st) (fpub ni :: pubs st) (readers st) w [] I Hi Hs) as [F1 [F2 F3]].
    constructor; cbn [docs pubs readers writer started segs ticket] in *.
    + assumption.
    + assumption.
    + intros j nj Hnj Hj. destruct (Nat.eq_dec j i) as [->|N]; [rewrite updn_same; left; reflexivity|].
      rewrite updn_other by assumption. apply (fi_shape _ _ I); assumption.
    + intros a b na nb Ha Hb' Ba Bb E. eapply (fi_unique _ _ I); eauto.
    + intros j nj Hnj Bj. eapply (fi_last _ _ I); [eassumption|]. apply F3; assumption.
    + intros j nj Hnj Hsj B. destruct (Nat.eq_dec j i) as [->|N]; [rewrite updn_same in Hsj; discriminate|].
      rewrite updn_other in Hsj by assumption. eapply (fi_final _ _ I); eassumption.
    + intros u Hidle. destruct (Z.eq_dec (nuri ni) u) as [E|E].
      * subst u. rewrite Li. unfold fsettled. destruct (isbad ni) eqn:B; [exact Logic.I|].
        pose proof (fi_final _ _ I i ni Hni Hs B) as Fd.
        destruct ni as [o u v t|u]; simpl in *.
        -- split; [assumption|]. rewrite Z.eqb_refl. reflexivity.
        -- assumption.
      * eapply (fsettled_ext st); [reflexivity| |].
        -- cbn [pubs]. rewrite last_pub_cons, puri_fpub.
           destruct (nuri ni =? u) eqn:E'; [apply Z.eqb_eq in E'; contradiction|reflexivity].
        -- apply (fi_settled _ _ I). intros j nj Hnj Hu.
           destruct (Nat.eq_dec j i) as [->|N]; [same_note; contradiction|].
           specialize (Hidle _ _ Hnj Hu). rewrite updn_other in Hidle by assumption. assumption.
  - (* store / remove *)
    destruct (fexec_commit _ _ _ _ Hx) as [w ->].
    destruct (FInv_exec_frame h st i _ _ (upd (docs st) (nuri ni) (content ni)) (pubs st) (readers st) w [final ni] I Hi Hs)
      as [F1 [F2 F3]].
    constructor; cbn [docs pubs readers writer started segs ticket] in *.
    + assumption.
    + assumption.
    + intros j nj Hnj Hj. destruct (Nat.eq_dec j i) as [->|N].
      * same_note. rewrite updn_same. right; left. rewrite ffinal_good by assumption. reflexivity.
      * rewrite updn_other by assumption. apply (fi_shape _ _ I); assumption.
    + intros a b na nb Ha Hb' Ba Bb E. eapply (fi_unique _ _ I); eauto.
    + intros j nj Hnj Bj. eapply (fi_last _ _ I); [eassumption|]. apply F3; assumption.
    + intros j nj Hnj Hsj B. destruct (Nat.eq_dec j i) as [->|N].
      * same_note. apply upd_same.
      * rewrite updn_other in Hsj by assumption. rewrite upd_other; [eapply (fi_final _ _ I); eassumption|].
        intros E. apply N. eapply (fi_unique _ _ I); try eassumption. rewrite Hsj; discriminate.
    + intros u Hidle. assert (nuri ni <> u) as E.
      { intros E. specialize (Hidle _ _ Hni E). rewrite updn_same in Hidle. discriminate. }
      eapply (fsettled_ext st); [cbn [docs]; apply upd_other; congruence|reflexivity|].
      apply (fi_settled _ _ I). intros j nj Hnj Hu.
      destruct (Nat.eq_dec j i) as [->|N]; [same_note; contradiction|].
      specialize (Hidle _ _ Hnj Hu). rewrite updn_other in Hidle by assumption. assumption.
  - (* dependency phase *)
    destruct (fexec_deps _ _ _ _ _ _ Hd Hx) as [rd [ps [-> Hps]]].
    destruct (FInv_exec_frame h st i _ _ (docs st) ps rd (writer st) (pre ++ [commit ni; final ni]) I Hi Hs)
      as [F1 [F2 F3]].
    constructor; cbn [docs pubs readers writer started segs ticket] in *.
    + assumption.
    + assumption.
    + intros j nj Hnj Hj. destruct (Nat.eq_dec j i) as [->|N].
      * same_note. rewrite updn_same. right; right. split; [assumption|]. exists pre. auto.
      * rewrite updn_other by assumption. apply (fi_shape _ _ I); assumption.
    + intros a b na nb Ha Hb' Ba Bb E. eapply (fi_unique _ _ I); eauto.
    + intros j nj Hnj Bj. eapply (fi_last _ _ I); [eassumption|]. apply F3; assumption.
    + intros j nj Hnj Hsj B. destruct (Nat.eq_dec j i) as [->|N].
      * rewrite updn_same in Hsj. exfalso; eapply pre_not_single; eassumption.
      * rewrite updn_other in Hsj by assumption. eapply (fi_final _ _ I); eassumption.
    + intros u Hidle. assert (nuri ni <> u) as E.
      { intros E. specialize (Hidle _ _ Hni E). rewrite updn_same in Hidle. exfalso; eapply pre_nonnil; eassumption. }
      assert (fsettled st u (latest (firstn (started st) h) u)) as S0.
      { apply (fi_settled _ _ I). intros j nj Hnj Hu.
        destruct (Nat.eq_dec j i) as [->|N]; [same_note; contradiction|].
        specialize (Hidle _ _ Hnj Hu). rewrite updn_other in Hidle by assumption. assumption. }
      destruct Hps as [->|[u' [Hu' ->]]].
      * eapply (fsettled_ext st); [reflexivity|reflexivity|exact S0].
      * destruct (Z.eq_dec u' u) as [->|E'].
        -- rewrite latest_none_notin; [exact Logic.I|]. intros C. apply Hu'. eapply uris_firstn; eassumption.
        -- eapply (fsettled_ext st); [reflexivity| |exact S0]. cbn [pubs]. rewrite last_pub_cons. unfold dep_pub at 1. simpl.
           destruct (u' =? u) eqn:E''; [apply Z.eqb_eq in E''; contradiction|reflexivity].
Qed.

Lemma FInv_run h : known_dep h = false ->
  forall sch st st', FInv h st -> overlap_from Faithful h st sch = false ->
    run_from Faithful h st sch = Some st' -> FInv h st'.
Proof.
  intros Hdep sch; induction sch as [|k r IH]; intros st st' I Ho Hr; simpl in *.
  - inversion Hr; subst; assumption.
  - apply orb_false_iff in Ho as [Ho1 Ho2].
    destruct (step Faithful h st k) as [st1|] eqn:E; [|discriminate].
    eapply IH; [|eassumption|eassumption].
    destruct (step_cases _ _ _ _ _ E) as [[Hk [n [Hn ->]]]|[Hk [s [rest [Hs Hx]]]]].
    + apply FInv_start; assumption.
    + eapply FInv_exec; eassumption.
Qed.

Theorem converges_unless_known h sch st :
  known_syntax h = false -> known_dep h = false -> known_overlap h sch = false ->
  run Faithful h sch = Some st -> quiescentb h st = true -> converged h st.
Proof.
  intros Hsyn Hdep Hov Hr Hq. unfold run in Hr. unfold known_overlap in Hov.
  pose proof (FInv_run h Hdep sch init st (FInv_init h) Hov Hr) as I.
  unfold quiescentb in Hq. apply andb_prop in Hq as [A B]. apply Nat.eqb_eq in A.
  assert (Hall : forall j, segs st j = []).
  { intros j. destruct (Nat.lt_ge_cases j (started st)) as [Hj|Hj]; [|apply (fi_unstarted _ _ I); assumption].
    rewrite forallb_forall in B. specialize (B j). assert (In j (seq 0 (started st))) as Hin by (apply in_seq; lia).
    apply B in Hin. destruct (segs st j); [reflexivity|discriminate]. }
  intros u. pose proof (fi_settled _ _ I u (fun j nj _ _ => Hall j)) as S.
  rewrite A, firstn_all in S. destruct (latest h u) as [n|] eqn:L; [|exact Logic.I].
  unfold fsettled in S. destruct (isbad n) eqn:Bn; [|assumption].
  exfalso. destruct (latest_in _ _ _ L) as [Hin Hu].
  assert (known_syntax h = true) as C; [|congruence].
  unfold known_syntax. apply existsb_exists. exists u. split.
  - unfold uris. rewrite <- Hu. apply in_map; assumption.
  - rewrite L. destruct n as [o u0 v t|u0]; simpl in *; [assumption|discriminate].
Qed.
