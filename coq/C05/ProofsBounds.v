(* C05/ProofsBounds.v — the generated normalisation prefixes of str_slice / list_slice compute
   exactly CPython's PySlice_AdjustIndices, for every argument (no overflow is possible there). *)
From Verif Require Import Base.I64 Base.Tactics Gen.CoreStr Gen.StdColl C05.Model.
From Coq Require Import ZifyBool.
Open Scope Z_scope.

Definition opt_in_i64 (o : option Z) : Prop := match o with Some z => in_i64 z | None => True end.

Ltac bounds_tac :=
  intros Hn Hk Hs He Hk0;
  cbn [opt_in_i64] in Hs, He;
  cbv beta iota zeta delta [bind raise_if add64 sub64 clamp64 py_adjust];
  match goal with |- context [?k =? 0] => replace (k =? 0) with false by lia end;
  cbv beta iota;
  repeat (match goal with
  | |- context [ovf ?m ?z] => rewrite (ovf_ok m z) by (i64_facts; lia)
  | |- context [if ?c then _ else _] =>
      match c with
      | context [if _ then _ else _] => fail 1
      | context [ovf] => fail 1
      | _ => let E := fresh "E" in destruct c eqn:E
      end
  end; cbv beta iota);
  i64_facts;
  try (exfalso; lia);
  match goal with
  | |- Val (?k, ?a, ?b) = Val (?k, ?c, ?d) =>
      replace a with c by lia; replace b with d by lia; reflexivity
  end.

Lemma list_bounds_spec m n s e k :
  0 <= n <= MAX64 -> in_i64 k -> opt_in_i64 s -> opt_in_i64 e -> k <> 0 ->
  stdlib_list_slice_bounds m n s e (Some k) = Val (k, py_adjust n k s true, py_adjust n k e false).
Proof.
  unfold stdlib_list_slice_bounds. destruct s as [s|], e as [e|]; bounds_tac.
Qed.

Lemma str_bounds_spec m n s e k :
  0 <= n <= MAX64 -> in_i64 k -> opt_in_i64 s -> opt_in_i64 e -> k <> 0 ->
  core_str_slice_bounds m n s e (Some k) = Val (k, py_adjust n k s true, py_adjust n k e false).
Proof.
  unfold core_str_slice_bounds. destruct s as [s|], e as [e|]; bounds_tac.
Qed.

(* an absent step is step 1 *)
Lemma list_bounds_none m n s e : stdlib_list_slice_bounds m n s e None = stdlib_list_slice_bounds m n s e (Some 1).
Proof. reflexivity. Qed.
Lemma str_bounds_none m n s e : core_str_slice_bounds m n s e None = core_str_slice_bounds m n s e (Some 1).
Proof. reflexivity. Qed.

(* zero step: the documented ValueError, whatever the other arguments *)
Lemma list_bounds_zero m n s e : stdlib_list_slice_bounds m n s e (Some 0) = Trp Raised.
Proof. reflexivity. Qed.
Lemma str_bounds_zero m n s e : core_str_slice_bounds m n s e (Some 0) = Trp Raised.
Proof. reflexivity. Qed.

(* where the adjusted bounds lie *)
Lemma py_adjust_range n k v b :
  0 <= n -> k <> 0 ->
  (k > 0 -> 0 <= py_adjust n k v b <= n) /\ (k < 0 -> -1 <= py_adjust n k v b <= n - 1).
Proof.
  intros Hn Hk. unfold py_adjust.
  destruct v as [x|]; destruct b;
    repeat match goal with |- context [if ?c then _ else _] => destruct c eqn:? end; lia.
Qed.
