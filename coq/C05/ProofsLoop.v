(* C05/ProofsLoop.v — the two `while` loops equal Python's element selection. *)
From Verif Require Import Base.I64 Base.Tactics C05.Model C05.ProofsSpec.
From Coq Require Import ZifyBool ZifyNat.
Open Scope Z_scope.

Section Loop.
Context {A : Type}.
Implicit Types l : list A.

Lemma get_i64_inside l i :
  zlen l <= MAX64 -> 0 <= i < zlen l -> get_i64 l i = nth_error l (Z.to_nat i).
Proof.
  intros Hl Hi. unfold get_i64, get_usize, as_usize, USIZE_MOD. i64_facts.
  rewrite Z.mod_small by lia.
  replace ((0 <=? i) && (i <? zlen l)) with true by lia. reflexivity.
Qed.

Lemma nth_error_inside l i : 0 <= i < zlen l -> exists v, nth_error l (Z.to_nat i) = Some v.
Proof.
  intros Hi. unfold zlen in Hi. destruct (nth_error l (Z.to_nat i)) eqn:E; [eauto|].
  apply nth_error_None in E. lia.
Qed.

(* ascending loop: no side condition — when i + k leaves i64 the loop stops, and so does Python's
   range (i + k > MAX64 >= e) *)
Lemma loop_up m l k e :
  k > 0 -> zlen l <= MAX64 -> e <= zlen l ->
  forall fuel i, 0 <= i -> Z.of_nat fuel > e - i -> (fuel >= 1)%nat ->
    slice_loop fuel m l i e k = OVal (select l (py_range_list i e k)).
Proof.
  intros Hk Hl He. induction fuel as [|f IH]; intros i Hi Hf Hf1; [lia|].
  cbn [slice_loop]. replace (k >? 0) with true by lia.
  destruct (i <? e) eqn:Hie.
  - pose proof (range_len_up_step i e k Hk ltac:(lia)) as Hlen.
    rewrite (range_list_cons i e k Hlen). cbn [select].
    unfold push_get. rewrite get_i64_inside by lia.
    destruct (nth_error_inside l i ltac:(lia)) as [v Hv]. rewrite Hv.
    unfold chk64. destruct (in_i64b (i + k)) eqn:Hin.
    + rewrite IH; [reflexivity | lia | lia | lia].
    + assert (Hbig : i + k > MAX64).
      { destruct (Z_le_gt_dec (i + k) MAX64) as [Hle|Hgt]; [|exact Hgt].
        exfalso. assert (in_i64b (i + k) = true) by (apply in_i64b_spec; i64_facts; lia). congruence. }
      rewrite range_list_nil by (apply range_len_up_stop; lia). reflexivity.
  - rewrite range_list_nil by (apply range_len_up_stop; lia). reflexivity.
Qed.

(* descending loop: no overflow is possible (i >= 0 whenever the step is added) *)
Lemma loop_down m l k e :
  k < 0 -> in_i64 k -> zlen l <= MAX64 -> -1 <= e ->
  forall fuel i, i <= zlen l - 1 -> Z.of_nat fuel > i - e -> (fuel >= 1)%nat ->
    slice_loop fuel m l i e k = OVal (select l (py_range_list i e k)).
Proof.
  intros Hk Hki Hl He. induction fuel as [|f IH]; intros i Hi Hf Hf1; [lia|].
  cbn [slice_loop]. replace (k >? 0) with false by lia.
  destruct (i >? e) eqn:Hie.
  - pose proof (range_len_down_step i e k Hk ltac:(lia)) as Hlen.
    unfold chk64. replace (in_i64b (i + k)) with true
      by (symmetry; apply in_i64b_spec; i64_facts; lia).
    rewrite IH; [| lia | lia | lia].
    rewrite (range_list_cons i e k Hlen). cbn [select].
    unfold push_get. rewrite get_i64_inside by lia.
    destruct (nth_error_inside l i ltac:(lia)) as [v ->]. reflexivity.
  - rewrite range_list_nil by (apply range_len_down_stop; lia). reflexivity.
Qed.
End Loop.
