(* C05/ProofsRange.v — range(a, b, c) yields exactly Python's range. *)
From Verif Require Import Base.I64 Base.Tactics Gen.StdIter C05.Model C05.ProofsSpec.
From Coq Require Import ZifyBool ZifyNat.
Open Scope Z_scope.

Lemma range_no_ovf_step a b c :
  c <> 0 -> range_no_ovf a b c -> (if c >? 0 then a <? b else a >? b) = true ->
  in_i64 (a + c) /\ range_no_ovf (a + c) b c.
Proof.
  intros Hc (Ha & Hb & Hci & Hpos & Hneg) Hcond. unfold range_no_ovf. i64_facts.
  destruct (c >? 0) eqn:E.
  - specialize (Hpos ltac:(lia)). repeat split; lia.
  - specialize (Hneg ltac:(lia)). repeat split; lia.
Qed.

Lemma range_take_spec m c : c <> 0 -> forall n a b,
  range_no_ovf a b c ->
  range_take n m a b c =
  Val (firstn n (py_range_list a b c), Nat.leb (length (py_range_list a b c)) n).
Proof.
  intros Hc. induction n as [|n IH]; intros a b Hno.
  - cbn [range_take]. unfold stdlib_PyRange_next. cbv beta iota zeta delta [bind].
    destruct (c >? 0) eqn:Ec.
    + destruct (a >=? b) eqn:Eab.
      * rewrite range_list_nil by (apply range_len_up_stop; lia). reflexivity.
      * destruct (range_no_ovf_step a b c Hc Hno) as [Hin _]; [rewrite Ec; lia|].
        unfold add64. rewrite ovf_ok by assumption. cbv beta iota.
        rewrite (range_list_cons a b c) by (apply range_len_up_step; lia). reflexivity.
    + destruct (a <=? b) eqn:Eab.
      * rewrite range_list_nil by (apply range_len_down_stop; lia). reflexivity.
      * destruct (range_no_ovf_step a b c Hc Hno) as [Hin _]; [rewrite Ec; lia|].
        unfold add64. rewrite ovf_ok by assumption. cbv beta iota.
        rewrite (range_list_cons a b c) by (apply range_len_down_step; lia). reflexivity.
  - cbn [range_take]. unfold stdlib_PyRange_next. cbv beta iota zeta delta [bind].
    destruct (c >? 0) eqn:Ec.
    + destruct (a >=? b) eqn:Eab.
      * rewrite range_list_nil by (apply range_len_up_stop; lia). reflexivity.
      * destruct (range_no_ovf_step a b c Hc Hno) as [Hin Hno']; [rewrite Ec; lia|].
        unfold add64. rewrite ovf_ok by assumption. cbv beta iota.
        rewrite IH by assumption.
        rewrite (range_list_cons a b c) by (apply range_len_up_step; lia). reflexivity.
    + destruct (a <=? b) eqn:Eab.
      * rewrite range_list_nil by (apply range_len_down_stop; lia). reflexivity.
      * destruct (range_no_ovf_step a b c Hc Hno) as [Hin Hno']; [rewrite Ec; lia|].
        unfold add64. rewrite ovf_ok by assumption. cbv beta iota.
        rewrite IH by assumption.
        rewrite (range_list_cons a b c) by (apply range_len_down_step; lia). reflexivity.
Qed.

Lemma range_spec n m a b c :
  c <> 0 -> range_no_ovf a b c ->
  range n m a b c = OVal (firstn n (py_range_list a b c), Nat.leb (length (py_range_list a b c)) n).
Proof.
  intros Hc Hno. unfold range. replace (c =? 0) with false by lia.
  now rewrite range_take_spec.
Qed.

Lemma range_zero_step n m a b : range n m a b 0 = ORangeZero.
Proof. reflexivity. Qed.

(* closed form: the k-th yielded value, without enumerating *)
Lemma range_nth (k : nat) n m a b c :
  c <> 0 -> range_no_ovf a b c -> (k < n)%nat ->
  exists l fin, range n m a b c = OVal (l, fin) /\
    nth_error l k = if Z.of_nat k <? py_range_len a b c then Some (a + Z.of_nat k * c) else None.
Proof.
  intros Hc Hno Hk. eexists _, _. split; [apply range_spec; assumption|].
  rewrite <- range_list_nth.
  generalize (py_range_list a b c). intros l.
  revert k Hk. revert l. induction n as [|n IH]; intros l k Hk; [lia|].
  destruct l as [|x l]; destruct k as [|k]; cbn [firstn nth_error]; try reflexivity.
  apply IH. lia.
Qed.

(* dict_get: a present key gives its value, a missing key the documented KeyError *)
Lemma dict_get_spec d key :
  dict_get d key = match assoc key d with Some v => OVal v | None => OKeyErr end.
Proof. reflexivity. Qed.
