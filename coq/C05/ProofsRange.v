(* C05/ProofsRange.v — range(a, b, c) yields exactly Python's range, for ALL i64 triples. *)
From Verif Require Import Base.I64 Base.Tactics Gen.StdIter C05.Model C05.ProofsSpec.
From Coq Require Import ZifyBool ZifyNat.
Open Scope Z_scope.

Lemma chk64_in z : in_i64 z -> chk64 z = Some z.
Proof. intros H. unfold chk64. apply in_i64b_spec in H. now rewrite H. Qed.
Lemma chk64_out z : ~ in_i64 z -> chk64 z = None.
Proof.
  intros H. unfold chk64. destruct (in_i64b z) eqn:E; [|reflexivity].
  apply in_i64b_spec in E. contradiction.
Qed.

(* one step of the generated PyRange::next, as equations *)
Lemma next_stop a b c :
  c <> 0 -> (if c >? 0 then a >=? b else a <=? b) = true ->
  stdlib_PyRange_next a b c = ((a, b, c), None).
Proof.
  intros Hc H. unfold stdlib_PyRange_next.
  destruct (c >? 0) eqn:E; rewrite H; reflexivity.
Qed.
Lemma next_go a b c :
  c <> 0 -> (if c >? 0 then a >=? b else a <=? b) = false ->
  stdlib_PyRange_next a b c =
  ((match chk64 (a + c) with Some v => v | None => b end, b, c), Some a).
Proof.
  intros Hc H. unfold stdlib_PyRange_next.
  destruct (c >? 0) eqn:E; rewrite H; reflexivity.
Qed.

Lemma range_take_spec c : c <> 0 -> in_i64 c -> forall n a b, in_i64 a -> in_i64 b ->
  range_take n a b c =
  (firstn n (py_range_list a b c), Nat.leb (length (py_range_list a b c)) n).
Proof.
  intros Hc Hci. induction n as [|n IH]; intros a b Ha Hb.
  - cbn [range_take].
    destruct (if c >? 0 then a >=? b else a <=? b) eqn:Hs.
    + rewrite next_stop by assumption.
      rewrite range_list_nil; [reflexivity|].
      destruct (c >? 0) eqn:E; [apply range_len_up_stop|apply range_len_down_stop]; lia.
    + rewrite next_go by assumption.
      rewrite (range_list_cons a b c); [reflexivity|].
      destruct (c >? 0) eqn:E; [apply range_len_up_step|apply range_len_down_step]; lia.
  - cbn [range_take].
    destruct (if c >? 0 then a >=? b else a <=? b) eqn:Hs.
    + rewrite next_stop by assumption.
      rewrite range_list_nil; [reflexivity|].
      destruct (c >? 0) eqn:E; [apply range_len_up_stop|apply range_len_down_stop]; lia.
    + rewrite next_go by assumption.
      assert (Hcons : py_range_list a b c = a :: py_range_list (a + c) b c).
      { apply range_list_cons.
        destruct (c >? 0) eqn:E; [apply range_len_up_step|apply range_len_down_step]; lia. }
      rewrite Hcons. cbn [firstn length Nat.leb].
      destruct (Z_le_dec MIN64 (a + c)) as [Hlo|Hlo]; [destruct (Z_le_dec (a + c) MAX64) as [Hhi|Hhi]|].
      * (* next value fits *)
        rewrite chk64_in by (split; assumption).
        rewrite IH by (try assumption; split; assumption). reflexivity.
      * (* overflow upward: c > 0; Python's range is exhausted as well since a + c > MAX >= b *)
        rewrite chk64_out by (unfold in_i64; lia).
        assert (Hcpos : c > 0) by (i64_facts; lia).
        rewrite IH by assumption.
        rewrite (range_list_nil b b c) by (apply range_len_up_stop; lia).
        rewrite (range_list_nil (a + c) b c) by (apply range_len_up_stop; i64_facts; lia).
        destruct n; reflexivity.
      * (* overflow downward: c < 0 *)
        rewrite chk64_out by (unfold in_i64; lia).
        assert (Hcneg : c < 0) by (i64_facts; lia).
        rewrite IH by assumption.
        rewrite (range_list_nil b b c) by (apply range_len_down_stop; lia).
        rewrite (range_list_nil (a + c) b c) by (apply range_len_down_stop; i64_facts; lia).
        destruct n; reflexivity.
Qed.

Lemma range_spec n m a b c :
  c <> 0 -> in_i64 a -> in_i64 b -> in_i64 c ->
  range n m a b c = OVal (firstn n (py_range_list a b c), Nat.leb (length (py_range_list a b c)) n).
Proof.
  intros Hc Ha Hb Hci. unfold range. replace (c =? 0) with false by lia.
  now rewrite range_take_spec.
Qed.

Lemma range_zero_step n m a b : range n m a b 0 = ORangeZero.
Proof. reflexivity. Qed.

(* closed form: the k-th yielded value, without enumerating *)
Lemma range_nth (k : nat) n m a b c :
  c <> 0 -> in_i64 a -> in_i64 b -> in_i64 c -> (k < n)%nat ->
  exists l fin, range n m a b c = OVal (l, fin) /\
    nth_error l k = if Z.of_nat k <? py_range_len a b c then Some (a + Z.of_nat k * c) else None.
Proof.
  intros Hc Ha Hb Hci Hk. eexists _, _. split; [apply range_spec; assumption|].
  rewrite <- range_list_nth.
  generalize (py_range_list a b c). intros l.
  revert k Hk. revert l. induction n as [|n IH]; intros l k Hk; [lia|].
  destruct l as [|x l]; destruct k as [|k]; cbn [firstn nth_error]; try reflexivity.
  apply IH. lia.
Qed.

(* dict_get: a present key gives its value, a missing key the documented KeyError *)
Lemma dict_get_spec d key :
  dict_get d key = match assoc key d with Some v => OVal v | None => OKeyErr end.
Proof. reflexivity. Qed.
