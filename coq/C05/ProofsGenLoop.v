(* C05/ProofsGenLoop.v — the loops GENERATED from the current source (Gen/CoreStrLoop.v,
   Gen/StdCollLoop.v) compute exactly what the hand-written [slice_loop] of C05/Model.v computes,
   for every fuel, mode, sequence, index, bound, step and accumulator; hence the fully generated
   slice functions of C05/GenSlice.v equal [list_slice]/[str_slice] on EVERY input, and inherit
   every theorem about them.  The proofs run the generated code symbolically (one iteration per
   fuel unit) and do not depend on the syntax rs2v produced. *)
From Verif Require Import Base.I64 Base.Tactics Gen.CoreStr Gen.StdColl Gen.CoreStrLoop Gen.StdCollLoop
     C05.Model C05.GenSlice C05.ProofsSpec C05.ProofsBounds C05.ProofsLoop C05.ProofsMain.
Open Scope Z_scope.

Section GenLoop.
Context {A : Type}.
Implicit Types l acc r : list A.

(* what a generated loop must return, given what [slice_loop] returns from the same point:
   the accumulator followed by the elements [slice_loop] selects; out of fuel exactly when
   [slice_loop] is *)
Definition with_acc acc (o : out (list A)) : out (list A) :=
  match o with OVal r => OVal (acc ++ r) | o' => o' end.

Definition of_state (r : loop_res (Z * list A)) : out (list A) :=
  match r with LDone (_, o) => OVal o | LTrap t => OPanic t | LFuel => OFuel end.

Lemma push_get_acc l i acc r :
  acc ++ push_get l i r = (match get_usize l (as_usize i) with Some v => acc ++ [v] | None => acc end) ++ r.
Proof.
  unfold push_get, get_i64. destruct (get_usize l (as_usize i)); [|reflexivity].
  now rewrite <- app_assoc.
Qed.

Lemma push_get_acc_nil l i acc :
  acc ++ push_get l i [] = match get_usize l (as_usize i) with Some v => acc ++ [v] | None => acc end.
Proof. rewrite push_get_acc. apply app_nil_r. Qed.

(* one symbolic iteration of a generated loop against one unfolding of [slice_loop] *)
Ltac loop_step IH :=
  cbv beta iota zeta delta [lbind lift_res];
  match goal with
  | |- context [chk64 ?z] =>
      destruct (chk64 z) as [i'|];
      [ rewrite IH; destruct (slice_loop _ _ _ i' _ _); cbn [with_acc of_state];
        rewrite ?push_get_acc; reflexivity
      | cbn [with_acc of_state]; rewrite push_get_acc_nil; reflexivity ]
  end.

Ltac gen_loop_tac f :=
  intros Hk fuel; induction fuel as [|fuel IH]; intros i acc; [reflexivity|];
  cbn [f slice_loop]; rewrite Hk;
  match goal with
  | |- context [if ?c then _ else _] =>
      destruct c; [ loop_step IH | cbn [with_acc of_state]; now rewrite app_nil_r ]
  end.

(* ---- incan_core::strings::str_slice ---- *)
Lemma core_while_up m l k e :
  (k >? 0) = true -> forall fuel i acc,
  of_state (core_str_slice_loops_while_1 fuel m l e k i acc) = with_acc acc (slice_loop fuel m l i e k).
Proof. gen_loop_tac (@core_str_slice_loops_while_1). Qed.

Lemma core_while_down m l k e :
  (k >? 0) = false -> forall fuel i acc,
  of_state (core_str_slice_loops_while_2 fuel m l e k i acc) = with_acc acc (slice_loop fuel m l i e k).
Proof. gen_loop_tac (@core_str_slice_loops_while_2). Qed.

(* ---- incan_stdlib::collections::list_slice ---- *)
Lemma stdlib_while_up m l k e :
  (k >? 0) = true -> forall fuel i acc,
  of_state (stdlib_list_slice_loops_while_1 fuel m e l k i acc) = with_acc acc (slice_loop fuel m l i e k).
Proof. gen_loop_tac (@stdlib_list_slice_loops_while_1). Qed.

Lemma stdlib_while_down m l k e :
  (k >? 0) = false -> forall fuel i acc,
  of_state (stdlib_list_slice_loops_while_2 fuel m e l k i acc) = with_acc acc (slice_loop fuel m l i e k).
Proof. gen_loop_tac (@stdlib_list_slice_loops_while_2). Qed.

Lemma of_state_lbind (r : loop_res (Z * list A)) :
  of_loop_res (lbind (lbind r (fun '(i, o) => LDone (i, o))) (fun '(_, o) => LDone o)) = of_state r.
Proof. destruct r as [[i o]| |]; reflexivity. Qed.

Lemma with_acc_nil (o : out (list A)) : with_acc [] o = o.
Proof. destruct o; reflexivity. Qed.

(* the code from `let mut out` to the end of the function = [slice_loop] from the start index *)
Lemma core_loops_eq fuel m l k s e :
  of_loop_res (core_str_slice_loops fuel m l k s e) = slice_loop fuel m l s e k.
Proof.
  unfold core_str_slice_loops. cbv zeta.
  destruct (k >? 0) eqn:Hk; rewrite of_state_lbind;
    [rewrite (core_while_up m l k e Hk) | rewrite (core_while_down m l k e Hk)]; apply with_acc_nil.
Qed.

Lemma stdlib_loops_eq fuel m l k s e :
  of_loop_res (stdlib_list_slice_loops fuel m l k s e) = slice_loop fuel m l s e k.
Proof.
  unfold stdlib_list_slice_loops. cbv zeta.
  destruct (k >? 0) eqn:Hk; rewrite of_state_lbind;
    [rewrite (stdlib_while_up m l k e Hk) | rewrite (stdlib_while_down m l k e Hk)]; apply with_acc_nil.
Qed.

(* the fully generated functions equal the hand-modelled ones on EVERY input (errors, panics and
   out-of-fuel included) *)
Lemma gen_str_slice_eq fuel m l s e k : gen_str_slice fuel m l s e k = str_slice fuel m l s e k.
Proof.
  unfold gen_str_slice, gen_slice_with, str_slice, slice_with.
  destruct (core_str_slice_bounds m (zlen l) s e k) as [[[k' s'] e']|t]; [apply core_loops_eq | reflexivity].
Qed.

Lemma gen_list_slice_eq fuel m l s e k : gen_list_slice fuel m l s e k = list_slice fuel m l s e k.
Proof.
  unfold gen_list_slice, gen_slice_with, list_slice, slice_with.
  destruct (stdlib_list_slice_bounds m (zlen l) s e k) as [[[k' s'] e']|t]; [apply stdlib_loops_eq | reflexivity].
Qed.

Lemma gen_list_slice_spec m l s e k :
  zlen l <= MAX64 -> in_i64 k -> opt_in_i64 s -> opt_in_i64 e -> k <> 0 ->
  gen_list_slice (S (length l)) m l s e (Some k) = OVal (py_slice l s e k).
Proof. intros. rewrite gen_list_slice_eq. now apply list_slice_spec. Qed.

Lemma gen_str_slice_spec m l s e k :
  zlen l <= MAX64 -> in_i64 k -> opt_in_i64 s -> opt_in_i64 e -> k <> 0 ->
  gen_str_slice (S (length l)) m l s e (Some k) = OVal (py_slice l s e k).
Proof. intros. rewrite gen_str_slice_eq. now apply str_slice_spec. Qed.
End GenLoop.
