(* C05/Props.v — property theorems for C05 (indexing, slicing, range) and nothing else.
   [stdlib_*]/[core_*] are regenerated from /repo by rs2v on every run. *)
From Verif Require Import Base.I64 Gen.CoreStr Gen.StdColl Gen.StdIter
     C05.Model C05.ProofsSpec C05.ProofsBounds C05.ProofsLoop C05.ProofsMain C05.ProofsRange C05.Syntax.
Open Scope Z_scope.

Example C05_nonvacuous :
  let l := [104; 101; 108; 108; 111] in
  zlen l <= MAX64 /\ in_i64 (-2) /\ opt_in_i64 (Some (-1)) /\ slice_fits (zlen l) (Some (-1)) None (-2) /\
  list_slice 6 Trap l (Some (-1)) None (Some (-2)) = OVal [111; 108; 104] /\
  py_slice l (Some (-1)) None (-2) = [111; 108; 104] /\
  range_no_ovf 5 0 (-2) /\ range 10 Wrap 5 0 (-2) = OVal ([5; 3; 1], true).
Proof.
  cbv zeta. repeat split; try (unfold in_i64, MIN64, MAX64; cbn; lia); try (vm_compute; reflexivity);
  try (unfold slice_fits; intros; lia); try (vm_compute; intros; discriminate).
  all: try (left; vm_compute; intros; discriminate).
  all: try (vm_compute; intuition (try discriminate)).
Qed.

(* P1  s[start:end:step] = Python's slice, for every list/string, every optional i64 start/end,
       every non-zero i64 step, in debug and release builds, with fuel length+1 (so the loop
       terminates); on the complement of known finding slice-step-overflow ([slice_fits]) *)
Theorem C05_slice_spec : forall (A : Type) m (l : list A) s e k,
  zlen l <= MAX64 -> in_i64 k -> opt_in_i64 s -> opt_in_i64 e -> k <> 0 ->
  slice_fits (zlen l) s e k ->
  list_slice (S (length l)) m l s e (Some k) = OVal (py_slice l s e k) /\
  str_slice (S (length l)) m l s e (Some k) = OVal (py_slice l s e k).
Proof. intros; split; [exact (list_slice_spec m l s e k H H0 H1 H2 H3 H4) | exact (str_slice_spec m l s e k H H0 H1 H2 H3 H4)]. Qed.
Print Assumptions C05_slice_spec.

(* P1'  [slice_fits] holds whenever length + |step| fits in i64 (so for every realistic call) *)
Theorem C05_slice_fits_small : forall n s e k, 0 <= n -> k <> 0 -> n + Z.abs k <= MAX64 -> slice_fits n s e k.
Proof. exact slice_fits_small. Qed.
Print Assumptions C05_slice_fits_small.

(* P2  absent step = 1; zero step = the documented ValueError, whatever the other arguments *)
Theorem C05_slice_step_cases : forall (A : Type) fuel m (l : list A) s e,
  list_slice fuel m l s e None = list_slice fuel m l s e (Some 1) /\
  str_slice fuel m l s e None = str_slice fuel m l s e (Some 1) /\
  list_slice fuel m l s e (Some 0) = OStepZero /\ str_slice fuel m l s e (Some 0) = OStepZero.
Proof.
  intros. split; [exact (list_slice_none_step fuel m l s e)|]. split; [exact (str_slice_none_step fuel m l s e)|].
  split; [exact (list_slice_zero_step fuel m l s e) | exact (str_slice_zero_step fuel m l s e)].
Qed.
Print Assumptions C05_slice_step_cases.

(* P3  known finding slice-step-overflow is real in the model: "hello"[2::MAX] is "lh" in a
       release build and an overflow panic in a debug build (Python: "l") *)
Theorem C05_slice_overflow_refuted :
  let l := [104; 101; 108; 108; 111] in
  ~ slice_fits (zlen l) (Some 2) None MAX64 /\
  list_slice 6 Wrap l (Some 2) None (Some MAX64) = OVal [108; 104] /\
  str_slice 6 Trap l (Some 2) None (Some MAX64) = OPanic Overflow /\
  py_slice l (Some 2) None MAX64 = [108].
Proof.
  cbv zeta. split; [|vm_compute; repeat split; reflexivity].
  unfold slice_fits. intros H. vm_compute in H. apply H; reflexivity.
Qed.
Print Assumptions C05_slice_overflow_refuted.

(* P4  s[i]: Python's element for every i64 index (negative included), IndexError otherwise,
       and nothing else *)
Theorem C05_index_spec : forall (A : Type) m (l : list A) i,
  zlen l <= MAX64 -> in_i64 i ->
  list_get m l i = (match py_index l i with Some v => OVal v | None => OIndexErr end) /\
  str_char_at m l i = (match py_index l i with Some v => OVal v | None => OIndexErr end).
Proof. intros; split; [exact (list_get_spec m l i H H0) | exact (str_char_at_spec m l i H H0)]. Qed.
Print Assumptions C05_index_spec.

(* P5  range(a, b, c) yields exactly Python's range (first n values and exhaustion flag for
       every n; closed form for the k-th value), on the complement of known finding range-overflow *)
Theorem C05_range_spec : forall n m a b c, c <> 0 -> range_no_ovf a b c ->
  range n m a b c = OVal (firstn n (py_range_list a b c), Nat.leb (length (py_range_list a b c)) n).
Proof. exact range_spec. Qed.
Print Assumptions C05_range_spec.

Theorem C05_range_nth : forall (k : nat) n m a b c, c <> 0 -> range_no_ovf a b c -> (k < n)%nat ->
  exists l fin, range n m a b c = OVal (l, fin) /\
    nth_error l k = if Z.of_nat k <? py_range_len a b c then Some (a + Z.of_nat k * c) else None.
Proof. exact range_nth. Qed.
Print Assumptions C05_range_nth.

Theorem C05_range_zero_step : forall n m a b, range n m a b 0 = ORangeZero.
Proof. exact range_zero_step. Qed.
Print Assumptions C05_range_zero_step.

(* P6  known finding range-overflow: range(MAX-1, MAX, 2) keeps yielding from MIN in release *)
Theorem C05_range_overflow_refuted :
  ~ range_no_ovf (MAX64 - 1) MAX64 2 /\
  range 3 Wrap (MAX64 - 1) MAX64 2 = OVal ([MAX64 - 1; MIN64; MIN64 + 2], false) /\
  py_range_list (MAX64 - 1) MAX64 2 = [MAX64 - 1].
Proof.
  split; [|vm_compute; split; reflexivity].
  intros (_ & _ & _ & Hp & _). specialize (Hp ltac:(lia)). unfold MAX64 in Hp. lia.
Qed.
Print Assumptions C05_range_overflow_refuted.

(* P7  a missing dict key is the documented KeyError, a present key its value *)
Theorem C05_dict_get_spec : forall d key,
  dict_get d key = match assoc key d with Some v => OVal v | None => OKeyErr end.
Proof. exact dict_get_spec. Qed.
Print Assumptions C05_dict_get_spec.

(* P8  the documented slice spellings parse to the slice they denote — on the complement of
       known finding colon-colon (two adjacent colons are lexed as one `::` token) *)
Theorem C05_slice_syntax : forall sh, wf sh = true ->
  option_map erase (parse_index (lex (spell true sh))) = Some (erase sh) /\
  (adjacent_colons sh = false -> option_map erase (parse_index (lex (spell false sh))) = Some (erase sh)) /\
  (adjacent_colons sh = true -> parse_index (lex (spell false sh)) = None).
Proof.
  intros sh H. split; [exact (spaced_spelling_parses sh H)|].
  split; [exact (canonical_spelling_parses sh H) | exact (colon_colon_refuted sh H)].
Qed.
Print Assumptions C05_slice_syntax.
