(* C05/Props.v — property theorems for C05 (indexing, slicing, range) and nothing else.
   [stdlib_*]/[core_*] are regenerated from /repo by rs2v on every run; [gen_list_slice] and
   [gen_str_slice] (C05/GenSlice.v) consist of generated code only: the generated normalisation
   prefix followed by the generated `while` loops (Gen/CoreStrLoop.v, Gen/StdCollLoop.v). *)
From Verif Require Import Base.I64 Gen.CoreStr Gen.StdColl Gen.StdIter Gen.CoreStrLoop Gen.StdCollLoop
     C05.Model C05.GenSlice C05.ProofsSpec C05.ProofsBounds C05.ProofsLoop C05.ProofsMain C05.ProofsGenLoop
     C05.ProofsRange C05.Syntax.
Open Scope Z_scope.

Example C05_nonvacuous :
  let l := [104; 101; 108; 108; 111] in
  zlen l <= MAX64 /\ in_i64 (-2) /\ opt_in_i64 (Some (-1)) /\
  list_slice 6 Trap l (Some (-1)) None (Some (-2)) = OVal [111; 108; 104] /\
  py_slice l (Some (-1)) None (-2) = [111; 108; 104] /\
  range 10 Wrap 5 0 (-2) = OVal ([5; 3; 1], true).
Proof.
  cbv zeta. repeat split; try (unfold in_i64, MIN64, MAX64; cbn; lia); try (vm_compute; reflexivity);
  try (vm_compute; intros; discriminate).
Qed.

(* P1  s[start:end:step] = Python's slice, for every list/string, every optional i64 start/end,
       every non-zero i64 step (huge steps included: the loop stops when the index would leave
       i64), in debug and release builds, with fuel length+1 (so the loop terminates) *)
Theorem C05_slice_spec : forall (A : Type) m (l : list A) s e k,
  zlen l <= MAX64 -> in_i64 k -> opt_in_i64 s -> opt_in_i64 e -> k <> 0 ->
  list_slice (S (length l)) m l s e (Some k) = OVal (py_slice l s e k) /\
  str_slice (S (length l)) m l s e (Some k) = OVal (py_slice l s e k).
Proof. intros; split; [exact (list_slice_spec m l s e k H H0 H1 H2 H3) | exact (str_slice_spec m l s e k H H0 H1 H2 H3)]. Qed.
Print Assumptions C05_slice_spec.

(* P2  absent step = 1; zero step = the documented ValueError, whatever the other arguments *)
Theorem C05_slice_step_cases : forall (A : Type) fuel m (l : list A) s e,
  list_slice fuel m l s e None = list_slice fuel m l s e (Some 1) /\
  str_slice fuel m l s e None = str_slice fuel m l s e (Some 1) /\
  list_slice fuel m l s e (Some 0) = OStepZero /\ str_slice fuel m l s e (Some 0) = OStepZero.
Proof.
  intros. split; [exact (list_slice_none_step fuel m l s e)|]. split; [exact (str_slice_none_step fuel m l s e)|].
  split; [exact (list_slice_zero_step fuel m l s e) | exact (str_slice_zero_step fuel m l s e)].
Qed.
Print Assumptions C05_slice_step_cases.

(* P2g the same two statements for the FULLY GENERATED slice functions — normalisation prefix AND
       both `while` loops translated from the current source by rs2v on this run (fuel = length+1
       suffices: the generated loops terminate); no hand-written model of the loops is involved
       in the statement *)
Example C05_generated_nonvacuous :
  let l := [104; 101; 108; 108; 111] in
  zlen l <= MAX64 /\ in_i64 (-2) /\ opt_in_i64 (Some (-1)) /\
  gen_list_slice 6 Trap l (Some (-1)) None (Some (-2)) = OVal [111; 108; 104] /\
  gen_str_slice 6 Wrap l (Some 1) (Some (-1)) (Some 2) = OVal [101; 108] /\
  gen_str_slice 6 Trap l (Some 2) None (Some MAX64) = OVal [108] /\
  gen_list_slice 2 Wrap l None None None = OFuel /\
  py_slice l (Some (-1)) None (-2) = [111; 108; 104] /\ py_slice l (Some 1) (Some (-1)) 2 = [101; 108].
Proof.
  cbv zeta. repeat split; try (unfold in_i64, MIN64, MAX64; cbn; lia); try (vm_compute; reflexivity);
  try (vm_compute; intros; discriminate).
Qed.

Theorem C05_generated_slice_spec : forall (A : Type) m (l : list A) s e k,
  zlen l <= MAX64 -> in_i64 k -> opt_in_i64 s -> opt_in_i64 e -> k <> 0 ->
  gen_list_slice (S (length l)) m l s e (Some k) = OVal (py_slice l s e k) /\
  gen_str_slice (S (length l)) m l s e (Some k) = OVal (py_slice l s e k).
Proof.
  intros; split; [exact (gen_list_slice_spec m l s e k H H0 H1 H2 H3) | exact (gen_str_slice_spec m l s e k H H0 H1 H2 H3)].
Qed.
Print Assumptions C05_generated_slice_spec.

Theorem C05_generated_slice_step_cases : forall (A : Type) fuel m (l : list A) s e,
  gen_list_slice fuel m l s e None = gen_list_slice fuel m l s e (Some 1) /\
  gen_str_slice fuel m l s e None = gen_str_slice fuel m l s e (Some 1) /\
  gen_list_slice fuel m l s e (Some 0) = OStepZero /\ gen_str_slice fuel m l s e (Some 0) = OStepZero.
Proof.
  intros. rewrite !gen_list_slice_eq, !gen_str_slice_eq.
  split; [exact (list_slice_none_step fuel m l s e)|]. split; [exact (str_slice_none_step fuel m l s e)|].
  split; [exact (list_slice_zero_step fuel m l s e) | exact (str_slice_zero_step fuel m l s e)].
Qed.
Print Assumptions C05_generated_slice_step_cases.

(* P2h the generated loops ARE the loop the other theorems are about: on every input (every fuel,
       errors, panics and out-of-fuel included) the fully generated functions return what the
       functions built on the hand-written [slice_loop] return *)
Theorem C05_generated_loops_agree : forall (A : Type) fuel m (l : list A) s e k,
  gen_list_slice fuel m l s e k = list_slice fuel m l s e k /\
  gen_str_slice fuel m l s e k = str_slice fuel m l s e k.
Proof. intros; split; [exact (gen_list_slice_eq fuel m l s e k) | exact (gen_str_slice_eq fuel m l s e k)]. Qed.
Print Assumptions C05_generated_loops_agree.

(* P3  regression witness of the repaired finding slice-step-overflow: "hello"[2::MAX] is "l"
       in both builds, as in Python *)
Theorem C05_slice_overflow_fixed :
  let l := [104; 101; 108; 108; 111] in
  list_slice 6 Wrap l (Some 2) None (Some MAX64) = OVal [108] /\
  str_slice 6 Trap l (Some 2) None (Some MAX64) = OVal [108] /\
  py_slice l (Some 2) None MAX64 = [108].
Proof. cbv zeta. vm_compute. repeat split; reflexivity. Qed.
Print Assumptions C05_slice_overflow_fixed.

(* P4  s[i]: Python's element for every i64 index (negative included), IndexError otherwise,
       and nothing else *)
Theorem C05_index_spec : forall (A : Type) m (l : list A) i,
  zlen l <= MAX64 -> in_i64 i ->
  list_get m l i = (match py_index l i with Some v => OVal v | None => OIndexErr end) /\
  list_get_mut m l i = (match py_index l i with Some v => OVal v | None => OIndexErr end) /\
  str_char_at m l i = (match py_index l i with Some v => OVal v | None => OIndexErr end).
Proof.
  intros; split; [exact (list_get_spec m l i H H0)|].
  split; [exact (list_get_mut_spec m l i H H0) | exact (str_char_at_spec m l i H H0)].
Qed.
Print Assumptions C05_index_spec.

(* P5  range(a, b, c) yields exactly Python's range for ALL i64 triples with c <> 0 (first n
       values and exhaustion flag for every n; closed form for the k-th value) *)
Theorem C05_range_spec : forall n m a b c, c <> 0 -> in_i64 a -> in_i64 b -> in_i64 c ->
  range n m a b c = OVal (firstn n (py_range_list a b c), Nat.leb (length (py_range_list a b c)) n).
Proof. exact range_spec. Qed.
Print Assumptions C05_range_spec.

Theorem C05_range_nth : forall (k : nat) n m a b c, c <> 0 -> in_i64 a -> in_i64 b -> in_i64 c -> (k < n)%nat ->
  exists l fin, range n m a b c = OVal (l, fin) /\
    nth_error l k = if Z.of_nat k <? py_range_len a b c then Some (a + Z.of_nat k * c) else None.
Proof. exact range_nth. Qed.
Print Assumptions C05_range_nth.

Theorem C05_range_zero_step : forall n m a b, range n m a b 0 = ORangeZero.
Proof. exact range_zero_step. Qed.
Print Assumptions C05_range_zero_step.

(* P6  regression witness of the repaired finding range-overflow *)
Theorem C05_range_overflow_fixed :
  range 3 Wrap (MAX64 - 1) MAX64 2 = OVal ([MAX64 - 1], true) /\
  py_range_list (MAX64 - 1) MAX64 2 = [MAX64 - 1].
Proof. vm_compute. split; reflexivity. Qed.
Print Assumptions C05_range_overflow_fixed.

(* P7  a missing dict key is the documented KeyError, a present key its value *)
Theorem C05_dict_get_spec : forall d key,
  dict_get d key = match assoc key d with Some v => OVal v | None => OKeyErr end.
Proof. exact dict_get_spec. Qed.
Print Assumptions C05_dict_get_spec.

(* P8  every documented slice spelling — canonical (`s[::k]`, where the lexer produces one `::`
       token) and with blanks after the colons — parses to the slice it denotes *)
Theorem C05_slice_syntax : forall sh, wf sh = true ->
  option_map erase (parse_index (lex (spell true sh))) = Some (erase sh) /\
  option_map erase (parse_index (lex (spell false sh))) = Some (erase sh).
Proof.
  intros sh H. split; [exact (spaced_spelling_parses sh H) | exact (canonical_spelling_parses sh H)].
Qed.
Print Assumptions C05_slice_syntax.
