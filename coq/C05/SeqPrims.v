(* C05/SeqPrims.v — the vocabulary the rs2v loop translator (unit kind `suffix_fn`) generates
   into: sequences are `list A` (a string is the list of its Unicode scalars), `seq.get(i)` for a
   usize i is [get_usize], `out.push(x)` is `out ++ [x]`, and every `while` is a Fixpoint on explicit
   fuel whose result is a [loop_res]: finished with the loop-carried state, a Rust panic, or the
   DISTINCT out-of-fuel result.  Definitions only; imported by Gen/CoreStrLoop.v, Gen/StdCollLoop.v
   and re-exported by C05/Model.v. *)
From Verif Require Import Base.I64.
Open Scope Z_scope.

Definition zlen {A : Type} (l : list A) : Z := Z.of_nat (length l).

(* `slice.get(iu)` for a usize iu (an i64 cast with `as usize` is huge when negative, hence None) *)
Definition get_usize {A : Type} (l : list A) (iu : Z) : option A :=
  if (0 <=? iu) && (iu <? zlen l) then nth_error l (Z.to_nat iu) else None.

Inductive loop_res (St : Type) : Type :=
| LDone (s : St)            (* the loop (or the code after it) finished with this value *)
| LTrap (k : trap_kind)     (* a Rust panic inside the loop *)
| LFuel.                    (* the fuel ran out before the loop condition became false *)
Arguments LDone {St} s. Arguments LTrap {St} k. Arguments LFuel {St}.

Definition lbind {St T : Type} (r : loop_res St) (f : St -> loop_res T) : loop_res T :=
  match r with LDone s => f s | LTrap k => LTrap k | LFuel => LFuel end.

Definition lift_res {St : Type} (r : res St) : loop_res St :=
  match r with Val s => LDone s | Trp k => LTrap k end.
