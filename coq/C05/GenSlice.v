(* C05/GenSlice.v — the FULLY generated slice functions: the generated normalisation prefix
   (Gen/CoreStr.v, Gen/StdColl.v: everything before `let mut out`) followed by the generated loop
   part (Gen/CoreStrLoop.v, Gen/StdCollLoop.v: `let mut out` to the end of the function, both
   `while` loops as Fixpoints on fuel).  Nothing of str_slice / list_slice is hand-modelled here
   except the error dispatch (which panic is which documented error) and `chars = s.chars()`,
   `len = chars.len()`.  Definitions only. *)
From Verif Require Import Base.I64 Gen.CoreStr Gen.StdColl Gen.CoreStrLoop Gen.StdCollLoop C05.Model.
Open Scope Z_scope.

Section GenSlice.
Context {A : Type}.

Definition of_loop_res (r : loop_res (list A)) : out (list A) :=
  match r with LDone l => OVal l | LTrap t => OPanic t | LFuel => OFuel end.

Definition gen_slice_with
    (bounds : mode -> Z -> option Z -> option Z -> option Z -> res (Z * Z * Z))
    (loops : nat -> mode -> list A -> Z -> Z -> Z -> loop_res (list A))
    (fuel : nat) (m : mode) (l : list A) (s e k : option Z) : out (list A) :=
  match bounds m (zlen l) s e k with
  | Trp Raised => OStepZero
  | Trp t => OPanic t
  | Val (k', s', e') => of_loop_res (loops fuel m l k' s' e')
  end.

(* incan_stdlib::collections::list_slice, prefix and loops generated *)
Definition gen_list_slice := gen_slice_with stdlib_list_slice_bounds stdlib_list_slice_loops.
(* incan_core::strings::str_slice, prefix and loops generated *)
Definition gen_str_slice := gen_slice_with core_str_slice_bounds core_str_slice_loops.
End GenSlice.
