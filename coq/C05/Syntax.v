(* C05/Syntax.v — the slice grammar `[start:end:step]` as the lexer (maximal munch `::`) and
   the parser's index_or_slice / parse_slice see it.  Model + proofs (tiny, finite shapes over
   arbitrary expression atoms). *)
From Coq Require Import List Bool Arith.
Import ListNotations.

(* characters between `[` and `]`: an expression atom, a colon, a blank *)
Inductive sym := SE (id : nat) | SC | SSp.
(* tokens *)
Inductive tok := TExpr (id : nat) | TColon | TColonColon.

(* lexer: blanks are dropped, two adjacent colons are ONE token (lexer/mod.rs, `::`) *)
Fixpoint lex (s : list sym) : list tok :=
  match s with
  | [] => []
  | SC :: SC :: r => TColonColon :: lex r
  | SC :: r => TColon :: lex r
  | SE n :: r => TExpr n :: lex r
  | SSp :: r => lex r
  end.

Inductive shape :=
| Index (i : nat)
| Slice (start stop step : option nat) (second_colon : bool).

(* parser/expr.rs index_or_slice + parse_slice on the token list up to `]`.
   `expression()` consumes exactly one TExpr atom here; any other token where an expression is
   required is a syntax error (None). The AST does not record whether a second colon was
   written, so the result is compared up to that flag. *)
Definition parse_slice (start : option nat) (ts : list tok) : option shape :=
  match ts with
  | TColonColon :: r =>                        (* `::` = no end, optional step *)
      match r with
      | [] => Some (Slice start None None true)
      | TExpr n :: [] => Some (Slice start None (Some n) true)
      | _ => None
      end
  | TColon :: r =>
      let '(stop, r1) := match r with
                         | TExpr n :: r' => (Some n, r')
                         | _ => (None, r)
                         end in
      match r, r1 with
      | TColonColon :: _, _ => None
      | _, [] => Some (Slice start stop None false)
      | _, TColon :: [] => Some (Slice start stop None true)
      | _, TColon :: TExpr n :: [] => Some (Slice start stop (Some n) true)
      | _, _ => None
      end
  | _ => None
  end.

Definition parse_index (ts : list tok) : option shape :=
  match ts with
  | TColon :: _ | TColonColon :: _ => parse_slice None ts
  | [] => None                                (* "Empty index is not allowed" *)
  | TExpr n :: [] => Some (Index n)
  | TExpr n :: ((TColon :: _) as r) | TExpr n :: ((TColonColon :: _) as r) => parse_slice (Some n) r
  | _ => None
  end.

Definition opt_sym (o : option nat) : list sym := match o with Some n => [SE n] | None => [] end.

(* canonical spelling (no blanks) and spelling with a blank after every colon *)
Definition spell (sp : bool) (sh : shape) : list sym :=
  let c := if sp then [SC; SSp] else [SC] in
  match sh with
  | Index i => [SE i]
  | Slice a b s second =>
      opt_sym a ++ c ++ opt_sym b ++ (if second then c ++ opt_sym s else [])
  end.

Definition wf (sh : shape) : bool :=
  match sh with
  | Index _ => true
  | Slice _ _ (Some _) false => false         (* a step needs the second colon *)
  | _ => true
  end.

(* what the AST keeps *)
Definition erase (sh : shape) : shape :=
  match sh with Slice a b s _ => Slice a b s false | i => i end.

Lemma spaced_spelling_parses sh :
  wf sh = true -> option_map erase (parse_index (lex (spell true sh))) = Some (erase sh).
Proof.
  destruct sh as [i|[a|] [b|] [s|] [|]]; cbn; intros H; try discriminate; reflexivity.
Qed.

Lemma canonical_spelling_parses sh :
  wf sh = true -> option_map erase (parse_index (lex (spell false sh))) = Some (erase sh).
Proof.
  destruct sh as [i|[a|] [b|] [s|] [|]]; cbn; intros H; try discriminate; reflexivity.
Qed.
