(* C05/ProofsMain.v — slicing, indexing and range equal the Python specification. *)
From Verif Require Import Base.I64 Base.Tactics Gen.CoreStr Gen.StdColl Gen.StdIter
     C05.Model C05.ProofsSpec C05.ProofsBounds C05.ProofsLoop.
From Coq Require Import ZifyBool ZifyNat.
Open Scope Z_scope.

Section Slice.
Context {A : Type}.
Variable bounds : mode -> Z -> option Z -> option Z -> option Z -> res (Z * Z * Z).
Hypothesis bounds_spec : forall m n s e k,
  0 <= n <= MAX64 -> in_i64 k -> opt_in_i64 s -> opt_in_i64 e -> k <> 0 ->
  bounds m n s e (Some k) = Val (k, py_adjust n k s true, py_adjust n k e false).

Lemma slice_with_spec m (l : list A) s e k :
  zlen l <= MAX64 -> in_i64 k -> opt_in_i64 s -> opt_in_i64 e -> k <> 0 ->
  slice_with bounds (S (length l)) m l s e (Some k) = OVal (py_slice l s e k).
Proof.
  intros Hl Hk Hs He Hk0.
  assert (Hn : 0 <= zlen l) by (unfold zlen; lia).
  unfold slice_with. rewrite bounds_spec; [ | split; assumption | assumption | assumption | assumption | assumption].
  unfold py_slice. fold (zlen l).
  pose proof (py_adjust_range (zlen l) k s true Hn Hk0) as [Hlo1 Hlo2].
  pose proof (py_adjust_range (zlen l) k e false Hn Hk0) as [Hhi1 Hhi2].
  destruct (Z_lt_dec 0 k) as [Hpos|Hneg].
  - apply loop_up; try assumption; try lia.
    unfold zlen in *. lia.
  - apply loop_down; try assumption; try lia; unfold zlen in *; lia.
Qed.
End Slice.

Lemma list_slice_spec {A} m (l : list A) s e k :
  zlen l <= MAX64 -> in_i64 k -> opt_in_i64 s -> opt_in_i64 e -> k <> 0 ->
  list_slice (S (length l)) m l s e (Some k) = OVal (py_slice l s e k).
Proof. apply slice_with_spec. intros; now apply list_bounds_spec. Qed.

Lemma str_slice_spec {A} m (l : list A) s e k :
  zlen l <= MAX64 -> in_i64 k -> opt_in_i64 s -> opt_in_i64 e -> k <> 0 ->
  str_slice (S (length l)) m l s e (Some k) = OVal (py_slice l s e k).
Proof. apply slice_with_spec. intros; now apply str_bounds_spec. Qed.

Lemma list_slice_none_step {A} fuel m (l : list A) s e :
  list_slice fuel m l s e None = list_slice fuel m l s e (Some 1).
Proof. unfold list_slice, slice_with. now rewrite list_bounds_none. Qed.
Lemma str_slice_none_step {A} fuel m (l : list A) s e :
  str_slice fuel m l s e None = str_slice fuel m l s e (Some 1).
Proof. unfold str_slice, slice_with. now rewrite str_bounds_none. Qed.

Lemma list_slice_zero_step {A} fuel m (l : list A) s e : list_slice fuel m l s e (Some 0) = OStepZero.
Proof. reflexivity. Qed.
Lemma str_slice_zero_step {A} fuel m (l : list A) s e : str_slice fuel m l s e (Some 0) = OStepZero.
Proof. reflexivity. Qed.

(* the two copies agree wherever the property speaks *)
Lemma slice_copies_agree {A} m (l : list A) s e k :
  zlen l <= MAX64 -> in_i64 k -> opt_in_i64 s -> opt_in_i64 e ->
  list_slice (S (length l)) m l s e (Some k) = str_slice (S (length l)) m l s e (Some k).
Proof.
  intros Hl Hk Hs He. destruct (Z.eq_dec k 0) as [->|Hk0]; [reflexivity|].
  now rewrite list_slice_spec, str_slice_spec.
Qed.

(* ---------------- indexing ---------------- *)
Lemma list_get_spec {A} m (l : list A) i :
  zlen l <= MAX64 -> in_i64 i ->
  list_get m l i = match py_index l i with Some v => OVal v | None => OIndexErr end.
Proof.
  intros Hl Hi. unfold list_get, stdlib_list_get_index, py_index.
  assert (Hn : 0 <= zlen l) by (unfold zlen; lia).
  fold (zlen l).
  cbv beta iota zeta delta [bind raise_if add64 as_i64].
  rewrite (wrap64_id (zlen l)) by (i64_facts; lia).
  destruct (i <? 0) eqn:Hneg.
  - rewrite ovf_ok by (i64_facts; lia). cbv beta iota.
    destruct ((i + zlen l <? 0) || (i + zlen l >=? zlen l)) eqn:Hb.
    + replace ((0 <=? i + zlen l) && (i + zlen l <? zlen l)) with false by lia. reflexivity.
    + replace ((0 <=? i + zlen l) && (i + zlen l <? zlen l)) with true by lia.
      rewrite get_i64_inside by lia.
      destruct (nth_error_inside l (i + zlen l) ltac:(lia)) as [v ->]. reflexivity.
  - cbv beta iota.
    destruct ((i <? 0) || (i >=? zlen l)) eqn:Hb.
    + replace ((0 <=? i) && (i <? zlen l)) with false by lia. reflexivity.
    + replace ((0 <=? i) && (i <? zlen l)) with true by lia.
      rewrite get_i64_inside by lia.
      destruct (nth_error_inside l i ltac:(lia)) as [v ->]. reflexivity.
Qed.

(* the write-side twin agrees with list_get on every input (failures included) *)
Lemma list_get_mut_index_eq m n i : stdlib_list_get_mut_index m n i = stdlib_list_get_index m n i.
Proof. reflexivity. Qed.

Lemma list_get_mut_spec {A} m (l : list A) i :
  zlen l <= MAX64 -> in_i64 i ->
  list_get_mut m l i = match py_index l i with Some v => OVal v | None => OIndexErr end.
Proof.
  intros Hl Hi. unfold list_get_mut. rewrite list_get_mut_index_eq.
  exact (list_get_spec m l i Hl Hi).
Qed.

Lemma str_char_at_spec {A} m (l : list A) i :
  zlen l <= MAX64 -> in_i64 i ->
  str_char_at m l i = match py_index l i with Some v => OVal v | None => OIndexErr end.
Proof.
  intros Hl Hi. unfold str_char_at, core_normalize_index, py_index.
  assert (Hn : 0 <= zlen l) by (unfold zlen; lia).
  fold (zlen l).
  cbv beta iota zeta delta [bind add64 as_i64 as_usize USIZE_MOD].
  destruct (zlen l =? 0) eqn:Hz.
  - replace (zlen l) with 0 by lia.
    destruct (i <? 0); replace ((0 <=? i + 0) && (i + 0 <? 0)) with false by lia;
      try replace ((0 <=? i) && (i <? 0)) with false by lia; reflexivity.
  - rewrite (wrap64_id (zlen l)) by (i64_facts; lia).
    destruct (i <? 0) eqn:Hneg.
    + rewrite ovf_ok by (i64_facts; lia). cbv beta iota.
      destruct ((i + zlen l <? 0) || (i + zlen l >=? zlen l)) eqn:Hb.
      * replace ((0 <=? i + zlen l) && (i + zlen l <? zlen l)) with false by lia. reflexivity.
      * replace ((0 <=? i + zlen l) && (i + zlen l <? zlen l)) with true by lia.
        rewrite Z.mod_small by (i64_facts; lia).
        unfold get_usize. replace ((0 <=? i + zlen l) && (i + zlen l <? zlen l)) with true by lia.
        destruct (nth_error_inside l (i + zlen l) ltac:(lia)) as [v ->]. reflexivity.
    + cbv beta iota.
      destruct ((i <? 0) || (i >=? zlen l)) eqn:Hb.
      * replace ((0 <=? i) && (i <? zlen l)) with false by lia. reflexivity.
      * replace ((0 <=? i) && (i <? zlen l)) with true by lia.
        rewrite Z.mod_small by (i64_facts; lia).
        unfold get_usize. replace ((0 <=? i) && (i <? zlen l)) with true by lia.
        destruct (nth_error_inside l i ltac:(lia)) as [v ->]. reflexivity.
Qed.
