(* C05/ProofsSpec.v — facts about the Python-side specification (py_range_list, select). *)
From Verif Require Import Base.I64 C05.Model.
From Coq Require Import ZifyBool ZifyNat.
Open Scope Z_scope.

Lemma range_len_nonneg lo hi step : 0 <= py_range_len lo hi step.
Proof.
  unfold py_range_len.
  destruct (step >? 0) eqn:Hs.
  - destruct (lo <? hi) eqn:Hl; [|lia].
    assert (0 <= (hi - lo - 1) / step) by (apply Z.div_pos; lia). lia.
  - destruct (lo >? hi) eqn:Hl; [|lia].
    destruct (Z.eq_dec step 0) as [->|Hz].
    + cbn. rewrite Zdiv_0_r. lia.
    + assert (0 <= (lo - hi - 1) / (- step)) by (apply Z.div_pos; lia). lia.
Qed.

Lemma range_len_up_step lo hi step :
  step > 0 -> lo < hi -> py_range_len lo hi step = 1 + py_range_len (lo + step) hi step.
Proof.
  intros Hs Hl. unfold py_range_len.
  replace (step >? 0) with true by lia. replace (lo <? hi) with true by lia.
  destruct (lo + step <? hi) eqn:Hn.
  - replace (hi - lo - 1) with ((hi - (lo + step) - 1) + 1 * step) by ring.
    rewrite Z.div_add by lia. lia.
  - rewrite Z.div_small by lia. lia.
Qed.

Lemma range_len_up_stop lo hi step : step > 0 -> lo >= hi -> py_range_len lo hi step = 0.
Proof. intros Hs Hl. unfold py_range_len. replace (step >? 0) with true by lia. replace (lo <? hi) with false by lia. reflexivity. Qed.

Lemma range_len_down_step lo hi step :
  step < 0 -> lo > hi -> py_range_len lo hi step = 1 + py_range_len (lo + step) hi step.
Proof.
  intros Hs Hl. unfold py_range_len.
  replace (step >? 0) with false by lia. replace (lo >? hi) with true by lia.
  destruct (lo + step >? hi) eqn:Hn.
  - replace (lo - hi - 1) with ((lo + step - hi - 1) + 1 * (- step)) by ring.
    rewrite Z.div_add by lia. lia.
  - rewrite Z.div_small by lia. lia.
Qed.

Lemma range_len_down_stop lo hi step : step < 0 -> lo <= hi -> py_range_len lo hi step = 0.
Proof. intros Hs Hl. unfold py_range_len. replace (step >? 0) with false by lia. replace (lo >? hi) with false by lia. reflexivity. Qed.

Lemma map_seq_shift (f : nat -> Z) n : map f (seq 1 n) = map (fun j => f (S j)) (seq 0 n).
Proof. rewrite <- seq_shift, map_map. reflexivity. Qed.

Lemma range_list_cons lo hi step :
  py_range_len lo hi step = 1 + py_range_len (lo + step) hi step ->
  py_range_list lo hi step = lo :: py_range_list (lo + step) hi step.
Proof.
  intros H. unfold py_range_list. rewrite H.
  pose proof (range_len_nonneg (lo + step) hi step) as Hn.
  replace (Z.to_nat (1 + py_range_len (lo + step) hi step)) with (S (Z.to_nat (py_range_len (lo + step) hi step))) by lia.
  cbn [seq map]. f_equal; [lia|].
  rewrite map_seq_shift. apply map_ext. intros j. lia.
Qed.

Lemma range_list_nil lo hi step : py_range_len lo hi step = 0 -> py_range_list lo hi step = [].
Proof. intros H. unfold py_range_list. rewrite H. reflexivity. Qed.

Lemma range_list_length lo hi step :
  Z.of_nat (length (py_range_list lo hi step)) = py_range_len lo hi step.
Proof.
  unfold py_range_list. rewrite map_length, seq_length.
  pose proof (range_len_nonneg lo hi step). lia.
Qed.

Lemma nth_error_seq0 n k : (k < n)%nat -> nth_error (seq 0 n) k = Some k.
Proof.
  intros H. rewrite (nth_error_nth' _ 0%nat) by (now rewrite seq_length).
  now rewrite seq_nth.
Qed.

(* closed form of the k-th element *)
Lemma range_list_nth lo hi step (k : nat) :
  nth_error (py_range_list lo hi step) k =
  if Z.of_nat k <? py_range_len lo hi step then Some (lo + Z.of_nat k * step) else None.
Proof.
  unfold py_range_list. pose proof (range_len_nonneg lo hi step) as Hn.
  destruct (Z.of_nat k <? py_range_len lo hi step) eqn:Hk.
  - rewrite nth_error_map, nth_error_seq0 by lia. reflexivity.
  - apply nth_error_None. rewrite map_length, seq_length. lia.
Qed.
