(* Fmt/Ast.v — tokens and the AST of the expression / simple-statement core, mirroring
   crates/incan_syntax/src/ast.rs (Expr, Literal, BinaryOp, UnaryOp, CallArg, SliceExpr, Statement,
   BindingKind, CompoundOp, Type, Param) and lexer/tokens.rs (TokenKind).
   Names and string/bytes/float payloads are abstract identifiers (N); a float carries the one fact
   the printer depends on: [Some k] when Rust's Display of the value is the integer text k
   (no '.', e.g. 1.0 -> "1", 1e10 -> "10000000000"), [None] otherwise.
   Not modelled (oracle only, see checks/c08.py): Match, If (printer arm only), ListComp, DictComp,
   FString, Yield, Constructor (never produced by the parser), declarations, compound statements. *)
From Coq Require Import ZArith NArith List Bool.
Import ListNotations.
Open Scope Z_scope.

Inductive kw := KTrue | KFalse | KNone | KSelf | KAnd | KOr | KNot | KIn | KIs | KAwait | KIf
              | KReturn | KPass | KBreak | KContinue | KLet | KMut | KMatch | KYield | KFor.
Inductive op := OPlus | OMinus | OStar | OSlash | OSlashSlash | OPercent | OStarStar
              | OEqEq | ONotEq | OLt | OGt | OLtEq | OGtEq | ODotDot | ODotDotEq | OEq
              | OPlusEq | OMinusEq | OStarEq | OSlashEq | OSlashSlashEq | OPercentEq.
Inductive pu := PDot | PComma | PColon | PColonColon | PLParen | PRParen | PLBracket | PRBracket
              | PLBrace | PRBrace | PQuestion | PFatArrow | PArrow.

Inductive tok :=
| TId (n : N) | TInt (z : Z) | TFloat (id : N) (integral : option Z) | TStr (id : N) | TBytes (id : N)
| TKw (k : kw) | TOp (o : op) | TPu (p : pu) | TNewline | TOther (z : Z).

Inductive binop := Add | Sub | Mul | Div | FloorDiv | Mod | Pow | Eq | NotEq | Lt | Gt | LtEq | GtEq
                 | And | Or | In | NotIn | Is.
Inductive unop := Neg | Not.
Inductive lit := LInt (z : Z) | LFloat (id : N) (integral : option Z) | LStr (id : N) | LBytes (id : N)
               | LBool (b : bool) | LNone.
(* ast.rs stores a field name as a string; the parser stores a tuple index as its decimal text *)
Inductive fld := FName (n : N) | FIdx (z : Z).

Inductive expr :=
| EIdent (n : N)
| ELit (l : lit)
| ESelf
| EBinary (l : expr) (o : binop) (r : expr)
| EUnary (o : unop) (e : expr)
| ECall (f : expr) (args : list (option N * expr))          (* CallArg::Positional / Named *)
| EIndex (b i : expr)
| ESlice (b : expr) (s e st : option expr)
| EField (b : expr) (f : fld)
| EMethod (b : expr) (m : N) (args : list (option N * expr))
| EAwait (e : expr)
| ETry (e : expr)
| ETuple (es : list expr)
| EList (es : list expr)
| EDict (kvs : list (expr * expr))
| ESet (es : list expr)
| EParen (e : expr)
| ERange (s e : expr) (incl : bool)
| EClosure (ps : list N) (body : expr).

Inductive binding := BInferred | BLet | BMutable | BReassign.
Inductive cop := CAdd | CSub | CMul | CDiv | CFloorDiv | CMod.

Inductive stmt :=
| SExpr (e : expr)
| SAssign (b : binding) (n : N) (v : expr)                   (* ty = None; typed form: oracle only *)
| SFieldAssign (o : expr) (f : fld) (v : expr)
| SIndexAssign (o i v : expr)
| SCompound (n : N) (c : cop) (v : expr)
| SReturn (o : option expr)
| SPass | SBreak | SContinue.

Inductive ty :=
| TySimple (n : N) | TyGeneric (n : N) (args : list ty) | TyFunction (ps : list ty) (r : ty)
| TyUnit | TyTuple (ts : list ty) | TySelf.

Record param := { p_mut : bool; p_name : N; p_ty : ty; p_default : option expr }.

(* decidable equalities used by the executable models *)
Definition kw_eqb (a b : kw) : bool :=
  match a, b with
  | KTrue, KTrue | KFalse, KFalse | KNone, KNone | KSelf, KSelf | KAnd, KAnd | KOr, KOr | KNot, KNot
  | KIn, KIn | KIs, KIs | KAwait, KAwait | KIf, KIf | KReturn, KReturn | KPass, KPass | KBreak, KBreak
  | KContinue, KContinue | KLet, KLet | KMut, KMut | KMatch, KMatch | KYield, KYield | KFor, KFor => true
  | _, _ => false
  end.

(* size, for the strong induction of the round-trip proof *)
Fixpoint size (e : expr) : nat :=
  match e with
  | EIdent _ | ELit _ | ESelf => 1
  | EBinary l _ r => 1 + size l + size r
  | EUnary _ e | EAwait e | ETry e | EParen e => 1 + size e
  | ECall f args => 1 + size f + list_sum (map (fun a => size (snd a)) args)
  | EIndex b i => 1 + size b + size i
  | ESlice b s e st =>
      1 + size b + match s with Some x => size x | None => 0 end
        + match e with Some x => size x | None => 0 end + match st with Some x => size x | None => 0 end
  | EField b _ => 1 + size b
  | EMethod b _ args => 1 + size b + list_sum (map (fun a => size (snd a)) args)
  | ETuple es | EList es | ESet es => 1 + list_sum (map size es)
  | EDict kvs => 1 + list_sum (map (fun kv => size (fst kv) + size (snd kv)) kvs)
  | ERange s e _ => 1 + size s + size e
  | EClosure _ b => 1 + size b
  end%nat.
