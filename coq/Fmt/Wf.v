(* Fmt/Wf.v — ladder well-formedness (what the precedence ladder can produce), stop tokens,
   the float normalisation, and the fuel bound.  Definitions and small facts only. *)
From Coq Require Import ZArith NArith List Bool Lia Arith.
From Verif Require Import Fmt.Ast Fmt.Print Fmt.Parse.
Import ListNotations.
Local Open Scope nat_scope.

Definition lnum (L : level) : nat :=
  match L with LOr => 0 | LAnd => 1 | LNot => 2 | LCmp => 3 | LRange => 4 | LAdd => 5 | LMul => 6
             | LPow => 7 | LUnary => 8 end.

Definition op_lvl (o : binop) : nat :=
  match o with
  | Or => 0 | And => 1
  | Eq | NotEq | Lt | Gt | LtEq | GtEq | In | NotIn | Is => 3
  | Add | Sub => 5 | Mul | Div | FloorDiv | Mod => 6 | Pow => 7
  end.

(* the ladder level whose parser function builds the top node of e *)
Definition lvl_of (e : expr) : nat :=
  match e with
  | EBinary _ o _ => op_lvl o
  | EUnary Not _ => 2
  | ERange _ _ _ => 4
  | EUnary Neg _ | EAwait _ => 8
  | _ => 9
  end.

(* `t.0.1` and `5.0` would lex as floats: the base of a tuple index is not a number or another index *)
Definition dot_safe (b : expr) : bool :=
  match b with ELit (LInt _) | ELit (LFloat _ _) | EField _ (FIdx _) => false | _ => true end.

Definition wf_opt (w : expr -> bool) (o : option expr) : bool := match o with Some x => w x | None => true end.

(* ladder_wf: every operand sits at a level its parser function can return; the printer inserts no
   parentheses, so this is exactly what Expr::Paren nodes have to guarantee *)
Fixpoint wfb (e : expr) : bool :=
  match e with
  | EIdent _ | ESelf => true
  | ELit (LInt z) => (0 <=? z)%Z
  | ELit (LFloat _ (Some k)) => (0 <=? k)%Z
  | ELit _ => true
  | EBinary l o r =>
      wfb l && wfb r &&
      (match o with
       | Pow => (8 <=? lvl_of l) && (7 <=? lvl_of r)                 (* unary ** power *)
       | _ => (op_lvl o <=? lvl_of l) && (op_lvl o + 1 <=? lvl_of r)  (* left-associative loops *)
       end)
  | EUnary Not x => wfb x && (2 <=? lvl_of x)
  | EUnary Neg x | EAwait x => wfb x && (8 <=? lvl_of x)
  | ERange s x _ => wfb s && wfb x && (5 <=? lvl_of s) && (5 <=? lvl_of x)
  | ECall f args =>                  (* `b.m(args)` always parses as a method call, never as Call(Field(b,m),args) *)
      wfb f && (9 <=? lvl_of f) && forallb (fun a => wfb (snd a)) args &&
      match f with EField _ (FName _) => false | _ => true end
  | EIndex b i => wfb b && (9 <=? lvl_of b) && wfb i
  | ESlice b s x st => wfb b && (9 <=? lvl_of b) && wf_opt wfb s && wf_opt wfb x && wf_opt wfb st
  | EField b f => wfb b && (9 <=? lvl_of b) && match f with FIdx k => (0 <=? k)%Z && dot_safe b | FName _ => true end
  | EMethod b _ args => wfb b && (9 <=? lvl_of b) && forallb (fun a => wfb (snd a)) args
  | ETry x => wfb x && (9 <=? lvl_of x)
  | ETuple es | EList es => forallb wfb es
  | ESet _ | EDict _ => false        (* modelled and tied, but outside the proved core (see report) *)
  | EParen x => wfb x
  | EClosure _ _ => false            (* closures are outside the proved core (greedy body); see C08 report *)
  end.

Definition ladder_wf (e : expr) : Prop := wfb e = true.

(* a slice with absent end and present step (printed with the `::` token); no longer a finding class
   since the parser accepts `::` inside brackets (/repo 974c053) *)
Fixpoint has_cc (e : expr) : bool :=
  match e with
  | EIdent _ | ELit _ | ESelf => false
  | EBinary l _ r => has_cc l || has_cc r
  | EUnary _ x | EAwait x | ETry x | EParen x => has_cc x
  | ECall f args => has_cc f || existsb (fun a => has_cc (snd a)) args
  | EIndex b i => has_cc b || has_cc i
  | ESlice b s x st =>
      has_cc b || (match x, st with None, Some _ => true | _, _ => false end) ||
      (match s with Some y => has_cc y | None => false end) || (match x with Some y => has_cc y | None => false end) ||
      (match st with Some y => has_cc y | None => false end)
  | EField b _ => has_cc b
  | EMethod b _ args => has_cc b || existsb (fun a => has_cc (snd a)) args
  | ETuple es | EList es | ESet es => existsb has_cc es
  | EDict kvs => existsb (fun kv => has_cc (fst kv) || has_cc (snd kv)) kvs
  | ERange s x _ => has_cc s || has_cc x
  | EClosure _ b => has_cc b
  end.

(* Until the printer used the Debug form, a float literal whose Display text is an integer re-parsed as an int and
   [defloat] described that change; the class is repaired, so the normalisation is now the identity (kept so that
   the proofs stay parametric in it and a regression shows up as a broken theorem). *)
Definition defloat_lit (l : lit) : lit := l.
Fixpoint defloat (e : expr) : expr :=
  match e with
  | EIdent _ | ESelf => e
  | ELit l => ELit (defloat_lit l)
  | EBinary l o r => EBinary (defloat l) o (defloat r)
  | EUnary o x => EUnary o (defloat x)
  | ECall f args => ECall (defloat f) (map (fun a => (fst a, defloat (snd a))) args)
  | EIndex b i => EIndex (defloat b) (defloat i)
  | ESlice b s x st => ESlice (defloat b) (option_map defloat s) (option_map defloat x) (option_map defloat st)
  | EField b f => EField (defloat b) f
  | EMethod b m args => EMethod (defloat b) m (map (fun a => (fst a, defloat (snd a))) args)
  | EAwait x => EAwait (defloat x)
  | ETry x => ETry (defloat x)
  | ETuple es => ETuple (map defloat es)
  | EList es => EList (map defloat es)
  | EDict kvs => EDict (map (fun kv => (defloat (fst kv), defloat (snd kv))) kvs)
  | ESet es => ESet (map defloat es)
  | EParen x => EParen (defloat x)
  | ERange s x i => ERange (defloat s) (defloat x) i
  | EClosure ps b => EClosure ps (defloat b)
  end.

Fixpoint has_intfloat (e : expr) : bool :=
  match e with
  | ELit (LFloat _ (Some _)) => true
  | EIdent _ | ELit _ | ESelf => false
  | EBinary l _ r => has_intfloat l || has_intfloat r
  | EUnary _ x | EAwait x | ETry x | EParen x => has_intfloat x
  | ECall f args => has_intfloat f || existsb (fun a => has_intfloat (snd a)) args
  | EIndex b i => has_intfloat b || has_intfloat i
  | ESlice b s x st =>
      has_intfloat b || (match s with Some y => has_intfloat y | None => false end) ||
      (match x with Some y => has_intfloat y | None => false end) || (match st with Some y => has_intfloat y | None => false end)
  | EField b _ => has_intfloat b
  | EMethod b _ args => has_intfloat b || existsb (fun a => has_intfloat (snd a)) args
  | ETuple es | EList es | ESet es => existsb has_intfloat es
  | EDict kvs => existsb (fun kv => has_intfloat (fst kv) || has_intfloat (snd kv)) kvs
  | ERange s x _ => has_intfloat s || has_intfloat x
  | EClosure _ b => has_intfloat b
  end.

(* the level at which a token continues an expression that has just been parsed *)
Definition cont (t : tok) : option nat :=
  match t with
  | TKw KOr => Some 0 | TKw KAnd => Some 1
  | TOp OEqEq | TOp ONotEq | TOp OLt | TOp OGt | TOp OLtEq | TOp OGtEq | TKw KIn | TKw KIs | TKw KNot => Some 3
  | TOp ODotDot | TOp ODotDotEq => Some 4
  | TOp OPlus | TOp OMinus => Some 5
  | TOp OStar | TOp OSlash | TOp OSlashSlash | TOp OPercent => Some 6
  | TOp OStarStar => Some 7
  | TPu PQuestion | TPu PDot | TPu PLBracket | TPu PLParen | TPu PFatArrow => Some 9
  | _ => None
  end.

(* [stop n rest]: the first token of rest does not continue any ladder level >= n *)
Definition stop (n : nat) (rest : list tok) : Prop :=
  match rest with
  | [] => True
  | t :: _ => match cont t with Some k => k < n | None => True end
  end.

(* fuel: 20 per AST node is enough (each node costs at most the ladder descent + its own loops) *)
Definition need (e : expr) : nat := 20 * size e.
