(* Fmt/Text.v - the literal parts of f-strings at CHARACTER level: what the printer writes for a literal part
   (escape_string, then every brace doubled; formatter.rs, arm Expr::FString) and what the lexer reads back
   inside an f-string opened with the double quote (lexer/strings.rs scan_fstring + scan_text_escape).
   Theorem: scanning the printed text gives back exactly the characters, for every list of characters.
   Characters are Z code points. *)
From Coq Require Import ZArith List Bool Lia.
Import ListNotations.
Open Scope Z_scope.

(* escape_string + brace doubling *)
Definition esc_char (c : Z) : list Z :=
  if c =? 10 then [92; 110]
  else if c =? 13 then [92; 114]
  else if c =? 9 then [92; 116]
  else if c =? 92 then [92; 92]
  else if c =? 34 then [92; 34]
  else if c =? 123 then [123; 123]
  else if c =? 125 then [125; 125]
  else [c].
Definition escape_text (s : list Z) : list Z := flat_map esc_char s.

Inductive fstep := FEnd (rest : list Z) | FChars (cs rest : list Z) | FExpr (rest : list Z) | FError.

(* one step of scan_fstring in literal position, literal opened with quote q *)
Definition fscan_step (q : Z) (cs : list Z) : fstep :=
  match cs with
  | [] => FError
  | c :: rest =>
      if c =? q then FEnd rest
      else if c =? 123 then
        match rest with
        | d :: rest2 => if d =? 123 then FChars [123] rest2 else FExpr rest
        | [] => FExpr rest
        end
      else if c =? 125 then
        match rest with
        | d :: rest2 => if d =? 125 then FChars [125] rest2 else FError
        | [] => FError
        end
      else if c =? 92 then
        match rest with
        | [] => FError
        | d :: rest2 =>
            if d =? 110 then FChars [10] rest2
            else if d =? 116 then FChars [9] rest2
            else if d =? 114 then FChars [13] rest2
            else if d =? 92 then FChars [92] rest2
            else if d =? q then FChars [q] rest2
            else FChars [92; d] rest2
        end
      else if c =? 10 then FError
      else FChars [c] rest
  end.

(* scan a literal part up to the closing quote (no expression parts) *)
Fixpoint fscan (fuel : nat) (q : Z) (cs : list Z) : option (list Z * list Z) :=
  match fuel with
  | O => None
  | S f =>
      match fscan_step q cs with
      | FEnd rest => Some ([], rest)
      | FChars x rest => match fscan f q rest with Some (more, r) => Some (x ++ more, r) | None => None end
      | FExpr _ | FError => None
      end
  end.

Lemma fstep_esc : forall c rest, fscan_step 34 (esc_char c ++ rest) = FChars [c] rest.
Proof.
  intros c rest. unfold esc_char.
  repeat match goal with
         | |- context [c =? ?k] => destruct (Z.eqb_spec c k); [subst; reflexivity|]
         end.
  cbn [app fscan_step].
  repeat match goal with
         | |- context [c =? ?k] => destruct (Z.eqb_spec c k); [congruence|]
         end.
  reflexivity.
Qed.

Lemma fscan_escape : forall s rest f, (length s < f)%nat ->
  fscan f 34 (escape_text s ++ 34 :: rest) = Some (s, rest).
Proof.
  induction s as [|c s IH]; intros rest f Hf.
  - destruct f as [|f]; [cbn in Hf; lia|]. reflexivity.
  - destruct f as [|f]; [cbn in Hf; lia|].
    unfold escape_text. cbn [flat_map]. rewrite <- app_assoc. cbn [fscan].
    rewrite fstep_esc. fold (escape_text s). rewrite IH; [reflexivity | cbn in Hf; lia].
Qed.

(* what went wrong before the repair: printed verbatim, a brace starts an expression and a quote ends the literal *)
Lemma verbatim_refuted :
  fscan_step 34 (123 :: 120 :: 125 :: 34 :: []) = FExpr [120; 125; 34] /\
  fscan 10 34 (97 :: 34 :: 98 :: 34 :: []) = Some ([97], [98; 34]).
Proof. split; reflexivity. Qed.
