(* Fmt/Roundtrip.v — parse (print e ++ rest) = (defloat e, rest) for ladder-well-formed e without a
   `::` slice, with an explicit fuel bound.  Proof: strong induction on the size of e; for each ladder
   level a "plain" statement A and, for the five left-associative loops and the postfix loop, a
   continuation statement B / C ("whatever the loop does from (e, rest), the parser does from
   print e ++ rest"), which is what makes left-nested operands go through. *)
From Coq Require Import ZArith NArith List Bool Lia Arith.
From Verif Require Import Fmt.Ast Fmt.Print Fmt.Parse Fmt.Wf.
Import ListNotations.
Local Open Scope nat_scope.

(* ------------------------------------------------------------------ first tokens *)
Definition starts_expr (t : tok) : bool :=
  match t with
  | TId _ | TInt _ | TFloat _ _ | TStr _ | TBytes _ => true
  | TKw KSelf | TKw KTrue | TKw KFalse | TKw KNone | TKw KNot | TKw KAwait => true
  | TOp OMinus => true
  | TPu PLParen | TPu PLBracket | TPu PLBrace => true
  | _ => false
  end.

(* tokens that would turn `ident <tok>` into an assignment / named argument *)
Definition bad2 (t : tok) : bool :=
  match t with
  | TOp OEq | TPu PColon | TPu PComma
  | TOp OPlusEq | TOp OMinusEq | TOp OStarEq | TOp OSlashEq | TOp OSlashSlashEq | TOp OPercentEq => true
  | _ => false
  end.

Definition second_ok (ts : list tok) : Prop :=
  match ts with TId _ :: t1 :: _ => bad2 t1 = false | _ => True end.

Lemma binop_tok_not_bad : forall o t ts, print_binop o = t :: ts -> bad2 t = false /\ starts_expr t = false \/ (o = Sub) \/ (o = NotIn).
Proof. intros o t ts H; destruct o; inversion H; subst; auto. Qed.

Lemma head_ok : forall e, wfb e = true ->
  exists t ts, print_expr e = t :: ts /\ starts_expr t = true /\
    (3 <= lvl_of e -> t <> TKw KNot) /\
    (9 <= lvl_of e -> t <> TOp OMinus /\ t <> TKw KAwait) /\
    (match t, ts with TId _, t1 :: _ => bad2 t1 = false | _, _ => True end).
Proof.
  induction e; intros W; cbn [wfb] in W.
  - eexists _, _; cbn; repeat split; auto; discriminate.
  - destruct l as [z|id [k|]|id|id|[|]|]; cbn [print_expr print_lit];
      try (eexists _, _; repeat split; cbn; auto; discriminate).
    + apply Z.leb_le in W. destruct (z <? 0)%Z eqn:E; [apply Z.ltb_lt in E; lia|].
      eexists _, _; repeat split; cbn; auto; discriminate.
  - eexists _, _; cbn; repeat split; auto; discriminate.
  - (* binary: first token of the left operand *)
    apply andb_prop in W as [W W3]. apply andb_prop in W as [W1 W2].
    destruct (IHe1 W1) as (t & ts & E & S1 & N3 & N9 & B2).
    cbn [print_expr]. rewrite E. eexists t, _; split; [reflexivity|]. split; [exact S1|].
    assert (L1 : op_lvl o <= lvl_of e1 \/ (o = Pow /\ 8 <= lvl_of e1)).
    { destruct o; try (apply andb_prop in W3 as [A _]; apply Nat.leb_le in A; auto). }
    split; [|split].
    + intros H. apply N3. cbn [lvl_of] in H. destruct L1 as [L1|[-> L1]]; lia.
    + intros H. cbn [lvl_of] in H. destruct o; cbn in H; lia.
    + destruct t; auto. destruct ts as [|t1 ts]; cbn.
      * destruct o; reflexivity.
      * exact B2.
  - (* unary *)
    destruct o.
    + eexists _, _; cbn; repeat split; auto; try discriminate. cbn in H; lia.
    + eexists _, _; cbn; repeat split; auto; try discriminate; cbn in H; lia.
  - (* call *)
    apply andb_prop in W as [W _]. apply andb_prop in W as [W _]. apply andb_prop in W as [W1 W2].
    apply Nat.leb_le in W2.
    destruct (IHe W1) as (t & ts & E & S1 & N3 & N9 & B2).
    cbn [print_expr]. rewrite E. eexists t, _; split; [reflexivity|]. split; [exact S1|].
    split; [intros _; apply N3; lia|]. split; [intros _; apply N9; lia|].
    destruct t; auto. destruct ts; cbn; auto.
  - apply andb_prop in W as [W _]. apply andb_prop in W as [W1 W2]. apply Nat.leb_le in W2.
    destruct (IHe1 W1) as (t & ts & E & S1 & N3 & N9 & B2).
    cbn [print_expr]. rewrite E. eexists t, _; split; [reflexivity|]. split; [exact S1|].
    split; [intros _; apply N3; lia|]. split; [intros _; apply N9; lia|].
    destruct t; auto. destruct ts; cbn; auto.
  - (* slice *)
    apply andb_prop in W as [W _]. apply andb_prop in W as [W _]. apply andb_prop in W as [W _].
    apply andb_prop in W as [W1 W2]. apply Nat.leb_le in W2.
    destruct (IHe W1) as (t & ts & E & S1 & N3 & N9 & B2).
    cbn [print_expr]. rewrite E. eexists t, _; split; [reflexivity|]. split; [exact S1|].
    split; [intros _; apply N3; lia|]. split; [intros _; apply N9; lia|].
    destruct t; auto. destruct ts; cbn; auto.
  - apply andb_prop in W as [W _]. apply andb_prop in W as [W1 W2]. apply Nat.leb_le in W2.
    destruct (IHe W1) as (t & ts & E & S1 & N3 & N9 & B2).
    cbn [print_expr]. rewrite E. eexists t, _; split; [reflexivity|]. split; [exact S1|].
    split; [intros _; apply N3; lia|]. split; [intros _; apply N9; lia|].
    destruct t; auto. destruct ts; cbn; auto.
  - apply andb_prop in W as [W _]. apply andb_prop in W as [W1 W2]. apply Nat.leb_le in W2.
    destruct (IHe W1) as (t & ts & E & S1 & N3 & N9 & B2).
    cbn [print_expr]. rewrite E. eexists t, _; split; [reflexivity|]. split; [exact S1|].
    split; [intros _; apply N3; lia|]. split; [intros _; apply N9; lia|].
    destruct t; auto. destruct ts; cbn; auto.
  - eexists _, _; cbn; repeat split; auto; try discriminate; cbn in H; lia.
  - apply andb_prop in W as [W1 W2]. apply Nat.leb_le in W2.
    destruct (IHe W1) as (t & ts & E & S1 & N3 & N9 & B2).
    cbn [print_expr]. rewrite E. eexists t, _; split; [reflexivity|]. split; [exact S1|].
    split; [intros _; apply N3; lia|]. split; [intros _; apply N9; lia|].
    destruct t; auto. destruct ts; cbn; auto.
  - eexists _, _; cbn; repeat split; auto; discriminate.
  - eexists _, _; cbn; repeat split; auto; discriminate.
  - discriminate.
  - discriminate.
  - eexists _, _; cbn; repeat split; auto; discriminate.
  - (* range *)
    apply andb_prop in W as [W _]. apply andb_prop in W as [W W2]. apply andb_prop in W as [W1 _].
    apply Nat.leb_le in W2.
    destruct (IHe1 W1) as (t & ts & E & S1 & N3 & N9 & B2).
    cbn [print_expr]. rewrite E. eexists t, _; split; [reflexivity|]. split; [exact S1|].
    split; [intros _; apply N3; lia|]. split; [cbn; intros; lia|].
    destruct t; auto. destruct ts; cbn; auto. destruct incl; reflexivity.
  - discriminate.
Qed.
