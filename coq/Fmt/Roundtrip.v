(* Fmt/Roundtrip.v — parse (print e ++ rest) = (defloat e, rest) for ladder-well-formed e without a
   `::` slice, with an explicit fuel bound.  Proof: strong induction on the size of e; for each ladder
   level a "plain" statement A and, for the five left-associative loops and the postfix loop, a
   continuation statement B / C ("whatever the loop does from (e, rest), the parser does from
   print e ++ rest"), which is what makes left-nested operands go through. *)
From Coq Require Import ZArith NArith List Bool Lia Arith.
From Verif Require Import Fmt.Ast Fmt.Print Fmt.Parse Fmt.Wf.
Import ListNotations.
Local Open Scope nat_scope.

(* ------------------------------------------------------------------ first tokens *)
Definition starts_expr (t : tok) : bool :=
  match t with
  | TId _ | TInt _ | TFloat _ _ | TStr _ | TBytes _ => true
  | TKw KSelf | TKw KTrue | TKw KFalse | TKw KNone | TKw KNot | TKw KAwait => true
  | TOp OMinus => true
  | TPu PLParen | TPu PLBracket | TPu PLBrace => true
  | _ => false
  end.

(* tokens that would turn `ident <tok>` into an assignment / named argument *)
Definition bad2 (t : tok) : bool :=
  match t with
  | TOp OEq | TPu PColon | TPu PComma
  | TOp OPlusEq | TOp OMinusEq | TOp OStarEq | TOp OSlashEq | TOp OSlashSlashEq | TOp OPercentEq => true
  | _ => false
  end.

Definition second_ok (ts : list tok) : Prop :=
  match ts with TId _ :: t1 :: _ => bad2 t1 = false | _ => True end.

Lemma binop_tok_not_bad : forall o t ts, print_binop o = t :: ts -> bad2 t = false /\ starts_expr t = false \/ (o = Sub) \/ (o = NotIn).
Proof. intros o t ts H; destruct o; inversion H; subst; auto. Qed.

Lemma head_ok : forall e, wfb e = true ->
  exists t ts, print_expr e = t :: ts /\ starts_expr t = true /\
    (3 <= lvl_of e -> t <> TKw KNot) /\
    (9 <= lvl_of e -> t <> TOp OMinus /\ t <> TKw KAwait) /\
    (match t, ts with TId _, t1 :: _ => bad2 t1 = false | _, _ => True end).
Proof.
  induction e; intros W; cbn [wfb] in W.
  - eexists _, _; cbn; repeat split; auto; discriminate.
  - destruct l as [z|id [k|]|id|id|[|]|]; cbn [print_expr print_lit];
      try (eexists _, _; repeat split; cbn; auto; discriminate).
    + apply Z.leb_le in W. destruct (z <? 0)%Z eqn:E; [apply Z.ltb_lt in E; lia|].
      eexists _, _; repeat split; cbn; auto; discriminate.
  - eexists _, _; cbn; repeat split; auto; discriminate.
  - (* binary: first token of the left operand *)
    apply andb_prop in W as [W W3]. apply andb_prop in W as [W1 W2].
    destruct (IHe1 W1) as (t & ts & E & S1 & N3 & N9 & B2).
    cbn [print_expr]. rewrite E. eexists t, _; split; [reflexivity|]. split; [exact S1|].
    assert (L1 : op_lvl o <= lvl_of e1 \/ (o = Pow /\ 8 <= lvl_of e1)).
    { destruct o; try (apply andb_prop in W3 as [A _]; apply Nat.leb_le in A; auto). }
    split; [|split].
    + intros H. apply N3. cbn [lvl_of] in H. destruct L1 as [L1|[-> L1]]; lia.
    + intros H. cbn [lvl_of] in H. destruct o; cbn in H; lia.
    + destruct t; auto. destruct ts as [|t1 ts]; cbn.
      * destruct o; reflexivity.
      * exact B2.
  - (* unary *)
    destruct o.
    + eexists _, _; split; [reflexivity|]; cbn; repeat split; intros; auto; try discriminate; lia.
    + eexists _, _; split; [reflexivity|]; cbn; repeat split; intros; auto; try discriminate; lia.
  - (* call *)
    apply andb_prop in W as [W _]. apply andb_prop in W as [W _]. apply andb_prop in W as [W1 W2].
    apply Nat.leb_le in W2.
    destruct (IHe W1) as (t & ts & E & S1 & N3 & N9 & B2).
    cbn [print_expr]. rewrite E. eexists t, _; split; [reflexivity|]. split; [exact S1|].
    split; [intros _; apply N3; lia|]. split; [intros _; apply N9; lia|].
    destruct t; auto. destruct ts; cbn; auto.
  - apply andb_prop in W as [W _]. apply andb_prop in W as [W1 W2]. apply Nat.leb_le in W2.
    destruct (IHe1 W1) as (t & ts & E & S1 & N3 & N9 & B2).
    cbn [print_expr]. rewrite E. eexists t, _; split; [reflexivity|]. split; [exact S1|].
    split; [intros _; apply N3; lia|]. split; [intros _; apply N9; lia|].
    destruct t; auto. destruct ts; cbn; auto.
  - (* slice *)
    apply andb_prop in W as [W _]. apply andb_prop in W as [W _]. apply andb_prop in W as [W _].
    apply andb_prop in W as [W1 W2]. apply Nat.leb_le in W2.
    destruct (IHe W1) as (t & ts & E & S1 & N3 & N9 & B2).
    cbn [print_expr]. rewrite E. eexists t, _; split; [reflexivity|]. split; [exact S1|].
    split; [intros _; apply N3; lia|]. split; [intros _; apply N9; lia|].
    destruct t; auto. destruct ts; cbn; auto.
  - apply andb_prop in W as [W _]. apply andb_prop in W as [W1 W2]. apply Nat.leb_le in W2.
    destruct (IHe W1) as (t & ts & E & S1 & N3 & N9 & B2).
    cbn [print_expr]. rewrite E. eexists t, _; split; [reflexivity|]. split; [exact S1|].
    split; [intros _; apply N3; lia|]. split; [intros _; apply N9; lia|].
    destruct t; auto. destruct ts; cbn; auto.
  - apply andb_prop in W as [W _]. apply andb_prop in W as [W1 W2]. apply Nat.leb_le in W2.
    destruct (IHe W1) as (t & ts & E & S1 & N3 & N9 & B2).
    cbn [print_expr]. rewrite E. eexists t, _; split; [reflexivity|]. split; [exact S1|].
    split; [intros _; apply N3; lia|]. split; [intros _; apply N9; lia|].
    destruct t; auto. destruct ts; cbn; auto.
  - eexists _, _; split; [reflexivity|]; cbn; repeat split; intros; auto; try discriminate; lia.
  - apply andb_prop in W as [W1 W2]. apply Nat.leb_le in W2.
    destruct (IHe W1) as (t & ts & E & S1 & N3 & N9 & B2).
    cbn [print_expr]. rewrite E. eexists t, _; split; [reflexivity|]. split; [exact S1|].
    split; [intros _; apply N3; lia|]. split; [intros _; apply N9; lia|].
    destruct t; auto. destruct ts; cbn; auto.
  - eexists _, _; cbn; repeat split; auto; discriminate.
  - eexists _, _; cbn; repeat split; auto; discriminate.
  - discriminate.
  - discriminate.
  - eexists _, _; cbn; repeat split; auto; discriminate.
  - (* range *)
    apply andb_prop in W as [W _]. apply andb_prop in W as [W W2]. apply andb_prop in W as [W1 _].
    apply Nat.leb_le in W2.
    destruct (IHe1 W1) as (t & ts & E & S1 & N3 & N9 & B2).
    cbn [print_expr]. rewrite E. eexists t, _; split; [reflexivity|]. split; [exact S1|].
    split; [intros _; apply N3; lia|]. split; [cbn; intros; lia|].
    destruct t; auto. destruct ts; cbn; auto. destruct incl; reflexivity.
  - discriminate.
Qed.

(* ------------------------------------------------------------------ dispatch lemmas *)
Definition postfix_entry (f : nat) (ts : list tok) : pres (expr * list tok) :=
  bind (primary_with (pe f LOr) (pelems f) (pkvs f) ts) (fun r => ploop f (fst r) (snd r)).

Definition is_loop (L : level) : Prop :=
  match L with LOr | LAnd | LCmp | LAdd | LMul => True | _ => False end.

Lemma pe_S_loop : forall f L ts, is_loop L ->
  pe (S f) L ts = bind (pe f (next L) ts) (fun r => bloop f L (fst r) (snd r)).
Proof. intros f L ts H; destruct L; try contradiction; reflexivity. Qed.

Lemma lnum_next_loop : forall L, is_loop L -> lnum (next L) = S (lnum L).
Proof. intros L H; destruct L; try contradiction; reflexivity. Qed.

Lemma pe_not_default : forall f ts, (forall t, ts <> TKw KNot :: t) -> pe (S f) LNot ts = pe f LCmp ts.
Proof.
  intros f ts H. destruct ts as [|t ts]; [reflexivity|].
  destruct t; try reflexivity. destruct k; try reflexivity. exfalso; eapply H; reflexivity.
Qed.

Lemma pe_unary_default : forall f ts, (forall t, ts <> TOp OMinus :: t) -> (forall t, ts <> TKw KAwait :: t) ->
  pe (S f) LUnary ts = postfix_entry f ts.
Proof.
  intros f ts H1 H2. destruct ts as [|t ts]; [reflexivity|].
  destruct t; try reflexivity.
  - destruct k; try reflexivity. exfalso; eapply H2; reflexivity.
  - destruct o; try reflexivity. exfalso; eapply H1; reflexivity.
Qed.

Lemma stop_mono : forall n m rest, n <= m -> stop n rest -> stop m rest.
Proof. intros n m [|t r] H S; cbn in *; auto. destruct (cont t); auto; lia. Qed.

Lemma binop_at_print : forall L o ts, is_loop L -> op_lvl o = lnum L ->
  binop_at L (print_binop o ++ ts) = Some (o, ts).
Proof. intros L o ts HL H; destruct L; try contradiction; destruct o; try discriminate H; reflexivity. Qed.

Lemma binop_at_stop : forall L rest, is_loop L -> stop (lnum L) rest -> binop_at L rest = None.
Proof.
  intros L [|t rest] HL S; [destruct L; reflexivity|].
  destruct L; try contradiction; destruct t; try reflexivity;
    try (destruct k; try reflexivity; cbn in S; lia);
    try (destruct o; try reflexivity; cbn in S; lia).
Qed.

Lemma stop_binop : forall o ts, o <> Pow -> stop (S (op_lvl o)) (print_binop o ++ ts).
Proof. intros o ts H; destruct o; cbn; try lia; congruence. Qed.

Lemma ploop_stop : forall g e rest, stop 8 rest -> ploop (S g) e rest = POk (e, rest).
Proof.
  intros g e [|t rest] S; [reflexivity|].
  destruct t; try reflexivity. destruct p; try reflexivity; cbn in S; lia.
Qed.

Lemma is_pu_starts : forall c t ts, starts_expr t = true -> is_pu c (t :: ts) = false.
Proof. intros c t ts H; destruct t; try reflexivity; destruct p; destruct c; try reflexivity; discriminate H. Qed.

Lemma primary_paren : forall pex pel pkv t, (forall t', t <> TPu PRParen :: t') ->
  primary_with pex pel pkv (TPu PLParen :: t) =
  bind (pex t) (fun r =>
     match snd r with
     | TPu PComma :: _ =>
         bind (pel PRParen (snd r)) (fun m =>
           expect_pu PRParen (snd m) (fun t3 =>
             match t3 with
             | TPu PFatArrow :: t4 =>
                 match to_params (fst r :: fst m) with
                 | Some ps => bind (pex t4) (fun b => POk (EClosure ps (fst b), snd b))
                 | None => PErr
                 end
             | _ => POk (ETuple (fst r :: fst m), t3)
             end))
     | t1 =>
         expect_pu PRParen t1 (fun t2 =>
           match t2 with
           | TPu PFatArrow :: t3 =>
               match to_params [fst r] with
               | Some ps => bind (pex t3) (fun b => POk (EClosure ps (fst b), snd b))
               | None => PErr
               end
           | _ => POk (EParen (fst r), t2)
           end)
     end).
Proof.
  intros pex pel pkv t H. destruct t as [|t0 t]; [reflexivity|].
  destruct t0; try reflexivity. destruct p; try reflexivity. exfalso; eapply H; reflexivity.
Qed.

Lemma primary_bracket : forall pex pel pkv t, (forall t', t <> TPu PRBracket :: t') ->
  primary_with pex pel pkv (TPu PLBracket :: t) =
  bind (pex t) (fun r => bind (pel PRBracket (snd r)) (fun m =>
     expect_pu PRBracket (snd m) (fun t3 => POk (EList (fst r :: fst m), t3)))).
Proof.
  intros pex pel pkv t H. destruct t as [|t0 t]; [reflexivity|].
  destruct t0; try reflexivity. destruct p; try reflexivity. exfalso; eapply H; reflexivity.
Qed.

Lemma pargs_default : forall f ts, (forall t, ts <> TPu PRParen :: t) -> (forall n t, ts <> TId n :: TOp OEq :: t) ->
  pargs (S f) ts =
  bind (pe f LOr ts) (fun r =>
    match snd r with
    | TPu PComma :: t2 => bind (pargs f t2) (fun m => POk ((None, fst r) :: fst m, snd m))
    | t1 => POk ([(None, fst r)], t1)
    end).
Proof.
  intros f ts H1 H2. destruct ts as [|t0 ts]; [reflexivity|].
  destruct t0; try reflexivity.
  - destruct ts as [|t1 ts]; [reflexivity|]. destruct t1; try reflexivity. destruct o; try reflexivity.
    exfalso; eapply H2; reflexivity.
  - destruct p; try reflexivity. exfalso; eapply H1; reflexivity.
Qed.

Lemma pindex_default : forall pex ts, (forall t, ts <> TPu PColon :: t) -> (forall t, ts <> TPu PColonColon :: t) ->
  (forall t, ts <> TPu PRBracket :: t) ->
  pindex pex ts = bind (pex ts) (fun r =>
           match snd r with
           | TPu PColon :: _ | TPu PColonColon :: _ => pslice pex (Some (fst r)) (snd r)
           | t1 => POk (IIndex (fst r), t1)
           end).
Proof.
  intros pex ts H1 H3 H2. destruct ts as [|t0 ts]; [reflexivity|].
  destruct t0; try reflexivity. destruct p; try reflexivity; exfalso; [eapply H1|eapply H3|eapply H2]; reflexivity.
Qed.

(* heads of printed expressions never are closing/separating tokens *)
Lemma starts_not : forall e rest, wfb e = true ->
  exists t ts, print_expr e ++ rest = t :: ts /\ starts_expr t = true.
Proof.
  intros e rest W. destruct (head_ok e W) as (t & ts & E & S & _). rewrite E. eexists _, _; split; [reflexivity|exact S].
Qed.

Ltac head_neq W rest :=
  let t := fresh "t" in let ts := fresh "ts" in let E := fresh "E" in let S := fresh "S" in
  destruct (starts_not _ rest W) as (t & ts & E & S); rewrite E; intros ? Hc; inversion Hc; subst; discriminate S.

(* ------------------------------------------------------------------ the three statements *)
Definition A (e : expr) (L : level) : Prop :=
  forall rest f, stop (lnum L) rest -> need e <= f + lnum L ->
    pe f L (print_expr e ++ rest) = POk (defloat e, rest).

Definition B (e : expr) (L : level) : Prop :=
  forall rest G res f, 1 <= G -> stop (S (lnum L)) rest ->
    (forall g, G <= g -> bloop g L (defloat e) rest = POk res) ->
    G + need e <= f + lnum L + 1 ->
    pe f L (print_expr e ++ rest) = POk res.

Definition after_ok (e : expr) (rest : list tok) : Prop :=
  (forall t, rest <> TPu PFatArrow :: t) /\
  match e with EField _ (FName _) => forall t, rest <> TPu PLParen :: t | _ => True end.

Definition C (e : expr) : Prop :=
  forall rest G res f, 1 <= G -> after_ok e rest ->
    (forall g, G <= g -> ploop g (defloat e) rest = POk res) ->
    G + need e <= f + 10 ->
    postfix_entry f (print_expr e ++ rest) = POk res.

Lemma need_pos : forall e, 20 <= need e.
Proof. intros e; unfold need; destruct e; cbn [size]; lia. Qed.

Lemma lnum_le8 : forall L, lnum L <= 8.
Proof. destruct L; cbn; lia. Qed.

Lemma step_loop_B : forall e L, is_loop L -> A e (next L) -> B e L.
Proof.
  intros e L HL HA rest G res f HG Hs Hk Hf.
  pose proof (need_pos e). pose proof (lnum_le8 L).
  destruct f as [|f1]; [lia|].
  rewrite pe_S_loop by exact HL.
  rewrite (HA rest f1); [| rewrite lnum_next_loop by exact HL; exact Hs | rewrite lnum_next_loop by exact HL; lia].
  cbn [bind fst snd]. apply Hk. lia.
Qed.

Lemma B_to_A : forall e L, is_loop L -> B e L -> A e L.
Proof.
  intros e L HL HB rest f Hs Hf.
  apply (HB rest 1 (defloat e, rest) f); [lia | eapply stop_mono; [|exact Hs]; lia | | lia].
  intros g Hg. destruct g as [|g]; [lia|]. cbn [bloop]. rewrite binop_at_stop by assumption. reflexivity.
Qed.

Lemma step_not : forall e, (forall rest t, print_expr e ++ rest <> TKw KNot :: t) -> A e LCmp -> A e LNot.
Proof.
  intros e Hh HA rest f Hs Hf. pose proof (need_pos e). cbn [lnum] in *.
  destruct f as [|f1]; [lia|]. rewrite pe_not_default by apply Hh.
  apply HA; cbn [lnum]; [eapply stop_mono; [|exact Hs]; lia | lia].
Qed.

Lemma step_range : forall e, A e LAdd -> A e LRange.
Proof.
  intros e HA rest f Hs Hf. pose proof (need_pos e). cbn [lnum] in *.
  destruct f as [|f1]; [lia|]. cbn [pe].
  rewrite (HA rest f1); cbn [lnum]; [| eapply stop_mono; [|exact Hs]; lia | lia].
  cbn [bind snd]. destruct rest as [|t rest]; [reflexivity|].
  destruct t; try reflexivity. destruct o; try reflexivity; cbn in Hs; lia.
Qed.

Lemma step_pow : forall e, A e LUnary -> A e LPow.
Proof.
  intros e HA rest f Hs Hf. pose proof (need_pos e). cbn [lnum] in *.
  destruct f as [|f1]; [lia|]. cbn [pe].
  rewrite (HA rest f1); cbn [lnum]; [| eapply stop_mono; [|exact Hs]; lia | lia].
  cbn [bind snd]. destruct rest as [|t rest]; [reflexivity|].
  destruct t; try reflexivity. destruct o; try reflexivity; cbn in Hs; lia.
Qed.

Lemma C_to_A : forall e, (forall rest t, print_expr e ++ rest <> TOp OMinus :: t) ->
  (forall rest t, print_expr e ++ rest <> TKw KAwait :: t) -> C e -> A e LUnary.
Proof.
  intros e H1 H2 HC rest f Hs Hf. pose proof (need_pos e). cbn [lnum] in *.
  destruct f as [|f1]; [lia|]. rewrite pe_unary_default by (apply H1 || apply H2).
  apply (HC rest 1 (defloat e, rest) f1); [lia | | | lia].
  - split.
    + intros t ->. cbn in Hs. lia.
    + destruct e; auto. destruct f; auto. intros t ->. cbn in Hs. lia.
  - intros g Hg. destruct g as [|g]; [lia|]. apply ploop_stop. exact Hs.
Qed.

Definition AB (e : expr) (L : level) : Prop := A e L /\ (is_loop L -> B e L).

(* from the level that builds e down to any looser level *)
Lemma descend : forall e L0,
  (3 <= lnum L0 -> forall rest t, print_expr e ++ rest <> TKw KNot :: t) ->
  AB e L0 -> forall L, lnum L <= lnum L0 -> AB e L.
Proof.
  intros e L0 Hh H0 L HL.
  assert (S8 : A e LUnary -> AB e LPow) by (intros H; split; [apply step_pow; exact H | intros []]).
  assert (S7 : A e LPow -> AB e LMul).
  { intros H. assert (B e LMul) by (apply step_loop_B; [exact I|exact H]). split; [apply B_to_A; [exact I|assumption]|auto]. }
  assert (S6 : A e LMul -> AB e LAdd).
  { intros H. assert (B e LAdd) by (apply step_loop_B; [exact I|exact H]). split; [apply B_to_A; [exact I|assumption]|auto]. }
  assert (S5 : A e LAdd -> AB e LRange) by (intros H; split; [apply step_range; exact H | intros []]).
  assert (S4 : A e LRange -> AB e LCmp).
  { intros H. assert (B e LCmp) by (apply step_loop_B; [exact I|exact H]). split; [apply B_to_A; [exact I|assumption]|auto]. }
  assert (S3 : 3 <= lnum L0 -> A e LCmp -> AB e LNot) by (intros H3 H; split; [apply step_not; [apply Hh; exact H3|exact H] | intros []]).
  assert (S2 : A e LNot -> AB e LAnd).
  { intros H. assert (B e LAnd) by (apply step_loop_B; [exact I|exact H]). split; [apply B_to_A; [exact I|assumption]|auto]. }
  assert (S1 : A e LAnd -> AB e LOr).
  { intros H. assert (B e LOr) by (apply step_loop_B; [exact I|exact H]). split; [apply B_to_A; [exact I|assumption]|auto]. }
  destruct L0; cbn [lnum] in *;
    repeat match goal with
           | H : AB e LUnary |- _ => pose proof (S8 (proj1 H)); clear S8
           | H : AB e LPow |- _ => pose proof (S7 (proj1 H)); clear S7
           | H : AB e LMul |- _ => pose proof (S6 (proj1 H)); clear S6
           | H : AB e LAdd |- _ => pose proof (S5 (proj1 H)); clear S5
           | H : AB e LRange |- _ => pose proof (S4 (proj1 H)); clear S4
           | H : AB e LCmp |- _ => pose proof (S3 ltac:(lia) (proj1 H)); clear S3
           | H : AB e LNot |- _ => pose proof (S2 (proj1 H)); clear S2
           | H : AB e LAnd |- _ => pose proof (S1 (proj1 H)); clear S1
           end;
    destruct L; cbn [lnum] in HL; try lia; assumption.
Qed.

(* ------------------------------------------------------------------ lists *)
Lemma sep_cons : forall (x : list tok) xs, sep (x :: xs) = x ++ flat_map (fun y => TPu PComma :: y) xs.
Proof.
  intros x xs; revert x; induction xs as [|y xs IH]; intros x.
  - cbn. rewrite app_nil_r. reflexivity.
  - change (sep (x :: y :: xs)) with (x ++ TPu PComma :: sep (y :: xs)). rewrite IH. reflexivity.
Qed.

Lemma list_sum_cons : forall x xs, list_sum (x :: xs) = x + list_sum xs.
Proof. reflexivity. Qed.

Lemma in_sum : forall {X} (g : X -> nat) x xs, List.In x xs -> g x <= list_sum (map g xs).
Proof.
  intros X g x xs; induction xs as [|y xs IH]; [intros []|].
  cbn [map]. rewrite list_sum_cons. intros [->|H]; [lia|]. specialize (IH H). lia.
Qed.

Lemma sum_scale : forall {X} (g : X -> nat) xs, list_sum (map (fun x => 20 * g x) xs) = 20 * list_sum (map g xs).
Proof. intros X g xs; induction xs as [|y xs IH]; [reflexivity|]. cbn [map]. rewrite !list_sum_cons, IH. lia. Qed.

Definition tail_ok (X : list tok) : Prop := match X with t :: _ => cont t = None | [] => True end.

Lemma tail_stop : forall X, tail_ok X -> stop 0 X.
Proof. intros [|t X] H; cbn in *; [exact I|]. rewrite H. exact I. Qed.

Lemma pelems_ok : forall close, close = PRParen \/ close = PRBracket ->
  forall ys rest f,
  (forall y, List.In y ys -> wfb y = true /\ A y LOr) ->
  list_sum (map need ys) + 1 <= f ->
  pelems f close (flat_map (fun y => TPu PComma :: y) (map print_expr ys) ++ TPu close :: rest)
  = POk (map defloat ys, TPu close :: rest).
Proof.
  intros close Hc ys; induction ys as [|y ys IH]; intros rest f Hys Hf.
  - destruct f as [|f1]; [lia|]. cbn [map flat_map app]. destruct Hc as [-> | ->]; reflexivity.
  - destruct f as [|f1]; [cbn [map] in Hf; rewrite list_sum_cons in Hf; lia|].
    cbn [map] in Hf; rewrite list_sum_cons in Hf. pose proof (need_pos y).
    cbn [map flat_map]. rewrite <- app_assoc. cbn [app]. cbn [pelems].
    destruct (Hys y (or_introl eq_refl)) as [Wy Ay].
    set (X := flat_map (fun y0 => TPu PComma :: y0) (map print_expr ys) ++ TPu close :: rest).
    destruct (starts_not y X Wy) as (t0 & ts0 & E0 & S0).
    rewrite E0. rewrite is_pu_starts by exact S0. rewrite <- E0.
    assert (TX : tail_ok X).
    { unfold X. destruct ys; cbn; [destruct Hc as [-> | ->]; reflexivity | reflexivity]. }
    rewrite (Ay X f1); [| apply tail_stop; exact TX | cbn [lnum]; lia].
    cbn [bind fst snd]. unfold X. rewrite IH; [reflexivity | intros; apply Hys; right; assumption | lia].
Qed.

Lemma pargs_ok : forall args rest f,
  (forall a, List.In a args -> wfb (snd a) = true /\ A (snd a) LOr) ->
  list_sum (map (fun a => need (snd a)) args) + 1 <= f ->
  pargs f (sep (map print_arg args) ++ TPu PRParen :: rest)
  = POk (map (fun a => (fst a, defloat (snd a))) args, TPu PRParen :: rest).
Proof.
  induction args as [|a more IH]; intros rest f Hin Hf.
  - destruct f as [|f1]; [lia|]. reflexivity.
  - cbn [map] in Hf; rewrite list_sum_cons in Hf. pose proof (need_pos (snd a)). destruct f as [|f1]; [lia|].
    destruct (Hin a (or_introl eq_refl)) as [Wa Aa].
    assert (Hmore : forall b, List.In b more -> wfb (snd b) = true /\ A (snd b) LOr) by (intros; apply Hin; right; assumption).
    set (X := match more with [] => TPu PRParen :: rest | _ => TPu PComma :: (sep (map print_arg more) ++ TPu PRParen :: rest) end).
    assert (EX : sep (map print_arg (a :: more)) ++ TPu PRParen :: rest = print_arg a ++ X).
    { unfold X. destruct more as [|b more']; cbn [map sep]; [reflexivity|]. rewrite <- app_assoc. reflexivity. }
    rewrite EX.
    assert (TX : tail_ok X) by (unfold X; destruct more; reflexivity).
    assert (Hsum : list_sum (map (fun a0 => need (snd a0)) more) + 1 <= f1) by lia.
    destruct a as [[n|] x]; cbn [fst snd] in *; unfold print_arg; cbn [fst snd].
    + cbn [app pargs].
      rewrite (Aa X f1); [| apply tail_stop; exact TX | cbn [lnum]; lia].
      cbn [bind fst snd map]. clear EX TX. subst X. destruct more as [|b more']; [reflexivity|].
      cbn iota. rewrite IH; [reflexivity | exact Hmore | exact Hsum].
    + destruct (head_ok x Wa) as (t0 & ts0 & E0 & S0 & _ & _ & B2).
      rewrite pargs_default.
      * rewrite (Aa X f1); [| apply tail_stop; exact TX | cbn [lnum]; lia].
        cbn [bind fst snd map]. clear EX TX. subst X. destruct more as [|b more']; [reflexivity|].
        cbn iota. rewrite IH; [reflexivity | exact Hmore | exact Hsum].
      * rewrite E0. intros t Hc; inversion Hc; subst; discriminate S0.
      * rewrite E0. intros n t Hc. cbn [app] in Hc. inversion Hc as [[H1 H2]]. subst t0.
        destruct ts0 as [|t1 ts0]; cbn [app] in H2.
        -- unfold X in H2. destruct more; inversion H2.
        -- inversion H2; subst. discriminate B2.
Qed.

(* ------------------------------------------------------------------ slices *)
Definition opt_toks (o : option expr) : list tok := match o with Some y => print_expr y | None => [] end.
Definition slice_toks (s x st : option expr) : list tok :=
  opt_toks s ++
  match x, st with
  | None, Some z => TPu PColonColon :: print_expr z
  | _, _ => TPu PColon :: opt_toks x ++ match st with Some y => TPu PColon :: print_expr y | None => [] end
  end.

Definition opt_ok (g : nat) (o : option expr) : Prop :=
  match o with Some y => wfb y = true /\ A y LOr /\ need y <= g | None => True end.

Lemma pslice_end_default : forall pex start t1, (forall t, t1 <> TPu PRBracket :: t) -> (forall t, t1 <> TPu PColon :: t) ->
  pslice pex start (TPu PColon :: t1) =
  bind (bind (pex t1) (fun r => POk (Some (fst r), snd r)))
        (fun r1 =>
           match snd r1 with
           | TPu PColon :: t3 =>
               match t3 with
               | TPu PRBracket :: _ => POk (ISlice start (fst r1) None, t3)
               | _ => bind (pex t3) (fun r2 => POk (ISlice start (fst r1) (Some (fst r2)), snd r2))
               end
           | t2 => POk (ISlice start (fst r1) None, t2)
           end).
Proof.
  intros pex start t1 H1 H2. destruct t1 as [|t0 t1]; [reflexivity|].
  destruct t0; try reflexivity. destruct p; try reflexivity; exfalso; [eapply H2|eapply H1]; reflexivity.
Qed.

Lemma step_default : forall pex start (e1 : option expr) t3, (forall t, t3 <> TPu PRBracket :: t) ->
  match t3 with
  | TPu PRBracket :: _ => POk (ISlice start e1 None, t3)
  | _ => bind (pex t3) (fun r2 => POk (ISlice start e1 (Some (fst r2)), snd r2))
  end = bind (pex t3) (fun r2 => POk (ISlice start e1 (Some (fst r2)), snd r2)).
Proof.
  intros pex start e1 t3 H. destruct t3 as [|t0 t3]; [reflexivity|].
  destruct t0; try reflexivity. destruct p; try reflexivity. exfalso; eapply H; reflexivity.
Qed.

Lemma pslice_ok : forall g start x st rest,
  opt_ok g x -> opt_ok g st -> (x = None -> st = None) ->
  pslice (pe g LOr) start (TPu PColon :: opt_toks x ++ match st with Some y => TPu PColon :: print_expr y | None => [] end ++ TPu PRBracket :: rest)
  = POk (ISlice start (option_map defloat x) (option_map defloat st), TPu PRBracket :: rest).
Proof.
  intros g start x st rest Hx Hst Hcc.
  destruct x as [y|].
  - destruct Hx as (Wy & Ay & Ny). cbn [opt_toks option_map].
    rewrite pslice_end_default; try (head_neq Wy (match st with Some y0 => TPu PColon :: print_expr y0 | None => [] end ++ TPu PRBracket :: rest)).
    destruct st as [z|].
    + destruct Hst as (Wz & Az & Nz). cbn [app option_map].
      rewrite (Ay _ g); [| cbn; exact I | cbn [lnum]; lia].
      cbn [bind fst snd]. rewrite step_default by (head_neq Wz (TPu PRBracket :: rest)).
      rewrite (Az _ g); [| cbn; exact I | cbn [lnum]; lia]. reflexivity.
    + cbn [app option_map]. rewrite (Ay _ g); [| cbn; exact I | cbn [lnum]; lia]. reflexivity.
  - rewrite (Hcc eq_refl). reflexivity.
Qed.

Lemma cc_default : forall pex start t1, (forall t, t1 <> TPu PRBracket :: t) ->
  pslice pex start (TPu PColonColon :: t1) = bind (pex t1) (fun r => POk (ISlice start None (Some (fst r)), snd r)).
Proof.
  intros pex start t1 H. destruct t1 as [|t0 t1]; [reflexivity|].
  destruct t0; try reflexivity. destruct p; try reflexivity. exfalso; eapply H; reflexivity.
Qed.

Lemma pslice_cc_ok : forall g start z rest, opt_ok g (Some z) ->
  pslice (pe g LOr) start (TPu PColonColon :: print_expr z ++ TPu PRBracket :: rest)
  = POk (ISlice start None (Some (defloat z)), TPu PRBracket :: rest).
Proof.
  intros g start z rest (Wz & Az & Nz).
  rewrite cc_default by (head_neq Wz (TPu PRBracket :: rest)).
  rewrite (Az _ g); [reflexivity | cbn; exact I | cbn [lnum]; lia].
Qed.

Lemma pindex_slice_ok : forall g s x st rest,
  opt_ok g s -> opt_ok g x -> opt_ok g st ->
  pindex (pe g LOr) (slice_toks s x st ++ TPu PRBracket :: rest)
  = POk (ISlice (option_map defloat s) (option_map defloat x) (option_map defloat st), TPu PRBracket :: rest).
Proof.
  intros g s x st rest Hs Hx Hst. unfold slice_toks.
  assert (CC : (x = None /\ exists z, st = Some z) \/ (x = None -> st = None)).
  { destruct x; [right; discriminate|]. destruct st as [z|]; [left; split; [reflexivity|exists z; reflexivity] | right; reflexivity]. }
  destruct CC as [[-> [z ->]] | Hcc].
  - (* `start::step` *)
    cbn [option_map]. destruct s as [y|].
    + destruct Hs as (Wy & Ay & Ny). cbn [opt_toks option_map]. repeat (rewrite <- app_assoc; cbn [app]).
      rewrite pindex_default; try (head_neq Wy (TPu PColonColon :: print_expr z ++ TPu PRBracket :: rest)).
      rewrite (Ay _ g); [| cbn; exact I | cbn [lnum]; lia].
      cbn [bind fst snd]. apply pslice_cc_ok; assumption.
    + cbn [opt_toks option_map app].
      change (pindex (pe g LOr) (TPu PColonColon :: ?t)) with (pslice (pe g LOr) None (TPu PColonColon :: t)).
      apply pslice_cc_ok; assumption.
  - assert (E : match x, st with
                | None, Some z => TPu PColonColon :: print_expr z
                | _, _ => TPu PColon :: opt_toks x ++ match st with Some y => TPu PColon :: print_expr y | None => [] end
                end = TPu PColon :: opt_toks x ++ match st with Some y => TPu PColon :: print_expr y | None => [] end).
    { destruct x; [reflexivity|]. rewrite (Hcc eq_refl). reflexivity. }
    rewrite E. clear E.
    destruct s as [y|].
    + destruct Hs as (Wy & Ay & Ny). cbn [opt_toks option_map]. repeat (rewrite <- app_assoc; cbn [app]).
      rewrite pindex_default; try (head_neq Wy (TPu PColon :: opt_toks x ++ match st with Some y0 => TPu PColon :: print_expr y0 | None => [] end ++ TPu PRBracket :: rest)).
      rewrite (Ay _ g); [| cbn; exact I | cbn [lnum]; lia].
      cbn [bind fst snd]. apply pslice_ok; assumption.
    + cbn [opt_toks option_map app]. repeat (rewrite <- app_assoc; cbn [app]).
      change (pindex (pe g LOr) (TPu PColon :: ?t)) with (pslice (pe g LOr) None (TPu PColon :: t)).
      apply pslice_ok; assumption.
Qed.

Lemma print_slice : forall b s x st,
  print_expr (ESlice b s x st) = print_expr b ++ TPu PLBracket :: slice_toks s x st ++ [TPu PRBracket].
Proof.
  intros b s x st. unfold slice_toks, opt_toks. cbn [print_expr].
  destruct x as [y|]; destruct s; destruct st;
    cbn [app]; repeat (rewrite <- app_assoc; cbn [app]); reflexivity.
Qed.

(* ------------------------------------------------------------------ the induction *)
Definition ALL (e : expr) : Prop := (forall L, lnum L <= lvl_of e -> AB e L) /\ (9 <= lvl_of e -> C e).

Lemma head_not_not : forall e, wfb e = true -> 3 <= lvl_of e -> forall rest t, print_expr e ++ rest <> TKw KNot :: t.
Proof.
  intros e W H rest t. destruct (head_ok e W) as (t0 & ts0 & E & _ & N3 & _). rewrite E. cbn [app].
  intros Hc; inversion Hc; subst. apply (N3 H); reflexivity.
Qed.

Lemma head_not_minus : forall e, wfb e = true -> 9 <= lvl_of e ->
  (forall rest t, print_expr e ++ rest <> TOp OMinus :: t) /\ (forall rest t, print_expr e ++ rest <> TKw KAwait :: t).
Proof.
  intros e W H. destruct (head_ok e W) as (t0 & ts0 & E & _ & _ & N9 & _). destruct (N9 H) as [Na Nb].
  split; intros rest t; rewrite E; cbn [app]; intros Hc; inversion Hc; subst; [apply Na|apply Nb]; reflexivity.
Qed.

Lemma all_of_C : forall e, wfb e = true -> 9 <= lvl_of e -> C e -> ALL e.
Proof.
  intros e W H9 HC. split; [|intros _; exact HC].
  intros L HL. destruct (head_not_minus e W H9) as [Hm Ha].
  apply (descend e LUnary).
  - intros _. apply head_not_not; [exact W|lia].
  - split; [apply C_to_A; assumption | intros []].
  - apply lnum_le8.
Qed.

Lemma all_of_own : forall e L0, wfb e = true -> lnum L0 = lvl_of e -> lvl_of e < 9 -> AB e L0 -> ALL e.
Proof.
  intros e L0 W HL0 H9 HAB. split; [|intros; lia].
  intros L HL. apply (descend e L0); [| exact HAB | lia].
  intros H3. apply head_not_not; [exact W|lia].
Qed.

Definition level_of_op (o : binop) : level :=
  match o with
  | Or => LOr | And => LAnd
  | Eq | NotEq | Lt | Gt | LtEq | GtEq | In | NotIn | Is => LCmp
  | Add | Sub => LAdd | Mul | Div | FloorDiv | Mod => LMul | Pow => LPow
  end.

Lemma level_of_op_ok : forall o, lnum (level_of_op o) = op_lvl o /\ (o <> Pow -> is_loop (level_of_op o)).
Proof. intros o; destruct o; cbn; split; auto; congruence. Qed.

Ltac bsplit := repeat match goal with H : _ && _ = true |- _ => apply andb_prop in H as [? ?] end.
Ltac osplit := repeat match goal with H : _ || _ = false |- _ => apply orb_false_elim in H as [? ?] end.
Ltac lebs := repeat match goal with H : (_ <=? _) = true |- _ => apply Nat.leb_le in H end.
Ltac needs := unfold need in *; cbn [size] in *.

Lemma forallb_in : forall {X} (p : X -> bool) xs x, forallb p xs = true -> List.In x xs -> p x = true.
Proof. intros X p xs x H Hin. rewrite forallb_forall in H. apply H; exact Hin. Qed.

Lemma existsb_in : forall {X} (p : X -> bool) xs x, existsb p xs = false -> List.In x xs -> p x = false.
Proof.
  intros X p xs x H Hin. destruct (p x) eqn:E; [|reflexivity].
  assert (existsb p xs = true) by (apply existsb_exists; exists x; auto). congruence.
Qed.

Lemma print_call : forall f args,
  print_expr (ECall f args) = print_expr f ++ TPu PLParen :: sep (map print_arg args) ++ [TPu PRParen].
Proof. reflexivity. Qed.

Lemma print_method : forall b m args,
  print_expr (EMethod b m args) = print_expr b ++ TPu PDot :: TId m :: TPu PLParen :: sep (map print_arg args) ++ [TPu PRParen].
Proof. reflexivity. Qed.

Lemma need_sum : forall ys, list_sum (map need ys) = 20 * list_sum (map size ys).
Proof. induction ys as [|y ys IH]; [reflexivity|]. cbn [map]. rewrite !list_sum_cons, IH. unfold need. lia. Qed.

Theorem roundtrip_all : forall n e, size e <= n -> wfb e = true -> ALL e.
Proof.
  induction n as [|n IH]; intros e Hn W; [destruct e; cbn [size] in Hn; lia|].
  destruct e; cbn [size] in Hn; pose proof W as W0; cbn [wfb] in W.
  - (* EIdent *)
    apply all_of_C; [reflexivity | cbn; lia |].
    intros rest G res f HG Hao Hk Hf. unfold postfix_entry. cbn [print_expr app primary_with bind fst snd].
    apply Hk. needs. lia.
  - (* ELit *)
    apply all_of_C; [exact W | cbn; lia |].
    intros rest G res f HG Hao Hk Hf. unfold postfix_entry.
    destruct l as [z|id [k|]|id|id|[|]|]; cbn [print_expr print_lit];
      try (cbn [app primary_with bind fst snd]; apply Hk; needs; lia).
    apply Z.leb_le in W. destruct (z <? 0)%Z eqn:E; [apply Z.ltb_lt in E; lia|].
    cbn [app primary_with bind fst snd]; apply Hk; needs; lia.
  - (* ESelf *)
    apply all_of_C; [reflexivity | cbn; lia |].
    intros rest G res f HG Hao Hk Hf. unfold postfix_entry. cbn [print_expr app primary_with bind fst snd].
    apply Hk. needs. lia.
  - (* EBinary *)
    bsplit. osplit.
    assert (Hl : ALL e1) by (apply IH; [lia|assumption]).
    assert (Hr : ALL e2) by (apply IH; [lia|assumption]).
    assert (Ho : o = Pow \/ o <> Pow) by (destruct o; auto; right; discriminate).
    destruct Ho as [-> | Ho].
    + (* power: unary ** power *)
      bsplit. lebs.
      apply (all_of_own _ LPow); [exact W0 | reflexivity | cbn; lia |].
      split; [|intros []].
      intros rest f Hs Hf. cbn [lnum] in *. needs. destruct f as [|f1]; [lia|].
      cbn [print_expr print_binop defloat]. rewrite <- app_assoc. cbn [app pe].
      rewrite (proj1 (proj1 Hl LUnary ltac:(cbn [lnum]; lia)) (TOp OStarStar :: print_expr e2 ++ rest) f1);
        [| cbn; lia | cbn [lnum]; unfold need; lia].
      cbn [bind fst snd].
      rewrite (proj1 (proj1 Hr LPow ltac:(cbn [lnum]; lia)) rest f1); [| exact Hs | cbn [lnum]; unfold need; lia].
      reflexivity.
    + assert (W3 : (op_lvl o <=? lvl_of e1) && (op_lvl o + 1 <=? lvl_of e2) = true) by (destruct o; try assumption; congruence).
      bsplit. lebs.
      destruct (level_of_op_ok o) as [HLn HLl]. specialize (HLl Ho).
      set (L := level_of_op o) in *.
      assert (HB : B (EBinary e1 o e2) L).
      { intros rest G res f HG Hs Hk Hf.
        cbn [print_expr]. rewrite <- !app_assoc.
        apply (proj2 (proj1 Hl L ltac:(lia)) HLl (print_binop o ++ print_expr e2 ++ rest) (G + need e2 + 1) res f).
        - lia.
        - rewrite HLn. apply stop_binop. exact Ho.
        - intros g Hg. destruct g as [|g1]; [lia|]. cbn [bloop].
          rewrite binop_at_print by (exact HLl || (symmetry; exact HLn)).
          rewrite (proj1 (proj1 Hr (next L) ltac:(rewrite lnum_next_loop by exact HLl; lia)) rest g1);
            [| rewrite lnum_next_loop by exact HLl; exact Hs | rewrite lnum_next_loop by exact HLl; lia].
          cbn [bind fst snd]. apply Hk. lia.
        - needs. lia. }
      apply (all_of_own _ L); [exact W0 | exact HLn | cbn [lvl_of]; destruct o; cbn; lia |].
      split; [apply B_to_A; assumption | intros _; exact HB].
  - (* EUnary *)
    destruct o.
    + (* Neg *)
      bsplit. lebs.
      assert (Hx : ALL e) by (apply IH; [lia|assumption]).
      apply (all_of_own _ LUnary); [exact W0 | reflexivity | cbn; lia |].
      split; [|intros []].
      intros rest f Hs Hf. cbn [lnum] in *. needs. destruct f as [|f1]; [lia|].
      cbn [print_expr app pe defloat].
      rewrite (proj1 (proj1 Hx LUnary ltac:(cbn [lnum]; lia)) rest f1); [reflexivity | exact Hs | cbn [lnum]; unfold need; lia].
    + (* Not *)
      bsplit. lebs.
      assert (Hx : ALL e) by (apply IH; [lia|assumption]).
      apply (all_of_own _ LNot); [exact W0 | reflexivity | cbn; lia |].
      split; [|intros []].
      intros rest f Hs Hf. cbn [lnum] in *. needs. destruct f as [|f1]; [lia|].
      cbn [print_expr app pe defloat].
      rewrite (proj1 (proj1 Hx LNot ltac:(cbn [lnum]; lia)) rest f1); [reflexivity | exact Hs | cbn [lnum]; unfold need; lia].
  - (* ECall *)
    bsplit. osplit. lebs.
    assert (Hb : ALL e) by (apply IH; [lia|assumption]).
    apply all_of_C; [exact W0 | cbn; lia |].
    intros rest G res f HG Hao Hk Hf.
    rewrite ?print_call, ?print_method. rewrite <- app_assoc. cbn [app]. rewrite <- app_assoc. cbn [app].
    assert (Hargs : forall a, List.In a args -> wfb (snd a) = true /\ A (snd a) LOr).
    { intros a Ha. assert (Wa : wfb (snd a) = true) by (eapply (forallb_in (fun a => wfb (snd a))); eassumption).
      split; [exact Wa|].
      pose proof (in_sum (fun a => size (snd a)) a args Ha).
      apply (proj1 (IH (snd a) ltac:(lia) Wa)). cbn; lia. }
    pose proof (sum_scale (fun a => size (snd a)) args) as Hsc.
    apply (proj2 Hb ltac:(lia) _ (G + list_sum (map (fun a => need (snd a)) args) + 2) res f).
    + lia.
    + split; [intros t Hc; discriminate Hc|]. destruct e; auto. destruct f0; auto. discriminate.
    + intros g Hg. destruct g as [|g1]; [lia|]. cbn [ploop].
      rewrite pargs_ok; [| exact Hargs | lia].
      cbn [bind fst snd expect_pu]. apply Hk. lia.
    + needs. unfold need in Hsc. rewrite Hsc. lia.
  - (* EIndex *)
    bsplit. osplit. lebs.
    assert (Hb : ALL e1) by (apply IH; [lia|assumption]).
    assert (Hi : ALL e2) by (apply IH; [lia|assumption]).
    assert (Wi : wfb e2 = true) by assumption.
    apply all_of_C; [exact W0 | cbn; lia |].
    intros rest G res f HG Hao Hk Hf.
    cbn [print_expr]. rewrite <- app_assoc. cbn [app]. rewrite <- app_assoc. cbn [app].
    apply (proj2 Hb ltac:(lia) _ (G + need e2 + 2) res f).
    + lia.
    + split; [intros t Hc; discriminate Hc|]. destruct e1; auto. destruct f0; auto. intros t Hc; discriminate Hc.
    + intros g Hg. destruct g as [|g1]; [lia|]. cbn [ploop].
      rewrite pindex_default; try (head_neq Wi (TPu PRBracket :: rest)).
      rewrite (proj1 (proj1 Hi LOr ltac:(cbn [lnum]; lia)) (TPu PRBracket :: rest) g1); [| cbn; exact I | cbn [lnum]; lia].
      cbn [bind fst snd expect_pu apply_ios]. apply Hk. lia.
    + needs. lia.
  - (* ESlice *)
    bsplit. osplit. lebs.
    assert (Hb : ALL e) by (apply IH; [lia|assumption]).
    apply all_of_C; [exact W0 | cbn; lia |].
    intros rest G res f HG Hao Hk Hf.
    rewrite print_slice. rewrite <- app_assoc. cbn [app]. rewrite <- app_assoc. cbn [app].
    set (ns := match s with Some x => size x | None => 0 end) in *.
    set (ne := match e0 with Some x => size x | None => 0 end) in *.
    set (nst := match st with Some x => size x | None => 0 end) in *.
    assert (Hopt : forall (o : option expr) k, wf_opt wfb o = true ->
               match o with Some x => size x | None => 0 end <= n -> 20 * match o with Some x => size x | None => 0 end <= k -> opt_ok k o).
    { intros [y|] k Wy Sy Hk'; cbn [opt_ok wf_opt] in *; [|exact I].
      split; [exact Wy|]. split; [|unfold need; lia].
      apply (proj1 (IH y Sy Wy)). cbn; lia. }
    apply (proj2 Hb ltac:(lia) _ (G + 20 * (ns + ne + nst) + 2) res f).
    + lia.
    + split; [intros t Hc; discriminate Hc|]. destruct e; auto. destruct f0; auto. intros t Hc; discriminate Hc.
    + intros g Hg. destruct g as [|g1]; [lia|]. cbn [ploop].
      rewrite pindex_slice_ok; [| apply Hopt; try assumption; subst ns; lia | apply Hopt; try assumption; subst ne; lia
                               | apply Hopt; try assumption; subst nst; lia].
      cbn [bind fst snd expect_pu apply_ios defloat]. apply Hk. lia.
    + needs. lia.
  - (* EField *)
    bsplit. osplit. lebs.
    assert (Hb : ALL e) by (apply IH; [lia|assumption]).
    apply all_of_C; [exact W0 | cbn; lia |].
    intros rest G res f0 HG Hao Hk Hf.
    cbn [print_expr]. rewrite <- app_assoc. cbn [app].
    apply (proj2 Hb ltac:(lia) _ (G + 1) res f0).
    + lia.
    + split; [intros t Hc; discriminate Hc|]. destruct e; auto. destruct f1; auto. intros t Hc; discriminate Hc.
    + intros g Hg. destruct g as [|g1]; [lia|]. destruct f as [m|k]; cbn [print_fld].
      * (* name: not followed by `(` *)
        destruct Hao as [_ Hnp]. cbn [ploop].
        destruct rest as [|t0 rest']; [cbn [defloat] in Hk; apply Hk; lia|].
        destruct t0; try (cbn [defloat] in Hk; apply Hk; lia).
        destruct p; try (cbn [defloat] in Hk; apply Hk; lia).
        exfalso; eapply Hnp; reflexivity.
      * cbn [ploop]. cbn [defloat] in Hk. apply Hk. lia.
    + needs. lia.
  - (* EMethod *)
    bsplit. osplit. lebs.
    assert (Hb : ALL e) by (apply IH; [lia|assumption]).
    apply all_of_C; [exact W0 | cbn; lia |].
    intros rest G res f HG Hao Hk Hf.
    rewrite ?print_call, ?print_method. rewrite <- app_assoc. cbn [app]. rewrite <- app_assoc. cbn [app].
    assert (Hargs : forall a, List.In a args -> wfb (snd a) = true /\ A (snd a) LOr).
    { intros a Ha. assert (Wa : wfb (snd a) = true) by (eapply (forallb_in (fun a => wfb (snd a))); eassumption).
      split; [exact Wa|].
      pose proof (in_sum (fun a => size (snd a)) a args Ha).
      apply (proj1 (IH (snd a) ltac:(lia) Wa)). cbn; lia. }
    pose proof (sum_scale (fun a => size (snd a)) args) as Hsc.
    apply (proj2 Hb ltac:(lia) _ (G + list_sum (map (fun a => need (snd a)) args) + 2) res f).
    + lia.
    + split; [intros t Hc; discriminate Hc|]. destruct e; auto. destruct f0; auto. intros t Hc; discriminate Hc.
    + intros g Hg. destruct g as [|g1]; [lia|]. cbn [ploop].
      rewrite pargs_ok; [| exact Hargs | lia].
      cbn [bind fst snd expect_pu]. apply Hk. lia.
    + needs. unfold need in Hsc. rewrite Hsc. lia.
  - (* EAwait *)
    bsplit. lebs.
    assert (Hx : ALL e) by (apply IH; [lia|assumption]).
    apply (all_of_own _ LUnary); [exact W0 | reflexivity | cbn; lia |].
    split; [|intros []].
    intros rest f Hs Hf. cbn [lnum] in *. needs. destruct f as [|f1]; [lia|].
    cbn [print_expr app pe defloat].
    rewrite (proj1 (proj1 Hx LUnary ltac:(cbn [lnum]; lia)) rest f1); [reflexivity | exact Hs | cbn [lnum]; unfold need; lia].
  - (* ETry *)
    bsplit. lebs.
    assert (Hb : ALL e) by (apply IH; [lia|assumption]).
    apply all_of_C; [exact W0 | cbn; lia |].
    intros rest G res f HG Hao Hk Hf.
    cbn [print_expr]. rewrite <- app_assoc. cbn [app].
    apply (proj2 Hb ltac:(lia) _ (G + 1) res f).
    + lia.
    + split; [intros t Hc; discriminate Hc|]. destruct e; auto. destruct f0; auto. intros t Hc; discriminate Hc.
    + intros g Hg. destruct g as [|g1]; [lia|]. cbn [ploop]. cbn [defloat] in Hk. apply Hk. lia.
    + needs. lia.
  - (* ETuple *)
    apply all_of_C; [exact W0 | cbn; lia |].
    intros rest G res f HG [Har _] Hk Hf. unfold postfix_entry.
    assert (Hes : forall y, List.In y es -> wfb y = true /\ A y LOr).
    { intros y Hy. assert (Wy : wfb y = true) by (eapply forallb_in; eassumption). split; [exact Wy|].
      pose proof (in_sum size y es Hy).
      apply (proj1 (IH y ltac:(lia) Wy)). cbn; lia. }
    assert (Fin : forall v, bind (match rest with
                                   | TPu PFatArrow :: t4 => match to_params v with
                                                            | Some ps => bind (pe f LOr t4) (fun b => POk (EClosure ps (fst b), snd b))
                                                            | None => PErr end
                                   | _ => POk (ETuple v, rest) end) (fun r => ploop f (fst r) (snd r)) = ploop f (ETuple v) rest).
    { intros v. destruct rest as [|t0 rest']; [reflexivity|]. destruct t0; try reflexivity.
      destruct p; try reflexivity. exfalso; eapply Har; reflexivity. }
    destruct es as [|x ys].
    + cbn [print_expr map sep app primary_with].
      destruct rest as [|t0 rest']; [cbn; apply Hk; needs; lia|].
      destruct t0; try (cbn; apply Hk; needs; lia). destruct p; try (cbn; apply Hk; needs; lia).
      exfalso; eapply Har; reflexivity.
    + destruct (Hes x (or_introl eq_refl)) as [Wx Ax].
      pose proof (need_sum ys) as Hsy. pose proof (need_pos x).
      unfold need in Hf; cbn [size map] in Hf; rewrite list_sum_cons in Hf.
      cbn [print_expr map]. rewrite sep_cons.
      set (X := flat_map (fun y => TPu PComma :: y) (map print_expr ys)).
      destruct ys as [|y ys'].
      * (* one element: `(x,)` *)
        subst X. cbn [flat_map app]. rewrite app_nil_r. rewrite <- app_assoc. cbn [app].
        rewrite primary_paren by (head_neq Wx (TPu PComma :: TPu PRParen :: rest)).
        rewrite (Ax (TPu PComma :: TPu PRParen :: rest) f); [| cbn; exact I | cbn [lnum]; unfold need; lia].
        cbn [bind fst snd].
        assert (f <> 0) by lia. destruct f as [|f1]; [congruence|].
        cbn [pelems is_pu bind fst snd expect_pu].
        rewrite (Fin [defloat x]). apply Hk. try (unfold need in Hf; cbn [size] in Hf). lia.
      * (* two or more *)
        cbn [app]. rewrite <- !app_assoc. cbn [app].
        rewrite primary_paren by (head_neq Wx (X ++ TPu PRParen :: rest)).
        assert (TX : tail_ok (X ++ TPu PRParen :: rest)) by (subst X; reflexivity).
        rewrite (Ax (X ++ TPu PRParen :: rest) f); [| apply tail_stop; exact TX | cbn [lnum]; unfold need; lia].
        cbn [bind fst snd].
        assert (HX : X ++ TPu PRParen :: rest = TPu PComma :: (print_expr y ++ flat_map (fun y0 => TPu PComma :: y0) (map print_expr ys')) ++ TPu PRParen :: rest)
          by (subst X; reflexivity).
        rewrite HX at 1. cbn iota.
        subst X. rewrite (pelems_ok PRParen (or_introl eq_refl) (y :: ys') rest f);
          [| intros; apply Hes; right; assumption | rewrite Hsy; lia].
        cbn [bind fst snd expect_pu].
        rewrite (Fin (defloat x :: map defloat (y :: ys'))). apply Hk. try (unfold need in Hf; cbn [size] in Hf). lia.
  - (* EList *)
    apply all_of_C; [exact W0 | cbn; lia |].
    intros rest G res f HG Hao Hk Hf. unfold postfix_entry.
    assert (Hes : forall y, List.In y es -> wfb y = true /\ A y LOr).
    { intros y Hy. assert (Wy : wfb y = true) by (eapply forallb_in; eassumption). split; [exact Wy|].
      pose proof (in_sum size y es Hy).
      apply (proj1 (IH y ltac:(lia) Wy)). cbn; lia. }
    destruct es as [|x ys].
    + cbn [print_expr map sep app primary_with bind fst snd]. apply Hk. try (unfold need in Hf; cbn [size] in Hf). lia.
    + destruct (Hes x (or_introl eq_refl)) as [Wx Ax].
      pose proof (need_sum ys) as Hsy. pose proof (need_pos x).
      unfold need in Hf; cbn [size map] in Hf; rewrite list_sum_cons in Hf.
      cbn [print_expr map]. rewrite sep_cons. cbn [app]. rewrite <- !app_assoc. cbn [app].
      set (X := flat_map (fun y => TPu PComma :: y) (map print_expr ys)).
      rewrite primary_bracket by (head_neq Wx (X ++ TPu PRBracket :: rest)).
      assert (TX : tail_ok (X ++ TPu PRBracket :: rest)) by (subst X; destruct ys; reflexivity).
      rewrite (Ax (X ++ TPu PRBracket :: rest) f); [| apply tail_stop; exact TX | cbn [lnum]; unfold need; lia].
      cbn [bind fst snd]. subst X.
      rewrite (pelems_ok PRBracket (or_intror eq_refl) ys rest f);
        [| intros; apply Hes; right; assumption | rewrite Hsy; lia].
      cbn [bind fst snd expect_pu]. apply Hk. try (unfold need in Hf; cbn [size] in Hf). lia.
  - discriminate W.
  - discriminate W.
  - (* EParen *)
    assert (Hx : ALL e) by (apply IH; [lia|assumption]).
    apply all_of_C; [exact W0 | cbn; lia |].
    intros rest G res f HG [Har _] Hk Hf. unfold postfix_entry.
    cbn [print_expr app]. rewrite <- app_assoc. cbn [app].
    rewrite primary_paren by (head_neq W (TPu PRParen :: rest)).
    rewrite (proj1 (proj1 Hx LOr ltac:(cbn [lnum]; lia)) (TPu PRParen :: rest) f); [| cbn; exact I | cbn [lnum]; needs; lia].
    cbn [bind fst snd expect_pu].
    destruct rest as [|t0 rest']; [cbn; apply Hk; needs; lia|].
    destruct t0; try (cbn; apply Hk; needs; lia). destruct p; try (cbn; apply Hk; needs; lia).
    exfalso; eapply Har; reflexivity.
  - (* ERange *)
    bsplit. osplit. lebs.
    assert (Hs1 : ALL e1) by (apply IH; [lia|assumption]).
    assert (Hs2 : ALL e2) by (apply IH; [lia|assumption]).
    apply (all_of_own _ LRange); [exact W0 | reflexivity | cbn; lia |].
    split; [|intros []].
    intros rest f Hs Hf. cbn [lnum] in *. needs. destruct f as [|f1]; [lia|].
    cbn [print_expr defloat]. rewrite <- app_assoc. cbn [app pe].
    rewrite (proj1 (proj1 Hs1 LAdd ltac:(cbn [lnum]; lia)) _ f1); [| destruct incl; cbn; lia | cbn [lnum]; unfold need; lia].
    cbn [bind fst snd].
    destruct incl; cbn iota;
      (rewrite (proj1 (proj1 Hs2 LAdd ltac:(cbn [lnum]; lia)) rest f1);
        [reflexivity | eapply stop_mono; [|exact Hs]; cbn [lnum]; lia | cbn [lnum]; unfold need; lia]).
  - discriminate W.
Qed.

(* ------------------------------------------------------------------ the round-trip theorems *)
Theorem expr_roundtrip_norm : forall e rest f,
  wfb e = true -> stop 0 rest -> need e <= f ->
  parse_expr f (print_expr e ++ rest) = POk (defloat e, rest).
Proof.
  intros e rest f W Hs Hf. unfold parse_expr.
  destruct (roundtrip_all (size e) e (le_n _) W) as [H _].
  apply (proj1 (H LOr ltac:(cbn [lnum]; lia))); [exact Hs | cbn [lnum]; lia].
Qed.

Lemma size_ind : forall P : expr -> Prop,
  (forall e, (forall e', size e' < size e -> P e') -> P e) -> forall e, P e.
Proof.
  intros P H e. assert (G : forall n e, size e <= n -> P e).
  { induction n as [|n IH]; intros e0 Hn; apply H; intros e' Hlt; [lia|]. apply IH. lia. }
  apply (G (size e)). lia.
Qed.

Lemma map_id_in : forall {X} (g : X -> X) xs, (forall x, List.In x xs -> g x = x) -> map g xs = xs.
Proof. intros X g xs H. rewrite <- (map_id xs) at 2. apply map_ext_in. exact H. Qed.

Ltac sz := cbn [size]; lia.

(* the normalisation is the identity (no float class any more) *)
Lemma defloat_all : forall e, defloat e = e.
Proof.
  apply (size_ind (fun e => defloat e = e)).
  intros e IH. destruct e; cbn [defloat]; try reflexivity;
    try (rewrite ?IH by sz; reflexivity).
  - rewrite IH by sz. f_equal. apply map_id_in. intros [o x] Hx. cbn [fst snd].
    pose proof (in_sum (fun a => size (snd a)) _ _ Hx). cbn [snd] in *. rewrite IH; [reflexivity | sz].
  - rewrite IH by sz.
    assert (Ho : forall o : option expr, match o with Some y => size y | None => 0 end <= size (ESlice e s e0 st) - 1 - size e ->
              option_map defloat o = o).
    { intros [y|] Hs; [|reflexivity]. cbn [option_map]. rewrite IH; [reflexivity | cbn [size] in *; lia]. }
    rewrite !Ho by (cbn [size]; lia). reflexivity.
  - rewrite IH by sz. f_equal. apply map_id_in. intros [o x] Hx. cbn [fst snd].
    pose proof (in_sum (fun a => size (snd a)) _ _ Hx). cbn [snd] in *. rewrite IH; [reflexivity | sz].
  - f_equal. apply map_id_in. intros x Hx. pose proof (in_sum size _ _ Hx). apply IH; sz.
  - f_equal. apply map_id_in. intros x Hx. pose proof (in_sum size _ _ Hx). apply IH; sz.
  - f_equal. apply map_id_in. intros [k v] Hx. cbn [fst snd].
    pose proof (in_sum (fun kv => size (fst kv) + size (snd kv)) _ _ Hx) as Hs. cbn [fst snd] in Hs.
    rewrite !IH by sz. reflexivity.
  - f_equal. apply map_id_in. intros x Hx. pose proof (in_sum size _ _ Hx). apply IH; sz.
Qed.

Lemma defloat_id : forall e, has_intfloat e = false -> defloat e = e.
Proof. intros e _. apply defloat_all. Qed.

Theorem expr_roundtrip_full : forall e rest f,
  wfb e = true -> stop 0 rest -> need e <= f ->
  parse_expr f (print_expr e ++ rest) = POk (e, rest).
Proof. intros e rest f W Hs Hf. rewrite <- (defloat_all e) at 2. apply expr_roundtrip_norm; assumption. Qed.

Theorem expr_roundtrip : forall e rest f,
  wfb e = true -> has_intfloat e = false -> stop 0 rest -> need e <= f ->
  parse_expr f (print_expr e ++ rest) = POk (e, rest).
Proof. intros e rest f W K2 Hs Hf. rewrite <- (defloat_id e K2) at 2. apply expr_roundtrip_norm; assumption. Qed.

(* ------------------------------------------------------------------ idempotence at the token level *)
Lemma print_defloat : forall e, wfb e = true -> print_expr (defloat e) = print_expr e.
Proof. intros e _. rewrite defloat_all. reflexivity. Qed.

(* fmt_src: parse a token text and print the result (None if it does not parse completely) *)
Definition fmt_src (fuel : nat) (ts : list tok) : option (list tok) :=
  match parse_expr fuel ts with POk (e, []) => Some (print_expr e) | _ => None end.

Theorem fmt_idempotent_tokens : forall e f,
  wfb e = true -> need e <= f ->
  fmt_src f (print_expr e) = Some (print_expr e).
Proof.
  intros e f W Hf. unfold fmt_src.
  pose proof (expr_roundtrip_norm e [] f W I Hf) as H. rewrite app_nil_r in H. rewrite H.
  rewrite print_defloat by exact W. reflexivity.
Qed.
