(* Fmt/Writer.v — definitions only.
   CHARACTER-level model of the layout layer of the formatter:
   (1) FormatWriter (src/format/writer.rs): state = output (list of code points), indent level, at_line_start;
       operations new / write_indent / write / writeln / newline / blank_lines / space / indent / dedent / finish,
       method by method.  `current_line_length` is not modelled: it is read only by would_exceed_line_length /
       remaining_line_space, which nothing calls (dead code), and never reaches `finish`.
   (2) the statement / declaration level of Formatter (src/format/formatter.rs): format, format_program,
       format_declaration and every function it reaches down to format_statement / format_match_arm, arm by arm,
       over a SKELETON of the AST in which every text that the real code writes on one line without looking at the
       writer (identifiers, types via format_type, patterns via format_pattern, and the stretches of an expression
       between two block-bodied sub-expressions) is an opaque list of code points.  `match` and `if` EXPRESSIONS are
       the only expression forms that call writeln/indent; they are kept structural (XMatch / XIf / XIfElse), so an
       expression is a sequence of text stretches and block expressions in printing order.
   Characters are Z code points; 10 = LF, 32 = space, 9 = tab, 13 = CR, 34 = double quote. *)
From Coq Require Import ZArith List Bool String Ascii.
Import ListNotations.
Open Scope Z_scope.

Definition text := list Z.

(* a Coq string literal as code points (ASCII only; used for the keywords the formatter writes) *)
Fixpoint T (s : string) : text :=
  match s with
  | EmptyString => []
  | String a r => Z.of_N (N_of_ascii a) :: T r
  end.

(* ------------------------------------------------------------------ FormatWriter (writer.rs) *)
Record wst := { out : text; lvl : nat; als : bool }.            (* output, indent_level, at_line_start *)

Definition w_new : wst := {| out := []; lvl := 0; als := true |}.                       (* FormatWriter::new *)
Definition w_finish (st : wst) : text := out st.                                        (* finish *)
Definition w_indent (st : wst) : wst := {| out := out st; lvl := S (lvl st); als := als st |}.
(* dedent: `if self.indent_level > 0 { self.indent_level -= 1 }` (saturating) *)
Definition w_dedent (st : wst) : wst := {| out := out st; lvl := pred (lvl st); als := als st |}.
Definition spaces (n : nat) : text := repeat 32 n.
(* write_indent: only at line start; " ".repeat(indent_level * indent_width) *)
Definition w_write_indent (w : nat) (st : wst) : wst :=
  if als st then {| out := out st ++ spaces (lvl st * w); lvl := lvl st; als := false |} else st.
(* write: `if s.is_empty() { return }` BEFORE write_indent — write("") never indents and never clears at_line_start *)
Definition w_write (w : nat) (s : text) (st : wst) : wst :=
  match s with
  | [] => st
  | _ => let st1 := w_write_indent w st in {| out := out st1 ++ s; lvl := lvl st1; als := als st1 |}
  end.
Definition w_newline (st : wst) : wst := {| out := out st ++ [10]; lvl := lvl st; als := true |}.
Definition w_writeln (w : nat) (s : text) (st : wst) : wst := w_newline (w_write w s st).
Fixpoint w_blank_lines (count : nat) (st : wst) : wst :=
  match count with O => st | S k => w_blank_lines k (w_newline st) end.
Definition w_space (w : nat) (st : wst) : wst := w_write w [32] st.                      (* unused by formatter.rs *)

(* Formatter::format: `while output.ends_with("\n\n") { output.pop(); }` — on the reversed text *)
Fixpoint strip_nl (r : text) : text :=
  match r with
  | a :: r' => if (a =? 10) && (match r' with b :: _ => b =? 10 | [] => false end) then strip_nl r' else r
  | [] => []
  end.
Definition trim_nl (t : text) : text := rev (strip_nl (rev t)).

(* ------------------------------------------------------------------ skeleton AST *)
Inductive binding := BInferred | BLet | BMutable | BReassign.
Inductive cop := CAdd | CSub | CMul | CDiv | CFloorDiv | CMod.
Inductive recv := RNone | RImm | RMut.                              (* Option<Receiver> *)

(* expr: what format_expr does with the writer, in order.
     XText t r      write(t) (any run of writes of one expression that contains no match/if expression), then r
     XMatch s a r   Expr::Match(s, a), then r
     XIf / XIfElse  Expr::If without / with else_body, then r
   an expression without match/if sub-expressions is `XText t XNil`. *)
Inductive expr :=
| XNil
| XText (t : text) (r : expr)
| XMatch (s : expr) (a : arms) (r : expr)
| XIf (c : expr) (t : block) (r : expr)
| XIfElse (c : expr) (t e : block) (r : expr)
with arms := ANil | ACons (a : arm) (r : arms)
with arm :=                                              (* MatchArm: pattern text, guard, MatchBody *)
| AGuardExpr (pat : text) (g : expr) (body : expr)
| AGuardBlock (pat : text) (g : expr) (body : block)
| AExpr (pat : text) (body : expr)
| ABlock (pat : text) (body : block)
with block := BNil | BCons (s : stmt) (r : block)
with stmt :=
| SExpr (e : expr)
| SAssign (b : binding) (name : text) (ty : option text) (v : expr)
| SFieldAssign (obj : expr) (field : text) (v : expr)
| SIndexAssign (obj idx v : expr)
| SCompound (name : text) (op : cop) (v : expr)
| SReturn0
| SReturn (e : expr)
| SIf (c : expr) (t : block) (el : elifs) (e : oblock)
| SWhile (c : expr) (b : block)
| SFor (var : text) (it : expr) (b : block)
| SPass | SBreak | SContinue
| STupleUnpack (b : binding) (names : list text) (v : expr)
| STupleAssign (targets : exprs) (v : expr)
| SChained (b : binding) (targets : list text) (v : expr)
with elifs := LNil | LCons (c : expr) (b : block) (r : elifs)
with oblock := ONone | OSome (b : block)
with exprs := ENil | ECons (e : expr) (r : exprs).

Inductive darg := DPos (e : expr) | DNamedTy (n ty : text) | DNamedExpr (n : text) (e : expr).
Record decorator := { dec_name : text; dec_args : list darg }.
Record param := { p_mut : bool; p_name : text; p_ty : text; p_default : option expr }.
Record field := { f_pub : bool; f_name : text; f_ty : text; f_default : option expr }.
Record method := { m_decs : list decorator; m_async : bool; m_name : text; m_recv : recv; m_params : list param;
                   m_ret : text; m_body : option block }.
Record ipath := { ip_abs : bool; ip_parents : nat; ip_segs : list text }.
Record iitem := { ii_name : text; ii_alias : option text }.
Inductive ikind :=
| IModule (p : ipath)
| IFrom (p : ipath) (items : list iitem)
| IPython (name : text)
| IRustCrate (c : text) (path : list text)
| IRustFrom (c : text) (path : list text) (items : list iitem).
Record variant := { v_name : text; v_fields : list text }.

Inductive decl :=
| DImport (k : ikind) (alias : option text)
| DConst (pub : bool) (name : text) (ty : option text) (v : expr)
| DModel (pub : bool) (decs : list decorator) (name : text) (tps traits : list text) (fields : list field) (methods : list method)
| DClass (pub : bool) (decs : list decorator) (name : text) (tps : list text) (extends : option text) (traits : list text)
         (fields : list field) (methods : list method)
| DTrait (pub : bool) (decs : list decorator) (name : text) (tps : list text) (methods : list method)
| DNewtype (pub : bool) (name : text) (underlying : text) (methods : list method)
| DEnum (pub : bool) (name : text) (tps : list text) (variants : list variant)
| DFunction (pub : bool) (decs : list decorator) (async : bool) (name : text) (tps : list text) (params : list param)
            (ret : text) (body : block)
| DDocstring (doc : text).        (* `doc.trim()` after the two escaping replace() calls (format_docstring's `trimmed`) *)
Definition program := list decl.

(* ------------------------------------------------------------------ combinators (generic in the state type) *)
Definition seq {St} (f g : St -> St) : St -> St := fun st => g (f st).
Infix ">>" := seq (at level 61, right associativity).
Definition nop {St} : St -> St := fun st => st.
Definition when {St} (b : bool) (f : St -> St) : St -> St := if b then f else nop.
Definition opt {St A} (f : A -> St -> St) (o : option A) : St -> St := match o with Some a => f a | None => nop end.
Fixpoint each {St A} (f : A -> St -> St) (xs : list A) : St -> St :=
  match xs with [] => nop | x :: r => f x >> each f r end.
(* `for (i, x) in xs.iter().enumerate() { if i > 0 { write(sep) } f(x) }` *)
Fixpoint sep_from {St A} (wr : text -> St -> St) (first : bool) (sp : text) (f : A -> St -> St) (xs : list A) : St -> St :=
  match xs with [] => nop | x :: r => when (negb first) (wr sp) >> f x >> sep_from wr false sp f r end.
Definition is_nil {A} (l : list A) : bool := match l with [] => true | _ => false end.
Fixpoint repeat_act {St} (n : nat) (f : St -> St) : St -> St := match n with O => nop | S k => f >> repeat_act k f end.
Definition act := wst -> wst.

Definition cop_text (o : cop) : text :=
  match o with CAdd => T "+=" | CSub => T "-=" | CMul => T "*=" | CDiv => T "/=" | CFloorDiv => T "//=" | CMod => T "%=" end.

(* `trimmed.lines()`: split after every LF; a piece that ends in LF loses it and then one CR; a last piece
   without LF is kept as it is; nothing is produced after a final LF *)
Fixpoint str_lines_from (cur_rev : text) (t : text) : list text :=
  match t with
  | [] => match cur_rev with [] => [] | _ => [rev cur_rev] end
  | c :: r =>
      if c =? 10 then rev (match cur_rev with d :: x => if d =? 13 then x else cur_rev | [] => [] end) :: str_lines_from [] r
      else str_lines_from (c :: cur_rev) r
  end.
Definition str_lines (t : text) : list text := str_lines_from [] t.
(* trimmed.strip_suffix(double quote) *)
Definition strip_suffix_quote (t : text) : option text :=
  match rev t with c :: r => if c =? 34 then Some (rev r) else None | [] => None end.

(* ------------------------------------------------------------------ Formatter (formatter.rs) *)
Section Formatter.
Variable w : nat.                                   (* config.indent_width *)

Definition wr (t : text) : act := w_write w t.
Definition wln (t : text) : act := w_writeln w t.
Definition nl : act := w_newline.
Definition ind : act := w_indent.
Definition ded : act := w_dedent.
Definition sep_by {A} := @sep_from wst A wr true.

Definition fmt_binding (b : binding) : act :=
  match b with BLet => wr (T "let ") | BMutable => wr (T "mut ") | BInferred | BReassign => nop end.
(* `if body.is_empty() { writeln("pass") }` after the loop over the body *)
Definition pass_if_empty (b : block) : act := match b with BNil => wln (T "pass") | _ => nop end.

Fixpoint fmt_expr (e : expr) : act :=
  match e with
  | XNil => nop
  | XText t r => wr t >> fmt_expr r
  | XMatch s a r =>                                                          (* Expr::Match *)
      wr (T "match ") >> fmt_expr s >> wln (T ":") >> ind >> fmt_arms a >> ded >> fmt_expr r
  | XIf c t r =>                                                             (* Expr::If, else_body = None *)
      wr (T "if ") >> fmt_expr c >> wln (T ":") >> ind >> fmt_block t >> pass_if_empty t >> ded >> fmt_expr r
  | XIfElse c t e r =>
      wr (T "if ") >> fmt_expr c >> wln (T ":") >> ind >> fmt_block t >> pass_if_empty t >> ded >>
      wln (T "else:") >> ind >> fmt_block e >> pass_if_empty e >> ded >> fmt_expr r
  end
with fmt_arms (a : arms) : act :=
  match a with ANil => nop | ACons x r => fmt_arm x >> fmt_arms r end
with fmt_arm (x : arm) : act :=                                              (* format_match_arm *)
  match x with
  | AGuardExpr p g b =>
      wr (T "case ") >> wr p >> wr (T " if ") >> fmt_expr g >> wln (T ":") >> ind >> fmt_expr b >> nl >> ded
  | AGuardBlock p g b =>
      wr (T "case ") >> wr p >> wr (T " if ") >> fmt_expr g >> wln (T ":") >> ind >> fmt_block b >> pass_if_empty b >> ded
  | AExpr p b => wr p >> wr (T " =>") >> wr (T " ") >> fmt_expr b >> nl
  | ABlock p b => wr p >> wr (T " =>") >> nl >> ind >> fmt_block b >> ded
  end
with fmt_block (b : block) : act :=
  match b with BNil => nop | BCons s r => fmt_stmt s >> fmt_block r end
with fmt_stmt (s : stmt) : act :=                                            (* format_statement *)
  match s with
  | SExpr e => fmt_expr e >> nl
  | SAssign b name ty v =>                                                   (* format_assignment *)
      fmt_binding b >> wr name >> opt (fun t => wr (T ": ") >> wr t) ty >> wr (T " = ") >> fmt_expr v >> nl
  | SFieldAssign obj field v => fmt_expr obj >> wr (T ".") >> wr field >> wr (T " = ") >> fmt_expr v >> nl
  | SIndexAssign obj idx v => fmt_expr obj >> wr (T "[") >> fmt_expr idx >> wr (T "] = ") >> fmt_expr v >> nl
  | SCompound name op v => wr name >> wr (T " ") >> wr (cop_text op) >> wr (T " ") >> fmt_expr v >> nl
  | SReturn0 => wr (T "return") >> nl
  | SReturn e => wr (T "return") >> wr (T " ") >> fmt_expr e >> nl
  | SIf c t el e =>                                                          (* format_if *)
      wr (T "if ") >> fmt_expr c >> wln (T ":") >> ind >> fmt_block t >> pass_if_empty t >> ded >>
      fmt_elifs el >> fmt_oblock e
  | SWhile c b => wr (T "while ") >> fmt_expr c >> wln (T ":") >> ind >> fmt_block b >> pass_if_empty b >> ded
  | SFor var it b =>
      wr (T "for ") >> wr var >> wr (T " in ") >> fmt_expr it >> wln (T ":") >> ind >> fmt_block b >> pass_if_empty b >> ded
  | SPass => wln (T "pass")
  | SBreak => wln (T "break")
  | SContinue => wln (T "continue")
  | STupleUnpack b names v => fmt_binding b >> sep_by (T ", ") wr names >> wr (T " = ") >> fmt_expr v >> nl
  | STupleAssign targets v => fmt_exprs true targets >> wr (T " = ") >> fmt_expr v >> nl
  | SChained b targets v => fmt_binding b >> sep_by (T " = ") wr targets >> wr (T " = ") >> fmt_expr v >> nl
  end
with fmt_elifs (l : elifs) : act :=
  match l with
  | LNil => nop
  | LCons c b r => wr (T "elif ") >> fmt_expr c >> wln (T ":") >> ind >> fmt_block b >> pass_if_empty b >> ded >> fmt_elifs r
  end
with fmt_oblock (o : oblock) : act :=
  match o with
  | ONone => nop
  | OSome b => wln (T "else:") >> ind >> fmt_block b >> pass_if_empty b >> ded
  end
with fmt_exprs (first : bool) (es : exprs) {struct es} : act :=
  match es with
  | ENil => nop
  | ECons e r => when (negb first) (wr (T ", ")) >> fmt_expr e >> fmt_exprs false r
  end.

(* ---- declarations *)
Definition fmt_vis (pub : bool) : act := when pub (wr (T "pub ")).                      (* write_visibility *)
Definition fmt_type_params (tps : list text) : act :=
  match tps with [] => nop | _ => wr (T "[") >> sep_by (T ", ") wr tps >> wr (T "]") end.
Definition fmt_traits (traits : list text) : act :=
  match traits with [] => nop | _ => wr (T " with ") >> sep_by (T ", ") wr traits end.
Definition fmt_darg (a : darg) : act :=
  match a with
  | DPos e => fmt_expr e
  | DNamedTy n ty => wr n >> wr (T ": ") >> wr ty
  | DNamedExpr n e => wr n >> wr (T "=") >> fmt_expr e
  end.
Definition fmt_decorator (d : decorator) : act :=
  wr (T "@") >> wr (dec_name d) >>
  (match dec_args d with [] => nop | _ => wr (T "(") >> sep_by (T ", ") fmt_darg (dec_args d) >> wr (T ")") end) >> nl.
Definition fmt_param (p : param) : act :=
  when (p_mut p) (wr (T "mut ")) >> wr (p_name p) >> wr (T ": ") >> wr (p_ty p) >>
  opt (fun e => wr (T " = ") >> fmt_expr e) (p_default p).
Definition fmt_params (ps : list param) : act := sep_by (T ", ") fmt_param ps.
Definition fmt_field (f : field) : act :=
  fmt_vis (f_pub f) >> wr (f_name f) >> wr (T ": ") >> wr (f_ty f) >> opt (fun e => wr (T " = ") >> fmt_expr e) (f_default f) >> nl.
(* `if body.is_empty() { writeln("pass") } else { for stmt in body { .. } }` *)
Definition fmt_body (b : block) : act := match b with BNil => wln (T "pass") | _ => fmt_block b end.
Definition fmt_method (m : method) : act :=
  each fmt_decorator (m_decs m) >> when (m_async m) (wr (T "async ")) >> wr (T "def ") >> wr (m_name m) >> wr (T "(") >>
  (match m_recv m with RNone => nop | RImm => wr (T "self") | RMut => wr (T "mut self") end) >>
  when (match m_recv m with RNone => false | _ => true end && negb (is_nil (m_params m))) (wr (T ", ")) >>
  fmt_params (m_params m) >> wr (T ") -> ") >> wr (m_ret m) >>
  match m_body m with
  | None => wln (T ": ...")
  | Some b => wln (T ":") >> ind >> fmt_body b >> ded
  end.
(* `if <blank> { newline() } format_method(m); <blank> = true` *)
Fixpoint fmt_methods (blank : bool) (ms : list method) : act :=
  match ms with [] => nop | m :: r => when blank nl >> fmt_method m >> fmt_methods true r end.

Definition fmt_ipath (p : ipath) : act :=
  (if ip_abs p then wr (T "crate") >> when (negb (is_nil (ip_segs p))) (wr (T "::"))
   else repeat_act (ip_parents p) (wr (T "super::"))) >>
  sep_by (T "::") wr (ip_segs p).
Definition fmt_iitem (i : iitem) : act := wr (ii_name i) >> opt (fun a => wr (T " as ") >> wr a) (ii_alias i).
Definition fmt_alias (alias : option text) : act := opt (fun a => wr (T " as ") >> wr a) alias.
Definition fmt_import (k : ikind) (alias : option text) : act :=
  match k with
  | IModule p => wr (T "import ") >> fmt_ipath p >> fmt_alias alias >> nl
  | IFrom p items => wr (T "from ") >> fmt_ipath p >> wr (T " import ") >> sep_by (T ", ") fmt_iitem items >> nl
  | IPython name => wr (T "import python """) >> wr name >> wr (T """") >> fmt_alias alias >> nl
  | IRustCrate c path => wr (T "import rust::") >> wr c >> each (fun s => wr (T "::") >> wr s) path >> fmt_alias alias >> nl
  | IRustFrom c path items =>
      wr (T "from rust::") >> wr c >> each (fun s => wr (T "::") >> wr s) path >> wr (T " import ") >>
      sep_by (T ", ") fmt_iitem items >> nl
  end.
Definition fmt_variant (v : variant) : act :=
  wr (v_name v) >> (match v_fields v with [] => nop | _ => wr (T "(") >> sep_by (T ", ") wr (v_fields v) >> wr (T ")") end) >> nl.
Definition fmt_docstring (t : text) : act :=
  match t with
  | [] => wln (T """""""""""""")
  | _ =>
      if existsb (Z.eqb 10) t then wln (T """""""") >> each wln (str_lines t) >> wln (T """""""")
      else wr (T """""""") >>
           (match strip_suffix_quote t with Some head => wr head >> wr (T "\""") | None => wr t end) >>
           wln (T """""""")
  end.

Definition fmt_decl (d : decl) : act :=                                      (* format_declaration *)
  match d with
  | DImport k alias => fmt_import k alias
  | DConst pub name ty v =>
      fmt_vis pub >> wr (T "const ") >> wr name >> opt (fun t => wr (T ": ") >> wr t) ty >> wr (T " = ") >> fmt_expr v >> nl
  | DModel pub decs name tps traits fields methods =>
      each fmt_decorator decs >> fmt_vis pub >> wr (T "model ") >> wr name >> fmt_type_params tps >> fmt_traits traits >>
      wln (T ":") >> ind >> each fmt_field fields >> fmt_methods (negb (is_nil fields)) methods >>
      when (is_nil fields && is_nil methods) (wln (T "pass")) >> ded
  | DClass pub decs name tps extends traits fields methods =>
      each fmt_decorator decs >> fmt_vis pub >> wr (T "class ") >> wr name >> fmt_type_params tps >>
      opt (fun b => wr (T " extends ") >> wr b) extends >> fmt_traits traits >>
      wln (T ":") >> ind >> each fmt_field fields >> fmt_methods (negb (is_nil fields)) methods >>
      when (is_nil fields && is_nil methods) (wln (T "pass")) >> ded
  | DTrait pub decs name tps methods =>
      each fmt_decorator decs >> fmt_vis pub >> wr (T "trait ") >> wr name >> fmt_type_params tps >> wln (T ":") >> ind >>
      fmt_methods false methods >> when (is_nil methods) (wln (T "pass")) >> ded
  | DNewtype pub name underlying methods =>
      fmt_vis pub >> wr (T "type ") >> wr name >> wr (T " = newtype ") >> wr underlying >>
      when (negb (is_nil methods)) (wr (T ":")) >> nl >>
      when (negb (is_nil methods)) (ind >> each (fun m => nl >> fmt_method m) methods >> ded)
  | DEnum pub name tps variants =>
      fmt_vis pub >> wr (T "enum ") >> wr name >> fmt_type_params tps >> wln (T ":") >> ind >>
      each fmt_variant variants >> when (is_nil variants) (wln (T "pass")) >> ded
  | DFunction pub decs async name tps params ret body =>
      each fmt_decorator decs >> fmt_vis pub >> when async (wr (T "async ")) >> wr (T "def ") >> wr name >>
      fmt_type_params tps >> wr (T "(") >> fmt_params params >> wr (T ") -> ") >> wr ret >> wln (T ":") >> ind >>
      fmt_body body >> ded
  | DDocstring t => fmt_docstring t
  end.

Definition is_doc (d : decl) : bool := match d with DDocstring _ => true | _ => false end.
(* format_program: blank lines BEFORE every declaration but the first: one newline after a module docstring, else blank_lines(2) *)
Fixpoint fmt_decls (first prev_doc : bool) (ds : list decl) : act :=
  match ds with
  | [] => nop
  | d :: r => when (negb first) (if prev_doc then nl else w_blank_lines 2) >> fmt_decl d >> fmt_decls false (is_doc d) r
  end.
Definition fmt_program (p : program) : act := fmt_decls true false p.

(* Formatter::new(config).format(program) *)
Definition raw_format (p : program) : text := w_finish (fmt_program p w_new).
Definition format (p : program) : text := trim_nl (raw_format p).
End Formatter.
