(* Fmt/Print.v — the printer of src/format/formatter.rs, arm by arm, for the core of Fmt/Ast.v.
   The model is "formatter, then lexer": each arm yields the TOKENS of the text the real arm writes
   (the tie compares with the real lexer run on the real formatter's output).  The one place where two
   writes fuse into one token is modelled explicitly: a slice with absent end and present step writes
   ":" ":" = the single token `::` (PColonColon), which parse_slice accepts since /repo 974c053. *)
From Coq Require Import ZArith NArith List Bool.
From Verif Require Import Fmt.Ast.
Import ListNotations.
Open Scope Z_scope.

(* identifier 0 is the spelling "_" (closure parameters get the type `_`) *)
Definition underscore : N := 0%N.

(* format_literal *)
Definition print_lit (l : lit) : list tok :=
  match l with
  | LInt z => if z <? 0 then [TOp OMinus; TInt (- z)] else [TInt z]   (* n.to_string() *)
  | LFloat id i => [TFloat id i]                                      (* format!("{:?}", f): always re-lexes as the same float *)
  | LStr id => [TStr id]                                              (* escape_string inverts the lexer's unescaping *)
  | LBytes id => [TBytes id]
  | LBool true => [TKw KTrue]
  | LBool false => [TKw KFalse]
  | LNone => [TKw KNone]
  end.

(* format_binary_op *)
Definition print_binop (o : binop) : list tok :=
  match o with
  | Add => [TOp OPlus] | Sub => [TOp OMinus] | Mul => [TOp OStar] | Div => [TOp OSlash]
  | FloorDiv => [TOp OSlashSlash] | Mod => [TOp OPercent] | Pow => [TOp OStarStar]
  | Eq => [TOp OEqEq] | NotEq => [TOp ONotEq] | Lt => [TOp OLt] | Gt => [TOp OGt]
  | LtEq => [TOp OLtEq] | GtEq => [TOp OGtEq] | And => [TKw KAnd] | Or => [TKw KOr]
  | In => [TKw KIn] | NotIn => [TKw KNot; TKw KIn] | Is => [TKw KIs]
  end.

Definition print_fld (f : fld) : tok := match f with FName n => TId n | FIdx z => TInt z end.

(* items separated by ", " *)
Fixpoint sep (xs : list (list tok)) : list tok :=
  match xs with
  | [] => []
  | [x] => x
  | x :: rest => x ++ TPu PComma :: sep rest
  end.

Fixpoint print_expr (e : expr) : list tok :=
  match e with
  | EIdent n => [TId n]
  | ELit l => print_lit l
  | ESelf => [TKw KSelf]
  | EBinary l o r => print_expr l ++ print_binop o ++ print_expr r
  | EUnary Neg x => TOp OMinus :: print_expr x
  | EUnary Not x => TKw KNot :: print_expr x
  | ECall f args =>
      print_expr f ++ TPu PLParen ::
        sep (map (fun a => match fst a with
                           | Some n => TId n :: TOp OEq :: print_expr (snd a)
                           | None => print_expr (snd a) end) args) ++ [TPu PRParen]
  | EIndex b i => print_expr b ++ TPu PLBracket :: print_expr i ++ [TPu PRBracket]
  | ESlice b s e st =>
      print_expr b ++ TPu PLBracket ::
        (match s with Some x => print_expr x | None => [] end) ++
        (match e, st with
         | None, Some x => TPu PColonColon :: print_expr x            (* ":" ":" lexes as `::` *)
         | _, _ => TPu PColon :: (match e with Some x => print_expr x | None => [] end) ++
                   (match st with Some x => TPu PColon :: print_expr x | None => [] end)
         end) ++ [TPu PRBracket]
  | EField b f => print_expr b ++ [TPu PDot; print_fld f]
  | EMethod b m args =>
      print_expr b ++ TPu PDot :: TId m :: TPu PLParen ::
        sep (map (fun a => match fst a with
                           | Some n => TId n :: TOp OEq :: print_expr (snd a)
                           | None => print_expr (snd a) end) args) ++ [TPu PRParen]
  | EAwait x => TKw KAwait :: print_expr x
  | ETry x => print_expr x ++ [TPu PQuestion]
  | ETuple es =>
      TPu PLParen :: sep (map print_expr es) ++
        (match es with [_] => [TPu PComma] | _ => [] end) ++ [TPu PRParen]
  | EList es => TPu PLBracket :: sep (map print_expr es) ++ [TPu PRBracket]
  | EDict kvs =>
      TPu PLBrace :: sep (map (fun kv => print_expr (fst kv) ++ TPu PColon :: print_expr (snd kv)) kvs) ++ [TPu PRBrace]
  | ESet es => TPu PLBrace :: sep (map print_expr es) ++ [TPu PRBrace]
  | EParen x => TPu PLParen :: print_expr x ++ [TPu PRParen]
  | ERange s e incl => print_expr s ++ TOp (if incl then ODotDotEq else ODotDot) :: print_expr e
  | EClosure ps body =>   (* closure parameters are bare names (the placeholder type `_` is not printed) *)
      TPu PLParen :: sep (map (fun n => [TId n]) ps) ++ TPu PRParen :: TPu PFatArrow :: print_expr body
  end.

Definition print_arg (a : option N * expr) : list tok :=
  match fst a with Some n => TId n :: TOp OEq :: print_expr (snd a) | None => print_expr (snd a) end.

(* moved below print_stmt: the Expr::If arm prints `if cond:` + indented bodies *)
Definition print_binding (b : binding) : list tok :=
  match b with BLet => [TKw KLet] | BMutable => [TKw KMut] | BInferred | BReassign => [] end.

Definition print_cop (c : cop) : tok :=
  TOp (match c with CAdd => OPlusEq | CSub => OMinusEq | CMul => OStarEq | CDiv => OSlashEq
               | CFloorDiv => OSlashSlashEq | CMod => OPercentEq end).

(* format_statement for the simple statements (without the final newline, which is TNewline) *)
Definition print_stmt (s : stmt) : list tok :=
  match s with
  | SExpr e => print_expr e
  | SAssign b n v => print_binding b ++ TId n :: TOp OEq :: print_expr v
  | SFieldAssign o f v => print_expr o ++ TPu PDot :: print_fld f :: TOp OEq :: print_expr v
  | SIndexAssign o i v => print_expr o ++ TPu PLBracket :: print_expr i ++ TPu PRBracket :: TOp OEq :: print_expr v
  | SCompound n c v => TId n :: print_cop c :: print_expr v
  | SReturn None => [TKw KReturn]
  | SReturn (Some e) => TKw KReturn :: print_expr e
  | SPass => [TKw KPass] | SBreak => [TKw KBreak] | SContinue => [TKw KContinue]
  end.

(* Expr::If arm (block form): `if cond:` NEWLINE INDENT body DEDENT [`else:` NEWLINE INDENT body DEDENT];
   TOther 5 / TOther 6 stand for the layout tokens Indent / Dedent, KElse is TOther 7 (simple statements only) *)
Definition print_block (b : list stmt) : list tok :=
  TPu PColon :: TNewline :: TOther 5 :: flat_map (fun s => print_stmt s ++ [TNewline]) (match b with [] => [SPass] | _ => b end) ++ [TOther 6].
Definition print_if_expr (c : expr) (then_body : list stmt) (else_body : option (list stmt)) : list tok :=
  TKw KIf :: print_expr c ++ print_block then_body ++
  match else_body with Some e => TOther 7 :: print_block e | None => [] end.

(* format_type; identifiers: 1 = "Tuple", 2 = "None", 3 = "Self" *)
Definition id_Tuple : N := 1%N.
Definition id_None : N := 2%N.
Fixpoint print_ty (t : ty) : list tok :=
  match t with
  | TySimple n => [TId n]
  | TyGeneric n args => TId n :: TPu PLBracket :: sep (map print_ty args) ++ [TPu PRBracket]
  | TyTuple ts => TPu PLParen :: sep (map print_ty ts) ++ (match ts with [_] => [TPu PComma] | _ => [] end) ++ [TPu PRParen]
  | TyFunction ps r => TPu PLParen :: sep (map print_ty ps) ++ TPu PRParen :: TPu PArrow :: print_ty r
  | TySelf => [TId 3%N]
  | TyUnit => [TPu PLParen; TPu PRParen]
  end.

(* format_param *)
Definition print_param (p : param) : list tok :=
  (if p_mut p then [TKw KMut] else []) ++ TId (p_name p) :: TPu PColon :: print_ty (p_ty p) ++
  match p_default p with Some d => TOp OEq :: print_expr d | None => [] end.

(* format_function's header: `def name[T, ..](params) -> ret:` *)
Definition print_fn_header (name : N) (type_params : list N) (params : list param) (ret : ty) : list tok :=
  TId name :: (match type_params with [] => [] | _ => TPu PLBracket :: sep (map (fun n => [TId n]) type_params) ++ [TPu PRBracket] end) ++ TPu PLParen :: sep (map print_param params) ++ TPu PRParen :: TPu PArrow :: print_ty ret ++ [TPu PColon].
