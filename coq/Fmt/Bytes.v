(* Fmt/Bytes.v — byte-string literals at CHARACTER level: the printer's escape table
   (formatter.rs format_literal, arm Literal::Bytes: always the quote the double quote) and the lexer's un-escaping
   for a literal opened with the double quote (lexer/strings.rs scan_byte_string + scan_byte_escape).
   Theorem: scanning the printed text gives back exactly the bytes, for every list of bytes.
   Characters and bytes are Z; only ASCII characters occur in the printed text. *)
From Coq Require Import ZArith List Bool Lia.
Import ListNotations.
Open Scope Z_scope.

Definition hexdigit (d : Z) : Z := if d <? 10 then 48 + d else 87 + d.       (* '0'..'9', 'a'..'f' ({:02x}) *)
Definition hexval (c : Z) : option Z :=                                       (* u8::from_str_radix(.., 16) *)
  if (48 <=? c) && (c <=? 57) then Some (c - 48)
  else if (97 <=? c) && (c <=? 102) then Some (c - 87)
  else if (65 <=? c) && (c <=? 70) then Some (c - 55)
  else None.

(* the printer: the double quote and `\` get a backslash, 32..126 are copied, everything else is \xNN *)
Definition esc_byte (b : Z) : list Z :=
  if (b =? 34) || (b =? 92) then [92; b]
  else if (32 <=? b) && (b <? 127) then [b]
  else [92; 120; hexdigit (b / 16); hexdigit (b mod 16)].
Definition escape (bs : list Z) : list Z := flat_map esc_byte bs.
Definition print_bytes (bs : list Z) : list Z := 98 :: 34 :: escape bs ++ [34].   (* b... *)

(* one step of the scanner inside a literal opened with quote q: None = error, Some (inl rest) = closing quote,
   Some (inr (decoded bytes, rest)) otherwise *)
Definition scan_step (q : Z) (cs : list Z) : option (list Z + (list Z * list Z)) :=
  match cs with
  | [] => None                                                        (* unterminated *)
  | c :: rest =>
      if c =? q then Some (inl rest)
      else if c =? 10 then None                                       (* newline in string *)
      else if c =? 92 then
        match rest with
        | [] => None
        | d :: rest2 =>
            if d =? 110 then Some (inr ([10], rest2))                 (* \n *)
            else if d =? 116 then Some (inr ([9], rest2))             (* \t *)
            else if d =? 114 then Some (inr ([13], rest2))            (* \r *)
            else if d =? 92 then Some (inr ([92], rest2))             (* \\ *)
            else if d =? 48 then Some (inr ([0], rest2))              (* \0 *)
            else if d =? 120 then                                     (* \xNN *)
              match rest2 with
              | h :: l :: rest3 =>
                  match hexval h, hexval l with
                  | Some x, Some y => Some (inr ([16 * x + y], rest3))
                  | _, _ => None
                  end
              | _ => None
              end
            else if d =? q then Some (inr ([q], rest2))               (* only the OPENING quote is un-escaped *)
            else Some (inr ([92; d], rest2))                          (* unknown escape: kept as two bytes *)
        end
      else if c <? 128 then Some (inr ([c], rest))
      else None                                                       (* non-ASCII character *)
  end.

Fixpoint scan (fuel : nat) (q : Z) (cs : list Z) : option (list Z * list Z) :=
  match fuel with
  | O => None
  | S f =>
      match scan_step q cs with
      | None => None
      | Some (inl rest) => Some ([], rest)
      | Some (inr (bs, rest)) => match scan f q rest with Some (more, r) => Some (bs ++ more, r) | None => None end
      end
  end.

Definition is_byte (b : Z) : Prop := 0 <= b < 256.

Lemma step_esc_nat : forall n rest, (n < 256)%nat ->
  scan_step 34 (esc_byte (Z.of_nat n) ++ rest) = Some (inr ([Z.of_nat n], rest)).
Proof.
  intros n rest H.
  do 256 (destruct n as [|n]; [reflexivity|]). lia.
Qed.

Lemma step_esc : forall b rest, is_byte b -> scan_step 34 (esc_byte b ++ rest) = Some (inr ([b], rest)).
Proof.
  intros b rest [H0 H1]. rewrite <- (Z2Nat.id b H0). apply step_esc_nat. lia.
Qed.

Lemma scan_escape : forall bs rest f, Forall is_byte bs -> (length bs < f)%nat ->
  scan f 34 (escape bs ++ 34 :: rest) = Some (bs, rest).
Proof.
  induction bs as [|b bs IH]; intros rest f Hb Hf.
  - destruct f as [|f]; [cbn in Hf; lia|]. reflexivity.
  - destruct f as [|f]; [cbn in Hf; lia|].
    inversion Hb as [|? ? Hb1 Hb2]; subst.
    unfold escape. cbn [flat_map]. rewrite <- app_assoc. cbn [scan].
    rewrite step_esc by exact Hb1. fold (escape bs).
    rewrite IH; [reflexivity | exact Hb2 | cbn in Hf; lia].
Qed.

(* the apostrophe is NOT un-escaped in a double-quoted literal: what the seeded escape tables get wrong *)
Lemma apostrophe_kept : forall rest, scan_step 34 (92 :: 39 :: rest) = Some (inr ([92; 39], rest)).
Proof. reflexivity. Qed.
