(* Fmt/Parse.v — executable, fuelled model of the precedence ladder of
   crates/incan_syntax/src/parser/expr.rs:
     or -> and -> not -> comparison -> range -> additive -> multiplicative -> power -> unary -> postfix -> primary
   and of the simple-statement dispatch of parser/stmts.rs.
   One Coq function per parser function (the five left-associative loops share [bloop], indexed by the
   level).  Primaries not in the core (match, if, yield, f-strings, comprehensions, keyword field names,
   tuple unpacking, chained and typed assignments) are answered [PErr]: such inputs are outside the tie. *)
From Coq Require Import ZArith NArith List Bool.
From Verif Require Import Fmt.Ast.
Import ListNotations.
Open Scope Z_scope.

Inductive pres (A : Type) := POk (a : A) | PErr | PFuel.
Arguments POk {A} a. Arguments PErr {A}. Arguments PFuel {A}.

Definition bind {A B} (x : pres A) (k : A -> pres B) : pres B :=
  match x with POk a => k a | PErr => PErr | PFuel => PFuel end.

Inductive level := LOr | LAnd | LNot | LCmp | LRange | LAdd | LMul | LPow | LUnary.

Definition next (L : level) : level :=
  match L with LOr => LAnd | LAnd => LNot | LNot => LCmp | LCmp => LRange | LRange => LAdd
             | LAdd => LMul | LMul => LPow | LPow => LUnary | LUnary => LUnary end.

(* the operator test at the head of each loop iteration *)
Definition binop_at (L : level) (ts : list tok) : option (binop * list tok) :=
  match L, ts with
  | LOr, TKw KOr :: t => Some (Or, t)
  | LAnd, TKw KAnd :: t => Some (And, t)
  | LCmp, TOp OEqEq :: t => Some (Eq, t)
  | LCmp, TOp ONotEq :: t => Some (NotEq, t)
  | LCmp, TOp OLt :: t => Some (Lt, t)
  | LCmp, TOp OGt :: t => Some (Gt, t)
  | LCmp, TOp OLtEq :: t => Some (LtEq, t)
  | LCmp, TOp OGtEq :: t => Some (GtEq, t)
  | LCmp, TKw KIn :: t => Some (In, t)
  | LCmp, TKw KNot :: TKw KIn :: t => Some (NotIn, t)
  | LCmp, TKw KIs :: t => Some (Is, t)
  | LAdd, TOp OPlus :: t => Some (Add, t)
  | LAdd, TOp OMinus :: t => Some (Sub, t)
  | LMul, TOp OStar :: t => Some (Mul, t)
  | LMul, TOp OSlashSlash :: t => Some (FloorDiv, t)
  | LMul, TOp OSlash :: t => Some (Div, t)
  | LMul, TOp OPercent :: t => Some (Mod, t)
  | _, _ => None
  end.

Definition PX := list tok -> pres (expr * list tok).

Inductive ios := IIndex (e : expr) | ISlice (s e st : option expr).

(* parse_slice (after /repo 974c053): a single `::` token means "no end", then an optional step;
   otherwise the first colon, optional end, optional (colon, optional step) *)
Definition pslice (pex : PX) (start : option expr) (ts : list tok) : pres (ios * list tok) :=
  match ts with
  | TPu PColonColon :: t1 =>
      match t1 with
      | TPu PRBracket :: _ => POk (ISlice start None None, t1)
      | _ => bind (pex t1) (fun r => POk (ISlice start None (Some (fst r)), snd r))
      end
  | TPu PColon :: t1 =>
      bind (match t1 with
            | TPu PRBracket :: _ | TPu PColon :: _ => POk (None, t1)
            | _ => bind (pex t1) (fun r => POk (Some (fst r), snd r))
            end)
        (fun r1 =>
           match snd r1 with
           | TPu PColon :: t3 =>
               match t3 with
               | TPu PRBracket :: _ => POk (ISlice start (fst r1) None, t3)
               | _ => bind (pex t3) (fun r2 => POk (ISlice start (fst r1) (Some (fst r2)), snd r2))
               end
           | t2 => POk (ISlice start (fst r1) None, t2)
           end)
  | _ => PErr
  end.

(* index_or_slice *)
Definition pindex (pex : PX) (ts : list tok) : pres (ios * list tok) :=
  match ts with
  | TPu PColon :: _ | TPu PColonColon :: _ => pslice pex None ts
  | TPu PRBracket :: _ => PErr
  | _ => bind (pex ts) (fun r =>
           match snd r with
           | TPu PColon :: _ | TPu PColonColon :: _ => pslice pex (Some (fst r)) (snd r)
           | t1 => POk (IIndex (fst r), t1)
           end)
  end.

Definition apply_ios (b : expr) (r : ios) : expr :=
  match r with IIndex i => EIndex b i | ISlice s e st => ESlice b s e st end.

(* exprs_to_params: only identifiers *)
Fixpoint to_params (es : list expr) : option (list N) :=
  match es with
  | [] => Some []
  | EIdent n :: t => match to_params t with Some ps => Some (n :: ps) | None => None end
  | _ => None
  end.

Definition expect_pu {A} (p : pu) (ts : list tok) (k : list tok -> pres A) : pres A :=
  match ts with
  | TPu q :: t => if (match p, q with
                     | PRParen, PRParen | PRBracket, PRBracket | PRBrace, PRBrace | PColon, PColon => true
                     | _, _ => false end) then k t else PErr
  | _ => PErr
  end.

Definition is_pu (p : pu) (ts : list tok) : bool :=
  match ts with
  | TPu q :: _ => match p, q with
                  | PRParen, PRParen | PRBracket, PRBracket | PRBrace, PRBrace => true
                  | _, _ => false end
  | _ => false
  end.

(* primary (and list_or_comp, dict_or_comp, paren_or_tuple), given the recursive entry points *)
Definition primary_with (pex : PX) (pel : pu -> list tok -> pres (list expr * list tok))
           (pkv : list tok -> pres (list (expr * expr) * list tok)) (ts : list tok) : pres (expr * list tok) :=
  match ts with
  | TKw KSelf :: t => POk (ESelf, t)
  | TInt z :: t => POk (ELit (LInt z), t)
  | TFloat id i :: t => POk (ELit (LFloat id i), t)
  | TStr id :: t => POk (ELit (LStr id), t)
  | TBytes id :: t => POk (ELit (LBytes id), t)
  | TKw KTrue :: t => POk (ELit (LBool true), t)
  | TKw KFalse :: t => POk (ELit (LBool false), t)
  | TKw KNone :: t => POk (ELit LNone, t)
  | TPu PLBracket :: t =>
      match t with
      | TPu PRBracket :: t1 => POk (EList [], t1)
      | _ => bind (pex t) (fun r => bind (pel PRBracket (snd r)) (fun m =>
               expect_pu PRBracket (snd m) (fun t3 => POk (EList (fst r :: fst m), t3))))
      end
  | TPu PLBrace :: t =>
      match t with
      | TPu PRBrace :: t1 => POk (EDict [], t1)
      | _ => bind (pex t) (fun r =>
               match snd r with
               | TPu PColon :: t2 =>
                   bind (pex t2) (fun v => bind (pkv (snd v)) (fun m =>
                     expect_pu PRBrace (snd m) (fun t5 => POk (EDict ((fst r, fst v) :: fst m), t5))))
               | t1 => bind (pel PRBrace t1) (fun m =>
                     expect_pu PRBrace (snd m) (fun t3 => POk (ESet (fst r :: fst m), t3)))
               end)
      end
  | TPu PLParen :: t =>
      match t with
      | TPu PRParen :: t1 =>
          match t1 with
          | TPu PFatArrow :: t2 => bind (pex t2) (fun b => POk (EClosure [] (fst b), snd b))
          | _ => POk (ETuple [], t1)
          end
      | _ => bind (pex t) (fun r =>
               match snd r with
               | TPu PComma :: _ =>
                   bind (pel PRParen (snd r)) (fun m =>
                     expect_pu PRParen (snd m) (fun t3 =>
                       match t3 with
                       | TPu PFatArrow :: t4 =>
                           match to_params (fst r :: fst m) with
                           | Some ps => bind (pex t4) (fun b => POk (EClosure ps (fst b), snd b))
                           | None => PErr
                           end
                       | _ => POk (ETuple (fst r :: fst m), t3)
                       end))
               | t1 =>
                   expect_pu PRParen t1 (fun t2 =>
                     match t2 with
                     | TPu PFatArrow :: t3 =>
                         match to_params [fst r] with
                         | Some ps => bind (pex t3) (fun b => POk (EClosure ps (fst b), snd b))
                         | None => PErr
                         end
                     | _ => POk (EParen (fst r), t2)
                     end)
               end)
      end
  | TId n :: t => POk (EIdent n, t)
  | _ => PErr
  end.

Fixpoint pe (fuel : nat) (L : level) (ts : list tok) {struct fuel} : pres (expr * list tok) :=
  match fuel with
  | O => PFuel
  | S f =>
      match L with
      | LOr | LAnd | LCmp | LAdd | LMul =>           (* or_expr, and_expr, comparison, additive, multiplicative *)
          bind (pe f (next L) ts) (fun r => bloop f L (fst r) (snd r))
      | LNot =>                                      (* not_expr *)
          match ts with
          | TKw KNot :: t => bind (pe f LNot t) (fun r => POk (EUnary Not (fst r), snd r))
          | _ => pe f LCmp ts
          end
      | LRange =>                                    (* range_expr: non-associative *)
          bind (pe f LAdd ts) (fun r =>
            match snd r with
            | TOp ODotDotEq :: t => bind (pe f LAdd t) (fun r2 => POk (ERange (fst r) (fst r2) true, snd r2))
            | TOp ODotDot :: t => bind (pe f LAdd t) (fun r2 => POk (ERange (fst r) (fst r2) false, snd r2))
            | _ => POk r
            end)
      | LPow =>                                      (* power: right-associative, left operand is a unary *)
          bind (pe f LUnary ts) (fun r =>
            match snd r with
            | TOp OStarStar :: t => bind (pe f LPow t) (fun r2 => POk (EBinary (fst r) Pow (fst r2), snd r2))
            | _ => POk r
            end)
      | LUnary =>                                    (* unary, then postfix = primary + loop *)
          match ts with
          | TOp OMinus :: t => bind (pe f LUnary t) (fun r => POk (EUnary Neg (fst r), snd r))
          | TKw KAwait :: t => bind (pe f LUnary t) (fun r => POk (EAwait (fst r), snd r))
          | _ => bind (primary_with (pe f LOr) (pelems f) (pkvs f) ts) (fun r => ploop f (fst r) (snd r))
          end
      end
  end
with bloop (fuel : nat) (L : level) (left : expr) (ts : list tok) {struct fuel} : pres (expr * list tok) :=
  match fuel with
  | O => PFuel
  | S f =>
      match binop_at L ts with
      | Some (o, t) => bind (pe f (next L) t) (fun r => bloop f L (EBinary left o (fst r)) (snd r))
      | None => POk (left, ts)
      end
  end
with ploop (fuel : nat) (e : expr) (ts : list tok) {struct fuel} : pres (expr * list tok) :=
  match fuel with
  | O => PFuel
  | S f =>
      match ts with
      | TPu PQuestion :: t => ploop f (ETry e) t
      | TPu PDot :: TInt n :: t => ploop f (EField e (FIdx n)) t
      | TPu PDot :: TId n :: TPu PLParen :: t =>
          bind (pargs f t) (fun r => expect_pu PRParen (snd r) (fun t2 => ploop f (EMethod e n (fst r)) t2))
      | TPu PDot :: TId n :: t => ploop f (EField e (FName n)) t
      | TPu PDot :: _ => PErr
      | TPu PLBracket :: t =>
          bind (pindex (pe f LOr) t) (fun r => expect_pu PRBracket (snd r) (fun t2 => ploop f (apply_ios e (fst r)) t2))
      | TPu PLParen :: t =>
          bind (pargs f t) (fun r => expect_pu PRParen (snd r) (fun t2 => ploop f (ECall e (fst r)) t2))
      | _ => POk (e, ts)
      end
  end
with pargs (fuel : nat) (ts : list tok) {struct fuel} : pres (list (option N * expr) * list tok) :=
  match fuel with
  | O => PFuel
  | S f =>
      match ts with
      | TPu PRParen :: _ => POk ([], ts)
      | TId n :: TOp OEq :: t =>
          bind (pe f LOr t) (fun r =>
            match snd r with
            | TPu PComma :: t2 => bind (pargs f t2) (fun m => POk ((Some n, fst r) :: fst m, snd m))
            | t1 => POk ([(Some n, fst r)], t1)
            end)
      | _ =>
          bind (pe f LOr ts) (fun r =>
            match snd r with
            | TPu PComma :: t2 => bind (pargs f t2) (fun m => POk ((None, fst r) :: fst m, snd m))
            | t1 => POk ([(None, fst r)], t1)
            end)
      end
  end
with pelems (fuel : nat) (close : pu) (ts : list tok) {struct fuel} : pres (list expr * list tok) :=
  match fuel with
  | O => PFuel
  | S f =>
      match ts with
      | TPu PComma :: t =>
          if is_pu close t then POk ([], t)
          else bind (pe f LOr t) (fun r => bind (pelems f close (snd r)) (fun m => POk (fst r :: fst m, snd m)))
      | _ => POk ([], ts)
      end
  end
with pkvs (fuel : nat) (ts : list tok) {struct fuel} : pres (list (expr * expr) * list tok) :=
  match fuel with
  | O => PFuel
  | S f =>
      match ts with
      | TPu PComma :: t =>
          if is_pu PRBrace t then POk ([], t)
          else bind (pe f LOr t) (fun k => expect_pu PColon (snd k) (fun t2 =>
                 bind (pe f LOr t2) (fun v => bind (pkvs f (snd v)) (fun m => POk ((fst k, fst v) :: fst m, snd m)))))
      | _ => POk ([], ts)
      end
  end.

Definition parse_expr (fuel : nat) (ts : list tok) : pres (expr * list tok) := pe fuel LOr ts.

(* ---- statements: statement(), return_stmt, assignment_stmt, assignment_or_expr_stmt ---- *)
Definition cop_of (t : tok) : option cop :=
  match t with
  | TOp OPlusEq => Some CAdd | TOp OMinusEq => Some CSub | TOp OStarEq => Some CMul
  | TOp OSlashEq => Some CDiv | TOp OSlashSlashEq => Some CFloorDiv | TOp OPercentEq => Some CMod
  | _ => None
  end.

Definition binop_of_cop (c : cop) : binop :=
  match c with CAdd => Add | CSub => Sub | CMul => Mul | CDiv => Div | CFloorDiv => FloorDiv | CMod => Mod end.

(* assignment_stmt after the optional let/mut; typed, tuple-unpack and chained forms: outside the model *)
Definition assignment_stmt (pex : PX) (b : binding) (ts : list tok) : pres (stmt * list tok) :=
  match ts with
  | TId n :: TOp OEq :: t =>
      match t with
      | TId _ :: TOp OEq :: _ => PErr                 (* chained assignment: not in the core *)
      | _ => bind (pex t) (fun r => POk (SAssign b n (fst r), snd r))
      end
  | _ => PErr
  end.

Definition parse_stmt (fuel : nat) (ts : list tok) : pres (stmt * list tok) :=
  let pex := pe fuel LOr in
  match ts with
  | TKw KReturn :: t =>
      match t with
      | TNewline :: _ | [] => POk (SReturn None, t)
      | _ => bind (pex t) (fun r => POk (SReturn (Some (fst r)), snd r))
      end
  | TKw KBreak :: t => POk (SBreak, t)
  | TKw KContinue :: t => POk (SContinue, t)
  | TKw KPass :: t => POk (SPass, t)
  | TKw KLet :: t => assignment_stmt pex BLet t
  | TKw KMut :: t => assignment_stmt pex BMutable t
  | TId n :: TOp OEq :: _ => assignment_stmt pex BInferred ts
  | TId n :: TPu PColon :: _ => PErr                  (* typed assignment: not in the core *)
  | TId n :: TPu PComma :: _ => PErr                  (* tuple unpacking: not in the core *)
  | _ =>
      match (match ts with TId n :: c :: t => match cop_of c with Some o => Some (n, o, t) | None => None end | _ => None end) with
      | Some (n, o, t) => bind (pex t) (fun r => POk (SCompound n o (fst r), snd r))
      | None =>
          bind (pex ts) (fun r =>
            match snd r with
            | TPu PComma :: _ => PErr                 (* tuple assignment: not in the core *)
            | TOp OEq :: t =>
                match fst r with
                | EField o f => bind (pex t) (fun v => POk (SFieldAssign o f (fst v), snd v))
                | EIndex o i => bind (pex t) (fun v => POk (SIndexAssign o i (fst v), snd v))
                | _ => PErr
                end
            | c :: t =>
                match cop_of c with
                | Some o =>            (* `a.f op= rhs` is desugared to `a.f = a.f op rhs`, no Paren around rhs *)
                    bind (pex t) (fun v =>
                      match fst r with
                      | EField b f => POk (SFieldAssign b f (EBinary (EField b f) (binop_of_cop o) (fst v)), snd v)
                      | EIndex b i => POk (SIndexAssign b i (EBinary (EIndex b i) (binop_of_cop o) (fst v)), snd v)
                      | EIdent n => POk (SCompound n o (fst v), snd v)
                      | _ => PErr
                      end)
                | None => POk (SExpr (fst r), snd r)
                end
            | [] => POk (SExpr (fst r), [])
            end)
      end
  end.
