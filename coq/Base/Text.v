(* Base/Text.v — documents and strings as sequences of Unicode scalar values (DESIGN §7.2).

   A document is [list ch]; a [ch] is the scalar value (code point) of one Rust [char], i.e. what
   [str::chars()] / [char_indices()] yields.  [blen c] is [char::len_utf8], [u16len c] is
   [char::len_utf16].  Byte offsets are [Z] (they flow through the usize operators of Base/I64.v).
   The correspondence harness encodes/decodes with Rust's own [char] iteration (trusted).
   Definitions and a handful of arithmetic facts only.  No axioms. *)
From Verif Require Import Base.I64.
Open Scope Z_scope.

Definition ch := Z.
Definition text := list ch.

(* a Unicode scalar value: any code point except the surrogates *)
Definition scalar (c : ch) : Prop := 0 <= c < 55296 \/ 57344 <= c < 1114112.
Definition scalarb (c : ch) : bool := ((0 <=? c) && (c <? 55296)) || ((57344 <=? c) && (c <? 1114112)).

(* UTF-8 length of one scalar (char::len_utf8) *)
Definition blen (c : ch) : Z :=
  if c <? 128 then 1 else if c <? 2048 then 2 else if c <? 65536 then 3 else 4.
(* UTF-16 length of one scalar (char::len_utf16) *)
Definition u16len (c : ch) : Z := if c <? 65536 then 1 else 2.

Definition is_nl (c : ch) : bool := c =? 10.
Definition is_cr (c : ch) : bool := c =? 13.

(* str::len(): UTF-8 byte length *)
Fixpoint text_blen (d : text) : Z :=
  match d with [] => 0 | c :: r => blen c + text_blen r end.

Lemma scalarb_spec c : scalarb c = true <-> scalar c.
Proof. unfold scalarb, scalar. lia. Qed.

Lemma blen_range c : 1 <= blen c <= 4.
Proof. unfold blen. repeat match goal with |- context [if ?b then _ else _] => destruct b end; lia. Qed.

Lemma blen_pos c : 0 < blen c.
Proof. pose proof (blen_range c). lia. Qed.

Lemma u16len_range c : 1 <= u16len c <= 2.
Proof. unfold u16len. destruct (c <? 65536); lia. Qed.

Lemma text_blen_nonneg d : 0 <= text_blen d.
Proof. induction d as [|c r IH]; cbn [text_blen]; [lia | pose proof (blen_range c); lia]. Qed.

Lemma text_blen_app p s : text_blen (p ++ s) = text_blen p + text_blen s.
Proof. induction p as [|c r IH]; cbn [text_blen app]; [lia | rewrite IH; lia]. Qed.

Lemma text_blen_length d : Z.of_nat (length d) <= text_blen d <= 4 * Z.of_nat (length d).
Proof.
  induction d as [|c r IH]; cbn [text_blen length]; [lia|].
  pose proof (blen_range c). lia.
Qed.

Lemma text_blen_zero d : text_blen d = 0 -> d = [].
Proof.
  destruct d as [|c r]; [reflexivity|]. cbn [text_blen].
  pose proof (blen_range c). pose proof (text_blen_nonneg r). lia.
Qed.
