(* Base/F64.v — IEEE-754 binary64 as the standard library's [spec_float]
   (Coq.Floats.SpecFloat: pure computation over Z, no reals, no axioms, no primitive floats).

   Rust's f64 `+ - * /` are the correctly rounded (nearest-even) operations [SFadd .. SFdiv];
   `%` is C's fmod, which is exact: it is defined here by integer remainder on aligned mantissas;
   `floor` is exact as well.  `i as f64` rounds to nearest-even: [binary_normalize]. *)
From Coq Require Import ZArith Bool Floats.SpecFloat.
Open Scope Z_scope.

Definition f64 := spec_float.
Definition prec64 : Z := 53.
Definition emax64 : Z := 1024.

Definition f64_add (a b : f64) : f64 := SFadd prec64 emax64 a b.
Definition f64_sub (a b : f64) : f64 := SFsub prec64 emax64 a b.
Definition f64_mul (a b : f64) : f64 := SFmul prec64 emax64 a b.
Definition f64_div (a b : f64) : f64 := SFdiv prec64 emax64 a b.
Definition f64_neg (a : f64) : f64 := SFopp a.
Definition f64_eqb (a b : f64) : bool := SFeqb a b.
Definition f64_ltb (a b : f64) : bool := SFltb a b.
Definition f64_leb (a b : f64) : bool := SFleb a b.

Definition f64_of_Z (z : Z) : f64 := binary_normalize prec64 emax64 z 0 false.
Definition f64_of_i64 (z : Z) : f64 := f64_of_Z z.

Definition f64_is_finite (a : f64) : bool :=
  match a with S754_zero _ | S754_finite _ _ _ => true | _ => false end.
Definition f64_is_zero (a : f64) : bool :=
  match a with S754_zero _ => true | _ => false end.
Definition f64_is_nan (a : f64) : bool :=
  match a with S754_nan => true | _ => false end.
Definition f64_sign (a : f64) : bool :=
  match a with S754_zero s | S754_infinity s | S754_finite s _ _ => s | S754_nan => false end.

(* exact remainder, sign of the dividend (C fmod / Rust `%`) *)
Definition f64_rem (x y : f64) : f64 :=
  match x, y with
  | S754_nan, _ | _, S754_nan => S754_nan
  | S754_infinity _, _ => S754_nan
  | _, S754_zero _ => S754_nan
  | S754_zero s, _ => S754_zero s
  | S754_finite _ _ _, S754_infinity _ => x
  | S754_finite sx mx ex, S754_finite _ my ey =>
      let e := Z.min ex ey in
      let X := Z.pos mx * 2 ^ (ex - e) in
      let Y := Z.pos my * 2 ^ (ey - e) in
      let R := X mod Y in
      binary_normalize prec64 emax64 (if sx then - R else R) e sx
  end.

(* exact floor *)
Definition f64_floor (x : f64) : f64 :=
  match x with
  | S754_finite s m e =>
      if 0 <=? e then x
      else
        let v := if s then - Z.pos m else Z.pos m in
        let q := v / 2 ^ (- e) in
        binary_normalize prec64 emax64 q 0 s
  | _ => x
  end.

(* bit-level encoding (IEEE interchange format), used only to exchange values with the harness *)
Definition f64_of_bits (z : Z) : f64 :=
  let s := (z / 2 ^ 63) mod 2 =? 1 in
  let e := (z / 2 ^ 52) mod 2 ^ 11 in
  let m := z mod 2 ^ 52 in
  if e =? 0 then
    (if m =? 0 then S754_zero s else S754_finite s (Z.to_pos m) (-1074))
  else if e =? 2047 then
    (if m =? 0 then S754_infinity s else S754_nan)
  else S754_finite s (Z.to_pos (m + 2 ^ 52)) (e - 1075).

(* all NaNs are printed as the canonical quiet NaN *)
Definition f64_to_bits (x : f64) : Z :=
  let sb (s : bool) := if s then 2 ^ 63 else 0 in
  match x with
  | S754_zero s => sb s
  | S754_infinity s => sb s + 2047 * 2 ^ 52
  | S754_nan => 2047 * 2 ^ 52 + 2 ^ 51
  | S754_finite s m e =>
      if Z.pos m <? 2 ^ 52 then sb s + Z.pos m
      else sb s + (e + 1075) * 2 ^ 52 + (Z.pos m - 2 ^ 52)
  end.

Definition f64_zero : f64 := S754_zero false.
