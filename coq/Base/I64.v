(* Base/I64.v — the meaning given to Rust's i64/usize operations in every model.

   Integers are unbounded [Z]; every machine operation goes through an explicit
   operator that either wraps (release build, what `incan build` produces) or traps
   (debug build, what `cargo test` runs).  No axioms. *)
From Coq Require Export ZArith List Bool Lia.
From Coq Require Import ZifyBool.
Export ListNotations.
Open Scope Z_scope.

Inductive mode := Wrap | Trap.

(* Overflow: arithmetic overflow panic; DivZero: Rust's own division-by-zero panic;
   AssertFail: a failed (debug_)assert!/clamp precondition; Raised: the code called one of the
   `raise*` helpers (a documented Incan error) at a guard the translator marked. *)
Inductive trap_kind := Overflow | DivZero | AssertFail | Raised.

Inductive res (A : Type) : Type :=
| Val (a : A)
| Trp (k : trap_kind).
Arguments Val {A} a.
Arguments Trp {A} k.

Definition bind {A B} (r : res A) (f : A -> res B) : res B :=
  match r with Val a => f a | Trp k => Trp k end.
Notation "x <- r ;; k" := (bind r (fun x => k)) (at level 61, r at next level, right associativity).
Notation "' p <- r ;; k" := (bind r (fun x => match x with p => k end))
  (at level 61, p pattern, r at next level, right associativity).
Notation "r ;;; k" := (bind r (fun _ => k)) (at level 61, right associativity).

Definition MIN64 : Z := - 2 ^ 63.
Definition MAX64 : Z := 2 ^ 63 - 1.
Definition in_i64 (z : Z) : Prop := MIN64 <= z <= MAX64.
Definition in_i64b (z : Z) : bool := (MIN64 <=? z) && (z <=? MAX64).

Definition wrap64 (z : Z) : Z := (z + 2 ^ 63) mod 2 ^ 64 - 2 ^ 63.

Definition ovf (m : mode) (z : Z) : res Z :=
  if in_i64b z then Val z else
    match m with Wrap => Val (wrap64 z) | Trap => Trp Overflow end.

Definition add64 (m : mode) (a b : Z) : res Z := ovf m (a + b).
Definition sub64 (m : mode) (a b : Z) : res Z := ovf m (a - b).
Definition mul64 (m : mode) (a b : Z) : res Z := ovf m (a * b).
Definition neg64 (m : mode) (a : Z) : res Z := ovf m (- a).

(* Rust `/` and `%` on i64: truncating; panic on zero divisor and on MIN / -1
   ("attempt to divide with overflow") in BOTH debug and release builds. *)
Definition div64 (a b : Z) : res Z :=
  if b =? 0 then Trp DivZero
  else if (a =? MIN64) && (b =? -1) then Trp Overflow
  else Val (Z.quot a b).
Definition rem64 (a b : Z) : res Z :=
  if b =? 0 then Trp DivZero
  else if (a =? MIN64) && (b =? -1) then Trp Overflow
  else Val (Z.rem a b).
(* `wrapping_rem`: panics only on zero divisor; MIN.wrapping_rem(-1) = 0. *)
Definition wrapping_rem64 (a b : Z) : res Z :=
  if b =? 0 then Trp DivZero else Val (Z.rem a b).

(* debug_assert!(c): checked only in debug builds *)
Definition dbg_assert (m : mode) (c : bool) : res unit :=
  match m with Wrap => Val tt | Trap => if c then Val tt else Trp AssertFail end.
(* `if c { raise(..) }` *)
Definition raise_if (c : bool) : res unit := if c then Trp Raised else Val tt.
(* Ord::clamp panics when min > max (both builds) *)
Definition clamp64 (x lo hi : Z) : res Z :=
  if hi <? lo then Trp AssertFail else Val (Z.max lo (Z.min x hi)).
Definition sat64 (z : Z) : Z := Z.max MIN64 (Z.min z MAX64).
Definition chk64 (z : Z) : option Z := if in_i64b z then Some z else None.
Definition abs64 (m : mode) (z : Z) : res Z := ovf m (Z.abs z).

(* usize (64-bit) *)
Definition USIZE_MOD : Z := 2 ^ 64.
Definition in_usize (z : Z) : Prop := 0 <= z < USIZE_MOD.
Definition as_usize (z : Z) : Z := z mod USIZE_MOD.          (* `i as usize` for i64 i *)
Definition as_i64 (z : Z) : Z := wrap64 z.                    (* `n as i64` for usize n *)
Definition uovf (m : mode) (z : Z) : res Z :=
  if (0 <=? z) && (z <? USIZE_MOD) then Val z else
    match m with Wrap => Val (z mod USIZE_MOD) | Trap => Trp Overflow end.
Definition uadd (m : mode) (a b : Z) : res Z := uovf m (a + b).
Definition usub (m : mode) (a b : Z) : res Z := uovf m (a - b).

Lemma in_i64b_spec z : in_i64b z = true <-> in_i64 z.
Proof. unfold in_i64b, in_i64. lia. Qed.

Lemma wrap64_id z : in_i64 z -> wrap64 z = z.
Proof.
  unfold in_i64, wrap64, MIN64, MAX64. intros H.
  rewrite Z.mod_small; lia.
Qed.

Lemma wrap64_range z : in_i64 (wrap64 z).
Proof.
  unfold in_i64, wrap64, MIN64, MAX64.
  pose proof (Z.mod_pos_bound (z + 2 ^ 63) (2 ^ 64) ltac:(lia)). lia.
Qed.

Lemma ovf_ok m z : in_i64 z -> ovf m z = Val z.
Proof. intros H. unfold ovf. apply in_i64b_spec in H. now rewrite H. Qed.

Lemma add64_ok m a b : in_i64 (a + b) -> add64 m a b = Val (a + b).
Proof. apply ovf_ok. Qed.
Lemma sub64_ok m a b : in_i64 (a - b) -> sub64 m a b = Val (a - b).
Proof. apply ovf_ok. Qed.
Lemma mul64_ok m a b : in_i64 (a * b) -> mul64 m a b = Val (a * b).
Proof. apply ovf_ok. Qed.

Lemma ovf_wrap z : ovf Wrap z = Val (wrap64 z).
Proof.
  unfold ovf. destruct (in_i64b z) eqn:E; [|reflexivity].
  apply in_i64b_spec in E. now rewrite wrap64_id.
Qed.

Lemma ovf_trap_val z v : ovf Trap z = Val v -> v = z /\ in_i64 z.
Proof.
  unfold ovf. destruct (in_i64b z) eqn:E; [|discriminate].
  intros [= <-]. split; [reflexivity|now apply in_i64b_spec].
Qed.
