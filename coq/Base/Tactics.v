(* Base/Tactics.v — proof automation shared by the kernel proofs.
   The tactics "run" a generated monadic kernel symbolically, so the proofs do not depend on the
   exact syntax rs2v produced (a harmless rewrite of the Rust keeps them green). *)
From Verif Require Import Base.I64.
From Coq Require Import ZifyBool.
Open Scope Z_scope.

Ltac unfold_ops :=
  cbv beta iota delta [bind dbg_assert raise_if wrapping_rem64 div64 rem64
                       add64 sub64 mul64 neg64 clamp64 abs64 uadd usub].

(* split on every boolean test and every overflow check that appears in the goal *)
Ltac split_ifs :=
  repeat match goal with
  | |- context [if ?c then _ else _] =>
      match c with
      | context [if _ then _ else _] => fail 1
      | _ => let E := fresh "E" in destruct c eqn:E
      end
  | |- context [match ?m with Wrap => _ | Trap => _ end] => destruct m
  end.

Ltac i64_facts := unfold in_i64, MIN64, MAX64 in *.

(* facts about truncating division/remainder of a by b (b <> 0) *)
Ltac quot_rem_facts a b :=
  pose proof (Z.quot_rem' a b);
  pose proof (Z.rem_bound_abs a b);
  pose proof (Z.quot_abs a b).
