(* C09/LayoutMain.v — lemmas: the hygiene statements of C09 for the layout model, assembled. *)
From Coq Require Import ZArith List Bool String Lia.
From Verif Require Import Fmt.Writer C09.Layout C09.LayoutSim C09.LayoutHyg C09.LayoutInk C09.LayoutText.
Import ListNotations.
Open Scope Z_scope.

Lemma format_lines : forall w p, format w p = trim_nl (render w (lines p)).
Proof. intros. unfold format. rewrite (proj1 (raw_format_lines w p)). reflexivity. Qed.

Lemma layout_no_trailing_ws : forall w p, wf_program p = true -> no_trailing_ws (format w p).
Proof.
  intros w p H. rewrite format_lines. apply ntb_sound. apply ntb_trim_nl. apply ntb_render. apply lines_ok. exact H.
Qed.

Lemma layout_no_tab : forall w p, wf_program p = true -> ~ In 9 (format w p) /\ ~ In 13 (format w p).
Proof.
  intros w p H. rewrite format_lines. destruct (render_no_tab_cr w (lines p) (lines_ok p H)) as [A B].
  split; intros X; apply in_trim_nl in X; auto.
Qed.

Lemma render_ends_lf : forall w ls, ls <> [] -> exists t, render w ls = t ++ [10].
Proof.
  intros w ls H. destruct (exists_last H) as (ls' & l & E). subst ls. destruct (render_line_lf w l) as [a Ea].
  exists (render w ls' ++ a). rewrite render_app. cbn [render flat_map]. rewrite app_nil_r, Ea, app_assoc. reflexivity.
Qed.

Lemma in_render_content : forall w ls l c, In l ls -> In c (snd l) -> In c (render w ls).
Proof.
  intros w. induction ls as [|x ls IH]; intros l c Hl Hc; [destruct Hl|]. cbn [render flat_map]. apply in_or_app.
  destruct Hl as [<-|Hl]; [left|right; eapply IH; eauto].
  destruct x as [n t]. cbn [snd] in Hc. unfold render_line. cbn [fst snd]. destruct t as [|y t]; [destruct Hc|].
  apply in_or_app. right. apply in_or_app. left. exact Hc.
Qed.

Lemma layout_ends_one : forall w p, wf_program p = true -> p <> [] -> ends_one (format w p).
Proof.
  intros w p H Hp. rewrite format_lines. destruct (lines_inky p Hp) as (l & Hin & Hl).
  apply trim_nl_ends_one.
  - apply render_ends_lf. intro E. rewrite E in Hin. destruct Hin.
  - destruct l as [n t]. cbn [snd] in Hl. destruct t as [|c t]; [congruence|]. exists c. split.
    + eapply in_render_content; [exact Hin|left; reflexivity].
    + pose proof (lines_ok p H) as F. rewrite Forall_forall in F. destruct (F _ Hin) as [Hi _]. cbn [snd] in Hi.
      destruct (inlineb_in _ c Hi ltac:(left; reflexivity)) as (N & _). exact N.
Qed.

Lemma layout_empty : forall w, format w [] = [].
Proof. reflexivity. Qed.

(* what the trim removes: final blank lines only *)
Lemma layout_trim : forall w p, exists k, render w (lines p) = format w p ++ repeat 10 k.
Proof. intros w p. rewrite format_lines. destruct (trim_nl_spec (render w (lines p))) as (k & E & _). exists k. exact E. Qed.
