(* C09/Props.v — formatting is idempotent and consistent with --check (core fragment + writer/CLI models). *)
From Coq Require Import ZArith NArith List Bool.
From Verif Require Import Fmt.Ast Fmt.Print Fmt.Parse Fmt.Wf Fmt.Roundtrip C09.Model C09.Proofs.
Import ListNotations.
Local Open Scope nat_scope.

Example C09_nonvacuous :
  ends_line {| d_cmds := [W [100%Z]; NL; IN; W [112%Z]; NL; DE]; d_doc := false |} /\
  fmt_text [{| d_cmds := [W [100%Z]; NL; IN; W [112%Z]; NL; DE]; d_doc := false |}] = [100; 10; 32; 32; 32; 32; 112; 10; 10]%Z /\
  exit_code (format_files {| check := true; diff := false |} [Same; Changed]) = 1%Z.
Proof. split; [exists [W [100%Z]; NL; IN; W [112%Z]], [DE]; split; [reflexivity|repeat constructor]|]. split; reflexivity. Qed.

(* T1  fmt (fmt x) = fmt x at the token level, for every ladder-well-formed expression
       (integral floats included: the first pass turns them into ints, the second pass changes nothing) *)
Theorem C09_fmt_idempotent : forall e fuel,
  ladder_wf e -> need e <= fuel ->
  fmt_src fuel (print_expr e) = Some (print_expr e).
Proof. exact fmt_idempotent_tokens. Qed.
Print Assumptions C09_fmt_idempotent.

(* T2  every output of format_program for a non-empty program ends in TWO newlines ... *)
Theorem C09_final_newlines_two : forall ds d0, (forall d, List.In d (d0 :: ds) -> ends_line d) ->
  ends_with (fmt_text (d0 :: ds)) [10; 10]%Z.
Proof. exact final_two_newlines. Qed.
Print Assumptions C09_final_newlines_two.

(* T3  ... so "ends in exactly one newline" is refuted by the smallest program *)
Theorem C09_ends_with_one_newline_refuted : exists ds,
  (forall d, List.In d ds -> ends_line d) /\ ds <> [] /\ ends_with (fmt_text ds) [10; 10]%Z.
Proof.
  exists [{| d_cmds := [W [112%Z]; NL]; d_doc := false |}]. split; [|split; [discriminate|exists [112%Z]; reflexivity]].
  intros d [<-|[]]. exists [W [112%Z]], []. split; [reflexivity|constructor].
Qed.
Print Assumptions C09_ends_with_one_newline_refuted.

(* T4  --check and --diff never write; plain fmt writes exactly the changed files *)
Theorem C09_check_mode_readonly : forall d fs, forallb negb (writes (format_files {| check := true; diff := d |} fs)) = true.
Proof. exact check_readonly. Qed.
Print Assumptions C09_check_mode_readonly.

Theorem C09_diff_mode_readonly : forall c fs, forallb negb (writes (format_files {| check := c; diff := true |} fs)) = true.
Proof. exact diff_readonly. Qed.
Print Assumptions C09_diff_mode_readonly.

Theorem C09_fmt_writes_exactly_changed : forall fs,
  writes (format_files {| check := false; diff := false |} fs) = map (fun s => match s with Changed => true | _ => false end) fs.
Proof. exact fmt_writes_exactly_changed. Qed.
Print Assumptions C09_fmt_writes_exactly_changed.

(* T5  --check exits 0 right after fmt when every file parses and fmt is idempotent on its outputs *)
Theorem C09_check_after_fmt_ok : forall fs, errors fs = false ->
  exit_code (format_files {| check := true; diff := false |} (after_fmt (fun _ => Same) fs)) = 0%Z.
Proof. exact check_after_fmt. Qed.
Print Assumptions C09_check_after_fmt_ok.
