(* C09/Props.v — formatting is idempotent and consistent with --check (core fragment + writer/CLI models). *)
From Coq Require Import ZArith NArith List Bool.
From Verif Require Import Fmt.Ast Fmt.Print Fmt.Parse Fmt.Wf Fmt.Roundtrip C09.Model C09.Proofs.
Import ListNotations.
Local Open Scope nat_scope.

Example C09_nonvacuous :
  ends_line {| d_cmds := [W [100%Z]; NL; IN; W [112%Z]; NL; NL; DE]; d_doc := false |} /\
  raw_text [{| d_cmds := [W [100%Z]; NL; IN; W [112%Z]; NL; NL; DE]; d_doc := false |}] = [100; 10; 32; 32; 32; 32; 112; 10; 10]%Z /\
  fmt_text [{| d_cmds := [W [100%Z]; NL; IN; W [112%Z]; NL; NL; DE]; d_doc := false |}] = [100; 10; 32; 32; 32; 32; 112; 10]%Z /\
  exit_code (format_files {| check := true; diff := false |} [Same; Changed]) = 1%Z.
Proof. split; [exists [W [100%Z]; NL; IN; W [112%Z]; NL], [DE]; split; [reflexivity|repeat constructor]|]. repeat split; reflexivity. Qed.

(* T1  fmt (fmt x) = fmt x at the token level, for every ladder-well-formed expression
       (integral floats included: the first pass turns them into ints, the second pass changes nothing) *)
Theorem C09_fmt_idempotent : forall e fuel,
  ladder_wf e -> need e <= fuel ->
  fmt_src fuel (print_expr e) = Some (print_expr e).
Proof. exact fmt_idempotent_tokens. Qed.
Print Assumptions C09_fmt_idempotent.

(* T2  every output for a non-empty program (some non-newline character) ends in EXACTLY ONE newline: every
       declaration ends its last line, format_program adds nothing, Formatter::format trims the blank lines a
       trailing `match` leaves.  (Before the repair the model proved "ends in two newlines" and refuted this.) *)
Theorem C09_ends_with_one_newline : forall ds d0, (forall d, List.In d (d0 :: ds) -> ends_line d) ->
  (exists c, List.In c (raw_text (d0 :: ds)) /\ c <> 10%Z) ->
  ends_one (fmt_text (d0 :: ds)).
Proof. exact final_one_newline. Qed.
Print Assumptions C09_ends_with_one_newline.

(* T3  regression witness: the smallest program, and one whose last statement is a `match` (two raw newlines) *)
Theorem C09_one_newline_witness :
  fmt_text [{| d_cmds := [W [112%Z]; NL]; d_doc := false |}] = [112; 10]%Z /\
  fmt_text [{| d_cmds := [W [112%Z]; NL; NL]; d_doc := false |}] = [112; 10]%Z.
Proof. split; reflexivity. Qed.
Print Assumptions C09_one_newline_witness.

(* T4  --check and --diff never write; plain fmt writes exactly the changed files *)
Theorem C09_check_mode_readonly : forall d fs, forallb negb (writes (format_files {| check := true; diff := d |} fs)) = true.
Proof. exact check_readonly. Qed.
Print Assumptions C09_check_mode_readonly.

Theorem C09_diff_mode_readonly : forall c fs, forallb negb (writes (format_files {| check := c; diff := true |} fs)) = true.
Proof. exact diff_readonly. Qed.
Print Assumptions C09_diff_mode_readonly.

Theorem C09_fmt_writes_exactly_changed : forall fs,
  writes (format_files {| check := false; diff := false |} fs) = map (fun s => match s with Changed => true | _ => false end) fs.
Proof. exact fmt_writes_exactly_changed. Qed.
Print Assumptions C09_fmt_writes_exactly_changed.

(* T5  --check exits 0 right after fmt when every file parses and fmt is idempotent on its outputs *)
Theorem C09_check_after_fmt_ok : forall fs, errors fs = false ->
  exit_code (format_files {| check := true; diff := false |} (after_fmt (fun _ => Same) fs)) = 0%Z.
Proof. exact check_after_fmt. Qed.
Print Assumptions C09_check_after_fmt_ok.

(* T6  indentation: level n is exactly n * width spaces, so a block body (level n+1) is indented STRICTLY more than
       its header (level n) for ALL n, and the writer emits exactly these prefixes *)
Theorem C09_body_indented_more :
  (forall w n, 0 < w -> length (indent_of w n) < length (indent_of w (S n))) /\
  (forall st h hs b bs, at_start st = true ->
     out (run st [W (h :: hs); NL; IN; W (b :: bs); NL]) =
     out st ++ indent_of indent_width (ind st) ++ (h :: hs) ++ [10%Z] ++ indent_of indent_width (S (ind st)) ++ (b :: bs) ++ [10%Z]).
Proof. split; [exact indent_strict | exact writer_block]. Qed.
Print Assumptions C09_body_indented_more.

(* T7  the capped-indent mutant (indentation sliced from a run of 64 spaces) is refuted: it agrees with the real
       definition up to level 16, and from level 17 on a body is no longer indented more than its header *)
Theorem C09_capped_indent_refuted :
  (forall n, n <= 16 -> capped_indent 4 64 n = indent_of 4 n) /\
  length (capped_indent 4 64 17) = length (capped_indent 4 64 16) /\
  length (indent_of 4 16) < length (indent_of 4 17).
Proof. split; [exact capped_agrees_small|]. split; [exact capped_not_strict|]. apply indent_strict. auto. Qed.
Print Assumptions C09_capped_indent_refuted.
