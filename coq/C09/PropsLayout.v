(* C09/PropsLayout.v — the hygiene half of C09 ("formatted output ends in exactly one newline and, outside string and
   docstring contents, contains no tabs or trailing whitespace") for ALL programs of the statement/declaration skeleton
   of Fmt/Writer.v, at CHARACTER level: `format w p` is the model of Formatter::new(cfg).format(p) with
   cfg.indent_width = w, FormatWriter included.  Hypothesis `wf_program p`: every opaque atom (identifier, type,
   pattern, expression text) is non-empty, has no LF / tab / CR and neither starts nor ends with a space; docstring
   text (excluded by the property itself) has no tab / CR and no space before a LF. *)
From Coq Require Import ZArith List Bool String.
From Verif Require Import Fmt.Writer C09.Layout C09.LayoutSim C09.LayoutHyg C09.LayoutInk C09.LayoutText C09.LayoutMain C09.LayoutFlush.
Import ListNotations.
Local Open Scope Z_scope.
Local Open Scope string_scope.

(* a function with a decorator, an if/else, a match with an expression arm and a block arm, a return; then a model with a
   field and a method: the hypotheses hold, and the model prints what `incan fmt` prints *)
Definition ex_prog : program :=
  [ DFunction true [{| dec_name := T "route"; dec_args := [DPos (XText (T """/x""") XNil)] |}] false (T "f") []
      [{| p_mut := false; p_name := T "n"; p_ty := T "int"; p_default := None |}] (T "int")
      (BCons (SIf (XText (T "n > 0") XNil) (BCons (SAssign BLet (T "x") None (XText (T "n - 1") XNil)) BNil) LNil (OSome (BCons SPass BNil)))
      (BCons (SExpr (XMatch (XText (T "n") XNil)
                       (ACons (AExpr (T "0") (XText (T "1") XNil)) (ACons (ABlock (T "_") (BCons (SReturn (XText (T "n") XNil)) BNil)) ANil)) XNil))
       BNil));
    DModel false [] (T "P") [] [] [{| f_pub := false; f_name := T "x"; f_ty := T "int"; f_default := None |}]
      [{| m_decs := []; m_async := false; m_name := T "get"; m_recv := RImm; m_params := []; m_ret := T "int";
          m_body := Some (BCons (SReturn (XText (T "self.x") XNil)) BNil) |}] ].

Theorem C09_layout_nonvacuous :
  wf_program ex_prog = true /\ nc_program ex_prog = true /\
  format 4 ex_prog = T "@route(""/x"")
pub def f(n: int) -> int:
    if n > 0:
        let x = n - 1
    else:
        pass
    match n:
        0 => 1
        _ =>
            return n



model P:
    x: int

    def get(self) -> int:
        return self.x
".
Proof. vm_compute. repeat split. Qed.
Print Assumptions C09_layout_nonvacuous.

(* (a) no line of the output ends in whitespace *)
Theorem C09_layout_no_trailing_whitespace : forall w p, wf_program p = true -> no_trailing_ws (format w p).
Proof. exact layout_no_trailing_ws. Qed.
Print Assumptions C09_layout_no_trailing_whitespace.

(* (b) no tab (and no CR) anywhere in the output *)
Theorem C09_layout_no_tab : forall w p, wf_program p = true -> ~ In 9%Z (format w p) /\ ~ In 13%Z (format w p).
Proof. exact layout_no_tab. Qed.
Print Assumptions C09_layout_no_tab.

(* (c) a non-empty program is printed with exactly one final newline; the empty program is printed as the empty text *)
Theorem C09_layout_ends_with_one_newline : forall w p, wf_program p = true -> p <> [] -> ends_one (format w p).
Proof. exact layout_ends_one. Qed.
Print Assumptions C09_layout_ends_with_one_newline.

Theorem C09_layout_empty_program : forall w, format w [] = [].
Proof. exact layout_empty. Qed.
Print Assumptions C09_layout_empty_program.

(* (d) indentation = nesting level * indent_width, for EVERY program (no hypothesis): the output is the rendering
       (level * w spaces ++ content ++ LF; a blank line is a bare LF) of the lines of the line-level specification, in
       which the level of a line is the syntactic nesting depth of the statement that writes it — there is no indent
       state in `lines` — up to the blank lines the end-of-file trim removes; indent() and dedent() are balanced and
       dedent's saturation at 0 is never reached with a pending level *)
Theorem C09_layout_indentation_is_nesting : forall w p,
  format w p = trim_nl (render w (lines p)) /\
  raw_format w p = render w (lines p) /\
  (exists k, render w (lines p) = (format w p ++ repeat 10%Z k)%list) /\
  lvl (fmt_program w p w_new) = 0%nat.
Proof.
  intros w p. split; [apply format_lines|]. split; [exact (proj1 (raw_format_lines w p))|].
  split; [apply layout_trim|exact (proj2 (raw_format_lines w p))].
Qed.
Print Assumptions C09_layout_indentation_is_nesting.

(* the contents of the lines: no LF / tab / CR inside, no trailing space *)
Theorem C09_layout_lines_hygienic : forall p, wf_program p = true -> Forall line_ok (lines p).
Proof. exact lines_ok. Qed.
Print Assumptions C09_layout_lines_hygienic.

(* (d, second half) the content of every line starts with a non-space character, so the leading spaces of a printed line
       are EXACTLY level * indent_width — for every program outside the class Known_C09_block_continuation (text written
       after a block-bodied `match` / `if` expression on the same logical line: the known finding fmt-match-operand and
       its generalisation to block headers).  Docstring lines are written flush left (nc_program includes that no line of
       a docstring text begins with a space; the property excludes docstring contents). *)
Theorem C09_layout_indentation_exact : forall p,
  wf_program p = true -> ~ Known_C09_block_continuation p -> Forall flush_line (lines p).
Proof.
  intros p Hw Hk. apply lines_flush; [exact Hw|]. unfold Known_C09_block_continuation in Hk.
  destruct (nc_program p); [reflexivity|exfalso; apply Hk; reflexivity].
Qed.
Print Assumptions C09_layout_indentation_exact.

(* ... and it is refuted inside the class: fmt-match-operand's witness `match a:` / `b => 1` / ` - 1` (clean atoms) prints
   the continuation at line start with indentation + " - 1": 5 leading spaces at indent_width 4 *)
Definition ex_operand : program :=
  [DFunction false [] false (T "f") [] [] (T "None")
     (BCons (SExpr (XMatch (XText (T "a") XNil) (ACons (AExpr (T "b") (XText (T "1") XNil)) ANil) (XText (T " - 1") XNil))) BNil)].
Theorem C09_layout_indentation_exact_refuted :
  exists p, wf_program p = true /\ Known_C09_block_continuation p /\
            ~ Forall flush_line (lines p) /\
            format 4 p = T "def f() -> None:
    match a:
        b => 1
     - 1
".
Proof.
  exists ex_operand. split; [reflexivity|]. split; [reflexivity|]. split; [|reflexivity].
  intro F. rewrite Forall_forall in F. specialize (F (1%nat, T " - 1")). cbv in F.
  assert (X : false = true) by (apply F; right; right; right; left; reflexivity). discriminate X.
Qed.
Print Assumptions C09_layout_indentation_exact_refuted.

(* the structural hypotheses of wf_program are needed: an import path that names nothing / an empty import list (ASTs the
   parser never builds) make the model print a line that ends in a space; both are replayed on the real Formatter by
   the check's AST-tweak cases *)
Theorem C09_layout_empty_import_refuted :
  format 4 [DImport (IModule {| ip_abs := false; ip_parents := 0; ip_segs := [] |}) None] = (T "import " ++ [10%Z])%list /\
  format 4 [DImport (IFrom {| ip_abs := false; ip_parents := 1; ip_segs := [T "x"] |} []) None] = (T "from super::x import " ++ [10%Z])%list /\
  wf_program [DImport (IModule {| ip_abs := false; ip_parents := 0; ip_segs := [] |}) None] = false /\
  wf_program [DImport (IFrom {| ip_abs := false; ip_parents := 1; ip_segs := [T "x"] |} []) None] = false.
Proof. repeat split; reflexivity. Qed.
Print Assumptions C09_layout_empty_import_refuted.
