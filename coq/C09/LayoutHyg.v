(* C09/LayoutHyg.v — lemmas: every line of the specification of a well-formed program has no LF / tab / CR and does
   not end in a space (typestate invariants Any / Clos / Start over the line state). *)
From Coq Require Import ZArith List Bool String Lia.
From Verif Require Import Fmt.Writer C09.Layout C09.LayoutSim.
Import ListNotations.
Open Scope Z_scope.

(* ================================================================== hygiene of the lines *)
Definition okline (l : line) : Prop := inlineb (snd l) = true /\ last_okb (snd l) = true.
Definition Any (s : lst) : Prop :=
  Forall okline (done s) /\ match cur s with None => True | Some (_, c) => inlineb c = true end.
Definition Clos (s : lst) : Prop :=
  Any s /\ match cur s with None => True | Some (_, c) => last_okb c = true end.
Definition Start (s : lst) : Prop := Any s /\ cur s = None.

Lemma start_clos : forall s, Start s -> Clos s.
Proof. intros s [A C]. split; [exact A|]. rewrite C. exact I. Qed.
Lemma clos_any : forall s, Clos s -> Any s.
Proof. intros s [A _]. exact A. Qed.
Lemma start_any : forall s, Start s -> Any s.
Proof. intros s [A _]. exact A. Qed.

Lemma inlineb_app : forall a b, inlineb (a ++ b) = inlineb a && inlineb b.
Proof. intros. unfold inlineb. apply forallb_app. Qed.

Lemma last_okb_app : forall a b, b <> [] -> last_okb (a ++ b) = last_okb b.
Proof.
  induction a as [|c a IH]; intros b Hb; [reflexivity|].
  cbn [app last_okb]. destruct (a ++ b) eqn:E.
  - destruct a; destruct b; try discriminate; congruence.
  - rewrite <- E. apply IH. exact Hb.
Qed.

Lemma any_lw : forall n t s, inlineb t = true -> Any s -> Any (lw n t s).
Proof.
  intros n t s Ht [D C]. unfold lw. destruct t as [|c0 t]; [split; assumption|].
  destruct (cur s) as [[m c]|]; unfold Any; cbn [done cur]; split; try exact D.
  - rewrite inlineb_app, C, Ht. reflexivity.
  - exact Ht.
Qed.

Lemma clos_lw : forall n t s, inlineb t = true -> nonemptyb t = true -> last_okb t = true -> Any s -> Clos (lw n t s).
Proof.
  intros n t s Ht Hn Hl A. split; [apply any_lw; assumption|].
  unfold lw. destruct t as [|c0 t]; [discriminate|]. destruct (cur s) as [[m c]|]; cbn [cur].
  - rewrite last_okb_app by discriminate. exact Hl.
  - exact Hl.
Qed.

Lemma start_lnl : forall s, Clos s -> Start (lnl s).
Proof.
  intros s [[D C] L]. unfold lnl. split; [|reflexivity]. unfold Any. cbn [done cur]. split; [|exact I].
  apply Forall_app. split; [exact D|]. constructor; [|constructor].
  destruct (cur s) as [[m c]|]; split; cbn [snd]; auto.
Qed.

Lemma start_lwln : forall n t s, inlineb t = true -> nonemptyb t = true -> last_okb t = true -> Any s -> Start (lwln n t s).
Proof. intros. unfold lwln, seq. apply start_lnl. apply clos_lw; assumption. Qed.

(* a whole line written from line start; the text may be empty (blank line) *)
Lemma start_lwln0 : forall n t s, inlineb t = true -> last_okb t = true -> Start s -> Start (lwln n t s).
Proof.
  intros n t s Ht Hl S. unfold lwln, seq. apply start_lnl. destruct t as [|c0 t].
  - apply start_clos. exact S.
  - apply clos_lw; auto. apply start_any; exact S.
Qed.

(* ---- side conditions *)
Lemma clean_inline : forall t, cleanb t = true -> inlineb t = true.
Proof. unfold cleanb. intros t H. repeat (apply andb_prop in H; destruct H as [H ?]). assumption. Qed.
Lemma clean_nonempty : forall t, cleanb t = true -> nonemptyb t = true.
Proof. unfold cleanb. intros t H. repeat (apply andb_prop in H; destruct H as [H ?]). assumption. Qed.
Lemma clean_last : forall t, cleanb t = true -> last_okb t = true.
Proof. unfold cleanb. intros t H. repeat (apply andb_prop in H; destruct H as [H ?]). assumption. Qed.
Lemma clean_first : forall t, cleanb t = true -> first_okb t = true.
Proof. unfold cleanb. intros t H. repeat (apply andb_prop in H; destruct H as [H ?]). assumption. Qed.

Ltac bsplit :=
  repeat match goal with
  | H : _ && _ = true |- _ => apply andb_prop in H; destruct H
  | H : true = true |- _ => clear H
  end.

Ltac side :=
  solve [ reflexivity | assumption
        | apply clean_inline; assumption | apply clean_nonempty; assumption | apply clean_last; assumption
        | match goal with |- _ (cop_text ?o) = true => destruct o; reflexivity end ].

Lemma any_binding : forall n b s, Any s -> Any (sp_binding n b s).
Proof. intros n b s A. destruct b; cbn [sp_binding nop]; try apply any_lw; auto. Qed.

Lemma start_pass_if_empty : forall n b s, Start s -> Start (sp_pass_if_empty n b s).
Proof. intros n b s A. destruct b; cbn [sp_pass_if_empty nop]; [apply start_lwln0; auto|exact A]. Qed.

(* separated list of clean atoms, non-empty: ends closable *)
Lemma any_sep_atoms : forall n sp xs first s, inlineb sp = true -> forallb cleanb xs = true -> Any s ->
  Any (sep_from (lw n) first sp (lw n) xs s).
Proof.
  intros n sp. induction xs as [|x xs IH]; intros first s Hs Hx A; [exact A|].
  cbn [forallb] in Hx. apply andb_prop in Hx. destruct Hx as [Hx1 Hx2].
  cbn [sep_from]. unfold seq. apply IH; auto. apply any_lw; [apply clean_inline; exact Hx1|].
  destruct first; cbn [negb when nop]; [exact A|apply any_lw; assumption].
Qed.

Lemma clos_sep_atoms : forall n sp xs first s, inlineb sp = true -> forallb cleanb xs = true -> nonemptyb xs = true -> Any s ->
  Clos (sep_from (lw n) first sp (lw n) xs s).
Proof.
  intros n sp. induction xs as [|x xs IH]; intros first s Hs Hx Hn A; [discriminate|].
  cbn [forallb] in Hx. apply andb_prop in Hx. destruct Hx as [Hx1 Hx2].
  cbn [sep_from]. unfold seq. destruct xs as [|y ys].
  - cbn [sep_from nop]. apply clos_lw; try side.
    destruct first; cbn [negb when nop]; [exact A|apply any_lw; assumption].
  - apply IH; auto. apply any_lw; [apply clean_inline; exact Hx1|].
    destruct first; cbn [negb when nop]; [exact A|apply any_lw; assumption].
Qed.

Ltac hy1 :=
  match goal with
  | H : Start ?s |- Start ?s => exact H
  | H : Any ?s |- Any ?s => exact H
  | H : Start ?s |- Any ?s => apply start_any; exact H
  | H : Start ?s |- Clos ?s => apply start_clos; exact H
  | |- Start (lnl _) => apply start_lnl
  | |- Clos (lnl _) => apply start_clos; apply start_lnl
  | |- Any (lnl _) => apply start_any; apply start_lnl
  | |- Start (lwln _ _ _) => apply start_lwln; [side|side|side|]
  | |- Clos (lwln _ _ _) => apply start_clos; apply start_lwln; [side|side|side|]
  | |- Any (lwln _ _ _) => apply start_any; apply start_lwln; [side|side|side|]
  | |- Clos (lw _ _ _) => apply clos_lw; [side|side|side|]
  | |- Any (lw _ _ _) => apply any_lw; [side|]
  | |- Any (nop _) => unfold nop
  | |- Clos (nop _) => unfold nop
  | |- Start (nop _) => unfold nop
  | |- Any (sp_binding _ _ _) => apply any_binding
  | |- Start (sp_pass_if_empty _ _ _) => apply start_pass_if_empty
  | |- Clos (sp_pass_if_empty _ _ _) => apply start_clos; apply start_pass_if_empty
  | |- Any (sp_pass_if_empty _ _ _) => apply start_any; apply start_pass_if_empty
  | |- Any (opt _ ?o _) => destruct o; cbn [opt optb nop] in *; bsplit
  | |- Clos (opt _ ?o _) => destruct o; cbn [opt optb nop] in *; bsplit
  | |- Any (when ?b _ _) => destruct b; cbn [when nop]
  | |- Clos (lsep_by _ _ _ _ _) => unfold lsep_by; apply clos_sep_atoms; [side|assumption|assumption|]
  | |- Any (lsep_by _ _ _ _ _) => unfold lsep_by; apply any_sep_atoms; [side|assumption|]
  (* induction hypotheses: expressions (Any -> Clos), statements and blocks (Start -> Start) *)
  | H : forall top n s, wf_expr top ?e = true -> Any s -> Clos (sp_expr n ?e s) |- Clos (sp_expr _ ?e _) => eapply H; [eassumption|]
  | H : forall top n s, wf_expr top ?e = true -> Any s -> Clos (sp_expr n ?e s) |- Any (sp_expr _ ?e _) => apply clos_any; eapply H; [eassumption|]
  | H : forall n first s, wf_exprs ?x = true -> _ -> Any s -> Clos (sp_exprs n first ?x s) |- Any (sp_exprs _ _ ?x _) =>
      apply clos_any; apply H; [assumption|assumption|]
  | H : forall n s, ?wf ?x = true -> Start s -> Start (?f n ?x s) |- Start (?f _ ?x _) => apply H; [assumption|]
  | H : forall n s, ?wf ?x = true -> Start s -> Start (?f n ?x s) |- Clos (?f _ ?x _) => apply start_clos; apply H; [assumption|]
  | H : forall n s, ?wf ?x = true -> Start s -> Start (?f n ?x s) |- Any (?f _ ?x _) => apply start_any; apply H; [assumption|]
  end.

Ltac hygo :=
  intros;
  cbn [sp_expr sp_arms sp_arm sp_block sp_stmt sp_elifs sp_oblock sp_exprs
       wf_expr wf_arms wf_arm wf_block wf_stmt wf_elifs wf_oblock wf_exprs] in *;
  fold sp_expr sp_arms sp_arm sp_block sp_stmt sp_elifs sp_oblock sp_exprs in *;
  fold wf_expr wf_arms wf_arm wf_block wf_stmt wf_elifs wf_oblock wf_exprs in *;
  bsplit; unfold seq; repeat hy1.

Lemma rest_clos : forall r (fb : bool) n s,
  (forall top n s, wf_expr top r = true -> Any s -> Clos (sp_expr n r s)) ->
  match r with XNil => fb | _ => wf_expr false r end = true ->
  (fb = true -> Clos s) -> Any s -> Clos (sp_expr n r s).
Proof.
  intros r fb n s IH H C A. destruct r; [cbn [sp_expr nop]; auto| | | |]; (eapply IH; [exact H|exact A]).
Qed.

Ltac wfx H := cbn [wf_expr] in H; fold wf_expr wf_arms wf_block in H; bsplit.
Ltac xgo := cbn [sp_expr]; fold sp_expr sp_arms sp_block; unfold seq.

Theorem hyg_skel :
  (forall e top n s, wf_expr top e = true -> Any s -> Clos (sp_expr n e s)) /\
  (forall a n s, wf_arms a = true -> Start s -> Start (sp_arms n a s)) /\
  (forall x n s, wf_arm x = true -> Start s -> Start (sp_arm n x s)) /\
  (forall b n s, wf_block b = true -> Start s -> Start (sp_block n b s)) /\
  (forall t n s, wf_stmt t = true -> Start s -> Start (sp_stmt n t s)) /\
  (forall l n s, wf_elifs l = true -> Start s -> Start (sp_elifs n l s)) /\
  (forall o n s, wf_oblock o = true -> Start s -> Start (sp_oblock n o s)) /\
  (forall es n first s, wf_exprs es = true -> (match es with ENil => false | _ => true end) = true -> Any s -> Clos (sp_exprs n first es s)).
Proof.
  apply skel_mutind.
  all: try solve [hygo].
  - intros; discriminate.
  - intros t r IHr top n s H A. wfx H. xgo.
    eapply rest_clos; [exact IHr|eassumption| |]; intros; repeat hy1.
  - intros sc IHs a IHa r IHr top n s H A. wfx H. xgo.
    eapply rest_clos; [exact IHr|eassumption| |]; intros; repeat hy1.
  - intros c IHc t IHt r IHr top n s H A. wfx H. xgo.
    eapply rest_clos; [exact IHr|eassumption| |]; intros; repeat hy1.
  - intros c IHc t IHt e IHe r IHr top n s H A. wfx H. xgo.
    eapply rest_clos; [exact IHr|eassumption| |]; intros; repeat hy1.
  - intros; discriminate.
  - intros e IHe r IHr n first s H _ A. cbn [wf_exprs] in H. fold wf_exprs in H. bsplit.
    cbn [sp_exprs]. fold sp_exprs. unfold seq. destruct r as [|e' r'].
    + cbn [sp_exprs nop]. repeat hy1.
    + apply IHr; [assumption|reflexivity|]. repeat hy1.
Qed.

(* ================================================================== declarations *)
Lemma hyg_expr : forall e top n s, wf_expr top e = true -> Any s -> Clos (sp_expr n e s).
Proof. exact (proj1 hyg_skel). Qed.
Lemma hyg_block : forall b n s, wf_block b = true -> Start s -> Start (sp_block n b s).
Proof. exact (proj1 (proj2 (proj2 (proj2 hyg_skel)))). Qed.

Lemma any_sep : forall A (wfA : A -> bool) n (g : A -> lact) sp,
  (forall a s, wfA a = true -> Any s -> Any (g a s)) -> inlineb sp = true ->
  forall xs first s, forallb wfA xs = true -> Any s -> Any (sep_from (lw n) first sp g xs s).
Proof.
  intros A wfA n g sp Hg Hs. induction xs as [|x xs IH]; intros first s Hx A0; [exact A0|].
  cbn [forallb] in Hx. apply andb_prop in Hx. destruct Hx as [Hx1 Hx2].
  cbn [sep_from]. unfold seq. apply IH; auto. apply Hg; auto.
  destruct first; cbn [negb when nop]; [exact A0|apply any_lw; assumption].
Qed.

Lemma clos_sep : forall A (wfA : A -> bool) n (g : A -> lact) sp,
  (forall a s, wfA a = true -> Any s -> Clos (g a s)) -> inlineb sp = true ->
  forall xs first s, forallb wfA xs = true -> nonemptyb xs = true -> Any s -> Clos (sep_from (lw n) first sp g xs s).
Proof.
  intros A wfA n g sp Hg Hs. induction xs as [|x xs IH]; intros first s Hx Hn A0; [discriminate|].
  cbn [forallb] in Hx. apply andb_prop in Hx. destruct Hx as [Hx1 Hx2].
  cbn [sep_from]. unfold seq.
  assert (A1 : Any (when (negb first) (lw n sp) s)).
  { destruct first; cbn [negb when nop]; [exact A0|apply any_lw; assumption]. }
  destruct xs as [|y ys].
  - cbn [sep_from nop]. apply Hg; assumption.
  - apply IH; auto. apply clos_any. apply Hg; assumption.
Qed.

Lemma start_each : forall A (wfA : A -> bool) (g : A -> lact),
  (forall a s, wfA a = true -> Start s -> Start (g a s)) ->
  forall xs s, forallb wfA xs = true -> Start s -> Start (each g xs s).
Proof.
  intros A wfA g Hg. induction xs as [|x xs IH]; intros s Hx S0; [exact S0|].
  cbn [forallb] in Hx. apply andb_prop in Hx. destruct Hx as [Hx1 Hx2].
  cbn [each]. unfold seq. apply IH; auto.
Qed.

Lemma any_each : forall A (wfA : A -> bool) (g : A -> lact),
  (forall a s, wfA a = true -> Any s -> Any (g a s)) ->
  forall xs s, forallb wfA xs = true -> Any s -> Any (each g xs s).
Proof.
  intros A wfA g Hg. induction xs as [|x xs IH]; intros s Hx S0; [exact S0|].
  cbn [forallb] in Hx. apply andb_prop in Hx. destruct Hx as [Hx1 Hx2].
  cbn [each]. unfold seq. apply IH; auto.
Qed.

Lemma clos_each : forall A (wfA : A -> bool) (g : A -> lact),
  (forall a s, wfA a = true -> Any s -> Clos (g a s)) ->
  forall xs s, forallb wfA xs = true -> Clos s -> Clos (each g xs s).
Proof.
  intros A wfA g Hg. induction xs as [|x xs IH]; intros s Hx S0; [exact S0|].
  cbn [forallb] in Hx. apply andb_prop in Hx. destruct Hx as [Hx1 Hx2].
  cbn [each]. unfold seq. apply IH; auto. apply Hg; auto. apply clos_any; exact S0.
Qed.

Lemma any_atoms_list : forall n (open sp close : text) xs s,
  inlineb open = true -> inlineb sp = true -> inlineb close = true -> forallb cleanb xs = true -> Any s ->
  Any (match xs with [] => nop | _ => lw n open >> lsep_by n sp (lw n) xs >> lw n close end s).
Proof.
  intros n o sp c xs s Ho Hs Hc Hx A0. destruct xs as [|x xs]; [exact A0|]. unfold seq, lsep_by.
  apply any_lw; [exact Hc|]. apply any_sep_atoms; auto. apply any_lw; auto.
Qed.

Lemma any_vis : forall n b s, Any s -> Any (sp_vis n b s).
Proof. intros n b s A0. destruct b; cbn [sp_vis when nop]; [apply any_lw; [reflexivity|exact A0]|exact A0]. Qed.
Lemma any_type_params : forall n l s, forallb cleanb l = true -> Any s -> Any (sp_type_params n l s).
Proof. intros. unfold sp_type_params. apply any_atoms_list; auto. Qed.
Lemma clos_type_params : forall n l s, forallb cleanb l = true -> Clos s -> Clos (sp_type_params n l s).
Proof.
  intros n l s Hl C0. unfold sp_type_params. destruct l as [|x xs]; [exact C0|]. unfold seq, lsep_by.
  apply clos_lw; try reflexivity. apply any_sep_atoms; auto. apply any_lw; [reflexivity|]. apply clos_any; exact C0.
Qed.
Lemma clos_traits : forall n l s, forallb cleanb l = true -> Clos s -> Clos (sp_traits n l s).
Proof.
  intros n l s Hl C0. unfold sp_traits. destruct l as [|x xs]; [exact C0|]. unfold seq, lsep_by.
  apply clos_sep_atoms; auto. apply any_lw; [reflexivity|]. apply clos_any; exact C0.
Qed.

Lemma any_darg : forall n a s, wf_darg a = true -> Any s -> Any (sp_darg n a s).
Proof.
  intros n a s H A0. destruct a; cbn [wf_darg sp_darg] in *; bsplit; unfold seq.
  - apply clos_any. eapply hyg_expr; eauto.
  - repeat hy1.
  - apply clos_any. eapply hyg_expr; eauto. repeat hy1.
Qed.
Lemma start_decorator : forall n d s, wf_decorator d = true -> Start s -> Start (sp_decorator n d s).
Proof.
  intros n d s H S0. unfold wf_decorator in H. bsplit. unfold sp_decorator, seq. apply start_lnl.
  destruct (dec_args d) as [|a l] eqn:E.
  - unfold nop. repeat hy1.
  - unfold seq, lsep_by. apply clos_lw; try reflexivity. apply any_sep with (wfA := wf_darg); auto.
    + intros; apply any_darg; assumption.
    + repeat hy1.
Qed.
Lemma any_param : forall n p s, wf_param p = true -> Any s -> Any (sp_param n p s).
Proof.
  intros n p s H A0. unfold wf_param in H. bsplit. unfold sp_param, seq.
  destruct (p_default p); cbn [opt optb nop] in *.
  - unfold seq. apply clos_any. eapply hyg_expr; eauto. repeat hy1.
  - repeat hy1.
Qed.
Lemma any_params : forall n ps s, forallb wf_param ps = true -> Any s -> Any (sp_params n ps s).
Proof. intros. unfold sp_params, lsep_by. apply any_sep with (wfA := wf_param); auto. intros; apply any_param; assumption. Qed.
Lemma start_field : forall n f s, wf_field f = true -> Start s -> Start (sp_field n f s).
Proof.
  intros n f s H S0. unfold wf_field in H. bsplit. unfold sp_field, seq. apply start_lnl.
  destruct (f_default f); cbn [opt optb nop] in *.
  - unfold seq. eapply hyg_expr; eauto. repeat hy1. apply any_vis. repeat hy1.
  - repeat hy1. apply any_vis. repeat hy1.
Qed.
Lemma start_body : forall n b s, wf_block b = true -> Start s -> Start (sp_body n b s).
Proof. intros n b s H S0. destruct b; [cbn [sp_body]; repeat hy1|]. unfold sp_body. apply hyg_block; assumption. Qed.
Ltac hyd1 :=
  first
  [ hy1
  | match goal with
    | |- Any (sp_params _ _ _) => apply any_params; [assumption|]
    | |- Any (sp_vis _ _ _) => apply any_vis
    | |- Any (sp_type_params _ _ _) => apply any_type_params; [assumption|]
    | |- Clos (sp_type_params _ _ _) => apply clos_type_params; [assumption|]
    | |- Clos (sp_traits _ _ _) => apply clos_traits; [assumption|]
    | |- Any (sp_traits _ _ _) => apply clos_any; apply clos_traits; [assumption|]
    | |- Start (each (sp_decorator _) _ _) => apply start_each with (wfA := wf_decorator); [intros; apply start_decorator; assumption|assumption|]
    | |- Any (each (sp_decorator _) _ _) => apply start_any
    | |- Clos (each (sp_decorator _) _ _) => apply start_clos
    | |- Any (match ?r with RNone => _ | RImm => _ | RMut => _ end _) => destruct r
    | |- Clos (sp_expr _ _ _) => eapply hyg_expr; [eassumption|]
    | |- Any (sp_expr _ _ _) => apply clos_any; eapply hyg_expr; [eassumption|]
    | |- Start (sp_body _ _ _) => apply start_body; [assumption|]
    end ].

Lemma start_method : forall n m s, wf_method m = true -> Start s -> Start (sp_method n m s).
Proof.
  intros n m s H S0. unfold wf_method in H. bsplit. unfold sp_method, seq.
  destruct (m_body m) as [b|]; cbn [optb] in *; repeat hyd1.
Qed.
Lemma start_methods : forall n ms blank s, forallb wf_method ms = true -> Start s -> Start (sp_methods n blank ms s).
Proof.
  induction ms as [|m ms IH]; intros blank s H S0; [exact S0|]. cbn [forallb] in H. bsplit.
  cbn [sp_methods]. unfold seq. apply IH; [assumption|]. apply start_method; [assumption|].
  destruct blank; cbn [when nop]; [apply start_lnl; apply start_clos|]; exact S0.
Qed.

Lemma clos_repeat : forall n t k s, inlineb t = true -> nonemptyb t = true -> last_okb t = true -> Clos s -> Clos (repeat_act k (lw n t) s).
Proof.
  induction k as [|k IH]; intros s H1 H2 H3 C0; [exact C0|]. cbn [repeat_act]. unfold seq. apply IH; auto.
  apply clos_lw; auto. apply clos_any; exact C0.
Qed.
Lemma clos_repeat_pos : forall n t k s, inlineb t = true -> nonemptyb t = true -> last_okb t = true -> k <> O -> Any s -> Clos (repeat_act k (lw n t) s).
Proof.
  intros n t k s H1 H2 H3 Hk A0. destruct k as [|k]; [congruence|]. cbn [repeat_act]. unfold seq.
  apply clos_repeat; auto. apply clos_lw; auto.
Qed.
Lemma any_repeat : forall n t k s, inlineb t = true -> Any s -> Any (repeat_act k (lw n t) s).
Proof.
  induction k as [|k IH]; intros s H1 A0; [exact A0|]. cbn [repeat_act]. unfold seq. apply IH; auto. apply any_lw; auto.
Qed.

Lemma clos_ipath : forall n p s, wf_ipath p = true -> Any s -> Clos (sp_ipath n p s).
Proof.
  intros n p s H A0. unfold wf_ipath in H. bsplit. unfold sp_ipath, seq, lsep_by.
  destruct (ip_segs p) as [|x xs] eqn:E.
  - cbn [sep_from nop is_nil negb when]. destruct (ip_abs p).
    + unfold seq, nop. apply clos_lw; try reflexivity. exact A0.
    + cbn [orb negb] in *. apply clos_repeat_pos; try reflexivity; auto.
      intro Hk. rewrite Hk in *. discriminate.
  - apply clos_sep_atoms; auto. destruct (ip_abs p).
    + unfold seq. cbn [is_nil negb when]. repeat hy1.
    + apply any_repeat; [reflexivity|exact A0].
Qed.
Lemma clos_iitem : forall n i s, wf_iitem i = true -> Any s -> Clos (sp_iitem n i s).
Proof.
  intros n i s H A0. unfold wf_iitem in H. bsplit. unfold sp_iitem, seq.
  destruct (ii_alias i); cbn [opt optb nop] in *; unfold seq; repeat hy1.
Qed.
Lemma clos_alias : forall n a s, optb cleanb a = true -> Clos s -> Clos (sp_alias n a s).
Proof.
  intros n a s H C0. unfold sp_alias. destruct a; cbn [opt optb nop] in *; [|exact C0]. unfold seq. repeat hy1. apply clos_any; exact C0.
Qed.
Lemma start_import : forall n k a s, wf_import k = true -> optb cleanb a = true -> Start s -> Start (sp_import n k a s).
Proof.
  intros n k a s H Ha S0. destruct k; cbn [wf_import sp_import] in *; bsplit; unfold seq; apply start_lnl.
  - apply clos_alias; [assumption|]. apply clos_ipath; [assumption|]. repeat hy1.
  - unfold lsep_by. apply clos_sep with (wfA := wf_iitem); auto; try (intros; apply clos_iitem; assumption).
    repeat hy1. apply clos_any. apply clos_ipath; [assumption|]. repeat hy1.
  - apply clos_alias; [assumption|]. apply clos_lw; try reflexivity. destruct name as [|c0 nm].
    + cbn [lw]. repeat hy1.
    + repeat hy1.
  - apply clos_alias; [assumption|]. apply clos_each with (wfA := cleanb); auto.
    + intros x s0 Hx A1. unfold seq. repeat hy1.
    + repeat hy1.
  - unfold lsep_by. apply clos_sep with (wfA := wf_iitem); auto; try (intros; apply clos_iitem; assumption).
    repeat hy1. apply any_each with (wfA := cleanb); auto.
    + intros x s0 Hx A1. unfold seq. repeat hy1.
    + repeat hy1.
Qed.
Lemma start_variant : forall n v s, wf_variant v = true -> Start s -> Start (sp_variant n v s).
Proof.
  intros n v s H S0. unfold wf_variant in H. bsplit. unfold sp_variant, seq. apply start_lnl.
  destruct (v_fields v) as [|x xs] eqn:E.
  - unfold nop. repeat hy1.
  - unfold seq, lsep_by. apply clos_lw; try reflexivity. apply any_sep_atoms; auto. repeat hy1.
Qed.

(* ---- docstrings *)
Definition okc (c : Z) : bool := negb (c =? 9) && negb (c =? 13).
Definition okl (l : text) : Prop := inlineb l = true /\ last_okb l = true.

Lemma inlineb_rev : forall t, inlineb (rev t) = inlineb t.
Proof.
  induction t as [|c t IH]; [reflexivity|]. cbn [rev]. rewrite inlineb_app, IH. cbn. rewrite andb_true_r. apply andb_comm.
Qed.
Lemma last_okb_rev_cons : forall c x, last_okb (rev (c :: x)) = negb (c =? 32).
Proof. intros. cbn [rev]. rewrite last_okb_app by discriminate. reflexivity. Qed.

Lemma str_lines_ok : forall t cur_rev,
  inlineb cur_rev = true -> forallb okc t = true -> no_trailb t = true ->
  match cur_rev with c :: _ => c = 32 -> match t with [] => False | d :: _ => d <> 10 end | [] => True end ->
  Forall okl (str_lines_from cur_rev t).
Proof.
  induction t as [|c r IH]; intros cr Hc Ht Hn Hp.
  - cbn [str_lines_from]. destruct cr as [|d x]; [constructor|]. constructor; [|constructor]. split.
    + rewrite inlineb_rev. exact Hc.
    + rewrite last_okb_rev_cons. destruct (d =? 32) eqn:E; [|reflexivity]. apply Z.eqb_eq in E. destruct (Hp E).
  - cbn [str_lines_from]. cbn [forallb] in Ht. apply andb_prop in Ht. destruct Ht as [Ht1 Ht2].
    cbn [no_trailb] in Hn. apply andb_prop in Hn. destruct Hn as [Hn1 Hn2].
    destruct (c =? 10) eqn:E10.
    + apply Z.eqb_eq in E10. subst c. constructor.
      * destruct cr as [|d x]; [split; reflexivity|].
        assert (Hd : (d =? 13) = false).
        { cbn [inlineb forallb] in Hc. apply andb_prop in Hc. destruct Hc as [Hc1 _]. unfold inlinec in Hc1.
          apply andb_prop in Hc1. destruct Hc1 as [_ Hc1]. apply negb_true_iff in Hc1. exact Hc1. }
        rewrite Hd. split; [rewrite inlineb_rev; exact Hc|]. rewrite last_okb_rev_cons.
        destruct (d =? 32) eqn:E; [|reflexivity]. apply Z.eqb_eq in E. exfalso. apply (Hp E). reflexivity.
      * apply IH; auto.
    + apply IH; auto.
      * cbn [inlineb forallb]. fold (inlineb cr). rewrite Hc, andb_true_r. unfold inlinec, okc in *. rewrite E10.
        apply andb_prop in Ht1. destruct Ht1 as [A B]. rewrite A, B. reflexivity.
      * intros E32. subst c. cbn in Hn1. destruct r as [|d r']; [discriminate|]. apply negb_true_iff in Hn1.
        apply Z.eqb_neq. exact Hn1.
Qed.

Lemma no_lf_inline : forall t, forallb okc t = true -> existsb (Z.eqb 10) t = false -> inlineb t = true.
Proof.
  induction t as [|c t IH]; intros H1 H2; [reflexivity|]. cbn [forallb existsb] in *.
  apply andb_prop in H1. destruct H1 as [A B]. apply orb_false_elim in H2. destruct H2 as [C D].
  cbn [inlineb forallb]. fold (inlineb t). rewrite IH by assumption. unfold inlinec, okc in *.
  apply andb_prop in A. destruct A as [A1 A2]. rewrite Z.eqb_sym in C. rewrite C, A1, A2. reflexivity.
Qed.

Lemma strip_suffix_quote_some : forall t h, strip_suffix_quote t = Some h -> t = h ++ [34].
Proof.
  intros t h H. unfold strip_suffix_quote in H. destruct (rev t) as [|c r] eqn:E; [discriminate|].
  destruct (c =? 34) eqn:Ec; [|discriminate]. apply Z.eqb_eq in Ec. subst c. inversion H; subst h.
  rewrite <- (rev_involutive t), E. reflexivity.
Qed.

Lemma start_docstring : forall n t s, wf_doc t = true -> Start s -> Start (sp_docstring n t s).
Proof.
  intros n t s H S0. unfold wf_doc in H. apply andb_prop in H. destruct H as [H1 H2].
  unfold sp_docstring. destruct t as [|c t]; [repeat hy1|]. fold okc in H1.
  destruct (existsb (Z.eqb 10) (c :: t)) eqn:E; unfold seq.
  - apply start_lwln; try reflexivity. apply start_any.
    assert (L : Forall okl (str_lines (c :: t))) by (apply str_lines_ok; auto; reflexivity).
    assert (G : forall ls s0, Forall okl ls -> Start s0 -> Start (each (lwln n) ls s0)).
    { induction ls as [|l ls IH]; intros s0 F S1; [exact S1|]. inversion F as [|? ? [Fa Fb] F']; subst.
      cbn [each]. unfold seq. apply IH; [assumption|]. apply start_lwln0; assumption. }
    apply G; [exact L|]. repeat hy1.
  - assert (I0 : inlineb (c :: t) = true) by (apply no_lf_inline; assumption).
    apply start_lwln; try reflexivity. destruct (strip_suffix_quote (c :: t)) as [h|] eqn:Es.
    + apply strip_suffix_quote_some in Es. rewrite Es, inlineb_app in I0. apply andb_prop in I0. destruct I0 as [Ih _].
      unfold seq. repeat hy1.
    + repeat hy1.
Qed.

Ltac hyd2 :=
  first
  [ hyd1
  | match goal with
    | |- Start (sp_methods _ _ _ _) => apply start_methods; [assumption|]
    | |- Start (each (sp_field _) _ _) => apply start_each with (wfA := wf_field); [intros; apply start_field; assumption|assumption|]
    | |- Start (each (sp_variant _) _ _) => apply start_each with (wfA := wf_variant); [intros; apply start_variant; assumption|assumption|]
    | |- Any (sp_methods _ _ _ _) => apply start_any
    | |- Any (each (sp_field _) _ _) => apply start_any
    | |- Any (each (sp_variant _) _ _) => apply start_any
    | |- Start (when ?b _ _) => destruct b; cbn [when nop]
    | |- Clos (when ?b _ _) => destruct b; cbn [when nop]
    | |- Clos (opt _ ?o _) => destruct o; cbn [opt optb nop] in *; unfold seq
    end ].

Lemma start_decl : forall d s, wf_decl d = true -> Start s -> Start (sp_decl d s).
Proof.
  intros d s H S0. destruct d; cbn [wf_decl sp_decl] in *; bsplit; unfold seq.
  - apply start_import; assumption.
  - repeat hyd2.
  - repeat hyd2.
  - repeat hyd2.
  - repeat hyd2.
  - destruct (negb (is_nil methods)); cbn [when nop]; unfold seq.
    + apply start_each with (wfA := wf_method); [|assumption|].
      * intros m s0 Hm S1. unfold seq. apply start_method; [assumption|]. repeat hy1.
      * repeat hyd2.
    + repeat hyd2.
  - repeat hyd2.
  - repeat hyd2.
  - apply start_docstring; assumption.
Qed.

Lemma start_decls : forall ds first prev s, forallb wf_decl ds = true -> Start s -> Start (sp_decls first prev ds s).
Proof.
  induction ds as [|d ds IH]; intros first prev s H S0; [exact S0|]. cbn [forallb] in H. bsplit.
  cbn [sp_decls]. unfold seq. apply IH; [assumption|]. apply start_decl; [assumption|].
  destruct first; cbn [negb when nop]; [exact S0|]. destruct prev; unfold seq; repeat hy1.
Qed.

Lemma start_new : Start l_new.
Proof. split; [split; [constructor|exact I]|reflexivity]. Qed.

Theorem lines_ok : forall p, wf_program p = true -> Forall okline (lines p).
Proof. intros p H. unfold lines. apply (start_decls p true false l_new H start_new). Qed.
