(* C09/Layout.v — definitions only (no lemmas).
   The independent specification the layout model (Fmt/Writer.v) is proved against:
   (1) a LINE-level reading of the formatter: the output is a list of lines (nesting level, content); the level is an
       explicit argument of the specification that grows by one exactly where the syntax nests (body of a block
       header, arms of a match, body of an arm) — there is no indent/dedent state.  `sp_*` mirrors `fmt_*`.
   (2) rendering of lines to characters: level n, content c  |->  n * indent_width spaces ++ c ++ LF; blank line |-> LF.
   (3) the hypotheses on the opaque atoms (`clean`: non-empty, no LF/tab/CR, no leading or trailing space) and on the
       structure (`wf_*`), the class of programs in which text follows a block-bodied expression on the same logical
       line (`Known_C09_block_continuation`, the known finding fmt-match-operand generalised), and the hygiene
       predicates of property C09. *)
From Coq Require Import ZArith List Bool String.
From Verif Require Import Fmt.Writer.
Import ListNotations.
Open Scope Z_scope.

(* ------------------------------------------------------------------ lines *)
Definition line := (nat * text)%type.              (* (nesting level, content); content [] = blank line *)
Record lst := { done : list line; cur : option line }.          (* finished lines, the line being written *)
Definition l_new : lst := {| done := []; cur := None |}.
Definition lact := lst -> lst.

(* write t at nesting level n: starts a line at level n if none is open, else extends the open line *)
Definition lw (n : nat) (t : text) : lact := fun s =>
  match t with
  | [] => s
  | _ => match cur s with
         | None => {| done := done s; cur := Some (n, t) |}
         | Some (m, c) => {| done := done s; cur := Some (m, c ++ t) |}
         end
  end.
Definition lnl : lact := fun s =>
  {| done := done s ++ [match cur s with None => (0%nat, []) | Some l => l end]; cur := None |}.
Definition lwln (n : nat) (t : text) : lact := lw n t >> lnl.

Definition render_line (w : nat) (l : line) : text :=
  match snd l with [] => [10] | _ => spaces (fst l * w) ++ snd l ++ [10] end.
Definition render (w : nat) (ls : list line) : text := flat_map (render_line w) ls.

(* ------------------------------------------------------------------ the line-level specification *)
Definition lsep_by {A} (n : nat) := @sep_from lst A (lw n) true.
Definition sp_binding (n : nat) (b : binding) : lact :=
  match b with BLet => lw n (T "let ") | BMutable => lw n (T "mut ") | BInferred | BReassign => nop end.
Definition sp_pass_if_empty (n : nat) (b : block) : lact := match b with BNil => lwln n (T "pass") | _ => nop end.

Fixpoint sp_expr (n : nat) (e : expr) {struct e} : lact :=
  match e with
  | XNil => nop
  | XText t r => lw n t >> sp_expr n r
  | XMatch s a r => lw n (T "match ") >> sp_expr n s >> lwln n (T ":") >> sp_arms (S n) a >> sp_expr n r
  | XIf c t r =>
      lw n (T "if ") >> sp_expr n c >> lwln n (T ":") >> sp_block (S n) t >> sp_pass_if_empty (S n) t >> sp_expr n r
  | XIfElse c t e r =>
      lw n (T "if ") >> sp_expr n c >> lwln n (T ":") >> sp_block (S n) t >> sp_pass_if_empty (S n) t >>
      lwln n (T "else:") >> sp_block (S n) e >> sp_pass_if_empty (S n) e >> sp_expr n r
  end
with sp_arms (n : nat) (a : arms) {struct a} : lact :=
  match a with ANil => nop | ACons x r => sp_arm n x >> sp_arms n r end
with sp_arm (n : nat) (x : arm) {struct x} : lact :=
  match x with
  | AGuardExpr p g b =>
      lw n (T "case ") >> lw n p >> lw n (T " if ") >> sp_expr n g >> lwln n (T ":") >> sp_expr (S n) b >> lnl
  | AGuardBlock p g b =>
      lw n (T "case ") >> lw n p >> lw n (T " if ") >> sp_expr n g >> lwln n (T ":") >> sp_block (S n) b >> sp_pass_if_empty (S n) b
  | AExpr p b => lw n p >> lw n (T " =>") >> lw n (T " ") >> sp_expr n b >> lnl
  | ABlock p b => lw n p >> lw n (T " =>") >> lnl >> sp_block (S n) b
  end
with sp_block (n : nat) (b : block) {struct b} : lact :=
  match b with BNil => nop | BCons s r => sp_stmt n s >> sp_block n r end
with sp_stmt (n : nat) (s : stmt) {struct s} : lact :=
  match s with
  | SExpr e => sp_expr n e >> lnl
  | SAssign b name ty v =>
      sp_binding n b >> lw n name >> opt (fun t => lw n (T ": ") >> lw n t) ty >> lw n (T " = ") >> sp_expr n v >> lnl
  | SFieldAssign obj field v => sp_expr n obj >> lw n (T ".") >> lw n field >> lw n (T " = ") >> sp_expr n v >> lnl
  | SIndexAssign obj idx v => sp_expr n obj >> lw n (T "[") >> sp_expr n idx >> lw n (T "] = ") >> sp_expr n v >> lnl
  | SCompound name op v => lw n name >> lw n (T " ") >> lw n (cop_text op) >> lw n (T " ") >> sp_expr n v >> lnl
  | SReturn0 => lw n (T "return") >> lnl
  | SReturn e => lw n (T "return") >> lw n (T " ") >> sp_expr n e >> lnl
  | SIf c t el e =>
      lw n (T "if ") >> sp_expr n c >> lwln n (T ":") >> sp_block (S n) t >> sp_pass_if_empty (S n) t >>
      sp_elifs n el >> sp_oblock n e
  | SWhile c b => lw n (T "while ") >> sp_expr n c >> lwln n (T ":") >> sp_block (S n) b >> sp_pass_if_empty (S n) b
  | SFor var it b =>
      lw n (T "for ") >> lw n var >> lw n (T " in ") >> sp_expr n it >> lwln n (T ":") >> sp_block (S n) b >> sp_pass_if_empty (S n) b
  | SPass => lwln n (T "pass")
  | SBreak => lwln n (T "break")
  | SContinue => lwln n (T "continue")
  | STupleUnpack b names v => sp_binding n b >> lsep_by n (T ", ") (lw n) names >> lw n (T " = ") >> sp_expr n v >> lnl
  | STupleAssign targets v => sp_exprs n true targets >> lw n (T " = ") >> sp_expr n v >> lnl
  | SChained b targets v => sp_binding n b >> lsep_by n (T " = ") (lw n) targets >> lw n (T " = ") >> sp_expr n v >> lnl
  end
with sp_elifs (n : nat) (l : elifs) {struct l} : lact :=
  match l with
  | LNil => nop
  | LCons c b r => lw n (T "elif ") >> sp_expr n c >> lwln n (T ":") >> sp_block (S n) b >> sp_pass_if_empty (S n) b >> sp_elifs n r
  end
with sp_oblock (n : nat) (o : oblock) {struct o} : lact :=
  match o with
  | ONone => nop
  | OSome b => lwln n (T "else:") >> sp_block (S n) b >> sp_pass_if_empty (S n) b
  end
with sp_exprs (n : nat) (first : bool) (es : exprs) {struct es} : lact :=
  match es with
  | ENil => nop
  | ECons e r => when (negb first) (lw n (T ", ")) >> sp_expr n e >> sp_exprs n false r
  end.

(* ---- declarations: always at level 0; fields / methods / variants at 1; method bodies at 2 *)
Definition sp_vis (n : nat) (pub : bool) : lact := when pub (lw n (T "pub ")).
Definition sp_type_params (n : nat) (tps : list text) : lact :=
  match tps with [] => nop | _ => lw n (T "[") >> lsep_by n (T ", ") (lw n) tps >> lw n (T "]") end.
Definition sp_traits (n : nat) (traits : list text) : lact :=
  match traits with [] => nop | _ => lw n (T " with ") >> lsep_by n (T ", ") (lw n) traits end.
Definition sp_darg (n : nat) (a : darg) : lact :=
  match a with
  | DPos e => sp_expr n e
  | DNamedTy nm ty => lw n nm >> lw n (T ": ") >> lw n ty
  | DNamedExpr nm e => lw n nm >> lw n (T "=") >> sp_expr n e
  end.
Definition sp_decorator (n : nat) (d : decorator) : lact :=
  lw n (T "@") >> lw n (dec_name d) >>
  (match dec_args d with [] => nop | _ => lw n (T "(") >> lsep_by n (T ", ") (sp_darg n) (dec_args d) >> lw n (T ")") end) >> lnl.
Definition sp_param (n : nat) (p : param) : lact :=
  when (p_mut p) (lw n (T "mut ")) >> lw n (p_name p) >> lw n (T ": ") >> lw n (p_ty p) >>
  opt (fun e => lw n (T " = ") >> sp_expr n e) (p_default p).
Definition sp_params (n : nat) (ps : list param) : lact := lsep_by n (T ", ") (sp_param n) ps.
Definition sp_field (n : nat) (f : field) : lact :=
  sp_vis n (f_pub f) >> lw n (f_name f) >> lw n (T ": ") >> lw n (f_ty f) >> opt (fun e => lw n (T " = ") >> sp_expr n e) (f_default f) >> lnl.
Definition sp_body (n : nat) (b : block) : lact := match b with BNil => lwln n (T "pass") | _ => sp_block n b end.
Definition sp_method (n : nat) (m : method) : lact :=
  each (sp_decorator n) (m_decs m) >> when (m_async m) (lw n (T "async ")) >> lw n (T "def ") >> lw n (m_name m) >> lw n (T "(") >>
  (match m_recv m with RNone => nop | RImm => lw n (T "self") | RMut => lw n (T "mut self") end) >>
  when (match m_recv m with RNone => false | _ => true end && negb (is_nil (m_params m))) (lw n (T ", ")) >>
  sp_params n (m_params m) >> lw n (T ") -> ") >> lw n (m_ret m) >>
  match m_body m with
  | None => lwln n (T ": ...")
  | Some b => lwln n (T ":") >> sp_body (S n) b
  end.
Fixpoint sp_methods (n : nat) (blank : bool) (ms : list method) : lact :=
  match ms with [] => nop | m :: r => when blank lnl >> sp_method n m >> sp_methods n true r end.

Definition sp_ipath (n : nat) (p : ipath) : lact :=
  (if ip_abs p then lw n (T "crate") >> when (negb (is_nil (ip_segs p))) (lw n (T "::"))
   else repeat_act (ip_parents p) (lw n (T "super::"))) >>
  lsep_by n (T "::") (lw n) (ip_segs p).
Definition sp_iitem (n : nat) (i : iitem) : lact := lw n (ii_name i) >> opt (fun a => lw n (T " as ") >> lw n a) (ii_alias i).
Definition sp_alias (n : nat) (alias : option text) : lact := opt (fun a => lw n (T " as ") >> lw n a) alias.
Definition sp_import (n : nat) (k : ikind) (alias : option text) : lact :=
  match k with
  | IModule p => lw n (T "import ") >> sp_ipath n p >> sp_alias n alias >> lnl
  | IFrom p items => lw n (T "from ") >> sp_ipath n p >> lw n (T " import ") >> lsep_by n (T ", ") (sp_iitem n) items >> lnl
  | IPython name => lw n (T "import python """) >> lw n name >> lw n (T """") >> sp_alias n alias >> lnl
  | IRustCrate c path => lw n (T "import rust::") >> lw n c >> each (fun s => lw n (T "::") >> lw n s) path >> sp_alias n alias >> lnl
  | IRustFrom c path items =>
      lw n (T "from rust::") >> lw n c >> each (fun s => lw n (T "::") >> lw n s) path >> lw n (T " import ") >>
      lsep_by n (T ", ") (sp_iitem n) items >> lnl
  end.
Definition sp_variant (n : nat) (v : variant) : lact :=
  lw n (v_name v) >> (match v_fields v with [] => nop | _ => lw n (T "(") >> lsep_by n (T ", ") (lw n) (v_fields v) >> lw n (T ")") end) >> lnl.
Definition sp_docstring (n : nat) (t : text) : lact :=
  match t with
  | [] => lwln n (T """""""""""""")
  | _ =>
      if existsb (Z.eqb 10) t then lwln n (T """""""") >> each (lwln n) (str_lines t) >> lwln n (T """""""")
      else lw n (T """""""") >>
           (match strip_suffix_quote t with Some head => lw n head >> lw n (T "\""") | None => lw n t end) >>
           lwln n (T """""""")
  end.

Definition sp_decl (d : decl) : lact :=
  match d with
  | DImport k alias => sp_import 0 k alias
  | DConst pub name ty v =>
      sp_vis 0 pub >> lw 0 (T "const ") >> lw 0 name >> opt (fun t => lw 0 (T ": ") >> lw 0 t) ty >> lw 0 (T " = ") >> sp_expr 0 v >> lnl
  | DModel pub decs name tps traits fields methods =>
      each (sp_decorator 0) decs >> sp_vis 0 pub >> lw 0 (T "model ") >> lw 0 name >> sp_type_params 0 tps >> sp_traits 0 traits >>
      lwln 0 (T ":") >> each (sp_field 1) fields >> sp_methods 1 (negb (is_nil fields)) methods >>
      when (is_nil fields && is_nil methods) (lwln 1 (T "pass"))
  | DClass pub decs name tps extends traits fields methods =>
      each (sp_decorator 0) decs >> sp_vis 0 pub >> lw 0 (T "class ") >> lw 0 name >> sp_type_params 0 tps >>
      opt (fun b => lw 0 (T " extends ") >> lw 0 b) extends >> sp_traits 0 traits >>
      lwln 0 (T ":") >> each (sp_field 1) fields >> sp_methods 1 (negb (is_nil fields)) methods >>
      when (is_nil fields && is_nil methods) (lwln 1 (T "pass"))
  | DTrait pub decs name tps methods =>
      each (sp_decorator 0) decs >> sp_vis 0 pub >> lw 0 (T "trait ") >> lw 0 name >> sp_type_params 0 tps >> lwln 0 (T ":") >>
      sp_methods 1 false methods >> when (is_nil methods) (lwln 1 (T "pass"))
  | DNewtype pub name underlying methods =>
      sp_vis 0 pub >> lw 0 (T "type ") >> lw 0 name >> lw 0 (T " = newtype ") >> lw 0 underlying >>
      when (negb (is_nil methods)) (lw 0 (T ":")) >> lnl >>
      when (negb (is_nil methods)) (each (fun m => lnl >> sp_method 1 m) methods)
  | DEnum pub name tps variants =>
      sp_vis 0 pub >> lw 0 (T "enum ") >> lw 0 name >> sp_type_params 0 tps >> lwln 0 (T ":") >>
      each (sp_variant 1) variants >> when (is_nil variants) (lwln 1 (T "pass"))
  | DFunction pub decs async name tps params ret body =>
      each (sp_decorator 0) decs >> sp_vis 0 pub >> when async (lw 0 (T "async ")) >> lw 0 (T "def ") >> lw 0 name >>
      sp_type_params 0 tps >> lw 0 (T "(") >> sp_params 0 params >> lw 0 (T ") -> ") >> lw 0 ret >> lwln 0 (T ":") >>
      sp_body 1 body
  | DDocstring t => sp_docstring 0 t
  end.

(* blank lines between declarations: one after a module docstring, two otherwise *)
Fixpoint sp_decls (first prev_doc : bool) (ds : list decl) : lact :=
  match ds with
  | [] => nop
  | d :: r => when (negb first) (if prev_doc then lnl else lnl >> lnl) >> sp_decl d >> sp_decls false (is_doc d) r
  end.
Definition sp_program (p : program) : lact := sp_decls true false p.

(* the lines of a program (before the end-of-file trim), with the nesting level of every line *)
Definition lines (p : program) : list line := done (sp_program p l_new).

(* ------------------------------------------------------------------ hypotheses on atoms *)
Definition inlinec (c : Z) : bool := negb (c =? 10) && negb (c =? 9) && negb (c =? 13).
Definition inlineb (t : text) : bool := forallb inlinec t.
Fixpoint last_okb (t : text) : bool :=                            (* does not end in a space *)
  match t with [] => true | c :: r => match r with [] => negb (c =? 32) | _ => last_okb r end end.
Definition first_okb (t : text) : bool := match t with c :: _ => negb (c =? 32) | [] => true end.
Definition nonemptyb {A} (l : list A) : bool := negb (is_nil l).
(* the hypothesis on identifiers / types / patterns / single-line expression texts:
   non-empty, no LF, no tab, no CR, no leading and no trailing space *)
Definition cleanb (t : text) : bool := nonemptyb t && inlineb t && first_okb t && last_okb t.
Definition optb {A} (f : A -> bool) (o : option A) : bool := match o with Some a => f a | None => true end.

(* expressions: every text stretch is non-empty and has no LF/tab/CR; the expression does not begin with a space
   (top = the stretch is the first thing the expression writes) and does not end in one *)
Fixpoint wf_expr (top : bool) (e : expr) {struct e} : bool :=
  match e with
  | XNil => false
  | XText t r => nonemptyb t && inlineb t && (if top then first_okb t else true) &&
                 (match r with XNil => last_okb t | _ => wf_expr false r end)
  | XMatch s a r => wf_expr true s && wf_arms a && (match r with XNil => true | _ => wf_expr false r end)
  | XIf c t r => wf_expr true c && wf_block t && (match r with XNil => true | _ => wf_expr false r end)
  | XIfElse c t e r => wf_expr true c && wf_block t && wf_block e && (match r with XNil => true | _ => wf_expr false r end)
  end
with wf_arms (a : arms) {struct a} : bool :=
  match a with ANil => true | ACons x r => wf_arm x && wf_arms r end
with wf_arm (x : arm) {struct x} : bool :=
  match x with
  | AGuardExpr p g b => cleanb p && wf_expr true g && wf_expr true b
  | AGuardBlock p g b => cleanb p && wf_expr true g && wf_block b
  | AExpr p b => cleanb p && wf_expr true b
  | ABlock p b => cleanb p && wf_block b
  end
with wf_block (b : block) {struct b} : bool :=
  match b with BNil => true | BCons s r => wf_stmt s && wf_block r end
with wf_stmt (s : stmt) {struct s} : bool :=
  match s with
  | SExpr e => wf_expr true e
  | SAssign _ name ty v => cleanb name && optb cleanb ty && wf_expr true v
  | SFieldAssign obj field v => wf_expr true obj && cleanb field && wf_expr true v
  | SIndexAssign obj idx v => wf_expr true obj && wf_expr true idx && wf_expr true v
  | SCompound name _ v => cleanb name && wf_expr true v
  | SReturn0 => true
  | SReturn e => wf_expr true e
  | SIf c t el e => wf_expr true c && wf_block t && wf_elifs el && wf_oblock e
  | SWhile c b => wf_expr true c && wf_block b
  | SFor var it b => cleanb var && wf_expr true it && wf_block b
  | SPass | SBreak | SContinue => true
  | STupleUnpack _ names v => nonemptyb names && forallb cleanb names && wf_expr true v
  | STupleAssign targets v => (match targets with ENil => false | _ => true end) && wf_exprs targets && wf_expr true v
  | SChained _ targets v => nonemptyb targets && forallb cleanb targets && wf_expr true v
  end
with wf_elifs (l : elifs) {struct l} : bool :=
  match l with LNil => true | LCons c b r => wf_expr true c && wf_block b && wf_elifs r end
with wf_oblock (o : oblock) {struct o} : bool :=
  match o with ONone => true | OSome b => wf_block b end
with wf_exprs (es : exprs) {struct es} : bool :=
  match es with ENil => true | ECons e r => wf_expr true e && wf_exprs r end.

Definition wf_darg (a : darg) : bool :=
  match a with DPos e => wf_expr true e | DNamedTy n ty => cleanb n && cleanb ty | DNamedExpr n e => cleanb n && wf_expr true e end.
Definition wf_decorator (d : decorator) : bool := cleanb (dec_name d) && forallb wf_darg (dec_args d).
Definition wf_param (p : param) : bool := cleanb (p_name p) && cleanb (p_ty p) && optb (wf_expr true) (p_default p).
Definition wf_field (f : field) : bool := cleanb (f_name f) && cleanb (f_ty f) && optb (wf_expr true) (f_default f).
Definition wf_method (m : method) : bool :=
  forallb wf_decorator (m_decs m) && cleanb (m_name m) && forallb wf_param (m_params m) && cleanb (m_ret m) && optb wf_block (m_body m).
(* an import path names something: `crate`, at least one `super::`, or at least one segment *)
Definition wf_ipath (p : ipath) : bool := forallb cleanb (ip_segs p) && (ip_abs p || negb (is_nil (ip_segs p)) || negb (Nat.eqb (ip_parents p) 0)).
Definition wf_iitem (i : iitem) : bool := cleanb (ii_name i) && optb cleanb (ii_alias i).
Definition wf_import (k : ikind) : bool :=
  match k with
  | IModule p => wf_ipath p
  | IFrom p items => wf_ipath p && nonemptyb items && forallb wf_iitem items
  | IPython name => inlineb name                                       (* string contents: any single-line text *)
  | IRustCrate c path => cleanb c && forallb cleanb path
  | IRustFrom c path items => cleanb c && forallb cleanb path && nonemptyb items && forallb wf_iitem items
  end.
Definition wf_variant (v : variant) : bool := cleanb (v_name v) && forallb cleanb (v_fields v).
(* docstring text (excluded from the property itself): no tab / CR, no space before a LF or at the very end *)
Fixpoint no_trailb (t : text) : bool :=
  match t with
  | [] => true
  | c :: r => (if c =? 32 then match r with [] => false | d :: _ => negb (d =? 10) end else true) && no_trailb r
  end.
Definition wf_doc (t : text) : bool := forallb (fun c => negb (c =? 9) && negb (c =? 13)) t && no_trailb t.
Definition wf_decl (d : decl) : bool :=
  match d with
  | DImport k alias => wf_import k && optb cleanb alias
  | DConst _ name ty v => cleanb name && optb cleanb ty && wf_expr true v
  | DModel _ decs name tps traits fields methods =>
      forallb wf_decorator decs && cleanb name && forallb cleanb tps && forallb cleanb traits && forallb wf_field fields &&
      forallb wf_method methods
  | DClass _ decs name tps extends traits fields methods =>
      forallb wf_decorator decs && cleanb name && forallb cleanb tps && optb cleanb extends && forallb cleanb traits &&
      forallb wf_field fields && forallb wf_method methods
  | DTrait _ decs name tps methods => forallb wf_decorator decs && cleanb name && forallb cleanb tps && forallb wf_method methods
  | DNewtype _ name underlying methods => cleanb name && cleanb underlying && forallb wf_method methods
  | DEnum _ name tps variants => cleanb name && forallb cleanb tps && forallb wf_variant variants
  | DFunction _ decs _ name tps params ret body =>
      forallb wf_decorator decs && cleanb name && forallb cleanb tps && forallb wf_param params && cleanb ret && wf_block body
  | DDocstring t => wf_doc t
  end.
Definition wf_program (p : program) : bool := forallb wf_decl p.

(* ------------------------------------------------------------------ the block-continuation class *)
(* pure: no block-bodied (match / if) expression inside *)
Fixpoint pureb (e : expr) : bool := match e with XNil => true | XText _ r => pureb r | _ => false end.
Definition is_xnil (e : expr) : bool := match e with XNil => true | _ => false end.
(* nc_*: a block-bodied expression is the LAST thing written on its logical line: nothing follows it inside its
   expression, and it does not occur where the formatter writes more text after the expression (block headers,
   assignment targets, guards, decorator arguments, parameter defaults) *)
Fixpoint nc_expr (e : expr) {struct e} : bool :=
  match e with
  | XNil => true
  | XText _ r => nc_expr r
  | XMatch s a r => pureb s && nc_arms a && is_xnil r
  | XIf c t r => pureb c && nc_block t && is_xnil r
  | XIfElse c t e r => pureb c && nc_block t && nc_block e && is_xnil r
  end
with nc_arms (a : arms) {struct a} : bool :=
  match a with ANil => true | ACons x r => nc_arm x && nc_arms r end
with nc_arm (x : arm) {struct x} : bool :=
  match x with
  | AGuardExpr _ g b => pureb g && nc_expr b
  | AGuardBlock _ g b => pureb g && nc_block b
  | AExpr _ b => nc_expr b
  | ABlock _ b => nc_block b
  end
with nc_block (b : block) {struct b} : bool :=
  match b with BNil => true | BCons s r => nc_stmt s && nc_block r end
with nc_stmt (s : stmt) {struct s} : bool :=
  match s with
  | SExpr e => nc_expr e
  | SAssign _ _ _ v => nc_expr v
  | SFieldAssign obj _ v => pureb obj && nc_expr v
  | SIndexAssign obj idx v => pureb obj && pureb idx && nc_expr v
  | SCompound _ _ v => nc_expr v
  | SReturn0 => true
  | SReturn e => nc_expr e
  | SIf c t el e => pureb c && nc_block t && nc_elifs el && nc_oblock e
  | SWhile c b => pureb c && nc_block b
  | SFor _ it b => pureb it && nc_block b
  | SPass | SBreak | SContinue => true
  | STupleUnpack _ _ v => nc_expr v
  | STupleAssign targets v => pure_exprs targets && nc_expr v
  | SChained _ _ v => nc_expr v
  end
with nc_elifs (l : elifs) {struct l} : bool :=
  match l with LNil => true | LCons c b r => pureb c && nc_block b && nc_elifs r end
with nc_oblock (o : oblock) {struct o} : bool :=
  match o with ONone => true | OSome b => nc_block b end
with pure_exprs (es : exprs) {struct es} : bool :=
  match es with ENil => true | ECons e r => pureb e && pure_exprs r end.

Definition nc_darg (a : darg) : bool := match a with DPos e => pureb e | DNamedTy _ _ => true | DNamedExpr _ e => pureb e end.
Definition nc_decorator (d : decorator) : bool := forallb nc_darg (dec_args d).
Definition nc_param (p : param) : bool := optb pureb (p_default p).
Definition nc_field (f : field) : bool := optb nc_expr (f_default f).
Definition nc_method (m : method) : bool := forallb nc_decorator (m_decs m) && forallb nc_param (m_params m) && optb nc_block (m_body m).
(* docstring lines are written flush left: no line of the text begins with a space *)
Fixpoint doc_flushb (t : text) : bool :=
  match t with
  | [] => true
  | c :: r => (if c =? 10 then first_okb r else true) && doc_flushb r
  end.
Definition nc_decl (d : decl) : bool :=
  match d with
  | DImport _ _ => true
  | DConst _ _ _ v => nc_expr v
  | DModel _ decs _ _ _ fields methods => forallb nc_decorator decs && forallb nc_field fields && forallb nc_method methods
  | DClass _ decs _ _ _ _ fields methods => forallb nc_decorator decs && forallb nc_field fields && forallb nc_method methods
  | DTrait _ decs _ _ methods => forallb nc_decorator decs && forallb nc_method methods
  | DNewtype _ _ _ methods => forallb nc_method methods
  | DEnum _ _ _ _ => true
  | DFunction _ decs _ _ _ params _ body => forallb nc_decorator decs && forallb nc_param params && nc_block body
  | DDocstring t => first_okb t && doc_flushb t
  end.
Definition nc_program (p : program) : bool := forallb nc_decl p.
(* the finding class: some text is written after a block-bodied expression on the same logical line
   (fmt-match-operand: `match a: ...arms...` continued by ` - 1`; also a block-bodied expression in a header) *)
Definition Known_C09_block_continuation (p : program) : Prop := nc_program p = false.

(* ------------------------------------------------------------------ the hygiene predicates of the property *)
Definition ws (c : Z) : Prop := c = 32 \/ c = 9 \/ c = 13.
(* no line ends in whitespace: a space / tab / CR is never the last character and never followed by LF *)
Definition no_trailing_ws (t : text) : Prop :=
  forall pre c post, t = pre ++ c :: post -> ws c -> match post with [] => False | d :: _ => d <> 10 end.
(* exactly one final newline *)
Definition ends_one (t : text) : Prop := exists pre c, t = pre ++ [c; 10] /\ c <> 10.
(* a line as the property sees it: blank, or level * width spaces followed by a content that starts with a non-space *)
Definition flush_line (l : line) : Prop := first_okb (snd l) = true.
Definition line_ok (l : line) : Prop := inlineb (snd l) = true /\ last_okb (snd l) = true.

(* ------------------------------------------------------------------ correspondence run *)
Definition b2z (b : bool) : Z := if b then 1 else 0.
(* (formatted text, [wf; no continuation; final indent level]) *)
Definition run_layout (w : nat) (p : program) : text * list Z :=
  (format w p, [b2z (wf_program p); b2z (nc_program p); Z.of_nat (lvl (fmt_program w p w_new))]).
