(* C09/LayoutSim.v — lemmas: the character-level writer model (Fmt/Writer.v) simulates the line-level specification
   (C09/Layout.v): the raw output is the rendering of the specification's lines, for EVERY program. *)
From Coq Require Import ZArith List Bool String Lia.
From Verif Require Import Fmt.Writer C09.Layout.
Import ListNotations.
Open Scope Z_scope.

Scheme expr_mut := Induction for expr Sort Prop
with arms_mut := Induction for arms Sort Prop
with arm_mut := Induction for arm Sort Prop
with block_mut := Induction for block Sort Prop
with stmt_mut := Induction for stmt Sort Prop
with elifs_mut := Induction for elifs Sort Prop
with oblock_mut := Induction for oblock Sort Prop
with exprs_mut := Induction for exprs Sort Prop.
Combined Scheme skel_mutind from expr_mut, arms_mut, arm_mut, block_mut, stmt_mut, elifs_mut, oblock_mut, exprs_mut.

(* ================================================================== simulation: writer state ~ line state *)
Section Sim.
Variable w : nat.

Definition R (n : nat) (st : wst) (ls : lst) : Prop :=
  lvl st = n /\
  match cur ls with
  | None => als st = true /\ out st = render w (done ls)
  | Some (m, c) => als st = false /\ c <> [] /\ out st = render w (done ls) ++ spaces (m * w) ++ c
  end.

Lemma render_app : forall a b, render w (a ++ b) = render w a ++ render w b.
Proof. intros. unfold render. apply flat_map_app. Qed.

Lemma R_wr : forall n t st ls, R n st ls -> R n (wr w t st) (lw n t ls).
Proof.
  intros n t st ls [Hl H]. destruct t as [|c0 t]; [split; assumption|].
  unfold wr, w_write, w_write_indent, lw. destruct (cur ls) as [[m c]|].
  - destruct H as (Ha & Hc & Ho). rewrite Ha. cbv zeta. cbn [out lvl als cur done]. split; [exact Hl|].
    split; [exact Ha|]. split; [destruct c; discriminate|]. rewrite Ho. rewrite <- !app_assoc. reflexivity.
  - destruct H as (Ha & Ho). rewrite Ha. cbv zeta. cbn [out lvl als cur done]. split; [exact Hl|].
    split; [reflexivity|]. split; [discriminate|]. rewrite Ho, Hl. rewrite <- !app_assoc. reflexivity.
Qed.

Lemma R_nl : forall n st ls, R n st ls -> R n (nl st) (lnl ls).
Proof.
  intros n st ls [Hl H]. unfold nl, w_newline, lnl. cbn [out lvl als cur done]. split; [exact Hl|]. split; [reflexivity|].
  cbn [out lvl als cur done]. rewrite render_app. destruct (cur ls) as [[m c]|].
  - destruct H as (Ha & Hc & Ho). rewrite Ho. cbn [render flat_map render_line fst snd].
    destruct c as [|c0 c]; [congruence|]. rewrite app_nil_r, <- !app_assoc. reflexivity.
  - destruct H as (Ha & Ho). rewrite Ho. reflexivity.
Qed.

Lemma R_wln : forall n t st ls, R n st ls -> R n (wln w t st) (lwln n t ls).
Proof. intros. unfold wln, w_writeln, lwln, seq. apply R_nl. apply R_wr. assumption. Qed.

Lemma R_ind : forall n st ls, R n st ls -> R (S n) (ind st) ls.
Proof. intros n st ls [Hl H]. split; [cbn; congruence|]. exact H. Qed.

Lemma R_ded : forall n st ls, R (S n) st ls -> R n (ded st) ls.
Proof. intros n st ls [Hl H]. split; [cbn; rewrite Hl; reflexivity|]. exact H. Qed.

Lemma R_nop : forall n st ls, R n st ls -> R n (nop st) (nop ls).
Proof. intros; assumption. Qed.

Lemma R_binding : forall n b st ls, R n st ls -> R n (fmt_binding w b st) (sp_binding n b ls).
Proof. intros n b st ls H. destruct b; cbn [fmt_binding sp_binding]; try apply R_wr; assumption. Qed.

Lemma R_sep : forall A n (f : A -> act) (g : A -> lact) sp,
  (forall a st ls, R n st ls -> R n (f a st) (g a ls)) ->
  forall xs first st ls, R n st ls -> R n (sep_from (wr w) first sp f xs st) (sep_from (lw n) first sp g xs ls).
Proof.
  intros A n f g sp Hf. induction xs as [|x xs IH]; intros first st ls H; [exact H|].
  cbn [sep_from seq]. apply IH. apply Hf. destruct first; cbn [negb when nop]; [exact H|apply R_wr; exact H].
Qed.

Lemma R_each : forall A n (f : A -> act) (g : A -> lact),
  (forall a st ls, R n st ls -> R n (f a st) (g a ls)) ->
  forall xs st ls, R n st ls -> R n (each f xs st) (each g xs ls).
Proof.
  intros A n f g Hf. induction xs as [|x xs IH]; intros st ls H; [exact H|].
  cbn [each seq]. apply IH. apply Hf. exact H.
Qed.

Lemma R_pass_if_empty : forall n b st ls, R n st ls -> R n (pass_if_empty w b st) (sp_pass_if_empty n b ls).
Proof. intros n b st ls H. destruct b; cbn [pass_if_empty sp_pass_if_empty]; [apply R_wln|]; assumption. Qed.

Ltac sim1 :=
  match goal with
  | H : R ?n ?st ?ls |- R ?n ?st ?ls => exact H
  | |- R _ (ded _) _ => apply R_ded
  | |- R _ (ind _) _ => apply R_ind
  | |- R _ (wr _ _ _) _ => apply R_wr
  | |- R _ (wln _ _ _) _ => apply R_wln
  | |- R _ (nl _) _ => apply R_nl
  | |- R _ (nop _) _ => apply R_nop
  | |- R _ (opt _ ?o _) _ => destruct o; cbn [opt nop]
  | |- R _ (when ?b _ _) _ => destruct b; cbn [when nop]
  | |- R _ (fmt_binding _ _ _) _ => apply R_binding
  | |- R _ (pass_if_empty _ _ _) _ => apply R_pass_if_empty
  | |- R _ (sep_by _ _ _ _ _) _ => unfold sep_by, lsep_by; apply R_sep; [intros|]
  | |- R _ (sep_from _ _ _ _ _ _) _ => apply R_sep; [intros|]
  | |- R _ (each _ _ _) _ => apply R_each; [intros|]
  | H : forall n st ls, R n st ls -> R n (?f w ?x st) _ |- R _ (?f w ?x _) _ => apply H
  | H : forall n first st ls, R n st ls -> R n (?f w first ?x st) _ |- R _ (?f w _ ?x _) _ => apply H
  end.

Ltac simgo := intros; cbn [fmt_expr fmt_arms fmt_arm fmt_block fmt_stmt fmt_elifs fmt_oblock fmt_exprs
                          sp_expr sp_arms sp_arm sp_block sp_stmt sp_elifs sp_oblock sp_exprs opt when negb];
              fold (fmt_expr w) (fmt_arms w) (fmt_arm w) (fmt_block w) (fmt_stmt w) (fmt_elifs w) (fmt_oblock w) (fmt_exprs w);
              fold sp_expr sp_arms sp_arm sp_block sp_stmt sp_elifs sp_oblock sp_exprs;
              unfold seq; repeat sim1.

Theorem sim_skel :
  (forall e n st ls, R n st ls -> R n (fmt_expr w e st) (sp_expr n e ls)) /\
  (forall a n st ls, R n st ls -> R n (fmt_arms w a st) (sp_arms n a ls)) /\
  (forall x n st ls, R n st ls -> R n (fmt_arm w x st) (sp_arm n x ls)) /\
  (forall b n st ls, R n st ls -> R n (fmt_block w b st) (sp_block n b ls)) /\
  (forall s n st ls, R n st ls -> R n (fmt_stmt w s st) (sp_stmt n s ls)) /\
  (forall l n st ls, R n st ls -> R n (fmt_elifs w l st) (sp_elifs n l ls)) /\
  (forall o n st ls, R n st ls -> R n (fmt_oblock w o st) (sp_oblock n o ls)) /\
  (forall es n first st ls, R n st ls -> R n (fmt_exprs w first es st) (sp_exprs n first es ls)).
Proof.
  apply skel_mutind; try solve [simgo].
  all: simgo.
Qed.
(* ---- declarations *)
Lemma sim_expr : forall e n st ls, R n st ls -> R n (fmt_expr w e st) (sp_expr n e ls).
Proof. exact (proj1 sim_skel). Qed.
Lemma sim_block : forall b n st ls, R n st ls -> R n (fmt_block w b st) (sp_block n b ls).
Proof. exact (proj1 (proj2 (proj2 (proj2 sim_skel)))). Qed.

Lemma R_repeat : forall n t k st ls, R n st ls -> R n (repeat_act k (wr w t) st) (repeat_act k (lw n t) ls).
Proof. induction k as [|k IH]; intros st ls H; [exact H|]. cbn [repeat_act]. unfold seq. apply IH. apply R_wr. exact H. Qed.

Ltac simd1 :=
  first
  [ sim1
  | match goal with
    | |- R _ (fmt_expr _ _ _) _ => apply sim_expr
    | |- R _ (fmt_block _ _ _) _ => apply sim_block
    | |- R _ (repeat_act _ _ _) _ => apply R_repeat
    | |- R _ ((if ?b then _ else _) _) _ => destruct b
    | |- R _ (match ?l with [] => _ | _ :: _ => _ end _) _ => destruct l
    | |- R _ (match ?l with Some _ => _ | None => _ end _) _ => destruct l
    | |- R _ (match ?l with RNone => _ | RImm => _ | RMut => _ end _) _ => destruct l
    end ].
Ltac simd := intros; unfold seq; repeat simd1.

Lemma R_vis : forall n b st ls, R n st ls -> R n (fmt_vis w b st) (sp_vis n b ls).
Proof. unfold fmt_vis, sp_vis. simd. Qed.
Lemma R_type_params : forall n l st ls, R n st ls -> R n (fmt_type_params w l st) (sp_type_params n l ls).
Proof. unfold fmt_type_params, sp_type_params. simd. Qed.
Lemma R_traits : forall n l st ls, R n st ls -> R n (fmt_traits w l st) (sp_traits n l ls).
Proof. unfold fmt_traits, sp_traits. simd. Qed.
Lemma R_darg : forall n a st ls, R n st ls -> R n (fmt_darg w a st) (sp_darg n a ls).
Proof. intros n a. destruct a; unfold fmt_darg, sp_darg; simd. Qed.
Lemma R_decorator : forall n d st ls, R n st ls -> R n (fmt_decorator w d st) (sp_decorator n d ls).
Proof. unfold fmt_decorator, sp_decorator. simd; apply R_darg; assumption. Qed.
Lemma R_param : forall n p st ls, R n st ls -> R n (fmt_param w p st) (sp_param n p ls).
Proof. unfold fmt_param, sp_param. simd. Qed.
Lemma R_params : forall n p st ls, R n st ls -> R n (fmt_params w p st) (sp_params n p ls).
Proof. unfold fmt_params, sp_params. simd. apply R_param; assumption. Qed.
Lemma R_field : forall n f st ls, R n st ls -> R n (fmt_field w f st) (sp_field n f ls).
Proof. unfold fmt_field, sp_field. simd; apply R_vis; assumption. Qed.
Lemma R_body : forall n b st ls, R n st ls -> R n (fmt_body w b st) (sp_body n b ls).
Proof. intros n b. destruct b; unfold fmt_body, sp_body; simd. Qed.
Lemma R_method : forall n m st ls, R n st ls -> R n (fmt_method w m st) (sp_method n m ls).
Proof.
  unfold fmt_method, sp_method. intros n m st ls H. unfold seq.
  destruct (m_body m); repeat simd1; try apply R_body; repeat simd1; try apply R_params; repeat simd1; try apply R_decorator; assumption.
Qed.
Lemma R_methods : forall n ms blank st ls, R n st ls -> R n (fmt_methods w blank ms st) (sp_methods n blank ms ls).
Proof.
  induction ms as [|m ms IH]; intros blank st ls H; [exact H|]. cbn [fmt_methods sp_methods]. unfold seq.
  apply IH. apply R_method. destruct blank; cbn [when nop]; [apply R_nl|]; exact H.
Qed.
Lemma R_ipath : forall n p st ls, R n st ls -> R n (fmt_ipath w p st) (sp_ipath n p ls).
Proof. unfold fmt_ipath, sp_ipath. simd. Qed.
Lemma R_iitem : forall n i st ls, R n st ls -> R n (fmt_iitem w i st) (sp_iitem n i ls).
Proof. unfold fmt_iitem, sp_iitem. simd. Qed.
Lemma R_alias : forall n a st ls, R n st ls -> R n (fmt_alias w a st) (sp_alias n a ls).
Proof. unfold fmt_alias, sp_alias. simd. Qed.
Lemma R_import : forall n k a st ls, R n st ls -> R n (fmt_import w k a st) (sp_import n k a ls).
Proof.
  intros n k a. destruct k; unfold fmt_import, sp_import; intros; unfold seq;
  repeat first [simd1 | apply R_alias | apply R_ipath | apply R_iitem]; assumption.
Qed.
Lemma R_variant : forall n v st ls, R n st ls -> R n (fmt_variant w v st) (sp_variant n v ls).
Proof. unfold fmt_variant, sp_variant. simd. Qed.
Lemma R_docstring : forall n t st ls, R n st ls -> R n (fmt_docstring w t st) (sp_docstring n t ls).
Proof.
  intros n t st ls H. unfold fmt_docstring, sp_docstring. destruct t as [|c t]; [apply R_wln; exact H|].
  destruct (existsb (Z.eqb 10) (c :: t)); unfold seq.
  - repeat simd1.
  - repeat simd1.
Qed.

Lemma R_decl : forall d st ls, R 0 st ls -> R 0 (fmt_decl w d st) (sp_decl d ls).
Proof.
  intros d st ls H. destruct d; unfold fmt_decl, sp_decl; unfold seq.
  - apply R_import; exact H.
  - repeat first [simd1 | apply R_vis].
  - repeat first [simd1 | apply R_vis | apply R_type_params | apply R_traits | apply R_methods | apply R_field | apply R_decorator]; assumption.
  - repeat first [simd1 | apply R_vis | apply R_type_params | apply R_traits | apply R_methods | apply R_field | apply R_decorator]; assumption.
  - repeat first [simd1 | apply R_vis | apply R_type_params | apply R_traits | apply R_methods | apply R_field | apply R_decorator]; assumption.
  - repeat first [simd1 | apply R_vis | apply R_type_params | apply R_traits | apply R_methods | apply R_method | apply R_field | apply R_decorator]; assumption.
  - repeat first [simd1 | apply R_vis | apply R_type_params | apply R_variant]; assumption.
  - repeat first [simd1 | apply R_vis | apply R_type_params | apply R_params | apply R_body | apply R_decorator]; assumption.
  - apply R_docstring; exact H.
Qed.

Lemma R_decls : forall ds first prev st ls, R 0 st ls -> R 0 (fmt_decls w first prev ds st) (sp_decls first prev ds ls).
Proof.
  induction ds as [|d ds IH]; intros first prev st ls H; [exact H|]. cbn [fmt_decls sp_decls]. unfold seq.
  apply IH. apply R_decl. destruct first; cbn [negb when nop]; [exact H|].
  destruct prev; [apply R_nl; exact H|]. cbn [w_blank_lines]. unfold seq. apply R_nl. apply R_nl. exact H.
Qed.

Lemma R_new : R 0 w_new l_new.
Proof. split; [reflexivity|]. cbn. split; reflexivity. Qed.

Theorem sim_program : forall p, R 0 (fmt_program w p w_new) (sp_program p l_new).
Proof. intros p. apply R_decls. exact R_new. Qed.
End Sim.

(* ================================================================== every statement / declaration ends its line *)
Lemma cur_lnl : forall s, cur (lnl s) = None.
Proof. reflexivity. Qed.
Lemma cur_lwln : forall n t s, cur (lwln n t s) = None.
Proof. reflexivity. Qed.
Lemma cur_pass_if_empty : forall n b s, cur s = None -> cur (sp_pass_if_empty n b s) = None.
Proof. intros n b s H. destruct b; [reflexivity|exact H]. Qed.

Ltac cu1 :=
  match goal with
  | H : cur ?s = None |- cur ?s = None => exact H
  | |- cur (lnl _) = None => reflexivity
  | |- cur (lwln _ _ _) = None => reflexivity
  | |- cur (nop _) = None => unfold nop
  | |- cur (sp_pass_if_empty _ _ _) = None => apply cur_pass_if_empty
  | H : forall n s, cur (?f n ?x s) = None |- cur (?f _ ?x _) = None => apply H
  | H : forall n s, cur s = None -> cur (?f n ?x s) = None |- cur (?f _ ?x _) = None => apply H
  end.
Ltac cugo := intros; cbn [sp_expr sp_arms sp_arm sp_block sp_stmt sp_elifs sp_oblock sp_exprs];
             fold sp_expr sp_arms sp_arm sp_block sp_stmt sp_elifs sp_oblock sp_exprs; unfold seq; repeat cu1.

Theorem cur_skel :
  (forall e : expr, True) /\
  (forall a n s, cur s = None -> cur (sp_arms n a s) = None) /\
  (forall x n s, cur (sp_arm n x s) = None) /\
  (forall b n s, cur s = None -> cur (sp_block n b s) = None) /\
  (forall t n s, cur (sp_stmt n t s) = None) /\
  (forall l n s, cur s = None -> cur (sp_elifs n l s) = None) /\
  (forall o n s, cur s = None -> cur (sp_oblock n o s) = None) /\
  (forall es : exprs, True).
Proof. apply skel_mutind; try solve [cugo]; auto. Qed.

Lemma cur_block : forall b n s, cur s = None -> cur (sp_block n b s) = None.
Proof. exact (proj1 (proj2 (proj2 (proj2 cur_skel)))). Qed.
Lemma cur_body : forall b n s, cur s = None -> cur (sp_body n b s) = None.
Proof. intros b n s H. destruct b; [reflexivity|]. apply cur_block. exact H. Qed.
Lemma cur_method : forall n m s, cur (sp_method n m s) = None.
Proof.
  intros n m s. unfold sp_method, seq. destruct (m_body m); [|reflexivity]. apply cur_body. reflexivity.
Qed.
Lemma cur_methods : forall n ms blank s, cur s = None -> cur (sp_methods n blank ms s) = None.
Proof.
  induction ms as [|m ms IH]; intros blank s H; [exact H|]. cbn [sp_methods]. unfold seq. apply IH. apply cur_method.
Qed.
Lemma cur_each : forall A (f : A -> lact), (forall a s, cur (f a s) = None) -> forall xs s, cur s = None -> cur (each f xs s) = None.
Proof. intros A f Hf. induction xs as [|x xs IH]; intros s H; [exact H|]. cbn [each]. unfold seq. apply IH. apply Hf. Qed.
Lemma cur_when : forall (b : bool) (f : lact) s, (cur (f s) = None) -> cur s = None -> cur (when b f s) = None.
Proof. intros b f s H1 H2. destruct b; assumption. Qed.

Lemma cur_decl : forall d s, cur (sp_decl d s) = None.
Proof.
  intros d s. destruct d; unfold sp_decl, seq.
  - destruct k; reflexivity.
  - reflexivity.
  - apply cur_when; [reflexivity|]. apply cur_methods. apply cur_each; [reflexivity|reflexivity].
  - apply cur_when; [reflexivity|]. apply cur_methods. apply cur_each; [reflexivity|reflexivity].
  - apply cur_when; [reflexivity|]. apply cur_methods. reflexivity.
  - apply cur_when; [|reflexivity]. apply cur_each; [intros; apply cur_method|reflexivity].
  - apply cur_when; [reflexivity|]. apply cur_each; [reflexivity|reflexivity].
  - apply cur_body. reflexivity.
  - unfold sp_docstring. destruct doc as [|c t]; [reflexivity|]. destruct (existsb (Z.eqb 10) (c :: t)); reflexivity.
Qed.

Lemma cur_decls : forall ds first prev s, cur s = None -> cur (sp_decls first prev ds s) = None.
Proof.
  induction ds as [|d ds IH]; intros first prev s H; [exact H|]. cbn [sp_decls]. unfold seq. apply IH. apply cur_decl.
Qed.

Lemma cur_program : forall p, cur (sp_program p l_new) = None.
Proof. intros p. apply cur_decls. reflexivity. Qed.

(* the writer's raw output is the rendering of the specification's lines; the indent level is back at 0 *)
Theorem raw_format_lines : forall w p, raw_format w p = render w (lines p) /\ lvl (fmt_program w p w_new) = 0%nat.
Proof.
  intros w p. destruct (sim_program w p) as [Hl H]. rewrite cur_program in H. destruct H as [_ Ho].
  split; [exact Ho|exact Hl].
Qed.

