(* C09/LayoutInk.v — lemmas: every specification function is a composition of `lw` and `lnl`, so any predicate on line
   states that both preserve is preserved by the whole formatter; instance: a non-empty program writes some character
   other than LF. *)
From Coq Require Import ZArith List Bool String Lia.
From Verif Require Import Fmt.Writer C09.Layout C09.LayoutSim.
Import ListNotations.
Open Scope Z_scope.

Section Closure.
Variable Q : lst -> Prop.
Hypothesis Qlw : forall n t s, Q s -> Q (lw n t s).
Hypothesis Qnl : forall s, Q s -> Q (lnl s).

Lemma q_lwln : forall n t s, Q s -> Q (lwln n t s).
Proof. intros. unfold lwln, seq. apply Qnl. apply Qlw. assumption. Qed.
Lemma q_binding : forall n b s, Q s -> Q (sp_binding n b s).
Proof. intros n b s H. destruct b; cbn [sp_binding nop]; try apply Qlw; exact H. Qed.
Lemma q_pass : forall n b s, Q s -> Q (sp_pass_if_empty n b s).
Proof. intros n b s H. destruct b; cbn [sp_pass_if_empty nop]; [apply q_lwln|]; exact H. Qed.
Lemma q_sep : forall A n (g : A -> lact) sp, (forall a s, Q s -> Q (g a s)) ->
  forall xs first s, Q s -> Q (sep_from (lw n) first sp g xs s).
Proof.
  intros A n g sp Hg. induction xs as [|x xs IH]; intros first s H; [exact H|]. cbn [sep_from]. unfold seq.
  apply IH. apply Hg. destruct first; cbn [negb when nop]; [|apply Qlw]; exact H.
Qed.
Lemma q_each : forall A (g : A -> lact), (forall a s, Q s -> Q (g a s)) -> forall xs s, Q s -> Q (each g xs s).
Proof. intros A g Hg. induction xs as [|x xs IH]; intros s H; [exact H|]. cbn [each]. unfold seq. apply IH. apply Hg. exact H. Qed.
Lemma q_repeat : forall n t k s, Q s -> Q (repeat_act k (lw n t) s).
Proof. induction k as [|k IH]; intros s H; [exact H|]. cbn [repeat_act]. unfold seq. apply IH. apply Qlw. exact H. Qed.

Ltac q1 :=
  match goal with
  | H : Q ?s |- Q ?s => exact H
  | |- Q (lw _ _ _) => apply Qlw
  | |- Q (lnl _) => apply Qnl
  | |- Q (lwln _ _ _) => apply q_lwln
  | |- Q (nop _) => unfold nop
  | |- Q (sp_binding _ _ _) => apply q_binding
  | |- Q (sp_pass_if_empty _ _ _) => apply q_pass
  | |- Q (lsep_by _ _ _ _ _) => unfold lsep_by; apply q_sep; [intros|]
  | |- Q (sep_from _ _ _ _ _ _) => apply q_sep; [intros|]
  | |- Q (each _ _ _) => apply q_each; [intros|]
  | |- Q (repeat_act _ _ _) => apply q_repeat
  | |- Q (opt _ ?o _) => destruct o; cbn [opt nop]
  | |- Q (when ?b _ _) => destruct b; cbn [when nop]
  | |- Q ((if ?b then _ else _) _) => destruct b
  | |- Q (match ?l with [] => _ | _ :: _ => _ end _) => destruct l
  | |- Q (match ?l with Some _ => _ | None => _ end _) => destruct l
  | |- Q (match ?l with RNone => _ | RImm => _ | RMut => _ end _) => destruct l
  | H : forall n s, Q s -> Q (?f n ?x s) |- Q (?f _ ?x _) => apply H
  | H : forall n first s, Q s -> Q (?f n first ?x s) |- Q (?f _ _ ?x _) => apply H
  end.
Ltac qgo := intros; cbn [sp_expr sp_arms sp_arm sp_block sp_stmt sp_elifs sp_oblock sp_exprs];
            fold sp_expr sp_arms sp_arm sp_block sp_stmt sp_elifs sp_oblock sp_exprs; unfold seq; repeat q1.

Theorem q_skel :
  (forall e n s, Q s -> Q (sp_expr n e s)) /\
  (forall a n s, Q s -> Q (sp_arms n a s)) /\
  (forall x n s, Q s -> Q (sp_arm n x s)) /\
  (forall b n s, Q s -> Q (sp_block n b s)) /\
  (forall t n s, Q s -> Q (sp_stmt n t s)) /\
  (forall l n s, Q s -> Q (sp_elifs n l s)) /\
  (forall o n s, Q s -> Q (sp_oblock n o s)) /\
  (forall es n first s, Q s -> Q (sp_exprs n first es s)).
Proof. apply skel_mutind; qgo. Qed.

Lemma q_expr : forall e n s, Q s -> Q (sp_expr n e s).
Proof. exact (proj1 q_skel). Qed.
Lemma q_block : forall b n s, Q s -> Q (sp_block n b s).
Proof. exact (proj1 (proj2 (proj2 (proj2 q_skel)))). Qed.

Ltac qd1 := first [ q1 | match goal with
  | |- Q (sp_expr _ _ _) => apply q_expr
  | |- Q (sp_block _ _ _) => apply q_block
  end ].
Ltac qd := intros; unfold seq; repeat qd1.

Lemma q_vis : forall n b s, Q s -> Q (sp_vis n b s).
Proof. unfold sp_vis. qd. Qed.
Lemma q_type_params : forall n l s, Q s -> Q (sp_type_params n l s).
Proof. unfold sp_type_params. qd. Qed.
Lemma q_traits : forall n l s, Q s -> Q (sp_traits n l s).
Proof. unfold sp_traits. qd. Qed.
Lemma q_darg : forall n a s, Q s -> Q (sp_darg n a s).
Proof. intros n a. destruct a; unfold sp_darg; qd. Qed.
Lemma q_decorator : forall n d s, Q s -> Q (sp_decorator n d s).
Proof. unfold sp_decorator. qd; apply q_darg; assumption. Qed.
Lemma q_param : forall n p s, Q s -> Q (sp_param n p s).
Proof. unfold sp_param. qd. Qed.
Lemma q_params : forall n p s, Q s -> Q (sp_params n p s).
Proof. unfold sp_params. qd. apply q_param; assumption. Qed.
Lemma q_field : forall n f s, Q s -> Q (sp_field n f s).
Proof. unfold sp_field. qd; apply q_vis; assumption. Qed.
Lemma q_body : forall n b s, Q s -> Q (sp_body n b s).
Proof. intros n b. destruct b; unfold sp_body; qd. Qed.
Lemma q_method : forall n m s, Q s -> Q (sp_method n m s).
Proof.
  unfold sp_method. intros n m s H. unfold seq.
  destruct (m_body m); repeat qd1; try apply q_body; repeat qd1; try apply q_params; repeat qd1; try apply q_decorator; assumption.
Qed.
Lemma q_methods : forall n ms blank s, Q s -> Q (sp_methods n blank ms s).
Proof.
  induction ms as [|m ms IH]; intros blank s H; [exact H|]. cbn [sp_methods]. unfold seq.
  apply IH. apply q_method. destruct blank; cbn [when nop]; [apply Qnl|]; exact H.
Qed.
Lemma q_ipath : forall n p s, Q s -> Q (sp_ipath n p s).
Proof. unfold sp_ipath. qd. Qed.
Lemma q_iitem : forall n i s, Q s -> Q (sp_iitem n i s).
Proof. unfold sp_iitem. qd. Qed.
Lemma q_alias : forall n a s, Q s -> Q (sp_alias n a s).
Proof. unfold sp_alias. qd. Qed.
Lemma q_import : forall n k a s, Q s -> Q (sp_import n k a s).
Proof.
  intros n k a. destruct k; unfold sp_import; intros; unfold seq;
  repeat first [qd1 | apply q_alias | apply q_ipath | apply q_iitem]; assumption.
Qed.
Lemma q_variant : forall n v s, Q s -> Q (sp_variant n v s).
Proof. unfold sp_variant. qd. Qed.
Lemma q_docstring : forall n t s, Q s -> Q (sp_docstring n t s).
Proof.
  intros n t s H. unfold sp_docstring. destruct t as [|c t]; [apply q_lwln; exact H|].
  destruct (existsb (Z.eqb 10) (c :: t)); unfold seq; repeat qd1.
Qed.
Ltac qd2 := first [qd1 | apply q_vis | apply q_type_params | apply q_traits | apply q_methods | apply q_method | apply q_field
                  | apply q_decorator | apply q_variant | apply q_params | apply q_body ].
Lemma q_decl : forall d s, Q s -> Q (sp_decl d s).
Proof.
  intros d s H. destruct d; unfold sp_decl; unfold seq; try solve [repeat qd2].
  - apply q_import; exact H.
  - apply q_docstring; exact H.
Qed.
Lemma q_decls : forall ds first prev s, Q s -> Q (sp_decls first prev ds s).
Proof.
  induction ds as [|d ds IH]; intros first prev s H; [exact H|]. cbn [sp_decls]. unfold seq.
  apply IH. apply q_decl. destruct first; cbn [negb when nop]; [exact H|].
  destruct prev; unfold seq; repeat q1.
Qed.
End Closure.

(* ---- ink: some written character is not LF *)
Definition inky (s : lst) : Prop :=
  (exists l, In l (done s) /\ snd l <> []) \/ (exists m c, cur s = Some (m, c) /\ c <> []).

Lemma inky_lw : forall n t s, inky s -> inky (lw n t s).
Proof.
  intros n t s H. unfold lw. destruct t as [|c0 t]; [exact H|]. destruct H as [H|(m & c & E & Hc)].
  - left. destruct (cur s) as [[m c]|]; exact H.
  - right. rewrite E. exists m, (c ++ c0 :: t). split; [reflexivity|]. destruct c; discriminate.
Qed.
Lemma inky_lnl : forall s, inky s -> inky (lnl s).
Proof.
  intros s H. unfold lnl. left. cbn [done]. destruct H as [(l & Hin & Hl)|(m & c & E & Hc)].
  - exists l. split; [apply in_or_app; left; exact Hin|exact Hl].
  - exists (m, c). split; [apply in_or_app; right; rewrite E; left; reflexivity|exact Hc].
Qed.
Lemma inky_start : forall n t s, nonemptyb t = true -> inky (lw n t s).
Proof.
  intros n t s H. unfold lw. destruct t as [|c0 t]; [discriminate|]. right.
  destruct (cur s) as [[m c]|]; cbn [cur]; eexists; eexists; (split; [reflexivity|]); [destruct c|]; discriminate.
Qed.

(* every declaration writes at least one fixed keyword or quote *)
Ltac ik1 :=
  first
  [ assumption
  | apply (q_expr inky); try exact inky_lw; try exact inky_lnl
  | apply (q_block inky); try exact inky_lw; try exact inky_lnl
  | apply (q_body inky); try exact inky_lw; try exact inky_lnl
  | apply (q_methods inky); try exact inky_lw; try exact inky_lnl
  | apply (q_method inky); try exact inky_lw; try exact inky_lnl
  | apply (q_alias inky); try exact inky_lw; try exact inky_lnl
  | apply (q_ipath inky); try exact inky_lw; try exact inky_lnl
  | apply (q_each inky); [intros|]
  | apply (q_sep inky); [exact inky_lw|intros|]
  | apply (q_iitem inky); try exact inky_lw; try exact inky_lnl
  | apply (q_field inky); try exact inky_lw; try exact inky_lnl
  | apply (q_variant inky); try exact inky_lw; try exact inky_lnl
  | apply inky_start; reflexivity
  | progress (unfold lwln, seq, nop)
  | apply inky_lnl
  | apply inky_lw
  | match goal with
    | |- inky (when ?b _ _) => destruct b; cbn [when]
    | |- inky (opt _ ?o _) => destruct o; cbn [opt]
    | |- inky (lsep_by _ _ _ _ _) => unfold lsep_by
    end ].

Lemma inky_decl : forall d s, inky (sp_decl d s).
Proof.
  intros d s. destruct d; unfold sp_decl.
  - destruct k; unfold sp_import; repeat ik1.
  - repeat ik1.
  - repeat ik1.
  - repeat ik1.
  - repeat ik1.
  - repeat ik1.
  - repeat ik1.
  - repeat ik1.
  - unfold sp_docstring. destruct doc as [|c t]; [repeat ik1|]. destruct (existsb (Z.eqb 10) (c :: t)); repeat ik1.
Qed.

Theorem lines_inky : forall p, p <> [] -> exists l, In l (lines p) /\ snd l <> [].
Proof.
  intros p Hp. destruct p as [|d ds]; [congruence|]. unfold lines, sp_program. cbn [sp_decls negb when]. unfold seq, nop.
  assert (K : inky (sp_decls false (is_doc d) ds (sp_decl d l_new))).
  { apply (q_decls inky); [exact inky_lw|exact inky_lnl|]. apply inky_decl. }
  destruct K as [K|(m & c & E & _)]; [exact K|].
  pose proof (cur_decls ds false (is_doc d) (sp_decl d l_new) (cur_decl d l_new)) as C. rewrite C in E. discriminate.
Qed.
