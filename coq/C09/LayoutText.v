(* C09/LayoutText.v — lemmas: from lines to characters.  Rendering lines whose contents are hygienic gives a text without
   tab / CR and without a line that ends in whitespace; the end-of-file trim keeps that and leaves exactly one final LF. *)
From Coq Require Import ZArith List Bool String Lia.
From Verif Require Import Fmt.Writer C09.Layout C09.LayoutSim C09.LayoutHyg C09.LayoutInk.
Import ListNotations.
Open Scope Z_scope.

Definition wsb (c : Z) : bool := (c =? 32) || (c =? 9) || (c =? 13).
(* every whitespace character is followed by a character other than LF *)
Fixpoint ntb (t : text) : bool :=
  match t with
  | [] => true
  | c :: r => (if wsb c then match r with [] => false | d :: _ => negb (d =? 10) end else true) && ntb r
  end.

Lemma wsb_ws : forall c, ws c -> wsb c = true.
Proof. intros c [H|[H|H]]; subst; reflexivity. Qed.

Lemma ntb_sound : forall t, ntb t = true -> no_trailing_ws t.
Proof.
  induction t as [|a t IH]; intros H pre c post E W.
  - destruct pre; discriminate.
  - cbn [ntb] in H. apply andb_prop in H. destruct H as [H1 H2]. destruct pre as [|p pre].
    + cbn [app] in E. inversion E; subst. rewrite (wsb_ws _ W) in H1. destruct post as [|d post]; [discriminate|].
      apply negb_true_iff in H1. apply Z.eqb_neq. exact H1.
    + cbn [app] in E. inversion E; subst. eapply IH; eauto.
Qed.

Definition hd10 (t : text) : bool := match t with d :: _ => d =? 10 | [] => true end.

Lemma ntb_cons : forall c r, ntb (c :: r) = (if wsb c then negb (hd10 r) else true) && ntb r.
Proof. intros c r. cbn [ntb]. destruct r; reflexivity. Qed.

(* a text that ends in LF can be continued by any hygienic text *)
Lemma ntb_app_lf : forall a b, ntb (a ++ [10]) = true -> ntb b = true -> ntb (a ++ 10 :: b) = true.
Proof.
  induction a as [|c a IH]; intros b Ha Hb.
  - cbn [app]. rewrite ntb_cons. cbn [wsb Z.eqb Pos.eqb orb]. exact Hb.
  - cbn [app] in *. rewrite ntb_cons in *. apply andb_prop in Ha. destruct Ha as [H1 H2].
    rewrite (IH b H2 Hb), andb_true_r. destruct a; exact H1.
Qed.

(* and cut after any LF *)
Lemma ntb_cut_lf : forall a b, ntb (a ++ 10 :: b) = true -> ntb (a ++ [10]) = true.
Proof.
  induction a as [|c a IH]; intros b H.
  - reflexivity.
  - cbn [app] in *. rewrite ntb_cons in *. apply andb_prop in H. destruct H as [H1 H2].
    rewrite (IH b H2), andb_true_r. destruct a; exact H1.
Qed.

Lemma inlinec_facts : forall c, inlinec c = true -> c <> 10 /\ c <> 9 /\ c <> 13.
Proof.
  intros c H. unfold inlinec in H. apply andb_prop in H. destruct H as [H H3]. apply andb_prop in H. destruct H as [H1 H2].
  apply negb_true_iff in H1, H2, H3. apply Z.eqb_neq in H1, H2, H3. auto.
Qed.

Lemma ntb_content : forall c, inlineb c = true -> last_okb c = true -> ntb (c ++ [10]) = true.
Proof.
  induction c as [|x r IH]; intros Hi Hl; [reflexivity|].
  cbn [inlineb forallb] in Hi. apply andb_prop in Hi. destruct Hi as [Hx Hr]. destruct (inlinec_facts x Hx) as (N10 & N9 & N13).
  cbn [app]. rewrite ntb_cons. rewrite IH.
  - rewrite andb_true_r. destruct (wsb x) eqn:W; [|reflexivity].
    destruct r as [|y r'].
    + cbn [last_okb] in Hl. unfold wsb in W. apply negb_true_iff in Hl. rewrite Hl in W.
      apply Z.eqb_neq in N9, N13. rewrite N9, N13 in W. discriminate.
    + cbn [app hd10]. cbn [forallb] in Hr. apply andb_prop in Hr. destruct Hr as [Hy _].
      destruct (inlinec_facts y Hy) as (M & _ & _). apply Z.eqb_neq in M. rewrite M. reflexivity.
  - exact Hr.
  - destruct r; [reflexivity|exact Hl].
Qed.

Lemma ntb_spaces : forall k t, hd10 t = false -> ntb (spaces k ++ t) = ntb t.
Proof.
  induction k as [|k IH]; intros t H; [reflexivity|]. unfold spaces in *. cbn [repeat app]. rewrite ntb_cons. rewrite IH by exact H.
  replace (hd10 (repeat 32 k ++ t)) with false; [reflexivity|]. destruct k; [symmetry; exact H|reflexivity].
Qed.

Section Render.
Variable w : nat.

Lemma render_line_lf : forall l, exists a, render_line w l = a ++ [10].
Proof.
  intros [n c]. unfold render_line. cbn [fst snd]. destruct c as [|x c]; [exists []; reflexivity|].
  exists (spaces (n * w) ++ x :: c). rewrite <- app_assoc. reflexivity.
Qed.

Lemma ntb_render_line : forall l, okline l -> ntb (render_line w l) = true.
Proof.
  intros [n c] [Hi Hl]. cbn [snd] in *. unfold render_line. cbn [fst snd]. destruct c as [|x c]; [reflexivity|].
  rewrite ntb_spaces.
  - apply ntb_content; assumption.
  - cbn [app hd10]. cbn [inlineb forallb] in Hi. apply andb_prop in Hi. destruct Hi as [Hx _].
    destruct (inlinec_facts x Hx) as (M & _ & _). apply Z.eqb_neq. exact M.
Qed.

Lemma ntb_render : forall ls, Forall okline ls -> ntb (render w ls) = true.
Proof.
  induction ls as [|l ls IH]; intros F; [reflexivity|]. inversion F as [|? ? Hl F']; subst.
  cbn [render flat_map]. fold (render w ls). destruct (render_line_lf l) as [a E].
  pose proof (ntb_render_line l Hl) as N. rewrite E in *. rewrite <- app_assoc. cbn [app]. apply ntb_app_lf; auto.
Qed.

(* only spaces, LF and the characters of the contents *)
Lemma in_render : forall ls c, In c (render w ls) -> c = 32 \/ c = 10 \/ exists l, In l ls /\ In c (snd l).
Proof.
  induction ls as [|l ls IH]; intros c H; [destruct H|]. cbn [render flat_map] in H. fold (render w ls) in H.
  apply in_app_or in H. destruct H as [H|H].
  - destruct l as [n x]. unfold render_line in H. cbn [fst snd] in H. destruct x as [|y x].
    + destruct H as [H|[]]. auto.
    + apply in_app_or in H. destruct H as [H|H].
      * left. unfold spaces in H. apply repeat_spec in H. exact H.
      * apply in_app_or in H. destruct H as [H|[H|[]]]; [|auto]. right; right. exists (n, y :: x). split; [left; reflexivity|exact H].
  - destruct (IH c H) as [A|[A|(l' & A & B)]]; auto. right; right. exists l'. split; [right; exact A|exact B].
Qed.

Lemma inlineb_in : forall t c, inlineb t = true -> In c t -> c <> 10 /\ c <> 9 /\ c <> 13.
Proof.
  intros t c H Hin. unfold inlineb in H. rewrite forallb_forall in H. apply inlinec_facts. apply H. exact Hin.
Qed.

Lemma render_no_tab_cr : forall ls, Forall okline ls -> ~ In 9 (render w ls) /\ ~ In 13 (render w ls).
Proof.
  intros ls F. rewrite Forall_forall in F. split; intros H; apply in_render in H; destruct H as [H|[H|(l & A & B)]]; try discriminate;
  destruct (F l A) as [Hi _]; destruct (inlineb_in _ _ Hi B) as (_ & N9 & N13); congruence.
Qed.
End Render.

(* ---- the end-of-file trim *)
Lemma strip_nl_spec : forall r, exists k, r = repeat 10 k ++ strip_nl r /\ (k <> O -> hd10 (strip_nl r) = true /\ strip_nl r <> []).
Proof.
  induction r as [|a r IH]; [exists O; split; [reflexivity|congruence]|].
  cbn [strip_nl]. destruct (a =? 10) eqn:Ea; cbn [andb].
  - apply Z.eqb_eq in Ea. subst a. destruct r as [|b r'].
    + exists O. split; [reflexivity|congruence].
    + destruct (b =? 10) eqn:Eb.
      * apply Z.eqb_eq in Eb. subst b. destruct IH as (k & E & Hk). exists (S k). split.
        { cbn [repeat app]. rewrite <- E. reflexivity. }
        intros _. destruct k as [|k].
        { cbn [repeat app] in E. rewrite <- E. split; [reflexivity|discriminate]. }
        { apply Hk. congruence. }
      * exists O. split; [reflexivity|congruence].
  - exists O. split; [reflexivity|congruence].
Qed.

Lemma strip_nl_no2 : forall r, match strip_nl r with 10 :: 10 :: _ => False | _ => True end.
Proof.
  induction r as [|a r IH]; [exact I|]. cbn [strip_nl]. destruct (a =? 10) eqn:Ea; cbn [andb].
  - destruct r as [|b r']; [apply Z.eqb_eq in Ea; subst; exact I|]. destruct (b =? 10) eqn:Eb; [exact IH|].
    apply Z.eqb_eq in Ea. subst a. apply Z.eqb_neq in Eb.
    destruct b as [|b|b]; try exact I. repeat (destruct b as [b|b|]; try exact I). congruence.
  - apply Z.eqb_neq in Ea. destruct a as [|a|a]; try exact I. repeat (destruct a as [a|a|]; try exact I). congruence.
Qed.

Lemma repeat_rev : forall (A : Type) (x : A) k, rev (repeat x k) = repeat x k.
Proof.
  intros A x. induction k as [|k IH]; [reflexivity|]. cbn [repeat rev]. rewrite IH. clear IH.
  induction k as [|k IH]; [reflexivity|]. cbn [repeat app]. rewrite IH. reflexivity.
Qed.

(* trim_nl t is t without some final LFs; if any was removed, what is left still ends in LF *)
Lemma trim_nl_spec : forall t, exists k, t = trim_nl t ++ repeat 10 k /\ (k <> O -> exists p, trim_nl t = p ++ [10]).
Proof.
  intros t. unfold trim_nl. destruct (strip_nl_spec (rev t)) as (k & E & Hk). exists k. split.
  - rewrite <- (rev_involutive t) at 1. rewrite E at 1. rewrite rev_app_distr, repeat_rev. reflexivity.
  - intros H. destruct (Hk H) as [H1 H2]. destruct (strip_nl (rev t)) as [|d x]; [congruence|].
    cbn [hd10] in H1. apply Z.eqb_eq in H1. subst d. exists (rev x). reflexivity.
Qed.

Lemma in_trim_nl : forall t c, In c (trim_nl t) -> In c t.
Proof. intros t c H. destruct (trim_nl_spec t) as (k & E & _). rewrite E. apply in_or_app. left. exact H. Qed.

Lemma ntb_repeat_lf_cut : forall p k, ntb ((p ++ [10]) ++ repeat 10 k) = true -> ntb (p ++ [10]) = true.
Proof.
  intros p k H. rewrite <- app_assoc in H. cbn [app] in H. eapply ntb_cut_lf. exact H.
Qed.

Lemma ntb_trim_nl : forall t, ntb t = true -> ntb (trim_nl t) = true.
Proof.
  intros t H. destruct (trim_nl_spec t) as (k & E & Hk). destruct k as [|k].
  - cbn [repeat] in E. rewrite app_nil_r in E. rewrite <- E. exact H.
  - destruct (Hk ltac:(congruence)) as [p Ep]. rewrite Ep in *. rewrite E in H. eapply ntb_repeat_lf_cut. exact H.
Qed.

Lemma trim_nl_ends_one : forall t, (exists t', t = t' ++ [10]) -> (exists c, In c t /\ c <> 10) -> ends_one (trim_nl t).
Proof.
  intros t [t' E] [c [Hin Hc]]. unfold trim_nl.
  destruct (strip_nl_spec (rev t)) as (k & Ek & Hk). pose proof (strip_nl_no2 (rev t)) as N2.
  assert (Hh : exists x, strip_nl (rev t) = 10 :: x).
  { destruct k as [|k].
    - cbn [repeat app] in Ek. rewrite <- Ek. subst t. rewrite rev_app_distr. eexists; reflexivity.
    - destruct (Hk ltac:(congruence)) as [H1 H2]. destruct (strip_nl (rev t)) as [|d x]; [congruence|].
      cbn [hd10] in H1. apply Z.eqb_eq in H1. subst d. eexists; reflexivity. }
  destruct Hh as [x Ex]. rewrite Ex in *. destruct x as [|d x].
  - exfalso. apply in_rev in Hin. rewrite Ek in Hin. apply in_app_or in Hin. destruct Hin as [Hin|[Hin|[]]]; [|congruence].
    apply repeat_spec in Hin. congruence.
  - exists (rev x), d. split; [cbn [rev]; rewrite <- app_assoc; reflexivity|].
    intro Hd. subst d. exact N2.
Qed.
