From Coq Require Import ZArith NArith List Bool Lia Arith.
From Verif Require Import C09.Model.
Import ListNotations.
Open Scope Z_scope.

Lemma run_app : forall st a b, run st (a ++ b) = run (run st a) b.
Proof. intros; unfold run; apply fold_left_app. Qed.

Lemma run_dedents : forall des st, only_dedents des -> out (run st des) = out st /\ at_start (run st des) = at_start st.
Proof.
  induction des as [|c des IH]; intros st H; [split; reflexivity|].
  inversion H as [|? ? Hc Hd]; subst. cbn [run fold_left]. fold (run (step st DE) des).
  destruct (IH (step st DE) Hd) as [A B]. rewrite A, B. split; reflexivity.
Qed.

(* after a declaration that ends its line the writer is at line start and the text ends in "\n" *)
Lemma run_ends_line : forall d st, ends_line d ->
  exists t, out (run st (d_cmds d)) = t ++ [10] /\ at_start (run st (d_cmds d)) = true.
Proof.
  intros d st (pre & des & E & Hd). rewrite E, run_app.
  change (NL :: des) with ([NL] ++ des). rewrite run_app.
  destruct (run_dedents des (run (run st pre) [NL]) Hd) as [A B]. rewrite A, B.
  eexists. split; reflexivity.
Qed.

Lemma last_decl : forall (ds : list decl) d0, exists pre dl, d0 :: ds = pre ++ [dl].
Proof.
  induction ds as [|d ds IH]; intros d0; [exists [], d0; reflexivity|].
  destruct (IH d) as (pre & dl & E). exists (d0 :: pre), dl. rewrite E. reflexivity.
Qed.

(* the command list of a non-empty program is: something, then the last declaration's commands *)
Lemma program_cmds_last : forall ds d0, exists pre dl, List.In dl (d0 :: ds) /\ program_cmds (d0 :: ds) = pre ++ d_cmds dl.
Proof.
  intros ds d0. cbn [program_cmds].
  assert (G : forall ds pd, ds <> [] -> exists pre dl, List.In dl ds /\ program_cmds_from pd ds = pre ++ d_cmds dl).
  { induction ds0 as [|d ds0 IH]; intros pd Hne; [congruence|].
    destruct ds0 as [|d' ds0'].
    - cbn [program_cmds_from]. exists (if pd then [NL] else [NL; NL]), d. split; [left; reflexivity|]. rewrite app_nil_r. reflexivity.
    - destruct (IH (d_doc d) ltac:(discriminate)) as (pre & dl & Hin & E).
      exists ((if pd then [NL] else [NL; NL]) ++ d_cmds d ++ pre), dl. split; [right; exact Hin|].
      cbn [program_cmds_from] in *. rewrite E. rewrite <- !app_assoc. reflexivity. }
  destruct ds as [|d1 ds1].
  - exists [], d0. split; [left; reflexivity|]. cbn [program_cmds_from]. rewrite app_nil_r. reflexivity.
  - destruct (G (d1 :: ds1) (d_doc d0) ltac:(discriminate)) as (pre & dl & Hin & E).
    exists (d_cmds d0 ++ pre), dl. split; [right; exact Hin|]. rewrite E. rewrite <- !app_assoc. reflexivity.
Qed.

(* the untrimmed output of a non-empty program ends in a newline *)
Lemma raw_ends_newline : forall ds d0, (forall d, List.In d (d0 :: ds) -> ends_line d) ->
  exists t, raw_text (d0 :: ds) = t ++ [10].
Proof.
  intros ds d0 H. unfold raw_text.
  destruct (program_cmds_last ds d0) as (pre & dl & Hin & E). rewrite E, run_app.
  destruct (run_ends_line dl (run w0 pre) (H dl Hin)) as (t & Ho & _). exists t. exact Ho.
Qed.

(* trimming: a text that ends in a newline and has some other character ends in exactly one newline afterwards *)
Lemma strip_ok : forall r, (exists r', r = 10 :: r') -> (exists c, List.In c r /\ c <> 10) ->
  exists c rest, strip r = 10 :: c :: rest /\ c <> 10.
Proof.
  induction r as [|a r IH]; intros [r' E] [c [Hin Hc]]; [discriminate|].
  inversion E; subst a r'. cbn [strip]. cbn [Z.eqb Pos.eqb andb].
  destruct r as [|b r0].
  - exfalso. destruct Hin as [<-|[]]. apply Hc; reflexivity.
  - destruct (b =? 10) eqn:Eb.
    + apply Z.eqb_eq in Eb. subst b. apply IH; [eexists; reflexivity|].
      exists c. split; [|exact Hc]. destruct Hin as [<-|Hin]; [exfalso; apply Hc; reflexivity|exact Hin].
    + apply Z.eqb_neq in Eb. exists b, r0. split; [reflexivity|exact Eb].
Qed.

Lemma trim_ends_one : forall t, (exists t', t = t' ++ [10]) -> (exists c, List.In c t /\ c <> 10) -> ends_one (trim t).
Proof.
  intros t [t' E] [c [Hin Hc]]. unfold trim.
  destruct (strip_ok (rev t)) as (c0 & rest & Es & Hc0).
  - subst t. rewrite rev_app_distr. eexists; reflexivity.
  - exists c. split; [apply in_rev in Hin; exact Hin | exact Hc].
  - rewrite Es. cbn [rev]. exists (rev rest), c0. split; [rewrite <- app_assoc; reflexivity | exact Hc0].
Qed.

Lemma final_one_newline : forall ds d0, (forall d, List.In d (d0 :: ds) -> ends_line d) ->
  (exists c, List.In c (raw_text (d0 :: ds)) /\ c <> 10) ->
  ends_one (fmt_text (d0 :: ds)).
Proof. intros ds d0 H Hc. unfold fmt_text. apply trim_ends_one; [apply raw_ends_newline; exact H | exact Hc]. Qed.

(* ---- indentation ---- *)
Lemma indent_length : forall w n, length (indent_of w n) = (n * w)%nat.
Proof. intros; unfold indent_of, spaces; apply repeat_length. Qed.

Lemma indent_strict : forall w n, (0 < w)%nat -> (length (indent_of w n) < length (indent_of w (S n)))%nat.
Proof. intros w n H. rewrite !indent_length. cbn. lia. Qed.

(* header at level n, body one level deeper: the writer emits exactly n*4 and (n+1)*4 spaces in front of them *)
Lemma writer_block : forall st h hs b bs, at_start st = true ->
  out (run st [W (h :: hs); NL; IN; W (b :: bs); NL]) =
  out st ++ indent_of indent_width (ind st) ++ (h :: hs) ++ [10] ++ indent_of indent_width (S (ind st)) ++ (b :: bs) ++ [10].
Proof.
  intros st h hs b bs H. cbn [run fold_left step out ind at_start]. rewrite H.
  repeat rewrite <- app_assoc. reflexivity.
Qed.

Lemma capped_agrees_small : forall n, (n <= 16)%nat -> capped_indent 4 64 n = indent_of 4 n.
Proof. intros n H. unfold capped_indent, indent_of. rewrite Nat.min_l by lia. reflexivity. Qed.

Lemma capped_not_strict : length (capped_indent 4 64 17) = length (capped_indent 4 64 16).
Proof. reflexivity. Qed.

(* ---- format_files ---- *)
Lemma check_readonly : forall d fs, forallb negb (writes (format_files {| check := true; diff := d |} fs)) = true.
Proof. intros d fs. cbn. induction fs as [|s fs IH]; [reflexivity|]. cbn. destruct s; exact IH. Qed.

Lemma diff_readonly : forall c fs, forallb negb (writes (format_files {| check := c; diff := true |} fs)) = true.
Proof. intros c fs. destruct c; cbn; (induction fs as [|s fs IH]; [reflexivity|]; cbn; destruct s; exact IH). Qed.

Lemma check_after_fmt : forall fs, errors fs = false ->
  exit_code (format_files {| check := true; diff := false |} (after_fmt (fun _ => Same) fs)) = 0.
Proof.
  intros fs He. cbn.
  assert (A : needs_formatting (after_fmt (fun _ => Same) fs) = false).
  { induction fs as [|s fs IH]; [reflexivity|]. cbn in He. apply orb_false_elim in He as [_ He]. destruct s; cbn; apply IH; exact He. }
  assert (B : errors (after_fmt (fun _ => Same) fs) = false).
  { clear A. induction fs as [|s fs IH]; [reflexivity|]. cbn in He. apply orb_false_elim in He as [H1 He]. destruct s; cbn; try discriminate H1; apply IH; exact He. }
  rewrite A, B. reflexivity.
Qed.

Lemma fmt_writes_exactly_changed : forall fs,
  writes (format_files {| check := false; diff := false |} fs) = map (fun s => match s with Changed => true | _ => false end) fs.
Proof. intros fs. cbn. apply map_ext. intros []; reflexivity. Qed.
