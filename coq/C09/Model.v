(* C09/Model.v — definitions only.
   (1) FormatWriter (src/format/writer.rs) as a state machine over commands, and format_program's
       blank-line policy (src/format/formatter.rs:38).
   (2) format_files (src/cli/commands.rs:481): mode x per-file status -> which files are written, exit code. *)
From Coq Require Import ZArith NArith List Bool.
Import ListNotations.
Open Scope Z_scope.

(* ---- writer ---- *)
Inductive cmd := W (s : list Z) | NL | IN | DE.      (* write(s) | newline() | indent() | dedent() *)
Record wst := { out : list Z; ind : nat; at_start : bool }.
Definition w0 : wst := {| out := []; ind := 0; at_start := true |}.
Definition spaces (n : nat) : list Z := repeat 32 n.
(* write_indent: indentation level n with width w is exactly n * w spaces, for EVERY n (no cap, no table) *)
Definition indent_width : nat := 4.
Definition indent_of (w n : nat) : list Z := spaces (n * w).
(* the mutant that slices the indentation out of a fixed run of [cap] spaces *)
Definition capped_indent (w cap n : nat) : list Z := spaces (Nat.min (n * w) cap).

Definition step (st : wst) (c : cmd) : wst :=
  match c with
  | W [] => st                                                     (* write("") returns early *)
  | W s => {| out := out st ++ (if at_start st then indent_of indent_width (ind st) else []) ++ s; ind := ind st; at_start := false |}
  | NL => {| out := out st ++ [10]; ind := ind st; at_start := true |}
  | IN => {| out := out st; ind := S (ind st); at_start := at_start st |}
  | DE => {| out := out st; ind := pred (ind st); at_start := at_start st |}
  end.
Definition run (st : wst) (cs : list cmd) : wst := fold_left step cs st.

(* a declaration as the printer emits it: commands, whether it is a module docstring *)
Record decl := { d_cmds : list cmd; d_doc : bool }.

(* format_program: separators between declarations (the extra final newline is gone); Formatter::format then
   trims the newlines a trailing `match` leaves behind, down to exactly one *)
Fixpoint program_cmds_from (prev_doc : bool) (ds : list decl) : list cmd :=
  match ds with
  | [] => []
  | d :: rest => (if prev_doc then [NL] else [NL; NL]) ++ d_cmds d ++ program_cmds_from (d_doc d) rest
  end.
Definition program_cmds (ds : list decl) : list cmd :=
  match ds with
  | [] => []
  | d :: rest => d_cmds d ++ program_cmds_from (d_doc d) rest
  end.
(* `while output.ends_with("\n\n") { output.pop(); }`, on the reversed text *)
Fixpoint strip (r : list Z) : list Z :=
  match r with
  | a :: r' => if (a =? 10) && (match r' with b :: _ => b =? 10 | [] => false end) then strip r' else r
  | [] => []
  end.
Definition trim (t : list Z) : list Z := rev (strip (rev t)).
Definition raw_text (ds : list decl) : list Z := out (run w0 (program_cmds ds)).
Definition fmt_text (ds : list decl) : list Z := trim (raw_text ds).

(* exactly one final newline: the text ends with a non-newline character followed by one newline *)
Definition ends_one (t : list Z) : Prop := exists pre c, t = pre ++ [c; 10] /\ c <> 10.

(* every format_declaration arm finishes with newline() possibly followed by dedent()s *)
Definition only_dedents (cs : list cmd) : Prop := Forall (fun c => c = DE) cs.
Definition ends_line (d : decl) : Prop := exists pre des, d_cmds d = pre ++ NL :: des /\ only_dedents des.

Definition ends_with (t suffix : list Z) : Prop := exists pre, t = pre ++ suffix.

(* ---- format_files ---- *)
Inductive status := Unparseable | Same | Changed.      (* format_source fails | output = source | differs *)
Record mode := { check : bool; diff : bool }.
Record result := { writes : list bool; exit_code : Z }.

Definition needs_formatting (fs : list status) : bool := existsb (fun s => match s with Changed => true | _ => false end) fs.
Definition errors (fs : list status) : bool := existsb (fun s => match s with Unparseable => true | _ => false end) fs.

Definition format_files (m : mode) (fs : list status) : result :=
  let written := map (fun s => match s with Changed => negb (check m) && negb (diff m) | _ => false end) fs in
  let code :=
    if check m || diff m then (if needs_formatting fs then 1 else if errors fs then 1 else 0)
    else (if errors fs then 1 else 0) in
  {| writes := written; exit_code := code |}.

(* the files after `incan fmt` (no flags): a changed file now holds its formatted text; formatting that text
   again gives [again] = Same when fmt is idempotent on it, Unparseable when the output does not re-parse *)
Definition after_fmt (again : status -> status) (fs : list status) : list status :=
  map (fun s => match s with Changed => again s | x => x end) fs.

Definition render_result (r : result) : list Z := exit_code r :: map (fun b : bool => if b then 1 else 0) (writes r).
